import Lean.Data.Json
import CbiVerif.Model.CClean
import CbiVerif.Model.CCleanCells
import CbiVerif.Spec.CLexRef
/-! driver ops for C05: `clex` (model + spec for one text), `clex_isspace` (the `str.isspace` table),
`cclean_cells` (the model's cells in the vocabulary of the regenerated transition table) -/
open Lean
namespace CbiVerif.Drv.CLex
open CbiVerif.CClean CbiVerif.CText

def natArr (l : List Nat) : Json := Json.arr (l.map fun (n : Nat) => (n : Json)).toArray

def errName : Err → String
  | .finalBackslash => "RuntimeError:final-backslash"
  | .notTopLevel => "RuntimeError:not-top-level"
  | .inconsistent => "RuntimeError:inconsistent"

def catName : Cat → String
  | .srcNonblank => "SRC_NONBLANK" | .blank => "BLANK" | .cppDirective => "CPP_DIRECTIVE"

def pairsJson (l : List (Bool × List Nat)) : Json :=
  Json.arr (l.map fun p => Json.arr #[Json.bool p.1, natArr p.2]).toArray

def modelJson (t : List Char) : Json :=
  let r := cFileSource t
  let src : Json := match r.err with
    | some e => Json.mkObj [("exc", errName e)]
    | none => Json.mkObj [
        ("lines", Json.arr ((r.all.filter LLine.yielded).map fun l =>
          Json.arr #[natArr l.lines, Json.str (String.ofList l.text), Json.str (catName l.cat), (l.start : Nat), (l.stop : Nat),
            Json.bool l.isDirective]).toArray),
        ("total", r.total), ("phys", r.phys), ("counted", natArr (r.all.flatMap (·.lines)))]
  let parse : Json := match parseFile t with
    | .error e => Json.mkObj [("exc", errName e)]
    | .ok r => Json.mkObj [
        ("nodes", Json.arr (r.nodes.map fun n =>
          Json.arr #[Json.bool (n.kind == .directive), natArr n.lines, (n.numLines : Nat)]).toArray),
        ("total_sloc", r.totalSloc)]
  Json.mkObj [("source", src), ("parse", parse)]

/-- lines on which a letter, digit or underscore survives (for the `gcc -E` validation of the spec) -/
def identLines (t : List Char) : List Nat :=
  match CbiVerif.CLexRef.scanLines (rawLines t) with
  | none => []
  | some s => (List.range' 1 (rawLines t).length).filter fun n => s.out.any fun x =>
      match x with
      | .ch c m _ => m == n && (c.isAlphanum || c == '_')
      | .nl _ => false

def specJson (t : List Char) : Json :=
  let r := CbiVerif.CLexRef.result t
  Json.mkObj [("wf", r.wf), ("k1", r.k1), ("k2", r.k2), ("counted", natArr r.counted),
    ("logical", pairsJson r.logical), ("nodes", pairsJson r.nodes), ("ident_lines", natArr (identLines t))]

/-- {"op":"clex","text":…,"univ":bool} → {"model":…, "spec":…}; with `univ` the text is first
    decoded like `open(path)` does (universal newlines) -/
def handleCLex (j : Json) : Json :=
  let text := (j.getObjValAs? String "text").toOption.getD ""
  let univ := (j.getObjValAs? Bool "univ").toOption.getD false
  let t := if univ then univNewlines text.toList else text.toList
  Json.mkObj [("model", modelJson t), ("spec", specJson t)]

/-- all code points below 0x110000 for which the model's `pyIsSpace` holds -/
def handleIsSpace (_ : Json) : Json :=
  natArr ((List.range 0x110000).filter fun n => pyIsSpace (Char.ofNat n))

/-! ## `cclean_cells`: the model's table, to be diffed against the regenerated one

`{"op":"cclean_cells","stacks":[[ids, top first]],"bodies":[[code points]],"codepoints":[n]}` →
`{"classes":[[name, index]],                      -- the nine model classes and their table index
  "step":[[[entry per model class] per blank=false,true] per stack], "newline":[entry per stack],
  "lines":[[entry per body] per stack], "charclass":[[model class name, table index] per code point]}`
— the functions are those of `Model/CCleanCells.lean`, the ones the table theorems are about. -/
open CbiVerif.CClean.Regen in
def entryJson (e : Regen.Entry) : Json := Json.arr #[Json.bool e.1, natArr e.2.1, natArr e.2.2]

open CbiVerif.CClean.Regen in
def lineEntryJson (e : Regen.LineEntry) : Json :=
  Json.arr #[Json.bool e.1, natArr e.2.1, Json.bool e.2.2.1, Json.bool e.2.2.2.1, natArr e.2.2.2.2]

def clsName (k : Cls) : String := (toString (repr k)).splitOn "." |>.getLast!

open CbiVerif.CClean.Regen in
def handleCells (j : Json) : Json :=
  let stacks := ((j.getObjValAs? (Array (Array Nat)) "stacks").toOption.getD #[]).toList.map (·.toList)
  let bodies := ((j.getObjValAs? (Array (Array Nat)) "bodies").toOption.getD #[]).toList.map (·.toList)
  let cps := ((j.getObjValAs? (Array Nat) "codepoints").toOption.getD #[]).toList
  Json.mkObj [
    ("classes", Json.arr (allCls.map fun k => Json.arr #[Json.str (clsName k), (clsIdx k : Nat)]).toArray),
    ("step", Json.arr (stacks.map fun st => Json.arr ([false, true].map fun b =>
      Json.arr (allCls.map fun k => entryJson (entryOf k (step (decode st) b k))).toArray).toArray).toArray),
    ("newline", Json.arr (stacks.map fun st => entryJson (entryOf .other (logicalNewline (decode st)))).toArray),
    ("lines", Json.arr (stacks.map fun st => Json.arr (bodies.map fun b =>
      lineEntryJson (lineObs (decode st) (chars b))).toArray).toArray),
    ("charclass", Json.arr (cps.map fun n =>
      Json.arr #[Json.str (clsName (classify (Char.ofNat n))), (clsIdx (classify (Char.ofNat n)) : Nat)]).toArray)]

def handlers : List (String × (Json → Json)) :=
  [("clex", handleCLex), ("clex_isspace", handleIsSpace), ("cclean_cells", handleCells)]

end CbiVerif.Drv.CLex
