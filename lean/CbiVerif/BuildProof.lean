import CbiVerif.Tree2
namespace CbiVerif.T2

/-- Append finished trees below the current parent (top frame, or root). -/
def Zip.addKids (z : Zip) (ts : List Tree) : Zip :=
  match z.spine with
  | [] => { z with rootKids := z.rootKids ++ ts }
  | f :: rest => { z with spine := { f with kids := f.kids ++ ts } :: rest }

/-- close a non-opening leaf on top, so that the top frame (or root) is the current parent -/
def Zip.settle (z : Zip) : Zip :=
  match z.spine with
  | [] => z
  | f :: _ => if f.lbl.opens then z else z.up

/-- top is root, an opening frame, or a childless non-opening leaf -/
def Zip.Good (z : Zip) : Prop :=
  match z.spine with
  | [] => True
  | f :: _ => f.lbl.opens = true ∨ f.kids = []

def insertAll (z : Zip) (ls : List Lbl) : Zip := ls.foldl Zip.insert z

theorem insertAll_append (z : Zip) (xs ys : List Lbl) :
    insertAll z (xs ++ ys) = insertAll (insertAll z xs) ys := by
  simp [insertAll, List.foldl_append]

theorem addKids_nil (z : Zip) : z.addKids [] = z := by
  obtain ⟨rk, sp⟩ := z
  cases sp <;> simp [Zip.addKids]

theorem addKids_append (z : Zip) (xs ys : List Tree) :
    (z.addKids xs).addKids ys = z.addKids (xs ++ ys) := by
  obtain ⟨rk, sp⟩ := z
  cases sp <;> simp [Zip.addKids]

/-- inserting a leaf (code / other directive) -/
theorem insert_leaf (z : Zip) (l : Lbl) (hz : z.Good) (hl : l.opens = false) (hc : l.isCont = false) (he : l.isEnd = false) :
    (z.insert l).settle = z.settle.addKids [.node l []] ∧ (z.insert l).Good := by
  unfold Zip.insert
  cases hs : z.spine with
  | nil =>
    simp [Zip.push, Zip.settle, hs, hl, Zip.up, Zip.addKids, Frame.close, Zip.Good]
  | cons f rest =>
    simp only [hc, he, Bool.or_self, Bool.false_eq_true, if_false]
    by_cases ho : f.lbl.opens = true
    · simp [ho, Zip.push, Zip.settle, hs, hl, Zip.up, Zip.addKids, Frame.close, Zip.Good]
    · simp only [ho, if_false]
      have hk : f.kids = [] := by
        have := hz; simp [Zip.Good, hs] at this; rcases this with h | h
        · exact absurd h ho
        · exact h
      cases rest with
      | nil => simp [Zip.push, Zip.settle, hs, hl, ho, Zip.up, Zip.addKids, Frame.close, Zip.Good, hk]
      | cons g rest' => simp [Zip.push, Zip.settle, hs, hl, ho, Zip.up, Zip.addKids, Frame.close, Zip.Good, hk]


/-- inserting an `#if` line: pushes an opening frame under the current parent -/
theorem insert_start (z : Zip) (l : Lbl) (hz : z.Good) (hl : l.isStart = true) :
    z.insert l = z.settle.push l := by
  have hc : l.isCont = false := by
    unfold Lbl.isStart at hl; unfold Lbl.isCont; cases hk : l.kind <;> simp_all
  have he : l.isEnd = false := by
    unfold Lbl.isStart at hl; unfold Lbl.isEnd; cases hk : l.kind <;> simp_all
  unfold Zip.insert
  cases hs : z.spine with
  | nil => simp [Zip.settle, hs]
  | cons f rest =>
    simp only [hc, he, Bool.or_self, Bool.false_eq_true, if_false]
    by_cases ho : f.lbl.opens = true
    · simp [ho, Zip.settle, hs]
    · simp [ho, Zip.settle, hs]

/-- inserting a continuation / end line when the current parent is the opening frame `f`:
    `f` is closed into its own parent and the new line becomes its sibling. -/
theorem insert_contEnd (z : Zip) (l : Lbl) (hz : z.Good) (hl : (l.isCont || l.isEnd) = true)
    (f : Frame) (rest : List Frame) (hs : z.settle.spine = f :: rest) (hf : f.lbl.opens = true) :
    z.insert l = z.settle.up.push l := by
  unfold Zip.insert
  cases hsp : z.spine with
  | nil => simp [Zip.settle, hsp] at hs
  | cons g rest' =>
    simp only [hl, if_true]
    by_cases ho : g.lbl.opens = true
    · have : z.settle = z := by simp [Zip.settle, hsp, ho]
      rw [this]
      have hw : z.walk (g :: rest').length = z := by
        simp [Zip.walk, hsp, ho]
      rw [hw]
    · have hset : z.settle = z.up := by simp [Zip.settle, hsp, ho]
      rw [hset] at hs ⊢
      have hw : z.walk (g :: rest').length = z.up := by
        simp only [List.length_cons, Zip.walk, hsp, ho, Bool.false_eq_true, if_false]
        cases hr : rest'.length with
        | zero =>
          have : rest' = [] := List.length_eq_zero_iff.mp hr
          subst this
          simp [Zip.up, hsp] at hs
        | succ n =>
          simp [Zip.walk, hs, hf]
      rw [hw]


theorem push_addKids_up (z : Zip) (l : Lbl) (ts : List Tree) :
    ((z.push l).addKids ts).up = z.addKids [.node l ts] := by
  obtain ⟨rk, sp⟩ := z
  cases sp <;> simp [Zip.push, Zip.addKids, Zip.up, Frame.close]

theorem push_settle_open (z : Zip) (l : Lbl) (h : l.opens = true) : (z.push l).settle = z.push l := by
  simp [Zip.push, Zip.settle, h]

theorem push_settle_leaf (z : Zip) (l : Lbl) (h : l.opens = false) :
    (z.push l).settle = z.addKids [.node l []] := by
  have := push_addKids_up z l []
  rw [addKids_nil] at this
  simp [Zip.settle, Zip.push, h] at this ⊢
  exact this

theorem addKids_settle_open (z : Zip) (ts : List Tree) (f : Frame) (rest : List Frame)
    (hs : z.spine = f :: rest) (hf : f.lbl.opens = true) :
    (z.addKids ts).spine = { f with kids := f.kids ++ ts } :: rest := by
  simp [Zip.addKids, hs]

theorem good_push (z : Zip) (l : Lbl) : (z.push l).Good := by simp [Zip.Good, Zip.push]

theorem ifk_start (id p : Nat) : (⟨id, .ifk, p⟩ : Lbl).isStart = true := rfl

mutual
theorem Item.build (i : Item) (z : Zip) (hz : z.Good) :
    (insertAll z i.lines).settle = z.settle.addKids i.trees ∧ (insertAll z i.lines).Good := by
  cases i with
  | code id =>
    simp only [Item.lines, Item.trees, insertAll, List.foldl]
    exact insert_leaf z _ hz rfl rfl rfl
  | dir id p =>
    simp only [Item.lines, Item.trees, insertAll, List.foldl]
    exact insert_leaf z _ hz rfl rfl rfl
  | cond id p b rest =>
    simp only [Item.lines, Item.trees]
    rw [show (⟨id, .ifk, p⟩ :: (b.lines ++ rest.lines)) = [⟨id, .ifk, p⟩] ++ (b.lines ++ rest.lines) from rfl,
        insertAll_append, insertAll_append]
    have h1 : insertAll z [⟨id, .ifk, p⟩] = z.settle.push ⟨id, .ifk, p⟩ := by
      simp only [insertAll, List.foldl]; exact insert_start z _ hz rfl
    rw [h1]
    obtain ⟨hb, hbg⟩ := Block.build b (z.settle.push ⟨id, .ifk, p⟩) (good_push _ _)
    rw [push_settle_open _ _ rfl] at hb
    have hsp : (insertAll (z.settle.push ⟨id, .ifk, p⟩) b.lines).settle.spine
        = ⟨⟨id, .ifk, p⟩, b.trees⟩ :: z.settle.spine := by
      rw [hb]; simp [Zip.addKids, Zip.push]
    obtain ⟨hc, hcg⟩ := Conts.build rest _ hbg _ _ hsp rfl
    refine ⟨?_, hcg⟩
    rw [hc, hb, push_addKids_up, addKids_append]
    rfl
theorem Block.build (b : Block) (z : Zip) (hz : z.Good) :
    (insertAll z b.lines).settle = z.settle.addKids b.trees ∧ (insertAll z b.lines).Good := by
  cases b with
  | nil => simpa [Block.lines, Block.trees, insertAll, addKids_nil] using hz
  | cons i b =>
    simp only [Block.lines, Block.trees]
    rw [insertAll_append]
    obtain ⟨hi, hig⟩ := Item.build i z hz
    obtain ⟨hb, hbg⟩ := Block.build b _ hig
    exact ⟨by rw [hb, hi, addKids_append], hbg⟩
theorem Conts.build (c : Conts) (z : Zip) (hz : z.Good) (f : Frame) (rest : List Frame)
    (hs : z.settle.spine = f :: rest) (hf : f.lbl.opens = true) :
    (insertAll z c.lines).settle = z.settle.up.addKids c.trees ∧ (insertAll z c.lines).Good := by
  cases c with
  | endif id =>
    simp only [Conts.lines, Conts.trees, insertAll, List.foldl]
    rw [insert_contEnd z _ hz rfl f rest hs hf]
    exact ⟨push_settle_leaf _ _ rfl, good_push _ _⟩
  | elif id p b r =>
    simp only [Conts.lines, Conts.trees]
    rw [show (⟨id, .elifk, p⟩ :: (b.lines ++ r.lines)) = [⟨id, .elifk, p⟩] ++ (b.lines ++ r.lines) from rfl,
        insertAll_append, insertAll_append]
    have h1 : insertAll z [⟨id, .elifk, p⟩] = z.settle.up.push ⟨id, .elifk, p⟩ := by
      simp only [insertAll, List.foldl]; exact insert_contEnd z _ hz rfl f rest hs hf
    rw [h1]
    obtain ⟨hb, hbg⟩ := Block.build b (z.settle.up.push ⟨id, .elifk, p⟩) (good_push _ _)
    rw [push_settle_open _ _ rfl] at hb
    have hsp : (insertAll (z.settle.up.push ⟨id, .elifk, p⟩) b.lines).settle.spine
        = ⟨⟨id, .elifk, p⟩, b.trees⟩ :: z.settle.up.spine := by
      rw [hb]; simp [Zip.addKids, Zip.push]
    obtain ⟨hc, hcg⟩ := Conts.build r _ hbg _ _ hsp rfl
    refine ⟨?_, hcg⟩
    rw [hc, hb, push_addKids_up, addKids_append]
    rfl
  | els id b e =>
    simp only [Conts.lines, Conts.trees]
    rw [show (⟨id, .elsek, 0⟩ :: (b.lines ++ [⟨e, .endk, 0⟩])) = [⟨id, .elsek, 0⟩] ++ (b.lines ++ [⟨e, .endk, 0⟩]) from rfl,
        insertAll_append, insertAll_append]
    have h1 : insertAll z [⟨id, .elsek, 0⟩] = z.settle.up.push ⟨id, .elsek, 0⟩ := by
      simp only [insertAll, List.foldl]; exact insert_contEnd z _ hz rfl f rest hs hf
    rw [h1]
    obtain ⟨hb, hbg⟩ := Block.build b (z.settle.up.push ⟨id, .elsek, 0⟩) (good_push _ _)
    rw [push_settle_open _ _ rfl] at hb
    have hsp : (insertAll (z.settle.up.push ⟨id, .elsek, 0⟩) b.lines).settle.spine
        = ⟨⟨id, .elsek, 0⟩, b.trees⟩ :: z.settle.up.spine := by
      rw [hb]; simp [Zip.addKids, Zip.push]
    simp only [insertAll, List.foldl] at hsp hbg hb ⊢
    rw [insert_contEnd _ _ hbg rfl _ _ hsp rfl]
    refine ⟨?_, good_push _ _⟩
    rw [push_settle_leaf _ _ rfl, hb, push_addKids_up, addKids_append]
    rfl
end

theorem closeAll_settled (rk : List Tree) (n : Nat) : Zip.closeAll n ⟨rk, []⟩ = rk := by
  cases n <;> simp [Zip.closeAll]

/-- Flagship lemma 1: the zipper model of `SourceTree.insert` builds exactly the expected tree. -/
theorem build_eq (b : Block) : build b.lines = b.trees := by
  obtain ⟨h, hg⟩ := Block.build b ⟨[], []⟩ (by simp [Zip.Good])
  simp only [Zip.settle, Zip.addKids, List.nil_append] at h
  have hb : build b.lines = Zip.closeAll (insertAll ⟨[], []⟩ b.lines).spine.length (insertAll ⟨[], []⟩ b.lines) := rfl
  rw [hb]
  generalize insertAll ⟨[], []⟩ b.lines = zf at h hg
  obtain ⟨rk, sp⟩ := zf
  cases sp with
  | nil =>
    simp only [Zip.settle] at h
    simp [Zip.closeAll]; simpa using congrArg Zip.rootKids h
  | cons f rest =>
    simp only [Zip.settle] at h
    by_cases ho : f.lbl.opens = true
    · simp [ho] at h
    · simp only [ho, Bool.false_eq_true, if_false] at h
      cases rest with
      | nil =>
        simp only [Zip.up] at h
        simp only [List.length, Zip.closeAll, Zip.up]
        simpa using congrArg Zip.rootKids h
      | cons g rest' =>
        have := congrArg Zip.spine h
        simp [Zip.up] at this

end CbiVerif.T2
