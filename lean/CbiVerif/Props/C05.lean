import CbiVerif.Props.C05Table
import CbiVerif.Lemmas.CLexHash
/-!
# C05 — a physical line is counted iff it holds code outside comments

Property theorems only; helper lemmas live in `CbiVerif/Lemmas/CLex*.lean`.

* Model (`CbiVerif.CClean`): `one_space_line`, `c_cleaner`, `c_file_source`, the `LineGroup`
  folding of `FileParser.parse_file` — the very definitions the driver executes.
* Specification (`CbiVerif.CLexRef`): splice → decomment → counted lines / logical lines.

All statements are for texts of **any** length and any number of lines.
-/
namespace CbiVerif.C05
open CbiVerif.CClean CbiVerif.CLexRef CbiVerif.CText CbiVerif.CLexSim

/-- **C05.step_table.**  The per-character obligation between `c_cleaner.process` (one character, put-back
    included) and the reference scanner — from related states the next states are related and what the
    cleaner appends to its buffer is what the reference lets survive (modulo one `/` held back inside a
    character constant) — holds in all 2 × 11 × 2 × 9 = 396 cases (kernel `decide`). -/
theorem step_table : (allB.all fun d => allW.all fun w => allB.all fun bl => allC.all fun c =>
    stepOK d w bl c) = true := stepOK_all

/-- **C05.newline_table.**  The same for `logical_newline` at an unspliced newline (22 cases). -/
theorem newline_table : (allB.all fun d => allW.all fun w => newlineOK d w) = true := newlineOK_all

/-- **C05.sim.**  One physical line of any length: from related states with no `/` owed at either end, the
    cleaner ends in the related state, its buffer for this physical line is the one-space normalisation
    of what the reference lets survive on the line, and it ends the logical line iff the reference does. -/
theorem sim (d : Bool) (w w' : DMode) (l : PLine) (es : List REmit) (ends : Bool)
    (h : refLine w (l.chars.map (·.1)) l.continued = some (w', es, ends))
    (hw : holdL w = []) (hw' : holdL w' = []) :
    ∃ d', (procLine (absStack d w) l).1 = absStack d' w' ∧
      (procLine (absStack d w) l).2.1.toC = ({} : CBuf).addAll es ∧ (procLine (absStack d w) l).2.2 = ends ∧
      (ends = true → d' = false) := line_sim d w w' l es ends h hw hw'

example : refLine .code ("a /* x".toList.map classify) false = some (.blockC, [.ns .other, .sp], false) := by decide

/-- **C05.main.**  For every well-formed text outside the recorded finding classes F-C05-1
    (`k1`) and F-C05-2 (`k2`), `c_file_source` terminates normally and the physical lines it counts
    are exactly the lines on which a non-white character survives splicing and comment removal. -/
theorem main (t : List Char) (hwf : CLexRef.wf t = true) (hk1 : CLexRef.k1 t = false) (hk2 : CLexRef.k2 t = false) :
    CClean.countedLines t = .ok (CLexRef.countedLines t) := by
  obtain ⟨scs, f, hscan⟩ := text_facts (rawLines t) hwf hk1 hk2
  obtain ⟨herr, hall⟩ := model_eq_expect (rawLines t) scs f (rawLinesAux_nlOK t [])
  unfold CClean.countedLines cFileSource
  rw [herr]
  simp only [Except.ok.injEq]
  have h1 : (cFileSourceLines (rawLines t)).all.flatMap (·.lines)
      = ((cFileSourceLines (rawLines t)).all.map LLine.sum).flatMap (fun x => x.2.2.1) := by
    simp [List.flatMap_map, LLine.sum]
  rw [h1, hall, expect_lines]
  unfold CLexRef.countedLines CLexRef.result resultLines
  rw [hscan]
  have h2 := spec_lines (rawLines t).length (rawLines t) {} 0 scs [] f.scan f.k1 f.plain (by simp) (by omega)
  simp only [List.nil_append] at h2
  simp only [h2]
  simp [linesOf, List.map_map, Function.comp_def]


/-- **C05.directive_extent.**  For every well-formed text outside F-C05-1/2 the logical lines yielded by
    `c_file_source`, as `parse_file` classifies them (`FileParser.is_directive`), are exactly the specification's
    logical lines that hold code: same order, a line is a directive iff its first token is `#` (its first surviving
    non-white character is `#` and the next character is not another `#`: `##` is a different token), and its
    `lines` are exactly the counted physical lines among all the physical lines it spans (continuation lines
    included). -/
theorem directive_extent (t : List Char) (hwf : CLexRef.wf t = true) (hk1 : CLexRef.k1 t = false)
    (hk2 : CLexRef.k2 t = false) : CClean.logical t = .ok (CLexRef.logical t) := by
  obtain ⟨scs, f, hscan⟩ := text_facts (rawLines t) hwf hk1 hk2
  obtain ⟨herr, _⟩ := model_eq_expect (rawLines t) scs f (rawLinesAux_nlOK t [])
  unfold CClean.logical cFileSource
  rw [herr]
  simp only [Except.ok.injEq]
  rw [logical_eq (rawLines t) scs f (rawLinesAux_nlOK t [])]
  unfold CLexRef.logical CLexRef.result resultLines
  rw [hscan]

/-- what the property says about the node list and the file total -/
def NodesEq : Prop :=
  ∀ t : List Char, CLexRef.wf t = true → CLexRef.k1 t = false → CLexRef.k2 t = false →
    ∃ r, parseFile t = .ok r ∧
      r.nodes.map (fun nd => (nd.kind == NKind.directive, nd.lines)) = CLexRef.nodes t ∧
      r.totalSloc = (CLexRef.countedLines t).length ∧ ∀ nd ∈ r.nodes, nd.numLines = nd.lines.length ∧ 1 ≤ nd.numLines

/-- **C05.nodes_of_ok.**  Whenever `parse_file` does not raise on a well-formed text outside F-C05-1/2,
    its node list is the specification's: every directive line is a node of its own with exactly its
    counted lines, maximal runs of other logical lines form the code nodes, `num_lines = len(lines) ≥ 1`
    for every node, and `total_sloc` is the number of counted lines. -/
theorem nodes_of_ok (t : List Char) (hwf : CLexRef.wf t = true) (hk1 : CLexRef.k1 t = false)
    (hk2 : CLexRef.k2 t = false) (r : ParseResult) (h : parseFile t = .ok r) :
    r.nodes.map (fun nd => (nd.kind == NKind.directive, nd.lines)) = CLexRef.nodes t ∧
    r.totalSloc = (CLexRef.countedLines t).length ∧ ∀ nd ∈ r.nodes, nd.numLines = nd.lines.length ∧ 1 ≤ nd.numLines := by
  have hlog := directive_extent t hwf hk1 hk2
  have hmain := main t hwf hk1 hk2
  unfold parseFile at h
  unfold CClean.logical at hlog
  unfold CClean.countedLines at hmain
  cases hg : groupLoop none ((cFileSource t).all.filter LLine.yielded) with
  | error e => simp [hg] at h
  | ok ns =>
    simp only [hg] at h
    cases herr : (cFileSource t).err with
    | some e => simp [herr] at h
    | none =>
      simp only [herr, Except.ok.injEq] at h hlog hmain
      subst h
      have hnodes := groupLoop_nodesOf _ none ns hg
      have hcounts := groupLoop_counts _ none ns hg (by simp)
      have hlines := groupLoop_lines _ none ns hg
      simp only [Option.map_none, Option.getD_none, List.nil_append] at hnodes hlines
      rw [hlog] at hnodes
      have hn1 : ns.map (fun nd => (nd.kind == NKind.directive, nd.lines)) = CLexRef.nodes t := by
        rw [hnodes, nodes_eq]
      have hlogne : ∀ p ∈ CLexRef.logical t, p.2 ≠ [] := by
        intro p hp
        unfold CLexRef.logical CLexRef.result resultLines at hp
        split at hp
        · simp at hp
        · simp only [logicalOf, List.mem_filter, Bool.not_eq_true', List.isEmpty_eq_false_iff] at hp
          exact hp.2
      refine ⟨hn1, ?_, ?_⟩
      · -- total_sloc
        have e1 : (ns.map (·.numLines)).sum = (ns.flatMap (·.lines)).length := by
          rw [List.length_flatMap]
          congr 1
          apply List.map_congr_left
          intro nd hnd
          exact hcounts nd hnd
        simp only [e1, hlines]
        -- the yielded lines carry all counted lines
        have e2 : ((cFileSource t).all.filter LLine.yielded).flatMap (·.lines) = (CLexRef.logical t).flatMap (·.2) := by
          rw [← hlog, List.flatMap_map]
        have e3 : (cFileSource t).all.flatMap (·.lines) = ((cFileSource t).all.filter LLine.yielded).flatMap (·.lines) := by
          -- a BLANK logical line has no counted line: read it off the reference data
          obtain ⟨scs, f, _⟩ := text_facts (rawLines t) hwf hk1 hk2
          obtain ⟨_, hall⟩ := model_eq_expect (rawLines t) scs f (rawLinesAux_nlOK t [])
          have hb : ∀ l ∈ (cFileSource t).all, l.cat = Cat.blank → l.lines = [] := by
            intro l hl hc
            have hm : l.sum ∈ ((cFileSource t).all.map LLine.sum) := List.mem_map_of_mem hl
            unfold cFileSource at hm
            rw [hall] at hm
            exact expect_blank _ none 1 [] 0 (by simp) l.sum hm hc
          generalize (cFileSource t).all = al at hb
          induction al with
          | nil => rfl
          | cons a as ih =>
            have ih' := ih (fun l hl => hb l (by simp [hl]))
            simp only [List.filter_cons, List.flatMap_cons]
            cases hy : a.yielded
            · have : a.cat = Cat.blank := by simpa [LLine.yielded] using hy
              simp [hb a (by simp) this, ih']
            · simp [ih']
        rw [← hmain, e3, e2]
      · intro nd hnd
        refine ⟨hcounts nd hnd, ?_⟩
        rw [hcounts nd hnd]
        have hne := nodesOf_nonempty (CLexRef.logical t) none hlogne (by simp)
          (nd.kind == NKind.directive, nd.lines) (by
            have : (nd.kind == NKind.directive, nd.lines) ∈ ns.map (fun nd => (nd.kind == NKind.directive, nd.lines)) :=
              List.mem_map_of_mem hnd
            rw [hn1, nodes_eq] at this
            exact this)
        simp only at hne
        cases hq : nd.lines with
        | nil => exact absurd hq hne
        | cons a b => simp


/-- **C05.nodes** (= `NodesEq`).  For every well-formed text outside the two recorded finding classes F-C05-1/2,
    `parse_file` does not raise and its node list, `num_lines` and `total_sloc` are the specification's
    (no exclusion is left for lines starting with `##`: F-C05-3 is repaired, `hashhash_fixed`). -/
theorem nodes : NodesEq := by
  intro t hwf hk1 hk2
  obtain ⟨scs, f, hscan⟩ := text_facts (rawLines t) hwf hk1 hk2
  obtain ⟨herr, _⟩ := model_eq_expect (rawLines t) scs f (rawLinesAux_nlOK t [])
  obtain ⟨ns, hns⟩ := groupLoop_ok ((cFileSource t).all.filter LLine.yielded) none
  have hp : parseFile t = .ok ⟨ns, (ns.map (·.numLines)).sum⟩ := by
    unfold parseFile
    simp only [hns]
    unfold cFileSource
    rw [herr]
  exact ⟨_, hp, nodes_of_ok t hwf hk1 hk2 _ hp⟩

/-- **C05.parse_total.**  On **every** text (well-formed or not) `parse_file` raises only what `c_file_source`
    raises: the `LineGroup` folding and the directive test raise nothing (before the repair of F-C05-3 a logical
    line starting with `##` raised `ParseError("Not a directive.")` for the whole file). -/
theorem parse_total (t : List Char) (h : (cFileSource t).err = none) : ∃ r, parseFile t = .ok r := by
  obtain ⟨ns, hns⟩ := groupLoop_ok ((cFileSource t).all.filter LLine.yielded) none
  exact ⟨⟨ns, (ns.map (·.numLines)).sum⟩, by unfold parseFile; simp only [hns, h]⟩

/-- **C05.partition.**  For **every** text on which `parse_file` does not raise (well-formed or not):
    concatenating `node.lines` over the node list gives a strictly increasing list — no physical line is
    counted twice — all of them lie in `1..n` (n = number of physical lines), `num_lines = len(lines)` for
    every node, and `total_sloc` is the sum of the nodes' `num_lines` = the number of counted lines.
    (`num_lines ≥ 1` holds for well-formed texts, see `nodes`; it fails on ill-formed ones, see
    `empty_node_illformed`.) -/
theorem partition (t : List Char) (r : ParseResult) (h : parseFile t = .ok r) :
    (r.nodes.flatMap (·.lines)).Pairwise (· < ·) ∧
    (∀ m ∈ r.nodes.flatMap (·.lines), 1 ≤ m ∧ m ≤ (rawLines t).length) ∧
    (∀ nd ∈ r.nodes, nd.numLines = nd.lines.length) ∧
    r.totalSloc = (r.nodes.map (·.numLines)).sum ∧ r.totalSloc = (r.nodes.flatMap (·.lines)).length := by
  unfold parseFile at h
  cases hg : groupLoop none ((cFileSource t).all.filter LLine.yielded) with
  | error e => simp [hg] at h
  | ok ns =>
    simp only [hg] at h
    cases herr : (cFileSource t).err with
    | some e => simp [herr] at h
    | none =>
      simp only [herr, Except.ok.injEq] at h
      subst h
      have hcounts := groupLoop_counts _ none ns hg (by simp)
      have hlines := groupLoop_lines _ none ns hg
      simp only [Option.map_none, Option.getD_none, List.nil_append] at hlines
      -- the generator ran to completion on all physical lines
      have hall : ∃ flags : List Bool, flags.length = (rawLines t).length ∧
          (cFileSource t).all.flatMap (·.lines) = flagsToLines 0 flags := by
        unfold cFileSource cFileSourceLines at herr ⊢
        split at herr
        · simp at herr
        · rename_i hb
          simp only [hb, Bool.false_eq_true, if_false]
          obtain ⟨flags, hl, hf⟩ := srcLoop_lines ((rawLines t).map toPLine) [.top] {} 0
          exact ⟨flags, by simpa using hl, by simpa using hf⟩
      obtain ⟨flags, hfl, hfm⟩ := hall
      have hsub : (ns.flatMap (·.lines)).Sublist (flagsToLines 0 flags) := by
        rw [hlines, ← hfm]; exact filter_flatMap_sublist _ _ _
      have e1 : (ns.map (·.numLines)).sum = (ns.flatMap (·.lines)).length := by
        rw [List.length_flatMap]
        congr 1
        apply List.map_congr_left
        intro nd hnd
        exact hcounts nd hnd
      refine ⟨List.Pairwise.sublist hsub (flagsToLines_sorted flags 0), ?_, hcounts, rfl, e1⟩
      intro m hm
      have := flagsToLines_mem flags 0 m (hsub.subset hm)
      omega

/-! ## the recorded finding classes are real: witnesses (model ≠ specification on a well-formed text) -/

/-- F-C05-1: `/` + backslash-newline, the slash being code (here: division) — line 1 is not counted -/
def w1 : List Char := ['/', '\\', '\n', 'a', '\n']
theorem witness_k1 : CLexRef.wf w1 = true ∧ CLexRef.k1 w1 = true ∧
    (CClean.countedLines w1).toOption = some [2] ∧ CLexRef.countedLines w1 = [1, 2] := by decide

/-- F-C05-2: a continuation line holding only white space inside a string literal is counted -/
def w2 : List Char := ['"', 'a', '\\', '\n', ' ', ' ', '\\', '\n', 'b', '"', '\n']
theorem witness_k2 : CLexRef.wf w2 = true ∧ CLexRef.k2 w2 = true ∧
    (CClean.countedLines w2).toOption = some [1, 2, 3] ∧ CLexRef.countedLines w2 = [1, 3] := by decide

/-- F-C05-3 (repaired): a logical line whose first token is `##` is code, not a directive, and `parse_file` does not
    raise: `x` / `## a` / ` #\` + `# b` (spliced to ` ## b`) / `# ## c` (first token `#`: a directive) / `y` -/
def w3 : List Char := "x\n## a\n #\\\n# b\n# ## c\ny\n".toList
theorem hashhash_fixed : CLexRef.wf w3 = true ∧ CLexRef.k1 w3 = false ∧ CLexRef.k2 w3 = false ∧
    (parseFile w3).toOption.map (fun r => r.nodes.map fun nd => (nd.kind == NKind.directive, nd.lines)) =
      some [(false, [1, 2, 3, 4]), (true, [5]), (false, [6])] ∧
    CLexRef.nodes w3 = [(false, [1, 2, 3, 4]), (true, [5]), (false, [6])] := by decide

/-- F-C05-4 (recorded, judged by `g++ -E` in the harness stream `rawstr`): C++11 raw string literals are outside the C
    reading of phases 2–3 that both the specification and `c_cleaner` implement.
    `w4` = `const char* s = R"x(a"b)x"; /* c1` / ` c2` / ` c3 */` / `int z;` is *excluded* by `wf` (the `"` after `x;`
    opens a literal that is "unterminated" at the newline) — the cleaner counts lines 1–4, a C++ compiler sees code on
    1 and 4 only.  `w5` = `R"(a" /* )";` / `int y; /* */` is even *accepted* by `wf`, and specification and cleaner agree
    on [1] although line 2 holds code in C++.  The theorems of this file say nothing wrong — they are about the C
    reading — but the gap is now visible instead of silent. -/
def w4 : List Char := "const char* s = R\"x(a\"b)x\"; /* c1\n c2\n c3 */\nint z;\n".toList
def w5 : List Char := "R\"(a\" /* )\";\nint y; /* */\n".toList
theorem rawstring_gap : CLexRef.wf w4 = false ∧ (CClean.countedLines w4).toOption = some [1, 2, 3, 4] ∧
    CLexRef.wf w5 = true ∧ CLexRef.k1 w5 = false ∧ CLexRef.k2 w5 = false ∧
    (CClean.countedLines w5).toOption = some [1] ∧ CLexRef.countedLines w5 = [1] := by decide

/-- on an ill-formed text (stray backslash) `parse_file` can build a code node without any counted line:
    `#x\\` / `` / ` \` / ` ` -/
def w0 : List Char := ['#', 'x', '\\', '\\', '\n', '\n', ' ', '\\', '\n', ' ', '\n']
theorem empty_node_illformed : CLexRef.wf w0 = false ∧
    (parseFile w0).toOption.map (·.nodes) = some [⟨.directive, [1], 1⟩, ⟨.code, [], 0⟩] := by decide

/-! ## non-vacuity: concrete non-trivial inputs satisfy the hypotheses -/

/-- `a /* c */ b` / `#define X \` / ` 1 // x` / `"/*" '\''` / `/* m` / `*/ z` -/
def ex1 : List Char :=
  "a /* c */ b\n#define X \\\n 1 // x\n\"/*\" '\\''\n/* m\n*/ z\n".toList

example : CLexRef.wf ex1 = true ∧ CLexRef.k1 ex1 = false ∧ CLexRef.k2 ex1 = false := by decide
example : CLexRef.countedLines ex1 = [1, 2, 3, 4, 6] ∧
    CLexRef.logical ex1 = [(false, [1]), (true, [2, 3]), (false, [4]), (false, [6])] := by decide
example : (parseFile ex1).toOption.map (fun r => (r.totalSloc, r.nodes.length)) = some (5, 3) := by decide

end CbiVerif.C05
