"""C13 — stream `unopenable`: database entries whose `file` is a NAME in a directory but not a file one can open.

The clause under test: "Entries for non-existent files, files that are not source files, and empty commands are skipped
with a warning and never abort or alter the rest of the analysis".  `Non-existent' is what a compiler started in the
entry's directory is subject to: `open(2)` on the path fails with ENOENT / ENOTDIR, `gcc -E` says "No such file or
directory".  A path can have that status although its last component is listed in its directory:

  dangling            src/tables.c -> ../build/gen/tables.c, generator not run (the `generated source' layout)
  dangling-chain      x.c -> y.c -> <missing>
  dangling-abs        a link with an absolute missing target
  dangling-dir        src/gen -> ../build/gen (missing), entry src/gen/tables.c
  under-file          src/a.c/x.c (a regular file used as a directory, ENOTDIR)
  missing / missing-dir   the ordinary cases, kept for contrast
  loop                loop.c -> loop.c (ELOOP; gcc: "Too many levels of symbolic links"): no file can be reached; must be
                      skipped and must not disturb anything, the wording of the warning is not judged
  isdir / isdir-link  a directory (or a link to one) carrying a source extension: open() = EISDIR, gcc = "No such file"
  link-to-source      alias.c -> a.c: an existing source file; kept, analysed as the file it is
  link-to-nonsource   fromdef.c -> ../../out/tables.def: opens, has a source name, gcc compiles it
  nonsource-link      tables.o -> a.c, plain object / text files, link commands, empty commands

Judged, per database (all expectations are computed here, from the kernel and gcc, never from CBI):
  (1) config.load_database: exactly the entries whose file opens are kept (file = that inode, spelled absolute and
      normalised), exactly the ENOENT/ENOTDIR entries are named by a "non-existent" warning, in order;
  (2) frame through load_database: the result equals the result for the database WITHOUT the bad entries;
  (3) frame through finder.find: no abort; the set map and the attributed files equal those of the database without
      the bad entries, and the attributed files are the files gcc opens for the kept entries;
  (4) frame through the command line (`codebasin -R summary`, a sample of the databases): exit 0, the same summary as for
      the database without the bad entries, cbi.log names every non-existent file;
  (5) the Lean model / spec (`dbload`, existence answered by os.path.isfile) through c13.check_db.
"""
from __future__ import annotations

import errno
import json
import os
import random
import re
import shlex
import subprocess

from harness import core

TOPVAR = "{TOP}"
SOURCE_EXT = (".c", ".cpp", ".cc")           # the only source extensions this generator uses (C and C++ by any reading)
NONSOURCE_EXT = (".o", ".txt", ".def", ".a", "")
ABSENT = ("ENOENT", "ENOTDIR")
BAD_KINDS = ["dangling", "dangling", "dangling", "dangling-chain", "dangling-abs", "dangling-dir", "under-file",
             "missing", "missing-dir", "loop", "isdir", "isdir-link", "link-to-source", "link-to-source",
             "link-to-nonsource", "nonsource-link", "object", "link", "empty"]


# --------------------------------------------------------------------------------------------
# generator
# --------------------------------------------------------------------------------------------
def gen_case(rng, i=0, force=None):
    seed = rng.randrange(1 << 30)
    r = random.Random(seed)
    root = r.choice(["proj", "proj", "my proj", "p.c", "a/b/proj"])
    n = [0]

    def mark():
        n[0] += 1
        return f"MARK_{n[0]}"

    dirs = [root] + [f"{root}/{d}" for d in ("src", "src/sub", "inc", "build")] + ["out", "out/src"]
    files, links, sources = {}, [], []
    files[f"{root}/inc/h0.h"] = f"#ifndef H0\n#define H0\nint {mark()};\n#ifdef X\nint hx;\n#endif\n#endif\n"
    srcdirs = [f"{root}/src", f"{root}/src/sub", root, f"{root}/build", "out/src"]
    for d in srcdirs:
        for name in ("a.c", "b.cpp", "main.cc", "tables.c"):
            if r.random() < (0.5 if name != "tables.c" else 0.15):
                body = f"int {mark()};\n"
                if r.random() < 0.7:
                    body += r.choice(["#ifdef X\nint x;\n#else\nint y;\nint z;\n#endif\n", "#if defined(X) && X > 1\nint big;\n#endif\n",
                                      "#ifndef NAME\nint anon;\n#endif\n"])
                if r.random() < 0.4:
                    body += '#include "h0.h"\n'
                files[f"{d}/{name}"] = body
                sources.append(f"{d}/{name}")
    if len(sources) < 2:
        for f in (f"{root}/src/a.c", f"{root}/src/sub/b.cpp"):
            if f not in files:
                files[f] = f"int {mark()};\n#ifdef X\nint x;\n#endif\n"
                sources.append(f)
    others = []
    for f in (f"{root}/build/data.txt", f"{root}/src/notes.txt", "out/tables.def", f"{root}/build/a.o"):
        files[f] = f"int {mark()};\n"
        others.append(f)

    top = "/tmp/cbiverif_generator_top"
    A = lambda rel: f"{top}/{rel}"  # noqa: E731
    root_abs = A(root)
    free = [0]

    def fresh(stem, ext):
        free[0] += 1
        return f"{stem}{free[0]}{ext}"

    ext = lambda: r.choice(SOURCE_EXT)  # noqa: E731
    hostdirs = [f"{root}/src", f"{root}/src", f"{root}/src/sub", root, f"{root}/build", "out/src"]

    def relto(target, linkdir):
        return os.path.relpath(A(target), A(linkdir))

    # ---- bad (and unusual good) objects; each returns (kind, path below top naming the object, expectation)
    def make(kind):
        d = r.choice(hostdirs)
        if kind == "dangling":
            nm = r.choice(["tables.c", "gen.cpp", "parser.cc", fresh("auto", ext())])
            p = f"{d}/{nm}"
            if p in files or any(l == p for l, _ in links):
                p = f"{d}/{fresh('gen', ext())}"
            tgt = r.choice([f"{root}/build/gen/{nm}", f"{root}/build/{fresh('t', '.c')}", f"out/gen/{nm}"])
            links.append([p, relto(tgt, d)])
            return p, "absent"
        if kind == "dangling-chain":
            p, q = f"{d}/{fresh('chain', ext())}", f"{d}/{fresh('hop', ext())}"
            links.append([p, os.path.basename(q)])
            links.append([q, relto(f"{root}/build/gen/x.c", d)])
            return p, "absent"
        if kind == "dangling-abs":
            p = f"{d}/{fresh('absgen', ext())}"
            links.append([p, f"{TOPVAR}/{root}/build/gen/abs.c"])
            return p, "absent"
        if kind == "dangling-dir":
            ld = f"{d}/{fresh('gendir', '')}"
            links.append([ld, relto(f"{root}/build/gen", d)])
            return f"{ld}/tables.c", "absent"
        if kind == "under-file":
            return f"{r.choice(sources)}/{r.choice(['x.c', 'inner.cpp'])}", "absent"
        if kind == "missing":
            return f"{d}/{fresh('gone', ext())}", "absent"
        if kind == "missing-dir":
            return f"{d}/nodir/{fresh('gone', ext())}", "absent"
        if kind == "loop":
            p = f"{d}/{fresh('loop', ext())}"
            links.append([p, os.path.basename(p)])
            return p, "loop"
        if kind == "isdir":
            p = f"{d}/{fresh('moddir', ext())}"
            dirs.append(p)
            return p, "isdir"
        if kind == "isdir-link":
            p = f"{d}/{fresh('plug', ext())}"
            links.append([p, relto(r.choice([f"{root}/build", "out", f"{root}/inc"]), d)])
            return p, "isdir"
        if kind == "link-to-source":
            p = f"{d}/{fresh('alias', ext())}"
            links.append([p, relto(r.choice(sources), d)])
            return p, "keep"
        if kind == "link-to-nonsource":
            p = f"{d}/{fresh('fromdef', ext())}"
            links.append([p, relto(r.choice(others[:3]), d)])
            return p, "keep"
        if kind == "nonsource-link":
            p = f"{d}/{fresh('tables', r.choice(['.o', '.txt', '']))}"
            links.append([p, relto(r.choice(sources), d)])
            return p, "nonsource"
        if kind in ("object", "link"):
            return r.choice(others), "nonsource"
        raise AssertionError(kind)

    plan = []
    for _ in range(r.randint(1, 4)):
        plan.append("good")
    nbad = r.choice([1, 1, 2, 2, 3])
    bad = [force] if force else []
    while len(bad) < nbad:
        bad.append(r.choice(BAD_KINDS))
    plan += bad
    r.shuffle(plan)
    if r.random() < 0.3:                         # the bad entries first / last
        plan.sort(key=lambda k: k == "good", reverse=r.random() < 0.5)

    entries, intents = [], []
    for kind in plan:
        if kind in ("good", "empty"):
            target, expect = r.choice(sources), ("keep" if kind == "good" else "empty")
        else:
            target, expect = make(kind)
        T = A(target)
        # ---- directory (always a real directory: no `..` hazard of F-C13-1 in this stream)
        if r.random() < 0.3:
            D, dsp = root_abs, None
        else:
            D = r.choice([root_abs, f"{root_abs}/build", f"{root_abs}/src", A("out")])
            dsp = D if r.random() < 0.4 else (os.path.relpath(D, root_abs) + ("/" if r.random() < 0.15 else ""))
        fsp = T if r.random() < 0.3 else os.path.relpath(T, D)
        if not fsp.startswith("/") and r.random() < 0.2:
            fsp = "./" + fsp
        cc = r.choice(["gcc", "g++", "clang", "cc", "/usr/bin/gcc"])
        argv = [cc]
        if r.random() < 0.55:
            argv.append(r.choice(["-DX", "-DX=2", "-DNAME", "-O2"]))
        if r.random() < 0.6:
            isp = f"{root_abs}/inc" if r.random() < 0.3 else os.path.relpath(f"{root_abs}/inc", D)
            argv += ["-I" + isp] if r.random() < 0.5 else ["-I", isp]
        if kind == "link":
            argv = [r.choice(["ld", "gcc", "ar"]), "-o", "prog", fsp]
        else:
            argv += ["-c", fsp]
        e = {"file": fsp}
        if dsp is not None:
            e["directory"] = dsp
        if kind == "empty":
            if r.random() < 0.5:
                e["arguments"] = []
            else:
                e["command"] = r.choice(["", " "])
        elif r.random() < 0.5:
            e["arguments"] = argv
        else:
            e["command"] = shlex.join(argv)
        entries.append(e)
        intents.append({"kind": kind, "expect": expect, "target": T, "base": D, "argv": argv if kind != "empty" else []})
    tree = {"root": root, "dirs": dirs, "files": files, "links": links, "sources": sources, "others": others, "incdirs": []}
    rr = r.random()
    case = {"seed": seed, "stream": "unopenable", "tree": tree, "entries": _templ(entries, top), "intents": _templ(intents, top),
            "dbplace": f"{TOPVAR}/{root}", "root_spelling": f"{TOPVAR}/{root}"}
    if rr > 0.85:
        case["root_spelling"], case["cwd"] = ".", f"{TOPVAR}/{root}"
    return case


def _templ(x, top):
    if isinstance(x, str):
        return x.replace(top, TOPVAR)
    if isinstance(x, (list, tuple)):
        return [_templ(y, top) for y in x]
    if isinstance(x, dict):
        return {k: _templ(v, top) for k, v in x.items()}
    return x


# --------------------------------------------------------------------------------------------
# oracles (kernel, gcc) -- nothing of CBI below this line until `check_case`
# --------------------------------------------------------------------------------------------
def kernel_class(path):
    """what open(2) says about the path: 'ok' or the errno name"""
    try:
        with open(path, "rb"):
            return "ok"
    except OSError as ex:
        return errno.errorcode.get(ex.errno, str(ex.errno))


def own_argv(e):
    if "arguments" in e:
        return list(e["arguments"])
    try:
        return shlex.split(e.get("command", ""))
    except ValueError:
        return []


def name_is_source(path):
    base = path.rstrip("/").rsplit("/", 1)[-1]
    dot = base.rfind(".")
    ext = base[dot:] if dot > 0 else ""
    if ext in SOURCE_EXT:
        return True
    if ext in NONSOURCE_EXT:
        return False
    return None           # a name this stream does not judge


def expectation(root_abs, e):
    """(class, path text) of one entry by the property's own words, from the kernel:
    empty | nonsource | keep | absent | loop | isdir | other:<errno>"""
    base = root_abs if e.get("directory") is None else (e["directory"] if e["directory"].startswith("/") else root_abs + "/" + e["directory"])
    text = e["file"] if e["file"].startswith("/") else base + "/" + e["file"]
    if not own_argv(e):
        return "empty", text, base
    src = name_is_source(text)
    if src is None:
        return "other:name", text, base
    if not src:
        return "nonsource", text, base
    k = kernel_class(text)
    cls = {"ok": "keep", "ENOENT": "absent", "ENOTDIR": "absent", "ELOOP": "loop", "EISDIR": "isdir"}.get(k, "other:" + k)
    return cls, text, base


def gcc_says(cwd, file_spelled):
    """'opens' | 'absent' (No such file or directory / Not a directory) | 'loop' | 'other:..' | None (gcc unavailable)"""
    try:
        p = subprocess.run(["gcc", "-E", "-P", "-x", "c", "-nostdinc", "-I/nonexistent", file_spelled], cwd=cwd,
                           capture_output=True, text=True, timeout=30)
    except (OSError, subprocess.TimeoutExpired):
        return None
    first = (p.stderr.strip().splitlines() or [""])[0]
    # the driver's own complaint about its input file: "cc1: fatal error: <file>: <strerror>" (a header that is not
    # found is reported as "<file>:<line>:<col>: fatal error: h0.h: ..." and is not the entry's file being absent)
    m = re.match(r"cc1(plus)?: fatal error: (.*): ([A-Z][A-Za-z ]+)$", first)
    if m and m.group(2) == file_spelled:
        if m.group(3) in ("No such file or directory", "Not a directory"):
            return "absent"
        if m.group(3) == "Too many levels of symbolic links":
            return "loop"
        return "other:" + m.group(3)
    if first.startswith("cc1"):
        return "other:" + first[-80:]
    return "opens"


def norm(p):
    st = []
    for c in p.split("/"):
        if c in ("", "."):
            continue
        if c == "..":
            if st:
                st.pop()
        else:
            st.append(c)
    return "/" + "/".join(st)


def setmap_of(root_abs, raw_entries, marks):
    """finder.find on one platform: ({platform set: lines}, markers of attributed files, files without marker)"""
    from codebasin import CodeBase, finder

    cb = CodeBase(root_abs)
    st = finder.find(root_abs, cb, {"p": [dict(r, defines=list(r["defines"])) for r in raw_entries]}, summarize_only=False)
    got, unknown = set(), []
    for fn in st.get_filenames():
        if len(st.get_map(fn)) > 0:
            m = marks.get(os.path.realpath(fn))
            if m is None:
                unknown.append(fn)
            else:
                got.add(m)
    sm = {",".join(sorted(k)): v for k, v in st.get_setmap(cb).items()}      # (get_setmap touches every map: after the loop)
    return sm, sorted(got), unknown


def names_one(message, paths, phrase):
    """the error text carries `phrase` and names one of `paths` (as spelled after normalisation, or physically)"""
    return bool(message) and phrase in message and any(norm(p) in message or os.path.realpath(p) in message for p in paths)


def summary_part(stdout):
    i = stdout.find("Summary")
    return stdout[i:] if i >= 0 else None


# --------------------------------------------------------------------------------------------
# classifiers of the recorded findings (predicates on the concrete case, evaluated on the scratch tree)
# --------------------------------------------------------------------------------------------
def classifiers(state):
    """state: {'isdir_paths': [...], 'nonsource_real': [...]} measured on the materialised tree"""
    return [
        ("F-C13-3", lambda c: bool(state["isdir_paths"]) and state.get("blame") == "isdir"),
        ("F-C13-4", lambda c: bool(state["nonsource_real"]) and state.get("blame") == "nonsource_real"),
    ]


# --------------------------------------------------------------------------------------------
# one database
# --------------------------------------------------------------------------------------------
def check_case(ctx, drv, case, cli=False, count=True, independence=True):
    from harness.props import c13 as P

    core.import_codebasin()
    report = {}
    with core.Scratch() as d:
        top = os.path.realpath(str(d))
        tree = P.subst(case["tree"], top)
        P.materialise(top, tree)
        marks = P.markers_by_realpath(top, tree)
        entries = P.subst(case["entries"], top)
        intents = P.subst(case.get("intents", []), top)
        root_abs = os.path.join(top, tree["root"])
        cwd = P.subst(case.get("cwd", ""), top) or None
        rootarg = P.subst(case.get("root_spelling", root_abs), top)
        dbdir = P.subst(case.get("dbplace", TOPVAR), top)
        dbpath = os.path.join(dbdir, "compile_commands.json")

        # ---------------- expectation, from the kernel and gcc only
        exp = [expectation(root_abs, e) for e in entries]
        report["expectation"] = [[c, t.replace(top, TOPVAR)] for c, t, _ in exp]
        if count:
            ctx.count(key="unopenable-db:" + "+".join(sorted({i["kind"] for i in intents})) if intents else "unopenable-db:?")
            for i in intents:
                ctx.dist["unopenable-entry:" + i["kind"]] += 1
        if any(c.startswith("other:") for c, _, _ in exp):
            ctx.dist["unopenable:not-judged(" + next(c for c, _, _ in exp if c.startswith("other:")) + ")"] += 1
            return report
        if intents and [i["expect"] for i in intents] != [c for c, _, _ in exp]:
            ctx.notes.append(f"unopenable generator: intended {[i['expect'] for i in intents]}, the kernel says {[c for c, _, _ in exp]} (seed {case.get('seed')})")
            ctx.dist["unopenable:generator-vs-kernel"] += 1
            return report
        gcc_verdicts = []
        for e, (c, text, base) in zip(entries, exp):
            if c in ("empty", "nonsource") or (c == "keep" and not os.path.islink(text)):
                gcc_verdicts.append(None)       # (plain existing sources: gcc is asked below, for the files it opens)
                continue
            g = gcc_says(base, e["file"])
            gcc_verdicts.append(g)
            if count:
                ctx.count(key="unopenable-gcc:" + str(g))
            want = {"keep": "opens", "absent": "absent", "loop": "loop", "isdir": "absent"}[c]
            if g is None:
                ctx.dist["gcc-oracle-unavailable(timeout/OSError)"] += 1
            elif g != want:
                ctx.notes.append(f"unopenable: kernel says {c}, gcc says {g} for {e['file']} in {base} (seed {case.get('seed')}): not judged")
                ctx.dist["unopenable:kernel-vs-gcc"] += 1
                return report
        report["gcc"] = gcc_verdicts
        isdir_paths = [norm(t) for c, t, _ in exp if c == "isdir"]
        nonsource_real = [norm(t) for c, t, _ in exp if c == "keep" and name_is_source(os.path.realpath(t)) is not True]
        state = {"isdir_paths": isdir_paths, "nonsource_real": nonsource_real, "blame": None}
        CL = classifiers(state)

        def flag(what, blame=None):
            state["blame"] = blame
            return ctx.classify(case, what, CL)

        # ---------------- (1) load_database on the whole database
        with open(dbpath, "w") as fh:
            json.dump(entries, fh)
        got = P.impl_load(dbpath, rootarg, cwd)
        report["implementation"] = {k: v for k, v in got.items() if k != "raw"}
        parses = P.real_parses(entries)
        if any(p[1] is None for p in parses):
            ctx.dist["unopenable:argparse-trouble"] += 1
            return report
        npass = {tuple(a): len(ps) for a, ps in parses}
        if "error" in got:
            ctx.violation(f"load_database aborts with {got['error']}: {got.get('msg')} on a database whose bad entries are "
                          f"{[(c, t) for c, t, _ in exp if c != 'keep'][:3]} (they must be skipped with a warning)", case)
            return report
        # the result, as a sequence of files, must be: for every entry whose file opens, in order, one configuration per
        # compiler pass of its command line (pass count from the real ArgumentParser: C11/C12's subject)
        trouble, kept_isdir = [], []
        want_seq, want_seq_dirs = [], []
        for e, (c, text, base) in zip(entries, exp):
            k = npass.get(tuple(own_argv(e)), 1)
            if c == "keep":
                want_seq += [norm(text)] * k
                want_seq_dirs += [norm(text)] * k
            elif c == "isdir":
                want_seq_dirs += [norm(text)] * k
        got_seq = [norm(g["file"]) for g in got["entries"]]
        if got_seq == want_seq:
            for g in got["entries"]:
                if not P.spelled_ok(g["file"]) or P.comps(g["file"]) != P.comps(norm(g["file"])):
                    trouble.append(f"analysed file {g['file']} is not spelled absolute and normalised")
        elif got_seq == want_seq_dirs:
            kept_isdir = [t for c, t, _ in exp if c == "isdir"]
        else:
            surplus = [f for f in dict.fromkeys(got_seq) if got_seq.count(f) > want_seq.count(f)]
            lacking = [f for f in dict.fromkeys(want_seq) if got_seq.count(f) < want_seq.count(f)]
            why = {norm(t): f"{c}, open(): {kernel_class(t)}" for c, t, _ in exp if c != "keep"}
            trouble.append(f"load_database keeps {[(f, why.get(f, '?')) for f in surplus]} and lacks {lacking}: the entries whose "
                           f"file opens are {want_seq}, the result is {got_seq}")
        loops = {norm(t) for c, t, _ in exp if c == "loop"}
        dirs_ = set(isdir_paths)
        warned = [norm(w) for w in got["missing"]]
        want_w = [norm(t) for c, t, _ in exp if c == "absent"]
        if [w for w in warned if w not in loops and w not in dirs_] != want_w:
            trouble.append(f"'non-existent file' warnings {got['missing']} but the entries whose file cannot be opened (ENOENT/ENOTDIR) "
                           f"are {want_w}")
        if got["empty_warning"] != (len(got["entries"]) == 0):
            trouble.append("closing 'No files found' warning does not match the result")
        if trouble:
            report["load_database"] = trouble
            flag("load_database vs the kernel's reading of the entries: " + "; ".join(trouble[:3]))
        if kept_isdir:
            flag(f"the entry for {kept_isdir[0]} is kept although the path is a directory (open(): EISDIR, gcc: No such file or "
                 "directory): not a source file, must be skipped with a warning", blame="isdir")

        # ---------------- (2) frame through load_database
        keep_entries = [e for e, (c, _, _) in zip(entries, exp) if c == "keep"]
        with open(dbpath, "w") as fh:
            json.dump(keep_entries, fh)
        got2 = P.impl_load(dbpath, rootarg, cwd)
        with open(dbpath, "w") as fh:
            json.dump(entries, fh)
        if count:
            ctx.count(key="unopenable-frame:load")
        frame_ok = "error" not in got2 and P.canon(got2["entries"]) == P.canon(got["entries"])
        if not frame_ok:
            surplus = [g["file"] for g in got["entries"] if g not in got2.get("entries", [])]
            only_dirs = bool(surplus) and all(norm(s) in dirs_ for s in surplus) and "error" not in got2 and \
                P.canon([g for g in got["entries"] if norm(g["file"]) not in dirs_]) == P.canon(got2["entries"])
            flag("removing the entries that must be skipped changes the result of load_database: with them "
                 f"{[g['file'] for g in got['entries']]}, without them {[g['file'] for g in got2.get('entries', [])] if 'error' not in got2 else got2}",
                 blame="isdir" if only_dirs else None)
        if "error" in got2:
            return report

        # ---------------- (3) frame through finder.find
        def find(raw):
            try:
                return setmap_of(root_abs, raw, marks), None
            except Exception as ex:  # noqa
                return None, f"{type(ex).__name__}: {ex}"

        res_clean, err_clean = find(got2["raw"])
        res_full, err_full = find(got["raw"])
        if count:
            ctx.count(key="unopenable-frame:find")
        report["find"] = {"with_bad_entries": res_full or err_full, "without": res_clean or err_clean}
        if err_clean:
            # the database holding ONLY entries whose file opens aborts: not about skipping; here only the recorded
            # class (a source-named link whose physical name is not a source name) can be the reason
            flag(f"finder.find aborts on the database reduced to the entries whose file opens: {err_clean}",
                 blame="nonsource_real" if names_one(err_clean, nonsource_real, "Could not determine language of") else None)
        elif err_full:
            flag(f"finder.find aborts ({err_full}) on the configuration load_database returns for the whole database; without the "
                 f"entries that must be skipped ({[(c, t) for c, t, _ in exp if c != 'keep'][:3]}) it yields {res_clean[0]}",
                 blame="isdir" if not trouble and (names_one(err_full, kept_isdir, "Is a directory") or
                                                   names_one(err_full, kept_isdir, "Could not determine language of")) else None)
        elif res_full != res_clean:
            flag(f"the skipped entries alter the analysis: set map / attributed files with them {res_full[:2]}, without them "
                 f"{res_clean[:2]}")
        elif res_full[2]:
            flag(f"files attributed that nobody wrote: {res_full[2]}")
        else:
            # independent expectation for the attributed files: what gcc opens for the kept entries
            union, ok = set(), True
            for e, (c, text, base) in zip(entries, exp):
                if c != "keep":
                    continue
                argv = own_argv(e)
                incargs, k = [], 1
                while k < len(argv):
                    if argv[k] in ("-I", "-isystem") and k + 1 < len(argv):
                        incargs += [argv[k], argv[k + 1]]; k += 2
                    elif argv[k].startswith("-I") and len(argv[k]) > 2:
                        incargs.append(argv[k]); k += 1
                    else:
                        k += 1
                ms, err = P.gcc_opened(base, incargs + [a for a in argv if a.startswith("-D")], e["file"])
                if count:
                    ctx.count(key="unopenable-gcc:markers")
                if not ms:
                    ok = False
                    break
                union |= set(ms)
            if ok:
                report["gcc_opened"] = sorted(union)
                if sorted(union) != res_full[1]:
                    flag(f"attributed files {res_full[1]}, files gcc opens for the entries whose file opens {sorted(union)}")
                elif count and any(c not in ("keep",) for c, _, _ in exp):
                    for e, (c, text, base), i in zip(entries, exp, intents or [{}] * len(entries)):
                        if c != "keep" or i.get("kind") != "good":
                            ctx.nontrivial.add(("unopenable", i.get("kind", c), e.get("directory"), e["file"].replace(top, TOPVAR)))

        # ---------------- (4) frame through the command line
        if cli and not err_clean:
            outs = {}
            for name, ents in (("with", entries), ("without", keep_entries)):
                with open(os.path.join(root_abs, "compile_commands.json"), "w") as fh:
                    json.dump(ents, fh)
                with open(os.path.join(root_abs, "analysis.toml"), "w") as fh:
                    fh.write('[platform.p]\ncommands = "compile_commands.json"\n')
                lp = os.path.join(root_abs, "cbi.log")
                if os.path.exists(lp):
                    os.unlink(lp)
                rc, so, se = core.run_cli("codebasin", ["-R", "summary", "analysis.toml"], cwd=root_abs)
                log = open(lp).read() if os.path.exists(lp) else ""
                outs[name] = (rc, summary_part(so), (so + se)[-300:], log)
                if count:
                    ctx.count(key="unopenable-frame:cli")
            report["cli"] = {k: {"exit": v[0], "summary": v[1]} for k, v in outs.items()}
            w, wo = outs["with"], outs["without"]
            if wo[0] != 0:
                flag(f"codebasin exits {wo[0]} on the database reduced to the entries whose file opens: {wo[2]}",
                     blame="nonsource_real" if names_one(wo[2], nonsource_real, "Could not determine language of") else None)
            elif w[0] != 0:
                flag(f"codebasin exits {w[0]} with no report ({w[2].strip()[-160:]}); without the entries that must be skipped it "
                     "exits 0 and prints a summary",
                     blame="isdir" if not trouble and (names_one(w[2], kept_isdir, "Is a directory") or
                                                       names_one(w[2], kept_isdir, "Could not determine language of")) else None)
            elif w[1] != wo[1]:
                flag(f"the skipped entries alter the summary printed by codebasin: {w[1]!r} vs {wo[1]!r}")
            else:
                lost = [t for t in want_w if "Ignoring non-existent file: " + t not in " ".join(w[3].split())
                        and not any(norm(x) == t for x in re.findall(r"Ignoring non-existent file: (\S.*)", w[3]))]
                if lost:
                    flag(f"cbi.log has no 'non-existent file' warning for {lost[:2]}")

    # ---------------- (5) Lean model and spec on the same database (existence answered by os.path.isfile)
    rep5 = P.check_db(ctx, drv, case, use_gcc=False, count=False, intent_oracle=False, independence=independence)
    report["model"], report["spec"] = rep5.get("model"), rep5.get("spec")
    return report


def run_stream(ctx, drv, rng, n, n_cli, budget_s):
    t0 = ctx.elapsed()
    done = 0
    for f in sorted((core.VERIF / "corpus" / "C13").glob("unopenable*.json")):
        check_case(ctx, drv, json.loads(f.read_text()), cli=True)
    for i in range(n):
        if i >= max(12, n // 3) and ctx.elapsed() - t0 > budget_s:
            ctx.notes.append(f"time guard: {i} of {n} unopenable-file databases explored")
            break
        case = gen_case(rng, i, force=BAD_KINDS[i % len(BAD_KINDS)] if i < 2 * len(BAD_KINDS) else None)
        rep = check_case(ctx, drv, case, cli=i < n_cli, independence=i % 3 == 0)   # (one load per entry: every third database)
        done += 1
        if i < 2:
            ctx.sample({"stream": "unopenable", "entries": case["entries"], "links": case["tree"]["links"],
                        "expectation": rep.get("expectation"), "implementation": rep.get("implementation")}, cap=12)
    ctx.extra["unopenable_databases"] = done
    ctx.extra["unopenable_seconds"] = round(ctx.elapsed() - t0, 1)
