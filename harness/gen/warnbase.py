"""C18 generator: code bases with a KNOWN set of things the analysis cannot honour.

Built on the shared generator `harness/gen/codebase.py` (`dangling=True, unknown=True`: dangling quote /
angle includes in reached and unreached branches of sources and of headers that are included several times,
unknown directives and `#line/#warning/#error`), extended here with database-level events: entries for
files that do not exist, compilers CBI has no definition for, options it does not know.

`expected(desc, root)` computes the multiset of events from the description alone (independent reference
preprocessor `harness/gen/inctree.ref_run` for the include events; the text of the files for the
directive events; the entry descriptions for the database events).
"""
from __future__ import annotations

import collections
import os
import posixpath
import re

from harness.gen import codebase as CB
from harness.gen import inctree as IT

KNOWN_COMPILERS = ["gcc", "g++", "clang", "clang++", "/usr/bin/gcc", "/opt/llvm/bin/clang"]
UNKNOWN_COMPILERS = ["mycc", "cc", "xlc", "/opt/arm/bin/armclang", "gcc-12"]
UNKNOWN_FLAGS = ["-Wall", "-Wextra", "-std=c99", "-march=native", "-fPIC", "--weird", "-pthread", "-MD", "-frob=3"]
SILENT_DIRECTIVES = ("line", "warning", "error")
# multi-pass compilers (written from the compiler definitions' meaning, cf. C12): (command prefix, device macro,
# [(pass, macros the pass defines after the command's own -D)]).  Every pass is a preprocessing run of its own.
MULTIPASS = [
    (["nvcc"], "__CUDA_ARCH__", [("default", ["__NVCC__", "__CUDACC__"]), ("sm_70", ["__NVCC__", "__CUDACC__", "__CUDA_ARCH__=700"])]),
    (["nvcc", "-gencode", "arch=compute_80,code=sm_80"], "__CUDA_ARCH__",
     [("default", ["__NVCC__", "__CUDACC__"]), ("sm_80", ["__NVCC__", "__CUDACC__", "__CUDA_ARCH__=800"])]),
    (["nvcc", "--gpu-architecture=sm_75", "-gencode", "arch=compute_90,code=sm_90"], "__CUDA_ARCH__",
     [("default", ["__NVCC__", "__CUDACC__"]), ("sm_75", ["__NVCC__", "__CUDACC__", "__CUDA_ARCH__=750"]),
      ("sm_90", ["__NVCC__", "__CUDACC__", "__CUDA_ARCH__=900"])]),
    (["icpx", "-fsycl"], "__SYCL_DEVICE_ONLY__",
     [("default", ["SYCL_LANGUAGE_VERSION"]), ("sycl-spir64", ["__SYCL_DEVICE_ONLY__", "__SPIR__", "__SPIRV__", "SYCL_LANGUAGE_VERSION"])]),
]


def gen(rng, root, dangling=True, unknown=True, db_events=True, nplat=None, write=True, multipass=True, shapes=None):
    """`shapes` (default None: nothing added, the random stream is the old one): an iterable of shape names out of
    `SHAPES` that `add_shapes` grafts onto the generated code base after everything else has been drawn."""
    nplat = nplat if nplat is not None else rng.randint(1, 3)
    desc = CB.gen_codebase(rng, root, nplat=nplat, dangling=dangling, unknown=unknown, write=False)
    desc["dbmeta"] = {}
    for pname, entries in desc["platforms"].items():
        meta = []
        for e in entries:
            m = {"missing": False, "compiler": "gcc", "known": True, "unrecognised": []}
            mp = multipass and rng.random() < 0.2
            if mp:
                # a multi-pass compiler: the file is preprocessed once per pass, each pass with its own macros
                prefix, devmacro, passes = rng.choice(MULTIPASS)
                e["arguments"][0:1] = list(prefix)
                m["compiler"], m["passes"] = prefix[0], [list(d) for _, d in passes]
                key = next((k for k in desc["texts"] if posixpath.normpath(k) == posixpath.normpath(e["file"])), None)
                if dangling and key is not None and not any("gone_pass" in l for l in desc["texts"][key]):
                    # an include only the device passes reach, one only the host pass reaches, one every pass reaches
                    desc["texts"][key] = list(desc["texts"][key]) + [
                        f"#ifdef {devmacro}", '#include "dev/gone_dev.h"', "#else", "#include <sys/gone_host.h>", "#endif", '#include "gone_pass.h"']
            if db_events:
                if mp:
                    pass
                elif rng.random() < 0.25:
                    c = rng.choice(UNKNOWN_COMPILERS)
                    m["compiler"], m["known"] = os.path.basename(c), False
                    e["arguments"][0] = c
                elif rng.random() < 0.5:
                    c = rng.choice(KNOWN_COMPILERS)
                    m["compiler"] = os.path.basename(c)
                    e["arguments"][0] = c
                if rng.random() < 0.15:
                    # forced includes: a name that exists nowhere (must be reported: user include, line 0), or a header of
                    # the code base made reachable through its own directory (so that every reading of -include agrees)
                    for _ in range(rng.randint(1, 2)):
                        a = e["arguments"]
                        if desc["headers"] and rng.random() < 0.5:
                            h = rng.choice(desc["headers"])
                            a[-2:-2] = ["-I", posixpath.dirname(h) or ".", "-include", posixpath.basename(h)]
                        else:
                            a[-2:-2] = ["-include", f"nothere{rng.randint(0, 2)}.h"]
                if rng.random() < 0.35:
                    fl = rng.sample(UNKNOWN_FLAGS, rng.randint(1, 3))
                    for f in fl:
                        a = e["arguments"]
                        ok = [i for i in range(1, len(a) - 1) if a[i - 1] not in ("-I", "-D", "-include", "-isystem", "-gencode")]
                        a.insert(rng.choice(ok), f)
                    m["unrecognised"] = [a for a in e["arguments"] if a in UNKNOWN_FLAGS]
            meta.append(m)
        if db_events:
            # entries for files that do not exist (e.g. generated sources)
            for k in range(rng.randint(0, 2) if rng.random() < 0.5 else 0):
                f = posixpath.join(rng.choice(desc["dirs"]), f"generated{k}.c")
                ent = {"file": f, "directory": ".", "arguments": [rng.choice(KNOWN_COMPILERS + UNKNOWN_COMPILERS), "-Wall", "-c", f]}
                if desc["sources"] and rng.random() < 0.4:
                    # an out-of-tree build directory whose entry names a file that is missing *there* although a file
                    # with the same relative path exists under the root (a relative `file` is relative to `directory`)
                    f = rng.choice(desc["sources"])
                    ent = {"file": f, "directory": ".", "builddir": "build_out", "arguments": [rng.choice(KNOWN_COMPILERS), "-DGENERATED=1", "-c", f]}
                pos = rng.randint(0, len(entries))
                entries.insert(pos, ent)
                meta.insert(pos, {"missing": True, "compiler": os.path.basename(ent["arguments"][0]), "known": True, "unrecognised": []})
        desc["dbmeta"][pname] = meta
    if shapes:
        desc["shapes"] = add_shapes(rng, desc, shapes)
    if write:
        CB.write_codebase(root, desc)
    return desc


# --------------------------------------------------------------------------
# shapes of the property's quantifier the shared generator does not reach: one include DIRECTIVE (one node of the shared
# parse tree of a header) that is evaluated several times with another outcome each time, and one file CONTENT that
# occurs several times.  Everything is expressed in the code base itself; `expected` needs no knowledge of the shapes.
# --------------------------------------------------------------------------
SHAPES = ("sel", "dup", "pg")
UNKNOWN_DIRECTIVES = ['#ident "v1.2"', "#include_next <stdio.h>", "#assert machine(x86)", '#import "legacy.h"', '#sccs "@(#)zc"',
                      "#unassert machine", "#foo bar", "#  ident \"spaced\""]


def _live(desc):
    """[(platform, index)] of the database entries whose file exists"""
    return [(p, i) for p, ms in desc["dbmeta"].items() for i, m in enumerate(ms) if not m["missing"]]


def _add_entry(desc, pname, src, extra=()):
    desc["platforms"][pname].append({"file": src, "directory": ".", "arguments": ["gcc"] + list(extra) + ["-c", src]})
    desc["dbmeta"][pname].append({"missing": False, "compiler": "gcc", "known": True, "unrecognised": []})
    return len(desc["platforms"][pname]) - 1


def _units(rng, desc, want=2):
    """a platform with at least `want` live entries (entries are added - the same file compiled once more, or another
    source - when the generated database has fewer); returns (platform, [entry index])"""
    if not desc["platforms"]:
        desc["platforms"]["cpu"], desc["dbmeta"]["cpu"] = [], []
    if not desc["sources"]:
        desc["sources"].append("shape_main.c")
        desc["texts"]["shape_main.c"] = ["int shape_main;"]
    pname = rng.choice(sorted(desc["platforms"]))
    idx = [i for p, i in _live(desc) if p == pname]
    while len(idx) < want:
        idx.append(_add_entry(desc, pname, rng.choice(desc["sources"])))
    return pname, idx


def _text_key(desc, f):
    return next(k for k in desc["texts"] if posixpath.normpath(k) == posixpath.normpath(f))


def _inc(src, hdr):
    return '#include "%s"' % posixpath.relpath(hdr, posixpath.dirname(src) or ".")


def _fresh(desc, stem):
    k = 0
    while any(posixpath.basename(p).startswith(f"{stem}{k}") for p in desc["texts"]):
        k += 1
    return k


def shape_sel(rng, desc):
    """a selecting header `#include SELk_IMPL` (one directive, one tree node) whose macro differs between the translation
    units of ONE platform (-D on the command lines, or the default the source supplies) and between two inclusions in one
    unit (#undef / #define in between, the X-macro idiom); the values differ in whether the file exists and in the form"""
    k = _fresh(desc, "sel")
    d = rng.choice(desc["dirs"])
    mac = f"SEL{k}_IMPL"
    sel = posixpath.join(d, f"sel{k}.h")
    desc["texts"][posixpath.join(d, f"sel{k}_a.h")] = [f"int sel{k}_a;"]
    desc["texts"][sel] = rng.choice([[], [f"int sel{k}_before;"]]) + [f"#include {mac}"] + rng.choice([[], [f"int sel{k}_after;"]])
    good = [f'"sel{k}_a.h"', f"<sel{k}_a.h>"]            # the angle form resolves only where -I names the directory
    bad = [f'"sel{k}_gone.h"', f"<sel{k}_gone.h>", f'"sel{k}_gone2.h"', f"<sys/sel{k}_gone.h>"]
    pname, idx = _units(rng, desc, 2)
    ents = desc["platforms"][pname]
    chosen = rng.sample(idx, 2) + [i for i in idx if rng.random() < 0.3]
    tags = set()
    # per translation unit: its own value on the command line; at least one that exists and one that does not, either order
    vals = [rng.choice(good), rng.choice(bad)]
    rng.shuffle(vals)
    done = set()
    for n, i in enumerate(dict.fromkeys(chosen)):
        v = vals[n] if n < 2 else rng.choice(good + bad)
        a = ents[i]["arguments"]
        a[-2:-2] = [f"-D{mac}={v}"] + (["-I", d] if d and rng.random() < 0.5 else [])
        done.add(_text_key(desc, ents[i]["file"]))
    tags.add("sel:units")
    for key in sorted(done):
        # (every other command that compiles the file gets the default)
        lines = [f"#ifndef {mac}", f"#define {mac} {rng.choice(good[:1] + bad)}", "#endif", _inc(key, sel)]
        if rng.random() < 0.6:
            # the same directive again in this unit with other values
            for _ in range(rng.randint(1, 2)):
                lines += [f"#undef {mac}", f"#define {mac} {rng.choice(good[:1] + bad)}", _inc(key, sel)]
            tags.add("sel:redefined")
        desc["texts"][key] = list(desc["texts"][key]) + lines
    return tags


def shape_dup(rng, desc):
    """byte-identical copies of one file (vendored / generated copies: same name in two directories, or two names) whose
    contents hold directives the analysis does not implement: every copy is a file of its own, each occurrence is an event"""
    k = _fresh(desc, "zcompat")
    ext = rng.choice(["h", "h", "hpp", "c"])
    body = [f"int zc{k};"]
    for _ in range(rng.randint(1, 3)):
        body.insert(rng.randint(0, len(body)), rng.choice(UNKNOWN_DIRECTIVES))
    if rng.random() < 0.4:
        body.insert(rng.randint(0, len(body)), rng.choice(["#line 40", "#warning old", "#error no"]))
    if rng.random() < 0.4:
        body.insert(rng.randint(1, len(body)), rng.choice([f'#include "zc{k}_gone.h"', f"#include <zc{k}_gone.h>"]))
    if ext != "c" and rng.random() < 0.5:
        body = [f"#ifndef ZC{k}_H", f"#define ZC{k}_H"] + body + ["#endif"]
    dirs = list(desc["dirs"])
    rng.shuffle(dirs)
    ncopy = rng.randint(2, 3)
    paths = []
    for n in range(ncopy):
        if n < len(dirs) and rng.random() < 0.8:
            p = posixpath.join(dirs[n], f"zcompat{k}.{ext}")
        else:
            p = posixpath.join(rng.choice(dirs), f"zcompat{k}_copy{n}.{ext}")
        if p not in desc["texts"]:
            desc["texts"][p] = list(body)
            paths.append(p)
    tags = {"dup:%s" % ext, "dup:copies=%d" % len(paths)}
    if ext == "c":
        # some copies are compiled, some only lie in the tree
        pname, _ = _units(rng, desc, 1)
        for p in paths:
            if rng.random() < 0.5:
                _add_entry(desc, pname, p)
                tags.add("dup:compiled")
    else:
        live = _live(desc)
        for p in paths:
            if live and rng.random() < 0.6:
                pn, i = rng.choice(live)
                key = _text_key(desc, desc["platforms"][pn][i]["file"])
                desc["texts"][key] = list(desc["texts"][key]) + [_inc(key, p)]
                tags.add("dup:included")
    return tags


def shape_pg(rng, desc):
    """a partially guarded header (single-header-library layout): `#ifndef G ... #endif` followed by a second conditional
    section that holds dangling includes; a unit includes it twice and defines the section's macro in between"""
    k = _fresh(desc, "pg")
    d = rng.choice(desc["dirs"])
    g, x = f"PG{k}_H", f"PG{k}_IMPLEMENTATION"
    hdr = posixpath.join(d, f"pg{k}.h")
    incs = rng.sample([f'#include "pg{k}_impl.h"', f"#include <pg{k}_arch.h>", f'#include "detail/pg{k}_impl.h"'], rng.randint(1, 2))
    opener = rng.choice([f"#ifdef {x}", f"#if defined({x})", f"#if defined({x}) && !defined({x}_DONE)"])
    inner = [f"int pg{k}_iface;"] + ([f'#include "pg{k}_types.h"'] if rng.random() < 0.3 else [])
    tail = incs + ([f"int pg{k}_impl;"] if rng.random() < 0.5 else [])
    if opener.endswith("_DONE)") :
        tail.append(f"#define {x}_DONE")
    desc["texts"][hdr] = rng.choice([[], ["// single-header library"], [""]]) + [f"#ifndef {g}", f"#define {g}"] + inner + ["#endif", opener] + tail + ["#endif"]
    pname, idx = _units(rng, desc, 1)
    ents = desc["platforms"][pname]
    tags = {"pg:twice"}
    keys = {_text_key(desc, ents[i]["file"]) for i in rng.sample(idx, min(len(idx), rng.randint(1, 2)))}
    for n, key in enumerate(sorted(keys)):
        lines = [_inc(key, hdr)]
        if n == 0 or rng.random() < 0.7:
            lines += rng.choice([[], [f"int use_pg{k};"]]) + [f"#define {x}" + rng.choice(["", " 1"]), _inc(key, hdr)]
            if rng.random() < 0.3:
                lines.append(_inc(key, hdr))
                tags.add("pg:thrice")
        else:
            tags.add("pg:interface-only-unit")
        desc["texts"][key] = list(desc["texts"][key]) + lines
    if rng.random() < 0.25:
        # one command defines the section's macro itself: the first inclusion reaches the section as well
        a = ents[rng.choice(idx)]["arguments"]
        a[-2:-2] = [f"-D{x}"]
        tags.add("pg:-D")
    return tags


def add_shapes(rng, desc, shapes=SHAPES):
    """graft the named shapes onto `desc` (in place); returns the sorted list of tags describing what was added"""
    tags = set()
    for s in shapes:
        tags |= {"sel": shape_sel, "dup": shape_dup, "pg": shape_pg}[s](rng, desc)
    return sorted(tags)


def forced_of(args):
    """the -include names of a generated command line, in order"""
    return [args[i + 1] for i in range(1, len(args) - 1) if args[i] == "-include"]


def _flags_of(args):
    """(-I directories in order, -D definitions in order) of a generated command line"""
    dirs, defs = [], []
    i = 1
    while i < len(args):
        a = args[i]
        if a == "-I":
            dirs.append(args[i + 1]); i += 2; continue
        if a.startswith("-I"):
            dirs.append(a[2:])
        elif a == "-D":
            defs.append(args[i + 1]); i += 2; continue
        elif a == "-include":
            i += 2; continue
        elif a.startswith("-D"):
            defs.append(a[2:])
        i += 1
    return dirs, defs


def as_inctree(desc):
    """the code base in the format of the reference preprocessor: one entry per (platform, command)"""
    entries, owner = [], []
    for pname, ents in desc["platforms"].items():
        for e, m in zip(ents, desc["dbmeta"][pname]):
            if m["missing"]:
                continue
            dirs, defs = _flags_of(e["arguments"])
            for pdefs in m.get("passes") or [[]]:
                entries.append({"file": posixpath.normpath(e["file"]), "directory": ".", "flags": [["I", posixpath.normpath(d)] for d in dirs],
                                "defines": defs + list(pdefs), "forced": forced_of(e["arguments"])})
                owner.append(pname)
    files = {posixpath.normpath(p): b for p, b in desc["texts"].items()}
    return {"files": files, "links": [], "entries": entries}, owner


def expected(desc, root):
    """Counter of expected events.  Keys:
    ("user"|"system", abs file, line, name)   one per evaluated include directive that resolves to no file
    ("user", abs source file, 0, name)         one per -include option that resolves to no file
    ("directive", abs file, line, name)        one per occurrence of an unknown directive in a parsed file
    ("missing", abs path) ("compiler", name) ("args", "joined flags") ("nofiles", db path)"""
    root = str(root)
    ev = collections.Counter()
    d2, owner = as_inctree(desc)
    for k in range(len(d2["entries"])):
        r = IT.ref_run(d2, k, "src", keep_first=True)
        src = os.path.normpath(os.path.join(root, d2["entries"][k]["file"]))
        for f, ln, name, form, res in r["lookups"]:
            if res is None and form == "forced":
                # a -include that resolves to no file: reported against the entry's source file, line 0, user kind
                ev[("user", src, 0, name)] += 1
            elif res is None:
                ev[(form, os.path.join(root, f), ln, name)] += 1
    for p, body in desc["texts"].items():
        if not p.endswith(IT.SRC_EXT):
            continue
        for ln, text in enumerate(body, 1):
            m = re.match(r"\s*#\s*([A-Za-z_]\w*)", text)
            if m and m.group(1) not in ("define", "undef", "include", "if", "ifdef", "ifndef", "elif", "else", "endif", "pragma") \
                    and m.group(1) not in SILENT_DIRECTIVES:
                ev[("directive", os.path.join(root, os.path.normpath(p)), ln, m.group(1))] += 1
    for pname, ents in desc["platforms"].items():
        live = 0
        for e, m in zip(ents, desc["dbmeta"][pname]):
            path = os.path.normpath(os.path.join(root, e.get("builddir", ""), e["file"]))
            if m["missing"]:
                ev[("missing", path)] += 1
                continue
            live += 1
            if not m["known"]:
                ev[("compiler", m["compiler"])] += 1
            if m["unrecognised"]:
                ev[("args", " ".join(m["unrecognised"]))] += 1
        if live == 0:
            ev[("nofiles", os.path.join(root, f"{pname}.json"))] += 1
    return ev


PATTERNS = [
    ("include", re.compile(r"^(?P<file>.*?):(?P<line>\d+): (?P<form>user|system) include '(?P<name>.*?)' not found\n\s*(?P<l2>\d+) \| (?P<sp>.*)$", re.S)),
    ("directive", re.compile(r"^(?P<file>.*?):(?P<line>\d+):(?P<col>\d+): unrecognized directive '\[(?P<sp>.*)\]'$", re.S)),
    ("missing", re.compile(r"^Ignoring non-existent file: (?P<name>.*)$")),
    ("compiler", re.compile(r"^Compiler '(?P<name>.*)' not recognized\.$")),
    ("args", re.compile(r"^Unrecognized arguments: '(?P<name>.*)'$")),
    ("nofiles", re.compile(r"^No files found in compilation database at '(?P<name>.*)'\.\n", re.S)),
]


def use_templates(tmpl):
    """rebuild PATTERNS from the message templates regenerated out of the code (driver op `warntemplates`), so that an
    edit of a message text that keeps naming the event is not mistaken for a lost warning"""
    global PATTERNS
    pats = []
    try:
        ph = tmpl["phrases"]
        for kind in ("include", "directive", "missing", "compiler", "args", "nofiles"):
            rx, seen = "^", set()
            pieces = tmpl[kind]
            for i, pc in enumerate(pieces):
                last = i == len(pieces) - 1
                if pc[0] == "lit":
                    rx += re.escape(pc[1])
                    continue
                a, w = pc[1], pc[2]
                if a == "file":
                    rx += "(?P<file>.*?)"
                elif a == "line":
                    rx += r"(?P<line>\d+)" if "line" not in seen else r"\s*(?P<l2>\d+)"
                elif a == "col":
                    rx += r"(?P<col>\d+)"
                elif a == "kind":
                    rx += "(?P<form>" + "|".join(re.escape(ph[k]) for k in ("user", "system")) + ")"
                elif a == "name":
                    rx += "(?P<name>.*)" if last else "(?P<name>.*?)"
                elif a == "spelling":
                    rx += "(?P<sp>.*)"
                elif a == "spellingList":
                    rx += r"\[(?P<sp>.*)\]"
                else:
                    return False
                seen.add(a)
            pats.append((kind, re.compile(rx + "$", re.S), {ph["user"]: "user", ph["system"]: "system"}))
    except (KeyError, TypeError, IndexError, re.error):
        return False
    PATTERNS = pats
    return True


def classify_message(msg):
    """log message -> event key (as in `expected`) + details, or None for a message of no known kind"""
    for ent in PATTERNS:
        kind, pat = ent[0], ent[1]
        m = pat.match(msg)
        if not m:
            continue
        g = m.groupdict()
        if kind == "include":
            quote = (g.get("sp") or "").split("include", 1)[-1].strip()[:1]
            form = ent[2].get(g["form"], g["form"]) if len(ent) > 2 else g["form"]
            return (form, g["file"], int(g["line"]), g["name"]), {"line2": int(g.get("l2") or g["line"]), "spelling": g.get("sp") or "", "delim": quote}
        if kind == "directive":
            sp = g["sp"][1:-1] if len(g["sp"]) >= 2 else g["sp"]
            mm = re.match(r"\s*#\s*(\S+)", sp)
            return ("directive", g["file"], int(g["line"]), mm.group(1) if mm else ""), {"col": int(g["col"]), "spelling": sp}
        return (kind, g["name"]), {}
    return None
