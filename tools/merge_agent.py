#!/venv/bin/python
"""merge_agent.py <name> PROP... : copy the agent's NEW files (except stale prototypes and shared files), merge
known findings of the given properties, apply 'deleted prototype' removals listed with --rm."""
import os, shutil, subprocess, sys, filecmp
name = sys.argv[1]
props = [a for a in sys.argv[2:] if not a.startswith("--")]
src = f"/tmp/ag_{name}/verif"; dst = "/verif"
SKIP = {".lake", "__pycache__", "replays", ".git", "evidence", "seeded"}
REMOVED = {l.strip() for l in open("/verif/tools/removed_prototypes.txt") if l.strip()}
NEVER = REMOVED | {"lean/CbiVerif/Metrics.lean", "lean/CbiVerif.lean", "lean/Driver.lean", "MANIFEST.json", "DESIGN.md",
         "known_findings.json", "harness/core.py", "harness/main.py", "tools/mk_manifest.py", "harness/props/c07.py"}
n = 0
for root, dirs, files in os.walk(src):
    dirs[:] = [d for d in dirs if d not in SKIP]
    for f in files:
        if f.endswith(".pyc") or f == ".build.lock":
            continue
        s = os.path.join(root, f); rel = os.path.relpath(s, src); d = os.path.join(dst, rel)
        if rel in NEVER:
            continue
        if not os.path.exists(d):
            os.makedirs(os.path.dirname(d), exist_ok=True); shutil.copy2(s, d); n += 1; print("  +", rel)
        elif not filecmp.cmp(s, d, shallow=False):
            print("  ! differs (not copied):", rel)
print("copied", n)
subprocess.run(["/verif/tools/merge_kf.py", name] + props)
# driver registration lines
for line in open(f"{src}/lean/Driver.lean"):
    if line.startswith("import ") and line not in open(f"{dst}/lean/Driver.lean").read():
        print("  driver import to add:", line.strip())
