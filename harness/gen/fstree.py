"""Random directory trees with symbolic links, gitignore pattern lists, path spellings,
the `git check-ignore` oracle and the file-system description handed to the Lean model.

Used by C09 (membership / enumeration) and C15 (aliases).  All randomness comes from `rng`.
Everything is created below a scratch directory `base`:  `base/t` is the region the code-base
roots are chosen from, `base/out` lies outside every root.
"""
from __future__ import annotations

import errno
import os
import stat
import subprocess

SRC_EXT = [".c", ".h", ".cpp", ".hpp", ".f90", ".F90", ".F", ".f", ".S", ".s", ".cu", ".c++", ".h++",
           ".asm", ".inc", ".cl", ".FOR", ".cc", ".hh", ".ftn", ".FPP"]
NON_EXT = ["", ".txt", ".o", ".C", ".H", ".CPP", ".Cpp", ".f95", ".F95", ".py", ".c ", ".cc~", ".for",
           ".Asm", ".", ".F9", ".f9O", ".hpp2", ".CU"]
STEMS = ["a", "b", "main", "a b", "x[1]", "st*r", "q?", "#x", "!x", "x.y", "a.tar", ".hid", " lead",
         "trail ", "x\\y", "a.c", "util", "k", "[ab]", "a*", "é", "m-1", "{x}", "a,b"]
DOT_STEMS = ["", ".", ".."]  # -> ".c" (no suffix), "..c", "...c"
DIRS = ["src", "sub", "a b", "x[1]", "st*r", "q?", "dir.c", ".hid", "#h", "!bang", "inc", "deep", "u.h", "[d]", "b"]


# --------------------------------------------------------------------------
# trees
# --------------------------------------------------------------------------
def gen_tree(rng, base, loops=False, dotnames=True, nfiles=(4, 12)):
    """Create a random tree below `base` (which must exist and be canonical).
    Returns the list of directories (relative to base, 't' first)."""
    base = str(base)
    dirs = ["t"]
    for _ in range(rng.randint(1, 6)):
        parent = rng.choice(dirs)
        if parent.count("/") >= 3:
            continue
        d = parent + "/" + rng.choice(DIRS)
        if d not in dirs:
            dirs.append(d)
    outdirs = ["out"] + (["out/" + rng.choice(DIRS)] if rng.random() < 0.5 else [])
    for d in dirs + outdirs:
        os.makedirs(os.path.join(base, d), exist_ok=True)
    files = []

    def mk_name():
        r = rng.random()
        if dotnames and r < 0.06:
            return rng.choice(DOT_STEMS) + rng.choice(SRC_EXT)
        stem = rng.choice(STEMS)
        if r < 0.72:
            return stem + rng.choice(SRC_EXT)
        if r < 0.8:
            return stem + rng.choice(SRC_EXT) + rng.choice(SRC_EXT + NON_EXT)  # a.c.h, a.c.txt
        return stem + rng.choice(NON_EXT)

    for i in range(rng.randint(*nfiles)):
        d = rng.choice(dirs if rng.random() < 0.85 else outdirs)
        p = d + "/" + mk_name()
        full = os.path.join(base, p)
        if os.path.lexists(full):
            continue
        with open(full, "w") as f:
            f.write(f"int v{i};\n")
        files.append(p)
    # hard links: a second directory entry for the same inode is an ordinary regular file for every rule of the
    # property (two member files that happen to share their bytes); scan() reports them as plain files
    if files and rng.random() < 0.4:
        for _ in range(rng.randint(1, 2)):
            tgt = rng.choice(files)
            d = rng.choice(dirs)
            p = d + "/" + rng.choice(["hl_", "h "]) + os.path.basename(tgt)
            full = os.path.join(base, p)
            if not os.path.lexists(full):
                try:
                    os.link(os.path.join(base, tgt), full)
                    files.append(p)
                except OSError:
                    pass
    # symbolic links
    links = []
    alld = dirs + outdirs

    def add_link(p, target):
        full = os.path.join(base, p)
        if os.path.lexists(full):
            return
        os.symlink(target, full)
        links.append(p)

    def rel_or_abs(p, frm_dir):
        if rng.random() < 0.3:
            return os.path.join(base, p)
        return os.path.relpath(os.path.join(base, p), os.path.join(base, frm_dir))

    for _ in range(rng.randint(0, 6)):
        d = rng.choice(alld if rng.random() < 0.2 else dirs)
        kind = rng.random()
        if kind < 0.4 and files:  # link to a file (name may or may not carry a source extension)
            tgt = rng.choice(files)
            nm = rng.choice(["l_", "ln "]) + rng.choice(["", "x"]) + rng.choice(
                [os.path.basename(tgt), "k.c", "k.txt", "k", "k.h"])
            add_link(d + "/" + nm, rel_or_abs(tgt, d))
        elif kind < 0.5 and links:  # link to a link
            tgt = rng.choice(links)
            add_link(d + "/" + rng.choice(["ll.c", "ll", "ll.h"]), rel_or_abs(tgt, d))
        elif kind < 0.6:  # dangling
            add_link(d + "/" + rng.choice(["dang.c", "dang", "dang.h"]), rng.choice(["nowhere.c", "../nowhere/x.c", "/nonexistent/x.c"]))
        elif kind < 0.85:  # directory link
            tgt = rng.choice(alld + ["."])
            tp = tgt if tgt != "." else d
            add_link(d + "/" + rng.choice(["dl", "dl.c", "d l", "dl2"]), rel_or_abs(tp, d))
        else:  # link to the parent / itself-as-directory
            add_link(d + "/" + rng.choice(["up", "self"]), rng.choice(["..", ".", "../.."]))
    if loops:
        for _ in range(rng.randint(1, 3)):
            d = rng.choice(dirs)
            k = rng.random()
            n1, n2 = rng.choice([("lp1.c", "lp2.c"), ("lpa", "lpb.h"), ("lp x.c", "lp y")])
            if k < 0.4:
                add_link(d + "/" + n1, n2)
                add_link(d + "/" + n2, n1)
            elif k < 0.6:
                add_link(d + "/" + n1, n1)
            elif k < 0.8:
                add_link(d + "/" + n1, os.path.join(base, d, n2))
                add_link(d + "/" + n2, "./" + n1 + "/x.c")
            else:
                add_link(d + "/" + n1, "../" + os.path.basename(d) + "/" + n1)
    return dirs


def scan(base):
    """[(path relative to base, kind 'f'|'d'|'l', link target or None)] by lstat, not following links."""
    out = []
    base = str(base)

    def rec(rel):
        full = os.path.join(base, rel) if rel else base
        for nm in sorted(os.listdir(full)):
            r = rel + "/" + nm if rel else nm
            st = os.lstat(os.path.join(base, r))
            if stat.S_ISLNK(st.st_mode):
                out.append((r, "l", os.readlink(os.path.join(base, r))))
            elif stat.S_ISDIR(st.st_mode):
                out.append((r, "d", None))
                rec(r)
            else:
                out.append((r, "f", None))

    rec("")
    return out


def fs_description(base, entries=None):
    """The file system as the Lean model sees it: every ancestor of `base` is a directory,
    below `base` exactly what `scan` found.  Paths are absolute strings."""
    base = str(base)
    entries = scan(base) if entries is None else entries
    out = []
    parts = [p for p in base.split("/") if p]
    for i in range(1, len(parts) + 1):
        out.append({"p": "/" + "/".join(parts[:i]), "k": "d"})
    for r, k, t in entries:
        e = {"p": base + "/" + r, "k": k}
        if k == "l":
            e["t"] = t
        out.append(e)
    return out


# --------------------------------------------------------------------------
# the operating system's view of a path (independent of pathlib / codebasin)
# --------------------------------------------------------------------------
def os_resolve(p):
    """('file'|'dir'|'other', canonical path) | ('enoent'|'enotdir'|'loop'|'err:<n>', None); follows links (stat)."""
    try:
        st = os.stat(p)
    except OSError as e:
        if e.errno == errno.ENOENT:
            return "enoent", None
        if e.errno == errno.ENOTDIR:
            return "enotdir", None
        if e.errno == errno.ELOOP:
            return "loop", None
        return f"err:{e.errno}", None
    real = os.path.realpath(p)
    kind = "file" if stat.S_ISREG(st.st_mode) else "dir" if stat.S_ISDIR(st.st_mode) else "other"
    return kind, real


def suffix_of(name):
    """the extension after the last dot of a file name: the dot must not be the first
    or the last character of the name (pathlib's reading)"""
    i = name.rfind(".")
    if 0 < i < len(name) - 1:
        return name[i:]
    return ""


# --------------------------------------------------------------------------
# spellings
# --------------------------------------------------------------------------
def dir_aliases(base, entries):
    """{canonical absolute directory: [absolute link paths that resolve to it]} for links under base"""
    al = {}
    for r, k, t in entries:
        if k != "l":
            continue
        full = os.path.join(base, r)
        kind, real = os_resolve(full)
        if kind == "dir":
            al.setdefault(real, []).append(full)
    return al


def spellings(rng, base, target_abs, cwd, aliases, subdirs, n=4):
    """Different spellings of the (lexically absolute, link-free-parent) path `target_abs`, all of
    which the OS resolves to the same object as `target_abs` (or fails in the same way)."""
    out = [target_abs, os.path.relpath(target_abs, cwd)]
    for _ in range(n):
        parts = target_abs.split("/")[1:]
        # replace a directory prefix by a link resolving to it
        if aliases and rng.random() < 0.6:
            cands = []
            for i in range(1, len(parts)):
                pre = "/" + "/".join(parts[:i])
                for a in aliases.get(pre, []):
                    cands.append((i, a))
            if cands:
                i, a = rng.choice(cands)
                parts = a.split("/")[1:] + parts[i:]
        # insert x/.. , ./ and // at directory positions
        res = []
        nbase = len([x for x in str(base).split("/") if x])
        for i, c in enumerate(parts):
            res.append(c)
            # only below `base`, so that the scratch prefix stays literally in the spelling (replays substitute it)
            if nbase - 1 <= i < len(parts) - 1:
                pre = "/" + "/".join(res)
                r = rng.random()
                if r < 0.12:
                    res.append(".")
                elif r < 0.2:
                    res.append("")
                elif r < 0.4:
                    # existing real sub-directory of the canonical version of `pre`
                    kind, real = os_resolve(pre)
                    subs = subdirs.get(real, []) if kind == "dir" else []
                    if subs:
                        res += [rng.choice(subs), ".."]
        s = "/" + "/".join(res)
        if rng.random() < 0.5:
            # relative to cwd, textually (cwd is canonical, so this is safe)
            s2 = os.path.relpath(target_abs, cwd)
            if rng.random() < 0.5 and s.startswith(cwd + "/"):
                s2 = s[len(cwd) + 1:]
            elif rng.random() < 0.5:
                up = cwd.count("/")
                s2 = "/".join([".."] * up) + s
            s = s2
        out.append(s)
    seen = []
    for s in out:
        if s not in seen:
            seen.append(s)
    return seen


def real_subdirs(base, entries):
    """{canonical absolute directory: [names of real (non-link) sub-directories]} below base (+ base itself)"""
    sub = {}
    for r, k, t in entries:
        if k == "d":
            full = os.path.join(base, r)
            sub.setdefault(os.path.dirname(full), []).append(os.path.basename(full))
    return sub


# --------------------------------------------------------------------------
# gitignore pattern lists
# --------------------------------------------------------------------------
GLOB_SPECIAL = set("*?[]\\")


def esc(name, rng=None):
    """gitignore-escape a literal file name"""
    out = ""
    for i, ch in enumerate(name):
        if ch in GLOB_SPECIAL or (i == 0 and ch in "#!"):
            out += "\\" + ch
        else:
            out += ch
    if out.endswith(" "):
        out = out[:-1] + "\\ "
    return out


def gen_patterns(rng, relfiles, reldirs, n=(0, 6)):
    """A random list of gitignore lines built from the names that occur in the tree.
    relfiles / reldirs: root-relative paths ('sub/a b.c')."""
    pats = []
    names = sorted(set(os.path.basename(f) for f in relfiles)) or ["a.c"]
    dnames = sorted(set(os.path.basename(d) for d in reldirs if d)) or ["sub"]
    exts = sorted(set(suffix_of(n_) for n_ in names if suffix_of(n_))) or [".c"]

    def one():
        r = rng.random()
        if r < 0.14:
            return "*" + esc(rng.choice(exts))
        if r < 0.22:
            return esc(rng.choice(names))
        if r < 0.30 and relfiles:
            f = rng.choice(relfiles)
            return rng.choice(["/", "", ""]) + "/".join(esc(c) for c in f.split("/"))
        if r < 0.40:
            d = rng.choice(dnames)
            return rng.choice(["", "/", "**/"]) + esc(d) + "/"
        if r < 0.46 and reldirs:
            d = rng.choice([d for d in reldirs if d] or ["sub"])
            return "/".join(esc(c) for c in d.split("/")) + rng.choice(["/*", "/**", "/*" + esc(rng.choice(exts)), "/", "/**/*" + esc(rng.choice(exts))])
        if r < 0.52:
            return "**/" + esc(rng.choice(names))
        if r < 0.58 and relfiles:
            f = rng.choice(relfiles).split("/")
            if len(f) >= 2:
                return esc(f[0]) + "/**/" + esc(f[-1])
            return "/" + esc(f[0])
        if r < 0.66:
            nm = rng.choice(names)
            i = rng.randrange(len(nm))
            if nm[i] in "/":
                return esc(nm)
            return esc(nm[:i]) + "?" + esc(nm[i + 1:]) if i > 0 else "?" + esc(nm[1:])
        if r < 0.74:
            nm = rng.choice(names)
            i = rng.randrange(len(nm))
            ch = nm[i]
            if ch in "]\\^-!/[":
                return esc(nm)
            cls = rng.choice([f"[{ch}]", f"[!{ch}]", "[a-c]", "[!a-c]", f"[{ch}z]", "[a-zA-Z]", "[0-9]"])
            return esc(nm[:i]) + cls + esc(nm[i + 1:]) if i > 0 else cls + esc(nm[1:])
        if r < 0.78:
            return rng.choice(["# comment", "#" + rng.choice(names), "", "   ", "#"])
        if r < 0.82:
            return rng.choice(["*", "/*", "**", "*/", "/**", "*/*", "?*", "*.*", "*.[ch]", "*.[a-z]*", "**/*.h", "/*.c", "*.?"])
        if r < 0.86:
            nm = rng.choice(names)
            return esc(nm) + rng.choice([" ", "  ", "\\ "])  # trailing blanks (ignored unless escaped)
        if r < 0.90:
            d = rng.choice(dnames)
            return esc(d)  # directory named without the trailing slash
        if r < 0.94:
            nm = rng.choice(names)
            return nm  # unescaped: metacharacters act as glob syntax
        return esc(rng.choice(names)[:1]) + "*"

    for _ in range(rng.randint(*n)):
        p = one()
        if rng.random() < 0.22 and p.strip() and not p.startswith("#"):
            p = "!" + p
        pats.append(p)
    return pats


# --------------------------------------------------------------------------
# git as the reference for the pattern language
# --------------------------------------------------------------------------
class GitOracle:
    """`git check-ignore --no-index --stdin -z` on a work tree, with the pattern list installed as
    that work tree's top-level ignore file (`$GIT_DIR/info/exclude`, which git reads exactly like a
    `.gitignore` in the top directory) so that nothing is written into the tree under test."""

    def __init__(self, scratch):
        self.home = os.path.join(str(scratch), "_git")
        os.makedirs(self.home, exist_ok=True)
        self.env = dict(os.environ, GIT_CONFIG_GLOBAL="/dev/null", GIT_CONFIG_NOSYSTEM="1", HOME=self.home,
                        GIT_CONFIG_SYSTEM="/dev/null", LC_ALL="C")
        for k in ("GIT_DIR", "GIT_WORK_TREE", "GIT_INDEX_FILE"):
            self.env.pop(k, None)
        subprocess.run(["git", "init", "-q", self.home], check=True, env=self.env, capture_output=True)
        self.gitdir = os.path.join(self.home, ".git")
        subprocess.run(["git", "--git-dir", self.gitdir, "config", "core.excludesFile", "/dev/null"], check=True, env=self.env)
        subprocess.run(["git", "--git-dir", self.gitdir, "config", "core.ignoreCase", "false"], check=True, env=self.env)
        subprocess.run(["git", "--git-dir", self.gitdir, "config", "core.quotePath", "false"], check=True, env=self.env)
        self.calls = 0

    def ignored(self, root, patterns, relpaths, as_dotgitignore=False):
        """subset of `relpaths` (root-relative, existing, no symlinked component) that git ignores"""
        relpaths = list(relpaths)
        if not relpaths:
            return set()
        text = "".join(p + "\n" for p in patterns)
        excl = os.path.join(self.gitdir, "info", "exclude")
        gi = os.path.join(root, ".gitignore")
        if as_dotgitignore:
            with open(gi, "w", encoding="utf-8") as f:
                f.write(text)
            open(excl, "w").close()
        else:
            os.makedirs(os.path.dirname(excl), exist_ok=True)
            with open(excl, "w", encoding="utf-8") as f:
                f.write(text)
        try:
            inp = b"".join(os.fsencode(p) + b"\0" for p in relpaths)
            p = subprocess.run(
                ["git", "--git-dir", self.gitdir, "--work-tree", root, "check-ignore", "--no-index", "--stdin", "-z"],
                input=inp, capture_output=True, env=self.env, cwd=root)
            self.calls += 1
            if p.returncode not in (0, 1):
                raise RuntimeError("git check-ignore failed: " + p.stderr.decode(errors="replace")[:300])
            return set(os.fsdecode(x) for x in p.stdout.split(b"\0") if x)
        finally:
            if as_dotgitignore:
                os.unlink(gi)


# --------------------------------------------------------------------------
# pathspec (what the implementation uses) against git, and the recorded classes of disagreement
# --------------------------------------------------------------------------
def pathspec_ignored(patterns, rel):
    """True/False, or 'EXC:<type>' when pathspec rejects the pattern list"""
    import pathspec

    try:
        return bool(pathspec.GitIgnoreSpec.from_lines(list(patterns)).match_file(rel))
    except Exception as e:  # noqa
        return "EXC:" + type(e).__name__


def minimise_patterns(git, root, patterns, rel):
    """1-minimal sub-list of `patterns` on which pathspec and git still disagree about `rel`"""

    def dis(ps):
        return (rel in git.ignored(root, ps, [rel])) != pathspec_ignored(ps, rel)

    cur = list(patterns)
    i = 0
    while i < len(cur):
        t = cur[:i] + cur[i + 1:]
        if dis(t):
            cur = t
        else:
            i += 1
    return cur


def classify_gitignore(git, root, patterns, rel):
    """Name the recorded class a pathspec/git disagreement about `rel` belongs to (None = unrecorded).
    The decision is taken on the 1-minimal core of the pattern list."""
    import re

    core = minimise_patterns(git, root, patterns, rel)
    g = rel in git.ignored(root, core, [rel])
    p = pathspec_ignored(core, rel)
    info = {"core": core, "git": g, "pathspec": p, "path": rel}
    if isinstance(p, str):
        if any(re.search(r"\\ +$", l) and not l.endswith("\\ ") for l in core):
            return "F-C09-GI-E", info
        return None, info
    if any(l[:1] in (" ", "\t") and l.strip() for l in core):
        return "F-C09-GI-B", info
    if any(ord(ch) > 127 for ch in rel) and any(("?" in l or "[" in l) for l in core):
        return "F-C09-GI-C", info
    if g and not p and any(l.startswith("!") for l in core):
        parts = rel.split("/")
        anc = ["/".join(parts[:i]) for i in range(1, len(parts))]
        if anc and git.ignored(root, core, anc):
            return "F-C09-GI-A", info
        for l in core:
            # a negated pattern that (as a positive pattern) matches an ancestor directory of the file
            if l.startswith("!") and anc and git.ignored(root, [l[1:]], anc):
                return "F-C09-GI-D", info
    return None, info
