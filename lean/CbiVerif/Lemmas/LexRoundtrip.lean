import CbiVerif.PP.Lexer
/-!
# The lexer reads back what a white-space separated token list spells (C02, tie between text and tokens)

`tokenize` of the text in which every token of a list is preceded and followed by one blank is that
list again (kinds and texts; `prev_white` set), for every list of tokens of the classes that occur in
`#if` expressions: integer constants (pp-numbers made of letters, digits, `_`), plain and
backslash-escaped character constants, identifiers, the operators of the REGENERATED table
`Gen.lexOperators` and the two parentheses.  The per-operator facts (`longest match first`: no earlier
entry of the list is a prefix of a later one that the text spells) are closed by `decide` over the
regenerated lists, so a reordering of `Lexer.operator` in the code breaks this file.
Core Lean only.
-/
namespace CbiVerif.LexRT
open CbiVerif.PP

def wordChar (c : Char) : Bool := isAlpha c || isDigit c || c == '_'
def identChar (c : Char) : Bool := isAlnum c || c == '_'

/-- the characters of a token as written in the source text -/
def spellChars (t : Tok) : List Char :=
  match t.kind with
  | .chr => '\'' :: (t.text.toList ++ ['\''])
  | _ => t.text.toList

/-- first character of an operator / punctuator spelling: no other token class starts with it -/
def symStart (c : Char) : Bool :=
  !isDigit c && c != '.' && c != '\'' && c != '"' && !identChar c && !isWs c

def numOK (s : List Char) : Bool :=
  match s with
  | d :: w => isDigit d && !isWs d && w.all wordChar
  | [] => false

def identOK (s : List Char) : Bool :=
  match s with
  | c :: w => !isDigit c && c != '.' && c != '\'' && c != '"' && !isWs c && identChar c && w.all identChar
  | [] => false

/-- between the quotes: `c`; `\c` (one printable character); `\ooo` (one to three octal digits); `\xh…` -/
def chrOK (s : List Char) : Bool :=
  match s with
  | [c] => isPrintable c && c != '\\' && c != '\''
  | '\\' :: c :: r =>
    (r.isEmpty && isPrintable c) ||
    (isOctDigit c && decide (r.length ≤ 2) && r.all isOctDigit) ||
    (c == 'x' && !r.isEmpty && r.all isHexDigit)
  | _ => false

def opOK (s : List Char) (txt : String) : Bool :=
  match s with
  | c :: _ => symStart c && matchAny (s ++ [' ']) operators == some txt
  | [] => false

def punctOK (s : List Char) (txt : String) : Bool :=
  match s with
  | c :: _ => symStart c && matchAny (s ++ [' ']) operators == none && matchAny (s ++ [' ']) punctuators == some txt
  | [] => false

/-- the token classes of `#if` expressions the round trip is proved for -/
def lexOK (t : Tok) : Bool :=
  match t.kind with
  | .num => numOK t.text.toList
  | .chr => chrOK t.text.toList
  | .ident => identOK t.text.toList
  | .op => opOK t.text.toList t.text
  | .punct => punctOK t.text.toList t.text
  | _ => false

/-- what the lexer returns for the token: `prev_white` set, expandable -/
def norm (t : Tok) : Tok := ⟨t.kind, t.text, true, true⟩

/-- every token followed by one blank -/
def spacedAfter (ts : List Tok) : List Char := ts.flatMap fun t => spellChars t ++ [' ']
/-- the text: a blank, then every token followed by a blank -/
def text (ts : List Tok) : String := String.ofList (' ' :: spacedAfter ts)

/-! ## facts about the regenerated tables (closed by evaluation) -/

theorem exp_shape : (exponents.all fun e => match e.toList with
    | [a, b] => isAlpha a && (b == '+' || b == '-') | _ => false) = true := by decide
theorem ops_no_blank : (operators.all fun l => !l.toList.contains ' ') = true := by decide
theorem puncts_no_blank : (punctuators.all fun l => !l.toList.contains ' ') = true := by decide

/-! ## generic list lemmas -/

theorem isPrefixOf_sep (sep : Char) (l o rest : List Char) (h : l.contains sep = false) :
    l.isPrefixOf (o ++ sep :: rest) = l.isPrefixOf o := by
  induction l generalizing o with
  | nil => simp
  | cons a l ih =>
    have ha : (a == sep) = false := by
      cases hh : (a == sep)
      · rfl
      · simp only [beq_iff_eq] at hh; subst hh; simp at h
    have hl : l.contains sep = false := by
      cases hh : l.contains sep
      · rfl
      · simp only [List.contains_eq_mem, decide_eq_true_eq] at hh
        simp [hh] at h
    cases o with
    | nil => simp [List.isPrefixOf, ha]
    | cons b o => simp only [List.cons_append, List.isPrefixOf]; rw [ih o hl]

theorem matchAny_sep (lits : List String) (o rest : List Char)
    (h : (lits.all fun l => !l.toList.contains ' ') = true) :
    matchAny (o ++ ' ' :: rest) lits = matchAny (o ++ [' ']) lits := by
  unfold matchAny
  induction lits with
  | nil => rfl
  | cons l lits ih =>
    simp only [List.all_cons, Bool.and_eq_true, Bool.not_eq_eq_eq_not, Bool.not_true] at h
    have e1 : startsWithL (o ++ ' ' :: rest) l.toList = l.toList.isPrefixOf o := isPrefixOf_sep ' ' _ _ _ h.1
    have e2 : startsWithL (o ++ [' ']) l.toList = l.toList.isPrefixOf o := isPrefixOf_sep ' ' _ _ _ h.1
    simp only [List.find?_cons, e1, e2]
    cases l.toList.isPrefixOf o
    · exact ih h.2
    · rfl

theorem takeWhile_stop (p : Char → Bool) (l : List Char) (a : Char) (r : List Char)
    (hl : l.all p = true) (ha : p a = false) : (l ++ a :: r).takeWhile p = l := by
  induction l with
  | nil => simp [List.takeWhile, ha]
  | cons b l ih =>
    simp only [List.all_cons, Bool.and_eq_true] at hl
    simp [List.takeWhile, hl.1, ih hl.2]

/-! ## the candidates of `tokenize_one` -/

theorem exp_contains (c c2 : Char) (h : exponents.contains (String.ofList [c, c2]) = true) :
    isAlpha c = true ∧ (c2 = '+' ∨ c2 = '-') := by
  have hs := exp_shape
  rw [List.all_eq_true] at hs
  have hm : String.ofList [c, c2] ∈ exponents := by simpa using h
  have := hs _ hm
  simp only [String.toList_ofList, Bool.and_eq_true, Bool.or_eq_true, beq_iff_eq] at this
  exact this

theorem wordChar_not_sign (c : Char) (h : wordChar c = true) : ¬ (c = '+' ∨ c = '-') := by
  rintro (e | e) <;> subst e <;> exact absurd h (by decide)

theorem number_go (w : List Char) (rest : List Char) (hw : w.all wordChar = true) :
    ∀ (fuel : Nat) (acc : List Char), w.length + 1 ≤ fuel →
      lexNumber.go fuel acc (w ++ ' ' :: rest) = (acc ++ w, ' ' :: rest) := by
  induction w with
  | nil =>
    intro fuel acc hf
    match fuel, hf with
    | f + 1, _ =>
      have e : (isAlpha ' ' || isDigit ' ' || ' ' == '_' || ' ' == '.') = false := by decide
      simp only [List.nil_append, lexNumber.go, List.append_nil]
      cases rest with
      | nil => simp only [e, Bool.false_eq_true, ↓reduceIte]
      | cons c2 r2 =>
        have : exponents.contains (String.ofList [' ', c2]) = false := by
          cases hh : exponents.contains (String.ofList [' ', c2])
          · rfl
          · exact absurd (exp_contains _ _ hh).1 (by decide)
        simp only [this, e, Bool.false_eq_true, ↓reduceIte]
  | cons c w ih =>
    intro fuel acc hf
    simp only [List.all_cons, Bool.and_eq_true] at hw
    match fuel, hf with
    | f + 1, hf =>
      have hf' : w.length + 1 ≤ f := by simp at hf; omega
      have hwc : (isAlpha c || isDigit c || c == '_' || c == '.') = true := by
        have := hw.1; unfold wordChar at this; simp only [Bool.or_eq_true] at this ⊢; exact Or.inl this
      -- the character after `c`
      have key : ∀ (c2 : Char) (r2 : List Char), w ++ ' ' :: rest = c2 :: r2 →
          exponents.contains (String.ofList [c, c2]) = false := by
        intro c2 r2 e
        cases hh : exponents.contains (String.ofList [c, c2])
        · rfl
        · have hs := (exp_contains _ _ hh).2
          cases w with
          | nil => simp at e; rw [← e.1] at hs; exact absurd hs (by decide)
          | cons d w' =>
            simp at e; rw [← e.1] at hs
            simp only [List.all_cons, Bool.and_eq_true] at hw
            exact absurd hs (wordChar_not_sign d hw.2.1)
      simp only [List.cons_append, lexNumber.go]
      cases hr : w ++ ' ' :: rest with
      | nil => simp at hr
      | cons c2 r2 =>
        simp only [key c2 r2 hr, Bool.false_eq_true, ↓reduceIte, hwc]
        rw [← hr, ih hw.2 f (acc ++ [c]) hf']
        simp

theorem lexNumber_eq (c : Char) (r : List Char) (h2 : c ≠ '.') :
    lexNumber (c :: r) = if isDigit c = true then some (lexNumber.go ((c :: r).length + 1) [c] r) else none := by
  unfold lexNumber
  split
  rename_i x pre s1 heq
  split at heq
  · rename_i r' heq2; simp at heq2; exact absurd heq2.1 h2
  · simp only [Prod.mk.injEq] at heq
    obtain ⟨rfl, rfl⟩ := heq
    simp

theorem lexNumber_num (d : Char) (w rest : List Char) (hd : isDigit d = true) (hw : w.all wordChar = true) :
    lexNumber (d :: (w ++ ' ' :: rest)) = some (d :: w, ' ' :: rest) := by
  have hdot : d ≠ '.' := by intro e; subst e; exact absurd hd (by decide)
  rw [lexNumber_eq d _ hdot]
  simp only [hd, ↓reduceIte]
  rw [number_go w rest hw _ _ (by simp; omega)]
  rfl

theorem lexNumber_none (c : Char) (r : List Char) (h1 : isDigit c = false) (h2 : c ≠ '.') :
    lexNumber (c :: r) = none := by
  rw [lexNumber_eq c r h2]; simp [h1]

theorem lexChar_none (c : Char) (r : List Char) (h : c ≠ '\'') : lexChar (c :: r) = none := by
  unfold lexChar
  split
  · rename_i heq; simp only [List.cons.injEq] at heq; exact absurd heq.1 h
  · rfl

theorem lexString_none (c : Char) (r : List Char) (h : c ≠ '"') : lexString (c :: r) = none := by
  unfold lexString
  split
  · rename_i heq; simp only [List.cons.injEq] at heq; exact absurd heq.1 h
  · rfl

theorem lexIdent_none (c : Char) (r : List Char) (h : identChar c = false) : lexIdent (c :: r) = none := by
  unfold lexIdent
  have : (isAlnum c || c == '_') = false := h
  by_cases hd : isDigit c = true
  · simp [hd]
  · simp [hd, List.takeWhile, this]

theorem lexIdent_word (c : Char) (w rest : List Char) (hd : isDigit c = false)
    (hc : identChar c = true) (hw : w.all identChar = true) :
    lexIdent (c :: (w ++ ' ' :: rest)) = some (c :: w, ' ' :: rest) := by
  unfold lexIdent
  have htw : ((c :: w) ++ ' ' :: rest).takeWhile (fun c => isAlnum c || c == '_') = c :: w :=
    takeWhile_stop identChar (c :: w) ' ' rest (by simp [hc, hw]) (by decide)
  simp only [List.cons_append] at htw
  simp only [hd, Bool.false_eq_true, ↓reduceIte, htw, List.isEmpty_cons, List.length_cons]
  congr 2
  simp

theorem numericEscape_none (c : Char) (r : List Char) (h : c ≠ '\\') : numericEscape (c :: r) = none := by
  unfold numericEscape
  split
  · rename_i heq; simp only [List.cons.injEq] at heq; exact absurd heq.1 h
  · rfl

theorem quote_not_digit : isOctDigit '\'' = false ∧ isHexDigit '\'' = false := by decide

/-- `\` and one to three octal digits, then the closing quote -/
theorem numericEscape_oct (c : Char) (r rest : List Char) (hc : isOctDigit c = true) (hl : r.length ≤ 2)
    (hr : r.all isOctDigit = true) :
    numericEscape ('\\' :: c :: (r ++ '\'' :: rest)) = some ('\\' :: c :: r, '\'' :: rest) := by
  have hq := quote_not_digit.1
  unfold numericEscape
  simp only [hc, if_true]
  match r, hl, hr with
  | [], _, _ => simp [List.take, List.takeWhile, hc, hq]
  | [a], _, hr =>
    simp only [List.all_cons, List.all_nil, Bool.and_true] at hr
    simp [List.take, List.takeWhile, hc, hq, hr]
  | [a, b], _, hr =>
    simp only [List.all_cons, List.all_nil, Bool.and_true, Bool.and_eq_true] at hr
    simp [List.take, List.takeWhile, hc, hr.1, hr.2]

/-- `\x` and hexadecimal digits, then the closing quote -/
theorem numericEscape_hex (r rest : List Char) (hne : r.isEmpty = false) (hr : r.all isHexDigit = true) :
    numericEscape ('\\' :: 'x' :: (r ++ '\'' :: rest)) = some ('\\' :: 'x' :: r, '\'' :: rest) := by
  have hx : isOctDigit 'x' = false := by decide
  have htw : (r ++ '\'' :: rest).takeWhile isHexDigit = r := takeWhile_stop isHexDigit r '\'' rest hr quote_not_digit.2
  unfold numericEscape
  simp only [hx, Bool.false_eq_true, if_false, beq_self_eq_true, if_true, htw, hne]
  congr 2
  simp

/-- `\x` not followed by a hexadecimal digit is no numeric escape -/
theorem numericEscape_x_quote (rest : List Char) : numericEscape ('\\' :: 'x' :: '\'' :: rest) = none := by
  have hx : isOctDigit 'x' = false := by decide
  unfold numericEscape
  simp [hx, List.takeWhile, quote_not_digit.2]

theorem numericEscape_other (c : Char) (r : List Char) (h1 : isOctDigit c = false) (h2 : c ≠ 'x') :
    numericEscape ('\\' :: c :: r) = none := by
  unfold numericEscape
  simp [h1, h2]

theorem lexChar_plain (c : Char) (rest : List Char) (hp : isPrintable c = true) (hb : c ≠ '\\') :
    lexChar ('\'' :: c :: '\'' :: rest) = some ([c], rest) := by
  unfold lexChar
  simp only [numericEscape_none c _ hb]
  split
  · rename_i c' rest' heq
    simp only [List.cons.injEq] at heq
    exact absurd heq.1 hb
  · rename_i c' rest' _ heq
    simp only [List.cons.injEq, true_and] at heq
    obtain ⟨rfl, rfl⟩ := heq
    have : (c == '\\') = false := by simp [hb]
    simp [this, hp]
  · rename_i h1 h2
    exact absurd rfl (h2 c rest)

/-- a numeric escape followed by the closing quote is one character constant -/
theorem lexChar_numeric (t r1 rest : List Char) (h : numericEscape r1 = some (t, '\'' :: rest)) :
    lexChar ('\'' :: r1) = some (t, rest) := by
  unfold lexChar
  simp only [h]

theorem lexChar_escaped (c : Char) (rest : List Char) (hp : isPrintable c = true) :
    lexChar ('\'' :: '\\' :: c :: '\'' :: rest) = some (['\\', c], rest) := by
  by_cases ho : isOctDigit c = true
  · exact lexChar_numeric _ _ rest (numericEscape_oct c [] rest ho (by simp) rfl)
  · have ho' : isOctDigit c = false := by simpa using ho
    have hn : numericEscape ('\\' :: c :: '\'' :: rest) = none := by
      by_cases hx : c = 'x'
      · subst hx; exact numericEscape_x_quote rest
      · exact numericEscape_other c _ ho' hx
    unfold lexChar
    simp [hn, hp]

/-- every spelling of the class `chrOK` that starts with a backslash -/
theorem lexChar_backslash (c : Char) (r rest : List Char)
    (h : ((r.isEmpty && isPrintable c) || (isOctDigit c && decide (r.length ≤ 2) && r.all isOctDigit) ||
          (c == 'x' && !r.isEmpty && r.all isHexDigit)) = true) :
    lexChar ('\'' :: '\\' :: c :: (r ++ '\'' :: rest)) = some ('\\' :: c :: r, rest) := by
  simp only [Bool.or_eq_true, Bool.and_eq_true, decide_eq_true_eq, beq_iff_eq, Bool.not_eq_eq_eq_not, Bool.not_true,
    List.isEmpty_iff] at h
  rcases h with (⟨rfl, hp⟩ | ⟨⟨ho, hl⟩, hr⟩) | ⟨⟨rfl, hne⟩, hr⟩
  · exact lexChar_escaped c rest hp
  · exact lexChar_numeric _ _ rest (numericEscape_oct c r rest ho hl hr)
  · exact lexChar_numeric _ _ rest (numericEscape_hex r rest (by cases r <;> simp_all) hr)

/-! ## `tokenize_one` on a token followed by a blank -/

theorem symStart_fails (c : Char) (r : List Char) (h : symStart c = true) :
    lexNumber (c :: r) = none ∧ lexChar (c :: r) = none ∧ lexString (c :: r) = none ∧ lexIdent (c :: r) = none := by
  unfold symStart at h
  simp only [Bool.and_eq_true, Bool.not_eq_eq_eq_not, Bool.not_true, bne_iff_ne, ne_eq] at h
  obtain ⟨⟨⟨⟨⟨h1, h2⟩, h3⟩, h4⟩, h5⟩, _⟩ := h
  exact ⟨lexNumber_none c r h1 h2, lexChar_none c r h3, lexString_none c r h4, lexIdent_none c r h5⟩

theorem tokenizeOne_ok (t : Tok) (rest : List Char) (pw : Bool) (h : lexOK t = true) :
    tokenizeOne (spellChars t ++ ' ' :: rest) pw = some (⟨t.kind, t.text, pw, true⟩, ' ' :: rest) := by
  obtain ⟨kind, txt, tpw, tex⟩ := t
  unfold lexOK at h
  cases kind
  case str => simp at h
  case unknown => simp at h
  all_goals simp only [spellChars] at h ⊢
  · -- num
    unfold numOK at h
    cases hs : txt.toList with
    | nil => rw [hs] at h; exact absurd h (by simp)
    | cons d w =>
      rw [hs] at h
      simp only [Bool.and_eq_true, Bool.not_eq_eq_eq_not, Bool.not_true] at h
      have e : txt = String.ofList (d :: w) := by rw [← hs]; simp
      unfold tokenizeOne
      simp only [List.cons_append, lexNumber_num d w rest h.1.1 h.2, e]
  · -- chr
    unfold chrOK at h
    have e : txt = String.ofList txt.toList := by simp
    unfold tokenizeOne
    split at h
    · rename_i c heq
      simp only [Bool.and_eq_true, bne_iff_ne, ne_eq] at h
      have hq : ('\'' : Char) ≠ '.' := by decide
      rw [heq] at e ⊢
      simp only [List.cons_append, List.nil_append]
      rw [lexNumber_none '\'' _ (by decide) hq, lexChar_plain c _ h.1.1 h.1.2, e]
    · rename_i c r heq
      rw [heq] at e ⊢
      simp only [List.cons_append]
      rw [lexNumber_none '\'' _ (by decide) (by decide), List.append_assoc, List.singleton_append,
        lexChar_backslash c r _ h, e]
    · exact absurd h (by simp)
  · -- ident
    unfold identOK at h
    cases hs : txt.toList with
    | nil => rw [hs] at h; exact absurd h (by simp)
    | cons c w =>
      rw [hs] at h
      simp only [Bool.and_eq_true, Bool.not_eq_eq_eq_not, Bool.not_true, bne_iff_ne, ne_eq] at h
      obtain ⟨⟨⟨⟨⟨⟨h1, h2⟩, h3⟩, h4⟩, _⟩, h6⟩, h7⟩ := h
      have e : txt = String.ofList (c :: w) := by rw [← hs]; simp
      unfold tokenizeOne
      simp only [List.cons_append, lexNumber_none c _ h1 h2, lexChar_none c _ h3, lexString_none c _ h4,
        lexIdent_word c w rest h1 h6 h7, e]
  · -- op
    unfold opOK at h
    cases hs : txt.toList with
    | nil => rw [hs] at h; exact absurd h (by simp)
    | cons c w =>
      rw [hs] at h
      simp only [Bool.and_eq_true, beq_iff_eq] at h
      obtain ⟨f1, f2, f3, f4⟩ := symStart_fails c (w ++ ' ' :: rest) h.1
      have hm : matchAny ((c :: w) ++ ' ' :: rest) operators = some txt := by
        rw [matchAny_sep operators (c :: w) rest ops_no_blank]; exact h.2
      have hl : txt.length = (c :: w).length := by rw [← hs]; exact String.length_toList.symm
      unfold tokenizeOne
      simp only [List.cons_append] at hm ⊢
      simp only [f1, f2, f3, f4, hm]
      congr 2
      rw [hl, ← List.cons_append]
      simp
  · -- punct
    unfold punctOK at h
    cases hs : txt.toList with
    | nil => rw [hs] at h; exact absurd h (by simp)
    | cons c w =>
      rw [hs] at h
      simp only [Bool.and_eq_true, beq_iff_eq] at h
      obtain ⟨f1, f2, f3, f4⟩ := symStart_fails c (w ++ ' ' :: rest) h.1.1
      have hm0 : matchAny ((c :: w) ++ ' ' :: rest) operators = none := by
        rw [matchAny_sep operators (c :: w) rest ops_no_blank]; exact h.1.2
      have hm : matchAny ((c :: w) ++ ' ' :: rest) punctuators = some txt := by
        rw [matchAny_sep punctuators (c :: w) rest puncts_no_blank]; exact h.2
      have hl : txt.length = (c :: w).length := by rw [← hs]; exact String.length_toList.symm
      unfold tokenizeOne
      simp only [List.cons_append] at hm hm0 ⊢
      simp only [f1, f2, f3, f4, hm0, hm]
      congr 2
      rw [hl, ← List.cons_append]
      simp

/-- the spelling of an accepted token starts with a character that is not white space -/
theorem spell_head (t : Tok) (h : lexOK t = true) : ∃ c r, spellChars t = c :: r ∧ isWs c = false := by
  obtain ⟨kind, txt, tpw, tex⟩ := t
  unfold lexOK at h
  cases kind
  case str => simp at h
  case unknown => simp at h
  all_goals simp only [spellChars] at h ⊢
  · unfold numOK at h
    cases hs : txt.toList with
    | nil => rw [hs] at h; exact absurd h (by simp)
    | cons d w =>
      rw [hs] at h; simp only [Bool.and_eq_true, Bool.not_eq_eq_eq_not, Bool.not_true] at h
      exact ⟨d, w, rfl, h.1.2⟩
  · exact ⟨'\'', _, rfl, by decide⟩
  · unfold identOK at h
    cases hs : txt.toList with
    | nil => rw [hs] at h; exact absurd h (by simp)
    | cons c w =>
      rw [hs] at h; simp only [Bool.and_eq_true, Bool.not_eq_eq_eq_not, Bool.not_true] at h
      exact ⟨c, w, rfl, h.1.1.2⟩
  · unfold opOK at h
    cases hs : txt.toList with
    | nil => rw [hs] at h; exact absurd h (by simp)
    | cons c w =>
      rw [hs] at h; simp only [Bool.and_eq_true] at h
      have := h.1; unfold symStart at this
      simp only [Bool.and_eq_true, Bool.not_eq_eq_eq_not, Bool.not_true] at this
      exact ⟨c, w, rfl, this.2⟩
  · unfold punctOK at h
    cases hs : txt.toList with
    | nil => rw [hs] at h; exact absurd h (by simp)
    | cons c w =>
      rw [hs] at h; simp only [Bool.and_eq_true] at h
      have := h.1.1; unfold symStart at this
      simp only [Bool.and_eq_true, Bool.not_eq_eq_eq_not, Bool.not_true] at this
      exact ⟨c, w, rfl, this.2⟩

/-! ## the loop -/

theorem takeWhile_blank (s : List Char) (h : s = [] ∨ ∃ c r, s = c :: r ∧ isWs c = false) :
    (' ' :: s).takeWhile isWs = [' '] := by
  have : isWs ' ' = true := by decide
  rcases h with rfl | ⟨c, r, rfl, hc⟩
  · simp [List.takeWhile, this]
  · simp [List.takeWhile, this, hc]

theorem spacedAfter_head (ts : List Tok) (h : ∀ t ∈ ts, lexOK t = true) :
    spacedAfter ts = [] ∨ ∃ c r, spacedAfter ts = c :: r ∧ isWs c = false := by
  cases ts with
  | nil => left; rfl
  | cons t ts =>
    right
    obtain ⟨c, r, e, hc⟩ := spell_head t (h t (by simp))
    exact ⟨c, r ++ ' ' :: spacedAfter ts, by simp [spacedAfter, e], hc⟩

theorem go_spaced (ts : List Tok) (h : ∀ t ∈ ts, lexOK t = true) :
    ∀ (fuel : Nat) (pw : Bool) (acc : List Tok), ts.length + 1 ≤ fuel →
      tokenize.go fuel (' ' :: spacedAfter ts) pw acc = acc ++ ts.map norm := by
  induction ts with
  | nil =>
    intro fuel pw acc hf
    match fuel, hf with
    | f + 1, _ =>
      have : isWs ' ' = true := by decide
      simp [spacedAfter, tokenize.go, List.takeWhile, this]
  | cons t ts ih =>
    intro fuel pw acc hf
    have ht := h t (by simp)
    have hts : ∀ t' ∈ ts, lexOK t' = true := fun t' m => h t' (by simp [m])
    match fuel, hf with
    | f + 1, hf =>
      have hf' : ts.length + 1 ≤ f := by simp at hf; omega
      obtain ⟨c, r, e, hc⟩ := spell_head t ht
      have hsp : ' ' :: spacedAfter (t :: ts) = ' ' :: c :: (r ++ ' ' :: spacedAfter ts) := by
        simp [spacedAfter, e]
      have htw : (' ' :: c :: (r ++ ' ' :: spacedAfter ts)).takeWhile isWs = [' '] :=
        takeWhile_blank _ (Or.inr ⟨c, _, rfl, hc⟩)
      have h1 := tokenizeOne_ok t (spacedAfter ts) true ht
      rw [e] at h1
      simp only [List.cons_append] at h1
      rw [hsp]
      simp only [tokenize.go, htw, List.length_cons, List.length_nil, List.drop_succ_cons, List.drop_zero,
        List.isEmpty_cons, Bool.not_false, Bool.or_true, h1]
      rw [ih hts f false _ hf']
      simp [norm]

theorem spacedAfter_length (ts : List Tok) : ts.length ≤ (spacedAfter ts).length := by
  induction ts with
  | nil => simp [spacedAfter]
  | cons t ts ih =>
    have : spacedAfter (t :: ts) = spellChars t ++ ' ' :: spacedAfter ts := by simp [spacedAfter]
    rw [this]; simp; omega

/-- **Round trip.** -/
theorem tokenize_text (ts : List Tok) (h : ∀ t ∈ ts, lexOK t = true) :
    tokenize (text ts) = ts.map norm := by
  unfold tokenize text
  simp only [String.toList_ofList, String.length_ofList]
  rw [go_spaced ts h _ false [] (by have := spacedAfter_length ts; simp; omega)]
  simp

end CbiVerif.LexRT
