import CbiVerif.Props.C17
import CbiVerif.Lemmas.FGroups
import CbiVerif.Spec.FortranNodes
import CbiVerif.Spec.FortranHash
/-!
# C17 — the NODES of a free-form Fortran file (the Fortran analogue of `C05.nodes_of_ok`)

`C17.lines_eq_ref` says which physical lines are counted; `nodes_eq_ref` says how `FileParser` groups them: one node per
directive line, one per maximal run of counted lines between directive lines (`Spec/FortranNodes.lean`; a `#` line whose first
token is `##` is counted text, not a directive: `Fortran.isPasteLine`, `Lemmas/FPaste.lean`), every node holding at least one line.  The proof follows the reference run line by line (`Lemmas/FGroups.lean`) and tracks the FIRST character of the
joined buffer of `fortran_file_source`: a logical line is classified as a preprocessor directive by
`one_space_line.category()` iff its buffer starts with `#`, and a continued statement never does — except in finding class
F-C17-2 (`Spec/FortranHash.lean`), which is real (`finding_F_C17_2`) and therefore a hypothesis.
-/
namespace CbiVerif.C17
open CbiVerif CbiVerif.Fortran

/-- **C17.nodes_eq_ref.**  For every text the reference scanner accepts, with no line of finding class F-C17-1 and no line of
    finding class F-C17-2: `fortran_file_source` does not raise and the node list `FileParser` builds from it is the
    specification's — every preprocessor directive line is a node of its own, maximal runs of counted lines between directive
    lines form the code nodes (so a continued statement, its interleaved comment lines left out, is never cut and never read
    as a directive), and `num_lines = len(lines) ≥ 1` for every node. -/
theorem nodes_eq_ref (text : String) (r : List (Bool × Bool)) (h : refText text = some r)
    (hk : ∀ x ∈ r, x.2 = false) (hh : hashHeadLines text = []) :
    ∃ lls, fortranSource text = .ok lls ∧
      (group lls).map (fun nd => (nd.isDir, nd.lines)) = refNodes text ∧
      ∀ nd ∈ group lls, nd.numLines = nd.lines.length ∧ 1 ≤ nd.numLines := by
  obtain ⟨lls, h1, h2⟩ := groups_eq_ref text r h hk hh
  refine ⟨lls, h1, h2, fun nd hnd => ?_⟩
  have hn := (structural_nodes lls).2 nd hnd
  refine ⟨hn, ?_⟩
  have hmem : nview nd ∈ refNodes text := by rw [← h2]; exact List.mem_map_of_mem hnd
  have hne : nd.lines ≠ [] := refNodes_nonempty text _ hmem
  rw [hn]
  cases hl : nd.lines with
  | nil => exact absurd hl hne
  | cons _ _ => simp

/-- the hypotheses are satisfiable by a non-trivial text: trailing comment, sentinel, `#ifdef/#else/#endif`, a statement
    continued over a blank and a comment line inside a character literal, a statement that BEGINS with a lone `&` line (F2018
    forbids it, the reference accepts it) and a `#` as statement text on a continuation line (not F-C17-2: text precedes it);
    and the conclusion is not trivial: three directive nodes, three code nodes, lines 5, 6 and 12 in no node -/
example :
    (let text := "x = 1 ! c\n!$omp do\n#ifdef A\ny = 'a!&''b&\n\n  ! c\n  &c' // &\n  z\n#else\n&\n  & w = 2 + &\n  ! note\n  & #3\n#endif\n"
     (refText text).map (fun r => r.all fun x => !x.2) = some true ∧ hashHeadLines text = [] ∧
     refNodes text = [(false, [1, 2]), (true, [3]), (false, [4, 7, 8]), (true, [9]), (false, [11, 13]), (true, [14])] ∧
     (fortranSource text).toOption.map (fun lls => (group lls).map fun nd => (nd.isDir, nd.lines)) = some (refNodes text)) := by
  decide

/-- `#` lines whose first token is `##` (the paste operator) are counted like every `#` line but are NOT directives: inside the
    reference's `WF`, no finding class — specification and code (after the repair of F-C05-3, `FileParser.is_directive`) put
    them into the run of counted lines around them -/
example :
    (let text := "x = 1\n## a\ny = 2\n  ## b\n#define A\nz = 3\n# # c\n"
     (refText text).map (fun r => r.all fun x => !x.2) = some true ∧ hashHeadLines text = [] ∧
     refNodes text = [(false, [1, 2, 3, 4]), (true, [5]), (false, [6]), (true, [7])] ∧
     (fortranSource text).toOption.map (fun lls => (group lls).map fun nd => (nd.isDir, nd.lines)) = some (refNodes text)) := by
  decide

/-! ## recorded finding F-C17-2 -/

def witnessF2 : String := "x = 1\n&\n&#define A\ny = 2\n"

/-- the finding class is real: the reference accepts the witness (no F-C17-1 line) and counts lines 1, 3 and 4 as ONE run of
    statement text — line 3 is a continuation line, its `#` is not the first non-blank character, `gfortran -cpp -E` leaves it
    alone — and marks line 3 as F-C17-2; the model of the code (as the code) counts the same lines but cuts them into three
    nodes, line 3 being read as the preprocessor directive `#define A`. -/
theorem finding_F_C17_2 :
    (refText witnessF2).map countedLines = some [1, 3, 4] ∧ (refText witnessF2).map kLines = some [] ∧
    hashHeadLines witnessF2 = [3] ∧ refNodes witnessF2 = [(false, [1, 3, 4])] ∧
    (fortranSource witnessF2).toOption.map (fun lls => (group lls).map fun nd => (nd.isDir, nd.lines))
      = some [(false, [1]), (true, [3]), (false, [4])] := by decide

/-- … whereas the same `#` after statement text (`x = &` / `&#define A`), or on a statement that merely BEGINS with a lone `&`
    line, is grouped as the specification groups it (so the classifier is narrow) -/
theorem finding_F_C17_2_narrow :
    hashHeadLines "x = &\n&#define A\ny = 2\n" = [] ∧
    (fortranSource "x = &\n&#define A\ny = 2\n").toOption.map (fun lls => (group lls).map fun nd => (nd.isDir, nd.lines))
      = some [(false, [1, 2, 3])] ∧
    hashHeadLines "&\n&x = 1\n#define A\n" = [] ∧
    (fortranSource "&\n&x = 1\n#define A\n").toOption.map (fun lls => (group lls).map fun nd => (nd.isDir, nd.lines))
      = some [(false, [2]), (true, [3])] := by decide

end CbiVerif.C17
