import CbiVerif.PP.CSource
/-! Character-level model of fortran_cleaner and fortran_file_source. -/
namespace CbiVerif.PP

inductive FMode | top | esc | verify | dq | sq | cfs
deriving DecidableEq, Repr, Inhabited

structure FClean where
  state : List FMode := [.top]      -- head = state[-1]
  vc : List Char := []              -- verify_continue
deriving Repr, Inhabited

/-- dir_check: returns the buffer after possibly emitting a sentinel comment -/
def dirCheck (ob : OSL) (rest : List Char) : OSL :=
  let rec go (fuel : Nat) (found : List Char) (cs : List Char) : OSL :=
    match fuel with
    | 0 => ob
    | fuel + 1 =>
      match cs with
      | [] => ob
      | c :: r =>
        if c == '$' then (found ++ ['$'] ++ r).foldl OSL.appendNonspace ob
        else if c.isAlpha then go fuel (found ++ [c]) r
        else ob
  go (rest.length + 1) ['!'] rest

/-- fortran_cleaner.process (one logical C line) -/
def fProcess (cl : FClean) (ob : OSL) (chars : List Char) : Except Err (FClean × OSL) :=
  let rec go (fuel : Nat) (cl : FClean) (ob : OSL) (cs : List Char) : Except Err (FClean × OSL) :=
    match fuel with
    | 0 => .ok (cl, ob)
    | fuel + 1 =>
      match cs with
      | [] => .ok (cl, ob)
      | c :: r =>
        match cl.state with
        | [] => .error .index
        | .top :: st =>
          if c == '\\' then go fuel { cl with state := .esc :: .top :: st } (ob.appendNonspace c) r
          else if c == '!' then .ok ({ cl with state := [.top] }, dirCheck ob r)
          else if c == '&' then go fuel { state := .verify :: .top :: st, vc := cl.vc ++ [c] } ob r
          else if c == '"' then go fuel { cl with state := .dq :: .top :: st } (ob.appendNonspace c) r
          else if c == '\'' then go fuel { cl with state := .sq :: .top :: st } (ob.appendNonspace c) r
          else go fuel cl (ob.appendChar c) r
        | .cfs :: st =>
          if pyIsSpace c then go fuel cl ob.appendSpace r
          else if c == '&' then go fuel { cl with state := st } ob r
          else if c == '!' then .ok (cl, dirCheck ob r)
          else go fuel { cl with state := st } ob (c :: r)
        | .dq :: st =>
          if c == '\\' then go fuel { cl with state := .esc :: .dq :: st } (ob.appendNonspace c) r
          else if c == '"' then go fuel { cl with state := st } (ob.appendNonspace c) r
          else if c == '&' then go fuel { state := .verify :: .dq :: st, vc := cl.vc ++ [c] } ob r
          else go fuel cl (ob.appendNonspace c) r
        | .sq :: st =>
          if c == '\\' then go fuel { cl with state := .esc :: .sq :: st } (ob.appendNonspace c) r
          else if c == '\'' then go fuel { cl with state := st } (ob.appendNonspace c) r
          else if c == '&' then go fuel { state := .verify :: .sq :: st, vc := cl.vc ++ [c] } ob r
          else go fuel cl (ob.appendNonspace c) r
        | .esc :: st => go fuel { cl with state := st } (ob.appendNonspace c) r
        | .verify :: st =>
          if c == '!' && st.head? == some .top then .ok (cl, dirCheck ob r)
          else if !pyIsSpace c then go fuel { state := st, vc := [] } (cl.vc.foldl OSL.appendNonspace ob) (c :: r)
          else go fuel { cl with vc := cl.vc ++ [c] } ob r
  match go (2 * chars.length + 2) cl ob chars with
  | .error e => .error e
  | .ok (cl, ob) =>
    match cl.state with
    | .verify :: st => .ok ({ state := .cfs :: st, vc := [] }, ob)
    | _ => .ok (cl, ob)

/-- fortran_file_source: logical lines (lines, text, isDirective); text assembled from statement lines is never a
    directive (`physical_update(..., statement=True)`, the repair of F-C17-2) -/
def fFileSource (text : String) : Except Err (List (List Nat × String × Bool)) := do
  let (clines, _, _) ← cFileSource text true
  let mut cl : FClean := {}
  let mut cur : OSL := {}
  let mut lines : List Nat := []
  let mut out : List (List Nat × String × Bool) := []
  for src in clines do
    if src.cat == .cppDirective then
      if cur.category != .blank then out := out ++ [(lines, String.ofList cur.parts, false)]
      cur := {}; lines := []
      out := out ++ [(src.lines, src.text, true)]
    else
      let (cl2, ob) ← fProcess cl {} src.text.toList
      cl := cl2
      if ob.category != .blank then lines := lines ++ src.lines
      cur := cur.join ob
      if cl.state.head? != some .cfs then
        if cur.category != .blank then out := out ++ [(lines, String.ofList cur.parts, false)]
        cur := {}; lines := []
  if cur.category != .blank then out := out ++ [(lines, String.ofList cur.parts, false)]
  if cl.state != [.top] then throw (.runtime "Parser must end at top level without 'relaxed' mode.")
  return out

end CbiVerif.PP
