/-!
Generic model of `codebasin/finder.py:find` — the double loop

```
for p in configuration:            # platforms, dict order
    for e in configuration[p]:     # compile commands (database entries), list order
        file_platform = Platform(p, rootdir)      # <- created INSIDE the loop
        ... -D / -I / -include ...; state.associate(e["file"], file_platform)
```

parametric in the analysis of ONE compile command from a fresh `Platform`
(`analyse : Entry → Except Err (Out Key Warn)`: the nodes it visits and the
warnings it logs; an exception aborts the whole run).  The only state carried
from one command to the next is the accumulated association
(`ParserState.maps`: node ↦ set of platform names, which only grows) and the log.
The parse cache `ParserState.trees` is *not* part of this model: `findS` below threads an
arbitrary extra state, and `Model/FindCache.lean` instantiates it with the explicit parse cache
(transparency: `C08.cache_transparent_partial`, `C08.find_cached_eq_findG_partial`).

Core Lean only (runs in the native driver).
-/
namespace CbiVerif.FindFold

/-- what one compile command contributes: visited nodes (keys) and logged warnings -/
structure Out (Key Warn : Type) where
  keys : List Key := []
  warns : List Warn := []

/-- the state shared by the whole run: `(node, platform)` attribution pairs
(`association[node].add(platform.name)`) and the log, in chronological order -/
structure Acc (Key Warn : Type) where
  pairs : List (Key × String) := []
  warns : List Warn := []

/-- `configuration`: platform name ↦ entries, in `dict` order -/
abbrev Config (Entry : Type) := List (String × List Entry)

variable {Entry Key Warn Err : Type}

/-- `ParserState.associate` seen from outside: every visited node gets the platform's name -/
def associate (p : String) (acc : Acc Key Warn) (o : Out Key Warn) : Acc Key Warn :=
  { pairs := acc.pairs ++ o.keys.map (fun k => (k, p)), warns := acc.warns ++ o.warns }

/-- body of the inner loop: a fresh Platform is created here, i.e. `analyse e` cannot see `acc` -/
def stepEntry (analyse : Entry → Except Err (Out Key Warn)) (p : String)
    (acc : Acc Key Warn) (e : Entry) : Except Err (Acc Key Warn) :=
  match analyse e with
  | .ok o => .ok (associate p acc o)
  | .error er => .error er

/-- inner loop: the commands of one platform -/
def stepPlatform (analyse : Entry → Except Err (Out Key Warn))
    (acc : Acc Key Warn) (pe : String × List Entry) : Except Err (Acc Key Warn) :=
  pe.2.foldlM (stepEntry analyse pe.1) acc

/-- `finder.find`: outer loop over the platforms -/
def findG (analyse : Entry → Except Err (Out Key Warn)) (config : Config Entry) :
    Except Err (Acc Key Warn) :=
  config.foldlM (stepPlatform analyse) {}

/-! ## the same loop with extra state threaded through ALL commands (what a shared cache does) -/

/-- inner-loop body when some state `σ` (parse cache, hoisted macro table, …) survives from
one command to the next -/
def stepEntryS {σ : Type} (step : σ → Entry → Except Err (Out Key Warn × σ)) (p : String)
    (acc : Acc Key Warn × σ) (e : Entry) : Except Err (Acc Key Warn × σ) :=
  match step acc.2 e with
  | .ok (o, s') => .ok (associate p acc.1 o, s')
  | .error er => .error er

def findS {σ : Type} (step : σ → Entry → Except Err (Out Key Warn × σ)) (s0 : σ)
    (config : Config Entry) : Except Err (Acc Key Warn × σ) :=
  config.foldlM (fun acc pe => pe.2.foldlM (stepEntryS step pe.1) acc) ({}, s0)

/-! ## reference semantics written from the property text -/

/-- the (platform, command) pairs of a configuration, in processing order -/
def jobs (config : Config Entry) : List (String × Entry) :=
  config.flatMap fun pe => pe.2.map fun e => (pe.1, e)

/-- all compile commands of platform `p` -/
def entriesOf (config : Config Entry) (p : String) : List Entry :=
  (config.filter fun pe => pe.1 == p).flatMap (·.2)

/-- SPEC: "the lines a platform uses are exactly the union of the lines used by each of its
compile commands analysed alone from a fresh state": no state at all is threaded. -/
def specJobs (analyse : Entry → Except Err (Out Key Warn)) :
    List (String × Entry) → Except Err (Acc Key Warn)
  | [] => .ok {}
  | (p, e) :: js =>
    match analyse e with
    | .error er => .error er
    | .ok o =>
      match specJobs analyse js with
      | .error er => .error er
      | .ok r => .ok { pairs := o.keys.map (fun k => (k, p)) ++ r.pairs, warns := o.warns ++ r.warns }

def specFind (analyse : Entry → Except Err (Out Key Warn)) (config : Config Entry) :
    Except Err (Acc Key Warn) :=
  specJobs analyse (jobs config)

/-- `-p X` as in `__main__._main` / `tree._tree`: the platforms of the analysis file are
visited in file order and skipped unless selected; an empty selection means all. -/
def select (X : List String) (config : Config Entry) : Config Entry :=
  if X.isEmpty then config else config.filter fun pe => X.contains pe.1

/-- platform `p` uses node `k` -/
def Attr (r : Acc Key Warn) (p : String) (k : Key) : Prop := (k, p) ∈ r.pairs

/-- the platform set of a node (`frozenset(association[node])`), as the sub-list of a fixed
list of platform names -/
def platSet [DecidableEq Key] (names : List String) (r : Acc Key Warn) (k : Key) : List String :=
  names.filter fun p => decide ((k, p) ∈ r.pairs)

/-- `ParserState.get_setmap`: number of lines per platform set; `nodes` = the code nodes of
the code base, `w` = `node.num_lines`, `cls` = the node's platform set -/
def setmapCount (nodes : List Key) (w : Key → Nat) (cls : Key → List String) (S : List String) : Nat :=
  ((nodes.filter fun k => decide (cls k = S)).map w).sum

/-- configurations that differ only in the order of the platforms and in the order of the
commands inside each database -/
inductive CfgPerm : Config Entry → Config Entry → Prop
  | nil : CfgPerm [] []
  | cons (p : String) {es es' : List Entry} {c c' : Config Entry} :
      es.Perm es' → CfgPerm c c' → CfgPerm ((p, es) :: c) ((p, es') :: c')
  | swap (a b : String × List Entry) (c : Config Entry) : CfgPerm (a :: b :: c) (b :: a :: c)
  | trans {a b c : Config Entry} : CfgPerm a b → CfgPerm b c → CfgPerm a c

/-! ## executable canonical forms used by the driver -/

def insertSorted (s : String) : List String → List String
  | [] => [s]
  | t :: ts => if s < t then s :: t :: ts else if s == t then t :: ts else t :: insertSorted s ts

/-- sorted, duplicate-free -/
def canon (l : List String) : List String := l.foldl (fun acc s => insertSorted s acc) []

/-- platforms of node `k` in chronological pair list `ps` (sorted, duplicate-free) -/
def platformsOfKey [BEq Key] (ps : List (Key × String)) (k : Key) : List String :=
  canon ((ps.filter fun kp => kp.1 == k).map (·.2))

end CbiVerif.FindFold
