import CbiVerif.Model.Climb
import CbiVerif.PP.CharConst
import CbiVerif.Generated.Tables
/-!
Model of `codebasin.preprocessor.ExpressionEvaluator` (C02), as the code is after the `fix:` commits
D1–D7: Python-int arithmetic wrapped to 64 bits by `_c_int` with a signedness flag
(`np.int64` / `np.uint64`).

* `cInt`                      = `_c_int(value, unsigned)`
* `applyUnary/applyBinary`    = `__apply_unary_op/__apply_binary_op` (total: `/ %` by 0 and shift counts
                                outside 0..63 yield 0, exactly as the code does)
* `applyTernary`              = the `?` branch of `expression()`
* `literal`                   = the integer-constant branch of `term()` (regex split, bases 16/2/8/10,
                                suffixes; `np.int64(v)`/`np.uint64(v)` raise `OverflowError` when `v` does not fit)
* `leafWith`                  = `term()` : integer constant | character constant (`PP.characterValue` =
                                `_character_value`) | call | identifier
* `opsN`, `cbiExpr`, `cbiEval` = `expression()` / `evaluate()`: the generic precedence climbing of
                                `Model/Climb.lean` instantiated with the operations above and with the
                                **generated** tables `CbiVerif.Gen.binaryOps/unaryOps`.

The executed evaluator (driver op `evalx`) is `cbiExpr`; the theorems of `Props/C02.lean` are about
the same definition.  Core Lean only.

Modelling limits (outside the property, validated/avoided by the correspondence generator):
residual calls `f(args)` are modelled for argument lists whose arguments either parse completely or
fail at their first token (the code leaves its cursor at the start of the innermost failing
`primary()`, the model at the start of the argument); ASCII input only.
-/
namespace CbiVerif.Eval
open CbiVerif.PP CbiVerif.Climb

/-- a value of the evaluator: `np.uint64(v)` if `unsigned` else `np.int64(v)` -/
structure Val where
  unsigned : Bool
  v : Int
deriving Repr, DecidableEq, Inhabited

def two64 : Int := 18446744073709551616
def two63 : Int := 9223372036854775808

/-- `_c_int(value, unsigned)` -/
def cInt (value : Int) (unsigned : Bool) : Val :=
  let r := value % two64
  if unsigned then ⟨true, r⟩ else if r ≥ two63 then ⟨false, r - two64⟩ else ⟨false, r⟩

/-- `np.int64(<bool>)` -/
def b2v (b : Bool) : Val := ⟨false, if b then 1 else 0⟩

def zero : Val := ⟨false, 0⟩

/-- error classes: `parse` = ParseError; tags of `other`: 0 = model out of fuel (never observed),
    1 = OverflowError, 2 = TypeError, 3 = ValueError that is not a ParseError (becomes ParseError in `evaluate()`). -/
def eOverflow : EErr := .other 1
def eType : EErr := .other 2
def eValue : EErr := .other 3

/-- `__apply_unary_op(op, operand)`; the final `else: raise ValueError` is unreachable for the table's keys -/
def applyUnary (op : String) (x : Val) : Val :=
  if op == "-" then cInt (-x.v) x.unsigned
  else if op == "+" then cInt x.v x.unsigned
  else if op == "!" then b2v (x.v == 0)
  else if op == "~" then cInt (-x.v - 1) x.unsigned      -- Python: ~v = -v-1
  else x

/-- Python `a | b`, `a ^ b`, `a & b` on the 64-bit two's-complement representatives -/
def natAnd (a b : Int) : Int := ((a.toNat &&& b.toNat : Nat) : Int)
def natOr (a b : Int) : Int := ((a.toNat ||| b.toNat : Nat) : Int)
def natXor (a b : Int) : Int := ((a.toNat ^^^ b.toNat : Nat) : Int)

/-- `abs(a) // abs(b)`, negated when the signs differ -/
def truncQuot (a b : Int) : Int :=
  let q0 : Int := ((a.natAbs / b.natAbs : Nat) : Int)
  if (decide (a < 0)) != (decide (b < 0)) then -q0 else q0

/-- `__apply_binary_op(op, lhs, rhs)` -/
def applyBinary (op : String) (l r : Val) : Val :=
  if op == "||" then b2v (l.v != 0 || r.v != 0)
  else if op == "&&" then b2v (l.v != 0 && r.v != 0)
  else if op == "<<" || op == ">>" then
    let u := l.unsigned
    let c := r.v
    if c < 0 || c ≥ 64 then cInt 0 u
    else if op == "<<" then cInt (l.v * (2 : Int) ^ c.toNat) u
    else cInt (l.v / (2 : Int) ^ c.toNat) u      -- Python >> floors; Int `/` with a positive divisor floors
  else
    let u := l.unsigned || r.unsigned
    let a := (cInt l.v u).v
    let b := (cInt r.v u).v
    if op == "|" then cInt (natOr (a % two64) (b % two64)) u
    else if op == "^" then cInt (natXor (a % two64) (b % two64)) u
    else if op == "&" then cInt (natAnd (a % two64) (b % two64)) u
    else if op == "==" then b2v (a == b)
    else if op == "!=" then b2v (a != b)
    else if op == "<" then b2v (decide (a < b))
    else if op == "<=" then b2v (decide (a ≤ b))
    else if op == ">" then b2v (decide (a > b))
    else if op == ">=" then b2v (decide (a ≥ b))
    else if op == "+" then cInt (a + b) u
    else if op == "-" then cInt (a - b) u
    else if op == "*" then cInt (a * b) u
    else if op == "/" then (if b == 0 then cInt 0 u else cInt (truncQuot a b) u)
    else if op == "%" then (if b == 0 then cInt 0 u else cInt (a - truncQuot a b * b) u)
    else l                                         -- `raise ValueError`: unreachable for the table's keys

/-- `expr = true_result if condition else false_result; expr = _c_int(int(expr), unsigned)` -/
def applyTernary (c t e : Val) : Val :=
  cInt (if c.v != 0 then t.v else e.v) (t.unsigned || e.unsigned)

/-! ### integer constants -/

def isSufChar (c : Char) : Bool := c == 'u' || c == 'U' || c == 'l' || c == 'L'

/-- `([uU](?:ll|LL|[lL])?|(?:ll|LL|[lL])[uU]?)?` with "contains u" -/
def suffixTable : List (List Char × Bool) :=
  [([], false),
   (['u'], true), (['U'], true),
   (['l'], false), (['L'], false), (['l', 'l'], false), (['L', 'L'], false),
   (['u', 'l'], true), (['u', 'L'], true), (['u', 'l', 'l'], true), (['u', 'L', 'L'], true),
   (['U', 'l'], true), (['U', 'L'], true), (['U', 'l', 'l'], true), (['U', 'L', 'L'], true),
   (['l', 'u'], true), (['l', 'U'], true), (['L', 'u'], true), (['L', 'U'], true),
   (['l', 'l', 'u'], true), (['l', 'l', 'U'], true), (['L', 'L', 'u'], true), (['L', 'L', 'U'], true)]

def suffixUnsigned? (s : List Char) : Option Bool :=
  (suffixTable.find? (fun e => e.1 == s)).map (·.2)

def digitVal (c : Char) : Nat :=
  if '0' ≤ c ∧ c ≤ '9' then c.toNat - 48
  else if 'a' ≤ c ∧ c ≤ 'f' then c.toNat - 87
  else if 'A' ≤ c ∧ c ≤ 'F' then c.toNat - 55
  else 99

/-- `int(digits, base)` for a string of the regex's digit class -/
def parseDigits (base : Nat) (cs : List Char) : Option Nat :=
  cs.foldl (fun acc c => match acc with
    | none => none
    | some n => if digitVal c < base then some (n * base + digitVal c) else none) (some 0)

/-- `(0[xX][0-9a-fA-F]+|0[bB][01]+|0[0-7]*|[1-9][0-9]*)` and the base selection that follows -/
def parseBody (cs : List Char) : Option Nat :=
  match cs with
  | [] => none
  | c :: rest =>
    if c == '0' then
      match rest with
      | [] => some 0
      | x :: r2 =>
        if x == 'x' || x == 'X' then (if r2.isEmpty then none else parseDigits 16 r2)
        else if x == 'b' || x == 'B' then (if r2.isEmpty then none else parseDigits 2 r2)
        else parseDigits 8 (x :: r2)
    else if digitVal c < 10 then parseDigits 10 (c :: rest)
    else none

def literalL (cs : List Char) : Except EErr Val :=
  let body := cs.takeWhile (fun c => !isSufChar c)
  let suf := cs.dropWhile (fun c => !isSufChar c)
  match parseBody body, suffixUnsigned? suf with
  | some n, some u =>
    if u then (if (n : Int) < two64 then .ok ⟨true, n⟩ else .error eOverflow)
    else (if (n : Int) < two63 then .ok ⟨false, n⟩ else .error eOverflow)
  | _, _ => .error eValue

/-- integer-constant branch of `term()` -/
def literal (text : String) : Except EErr Val := literalL text.toList

/-! ### term() -/

/-- `__expression_list` followed by the caller's view of the cursor: only ParseError is swallowed -/
def argList (ex : List Tok → Res Val) (ts : List Tok) : Except EErr (List Tok) :=
  let rec more (fuel : Nat) (ts : List Tok) : Except EErr (List Tok) :=
    match fuel with
    | 0 => .ok ts
    | fuel + 1 =>
      match ts with
      | c :: r1 =>
        if isPunct c "," then
          match ex r1 with
          | .ok (_, r2) => more fuel r2
          | .error .parse => .ok r1
          | .error e => .error e
        else .ok ts
      | [] => .ok ts
  match ex ts with
  | .ok (_, r) => more (r.length + 1) r
  | .error .parse => .ok ts
  | .error e => .error e

/-- `term()`: integer constant | character constant | call | identifier -/
def leafWith (args : List Tok → Except EErr (List Tok)) (ts : List Tok) : Res Val :=
  match ts with
  | t :: rest =>
    if t.kind == .num then
      match literal t.text with
      | .ok v => .ok (v, rest)
      | .error e => .error e
    else if t.kind == .chr then
      match characterValue t.text.toList with      -- np.int64(_character_value(token))
      | .ok n => .ok (⟨false, n⟩, rest)
      | .error .type_ => .error eType              -- ord() of a string of length ≠ 1
      | .error .value => .error eValue             -- unknown escape sequence / escape above 255
    else if t.kind == .ident then
      match rest with
      | p :: r1 =>
        if isPunct p "(" then
          match args r1 with
          | .ok (c :: r3) => if isPunct c ")" then .ok (zero, r3) else .ok (zero, rest)
          | .ok [] => .ok (zero, rest)
          | .error e => .error e
        else .ok (zero, rest)
      | [] => .ok (zero, rest)
    else .error .parse
  | [] => .error .parse

/-! ### the tables (generated from the code on every run) and the instance -/

/-- `BinaryOperators[tok]` as (precedence, right-associative) -/
def binInfo (s : String) : Option (Nat × Bool) := (Gen.binaryOps.find? (fun e => e.1 == s)).map (·.2)
/-- `UnaryOperators[tok].prec` -/
def unPrec (s : String) : Option Nat := (Gen.unaryOps.find? (fun e => e.1 == s)).map (·.2.1)

def mkOps (leaf : List Tok → Res Val) : EvOps Val :=
  { un := applyUnary, bin := applyBinary, tern := applyTernary, leaf := leaf, unPrec := unPrec, binInfo := binInfo }

/-- operations with residual calls nested at most `n` deep -/
def opsN : Nat → EvOps Val
  | 0 => mkOps (leafWith fun _ => .error (.other 0))
  | n + 1 => mkOps (leafWith (argList fun ts => expr (opsN n) (3 * ts.length + 4) 0 ts))

/-- `ExpressionEvaluator(tokens).expression()` -/
def cbiExpr (ts : List Tok) : Res Val := expr (opsN ts.length) (3 * ts.length + 4) 0 ts

/-- `ExpressionEvaluator(tokens).evaluate()`: truth value; trailing tokens are ignored by the code -/
def cbiEval (ts : List Tok) : Except EErr Bool :=
  match cbiExpr ts with
  | .ok (v, _) => .ok (v.v != 0)
  | .error e => .error e

/-- the evaluator looks at `kind` and `token` only -/
def eraseFlags (t : Tok) : Tok := { t with pw := false, expandable := true }

end CbiVerif.Eval
