import CbiVerif.Model.FindInc
import CbiVerif.Lemmas.MultiFile
import CbiVerif.Lemmas.IncludeMemo
/-! Helper lemmas about the concrete multi-file model `CbiVerif.Inc` (C04 / C18). -/
namespace CbiVerif.Inc
open CbiVerif.PP CbiVerif.Cond CbiVerif.MF CbiVerif.IncludeSearch

/-! ## frames: what the individual operations leave alone -/

theorem evalCondW_cases (w : World) (toks : List Tok) :
    (evalCondW w toks).2 = w ∨ ∃ e, (evalCondW w toks).2 = w.setErr e := by
  unfold evalCondW
  split
  · exact .inl rfl
  · split
    · exact .inl rfl
    · exact .inr ⟨_, rfl⟩

theorem addAssoc_frame (s : PState) (f : String) (i : Nat) (p : String) :
    (s.addAssoc f i p).warns = s.warns ∧ (s.addAssoc f i p).visits = s.visits ∧ (s.addAssoc f i p).dwarns = s.dwarns ∧
    (s.addAssoc f i p).inserted = s.inserted ∧ (s.addAssoc f i p).err = s.err := by
  unfold PState.addAssoc
  split
  · split <;> simp
  · simp

theorem foldl_addAssoc_frame (out : List Nat) (s : PState) (f p : String) :
    let s' := out.foldl (fun s i => s.addAssoc f i p) s
    s'.warns = s.warns ∧ s'.visits = s.visits ∧ s'.dwarns = s.dwarns ∧ s'.inserted = s.inserted ∧ s'.err = s.err := by
  induction out generalizing s with
  | nil => simp
  | cons i out ih =>
    simp only [List.foldl_cons]
    obtain ⟨a, b, c, d, e⟩ := ih (s.addAssoc f i p)
    obtain ⟨a', b', c', d', e'⟩ := addAssoc_frame s f i p
    exact ⟨a.trans a', b.trans b', c.trans c', d.trans d', e.trans e'⟩

theorem insertFile_frame (s : PState) (pfs : ParsedFS) (f : String) :
    (s.insertFile pfs f).warns = s.warns ∧ (s.insertFile pfs f).visits = s.visits ∧ (s.insertFile pfs f).assoc = s.assoc := by
  unfold PState.insertFile
  split
  · simp
  · split <;> simp

theorem insertFile_err_none (s : PState) (pfs : ParsedFS) (f : String) (p : Parsed) (hs : s.err = none)
    (hp : pfs.get f = some (.ok p)) : (s.insertFile pfs f).err = none := by
  unfold PState.insertFile
  split
  · exact hs
  · simp [hp, hs]

/-! ## the C18 invariant: warnings = unresolved visits, memo sound, ghost = compiler's rule -/

def unresolved (vs : List Visit) : List Visit := vs.filter fun v => v.spec.isNone

theorem unresolved_append (a b : List Visit) : unresolved (a ++ b) = unresolved a ++ unresolved b := by
  simp [unresolved]

/-- the ghost entry of a visit is the compiler's rule applied to what the directive requested -/
def Visit.ok (fs : FS) (v : Visit) : Prop :=
  v.spec = IncMemo.resolveM fs.env v.paths ⟨v.name, dirnameK v.file, v.sys⟩

structure StInv (fs : FS) (s : PState) : Prop where
  warns : s.warns = unresolved s.visits
  ghost : ∀ v ∈ s.visits, v.ok fs

structure WarnInv (fs : FS) (w : World) : Prop where
  sound : IncMemo.Sound IncMemo.Query.key (IncMemo.resolveM fs.env w.plat.incPaths) w.plat.memo
  st : StInv fs w.st

theorem WarnInv.setErr {fs : FS} {w : World} (h : WarnInv fs w) (e : Err) : WarnInv fs (w.setErr e) :=
  ⟨h.sound, ⟨h.st.warns, h.st.ghost⟩⟩

theorem lookupWith_true_spec (fs : FS) (paths : List String) (m : IncMemo.Memo IncMemo.Key) (q : IncMemo.Query)
    (h : IncMemo.Sound IncMemo.Query.key (IncMemo.resolveM fs.env paths) m) :
    (lookupWith true fs.env paths m q).1 = IncMemo.resolveM fs.env paths q ∧
    IncMemo.Sound IncMemo.Query.key (IncMemo.resolveM fs.env paths) (lookupWith true fs.env paths m q).2 := by
  simp only [lookupWith, if_true, IncMemo.find]
  exact IncMemo.findBy_spec _ _ (IncMemo.key_determines fs.env paths) m q h

theorem includeStep_inv (fs : FS) (pfs : ParsedFS) (file : String) (w : World) (idx : Nat) (n : PNode)
    (h : WarnInv fs w) : WarnInv fs (includeStep true fs pfs file w idx n).2 := by
  unfold includeStep
  split
  · exact h.setErr _
  · rename_i ps _
    obtain ⟨h1, h2⟩ := lookupWith_true_spec fs w.plat.incPaths w.plat.memo ⟨ps.1, dirnameK file, ps.2⟩ h.sound
    have hg : ∀ v ∈ w.st.visits ++ [(⟨file, idx, n.lines.headD 0, ps.1, ps.2, w.plat.incPaths,
        IncMemo.resolveM fs.env w.plat.incPaths ⟨ps.1, dirnameK file, ps.2⟩⟩ : Visit)], v.ok fs := by
      intro v hv
      rcases List.mem_append.mp hv with hv | hv
      · exact h.st.ghost v hv
      · simp at hv; subst hv; rfl
    simp only []
    split
    · rename_i hnone
      refine ⟨h2, ⟨?_, hg⟩⟩
      simp only [unresolved_append, ← h.st.warns]
      rw [h1] at hnone
      simp [unresolved, hnone]
    · rename_i inc hsome
      rw [h1] at hsome
      have hw : w.st.warns = unresolved (w.st.visits ++ [(⟨file, idx, n.lines.headD 0, ps.1, ps.2, w.plat.incPaths,
          IncMemo.resolveM fs.env w.plat.incPaths ⟨ps.1, dirnameK file, ps.2⟩⟩ : Visit)]) := by
        rw [unresolved_append, ← h.st.warns]
        simp [unresolved, hsome]
      split
      · exact ⟨h2, ⟨hw, hg⟩⟩
      · obtain ⟨fa, fb, _⟩ := insertFile_frame
          ({ w.st with visits := w.st.visits ++ [(⟨file, idx, n.lines.headD 0, ps.1, ps.2, w.plat.incPaths,
            IncMemo.resolveM fs.env w.plat.incPaths ⟨ps.1, dirnameK file, ps.2⟩⟩ : Visit)] }) pfs (fs.realpath inc)
        split
        · exact ⟨h2, ⟨by rw [fa, fb]; exact hw, by rw [fb]; exact hg⟩⟩
        · exact ⟨h2, ⟨by rw [fa, fb]; exact hw, by rw [fb]; exact hg⟩⟩

theorem enter_inv (fs : FS) (pfs : ParsedFS) (file : String) (w : World) (idx : Nat) (h : WarnInv fs w) :
    WarnInv fs (enter true fs pfs file w idx).2 := by
  unfold enter
  split
  · exact h
  · split
    · exact h
    · rename_i n _
      split
      · split
        · split
          · exact ⟨h.sound, h.st⟩
          · exact h
        · exact h
      · split
        · split
          · exact h
          · exact ⟨h.sound, h.st⟩
        · exact h.setErr _
      · exact ⟨h.sound, h.st⟩
      · exact includeStep_inv fs pfs file w idx n h
      · exact h

theorem ops_warnInv (fs : FS) (pfs : ParsedFS) : OpsInv (WarnInv fs) (ops fs pfs) where
  evalIf file w i hw := by
    simp only [ops, opsWith]
    split
    · rcases evalCondW_cases w _ with h | ⟨e, h⟩ <;> rw [h]
      · exact hw
      · exact hw.setErr e
    · exact hw
  enter file w i hw := enter_inv fs pfs file w i hw
  record w file out hw := by
    simp only [ops, opsWith]
    obtain ⟨a, b, _⟩ := foldl_addAssoc_frame out w.st file w.plat.name
    exact ⟨hw.sound, ⟨by rw [a, b]; exact hw.st.warns, by rw [b]; exact hw.st.ghost⟩⟩
  noFuel w hw := hw.setErr _
  crash w hw := hw.setErr _


/-! ## the invariant over a whole analysis -/
theorem foldl_inv {α β : Type} (P : α → Prop) (f : α → β → α) (h : ∀ a x, P a → P (f a x)) (l : List β) (a : α) (ha : P a) :
    P (l.foldl f a) := by
  induction l generalizing a with
  | nil => exact ha
  | cons x l ih => exact ih _ (h a x ha)

theorem foldl_congr_inv {α β : Type} (P : α → Prop) (f g : α → β → α) (hfg : ∀ a x, P a → f a x = g a x)
    (hP : ∀ a x, P a → P (g a x)) (l : List β) (a : α) (ha : P a) : l.foldl f a = l.foldl g a := by
  induction l generalizing a with
  | nil => rfl
  | cons x l ih =>
    simp only [List.foldl_cons]
    rw [hfg a x ha]
    exact ih _ (hP a x ha)

theorem forced_inv (fs : FS) (pfs : ParsedFS) (fuel : Nat) (src : String) (w : World) (inc : String) (h : WarnInv fs w) :
    WarnInv fs (forcedWith true (assocFile (ops fs pfs) fuel) fs pfs src w inc) := by
  unfold forcedWith
  split
  · exact h
  · obtain ⟨h1, h2⟩ := lookupWith_true_spec fs w.plat.incPaths w.plat.memo ⟨inc, dirnameK src, false⟩ h.sound
    have hg : ∀ v ∈ w.st.visits ++ [(⟨src, 0, 0, inc, false, w.plat.incPaths,
        IncMemo.resolveM fs.env w.plat.incPaths ⟨inc, dirnameK src, false⟩⟩ : Visit)], v.ok fs := by
      intro v hv
      rcases List.mem_append.mp hv with hv | hv
      · exact h.st.ghost v hv
      · simp at hv; subst hv; rfl
    simp only []
    split
    · rename_i hnone
      refine ⟨h2, ⟨?_, hg⟩⟩
      simp only [unresolved_append, ← h.st.warns]
      rw [h1] at hnone
      simp [unresolved, hnone]
    · rename_i f hsome
      rw [h1] at hsome
      have hw : w.st.warns = unresolved (w.st.visits ++ [(⟨src, 0, 0, inc, false, w.plat.incPaths,
          IncMemo.resolveM fs.env w.plat.incPaths ⟨inc, dirnameK src, false⟩⟩ : Visit)]) := by
        rw [unresolved_append, ← h.st.warns]
        simp [unresolved, hsome]
      split
      · exact ⟨h2, ⟨hw, hg⟩⟩
      · obtain ⟨fa, fb, _⟩ := insertFile_frame
          ({ w.st with visits := w.st.visits ++ [(⟨src, 0, 0, inc, false, w.plat.incPaths,
            IncMemo.resolveM fs.env w.plat.incPaths ⟨inc, dirnameK src, false⟩⟩ : Visit)] }) pfs (fs.realpath f)
        have hst : StInv fs (PState.insertFile ({ w.st with visits := w.st.visits ++ [(⟨src, 0, 0, inc, false, w.plat.incPaths,
            IncMemo.resolveM fs.env w.plat.incPaths ⟨inc, dirnameK src, false⟩⟩ : Visit)] }) pfs (fs.realpath f)) :=
          ⟨by rw [fa, fb]; exact hw, by rw [fb]; exact hg⟩
        split
        · exact ⟨h2, hst⟩
        · exact assocFile_inv (WarnInv fs) (ops fs pfs) (ops_warnInv fs pfs) fuel _ _ ⟨h2, hst⟩

theorem runEntry_inv (fs : FS) (pfs : ParsedFS) (fuel : Nat) (pname : String) (st : PState) (e : Entry) (h : StInv fs st) :
    StInv fs (runEntryWith true (assocFile (ops fs pfs) fuel) fs pfs pname st e) := by
  unfold runEntryWith
  split
  · exact h
  · split
    · exact ⟨h.warns, h.ghost⟩
    · rename_i tbl _
      have h0 : WarnInv fs { st := st, plat := { name := pname, tbl := tbl, incPaths := e.includePaths } } :=
        ⟨IncMemo.sound_nil _ _, h⟩
      have h1 := foldl_inv (WarnInv fs) _ (fun a x ha => forced_inv fs pfs fuel e.file a x ha) e.includeFiles _ h0
      simp only []
      split
      · exact h1.st
      · exact (assocFile_inv (WarnInv fs) (ops fs pfs) (ops_warnInv fs pfs) fuel _ _ h1).st

theorem find_inv (fs : FS) (codebase : List String) (config : List (String × List Entry)) (fuel : Nat) :
    StInv fs (find fs codebase config fuel) := by
  unfold find findWith
  simp only []
  apply foldl_inv (StInv fs)
  · intro st pe hst
    exact foldl_inv (StInv fs) _ (fun a x ha => runEntry_inv fs (parseAll fs) fuel pe.1 a x ha) pe.2 st hst
  · apply foldl_inv (StInv fs)
    · intro s f hs
      obtain ⟨fa, fb, _⟩ := insertFile_frame s (parseAll fs) (fs.realpath f)
      exact ⟨by rw [fa, fb]; exact hs.warns, by rw [fb]; exact hs.ghost⟩
    · exact ⟨rfl, by intro v hv; simp at hv⟩

/-! ## `#pragma once`: the once-list only grows -/
def SkipHas (s : List String) (w : World) : Prop := ∀ x ∈ s, x ∈ w.plat.skip

theorem includeStep_plat (m : Bool) (fs : FS) (pfs : ParsedFS) (file : String) (w : World) (idx : Nat) (n : PNode) :
    (includeStep m fs pfs file w idx n).2.plat.skip = w.plat.skip ∧ (includeStep m fs pfs file w idx n).2.plat.tbl = w.plat.tbl ∧
    (includeStep m fs pfs file w idx n).2.plat.incPaths = w.plat.incPaths ∧ (includeStep m fs pfs file w idx n).2.plat.name = w.plat.name := by
  unfold includeStep
  split
  · simp [World.setErr]
  · simp only []
    split
    · simp
    · split
      · simp
      · split <;> simp

theorem ops_skipHas (m : Bool) (fs : FS) (pfs : ParsedFS) (s : List String) : OpsInv (SkipHas s) (opsWith m fs pfs) where
  evalIf file w i hw := by
    simp only [opsWith]
    split
    · rcases evalCondW_cases w _ with h | ⟨e, h⟩ <;> rw [h]
      · exact hw
      · exact hw
    · exact hw
  enter file w i hw := by
    simp only [opsWith]
    unfold enter
    split
    · exact hw
    · split
      · exact hw
      · rename_i n _
        split
        · split
          · split
            · intro x hx; simp only [List.mem_append]; exact .inl (hw x hx)
            · exact hw
          · exact hw
        · split
          · split <;> exact hw
          · exact hw
        · exact hw
        · intro x hx; rw [(includeStep_plat m fs pfs file w i n).1]; exact hw x hx
        · exact hw
  record w file out hw := hw
  noFuel w hw := hw
  crash w hw := hw

end CbiVerif.Inc
