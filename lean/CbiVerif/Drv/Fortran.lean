import Lean.Data.Json
import CbiVerif.Model.FSource
import CbiVerif.Model.FCleanCells
import CbiVerif.Model.FLoopCells
import CbiVerif.Spec.FortranRef
import CbiVerif.Spec.FortranNodes
import CbiVerif.Model.FCond
import CbiVerif.PP.Analyse
/-! driver ops for C17: `fortran` (line classification: model, spec, wf, k) and `fortran_cond`
(conditional selection: `Fortran.analyseFortran` vs `Fortran.referenceFortran`, i.e. the C01 model /
reference on the Fortran node list) -/
open Lean
namespace CbiVerif.Drv.Fortran
open CbiVerif.Fortran

def natArr (l : List Nat) : Json := Json.arr (l.map fun (n : Nat) => (n : Json)).toArray

def errName : FErr → String
  | .notTop => "notTop" | .eofBackslash => "eofBackslash" | .inconsistent => "inconsistent"

def handleFortran (j : Json) : Json :=
  let text := (j.getObjValAs? String "text").toOption.getD ""
  let model : Json :=
    match fortranSource text with
    | .error e => Json.mkObj [("exc", errName e)]
    | .ok lls =>
      Json.mkObj [
        ("ok", Json.arr (lls.map fun l => Json.arr #[natArr l.lines, Json.str (String.ofList l.text), Json.bool l.isDir]).toArray),
        ("nodes", Json.arr ((group lls).map fun n => Json.arr #[Json.bool n.isDir, natArr n.lines, (n.numLines : Nat)]).toArray),
        ("counted", natArr (countedOf lls))]
  let spec := refText text
  Json.mkObj [
    ("model", model),
    ("wf", Json.bool spec.isSome),
    ("spec", match spec with | none => Json.null | some r => natArr (countedLines r)),
    ("k", match spec with | none => Json.arr #[] | some r => natArr (kLines r)),
    -- the groups of `Spec/FortranNodes.lean` (`C17.nodes_eq_ref`)
    ("spec_nodes", match spec with
      | none => Json.null
      | some _ => Json.arr ((refNodes text).map fun (x : Bool × List Nat) => Json.arr #[Json.bool x.1, natArr x.2]).toArray),
    ("nphys", ((splitLines text).length : Nat))]


/-! ## conditional selection

`{"op":"fortran_cond","text":…,"defs":[…]}` →
`{"nodes": [[is_directive,[lines]],…] | null,           -- Fortran node list (`group`), null if the source raises
  "model": {"ok":[[kind,[lines],attributed],…],"lines":[…]} | {"exc":…},
  "spec":  {"rows":[…],"lines":[…],"bad":b,"unterminated":b,"diag":b,"err":null|str,"c23":b} | {"exc":…},
  "wf":    spec has no structural diagnostic, no unterminated #if, no redefinition diagnostic}`
`model` = `Fortran.analyseFortran`, `spec` = `Fortran.referenceFortran` (`Model/FCond.lean`): the Fortran node
list through the ONE C01 model / reference (`PP.analyseNodes` / `PP.referenceNodes`). -/

def rowsJson (rows : List PP.Row) : Json :=
  Json.arr (rows.map fun (k, ls, a) =>
    Json.arr #[Json.str ((toString (repr k)).splitOn "." |>.getLast!), natArr ls, Json.bool a]).toArray

def handleCond (j : Json) : Json :=
  let text := (j.getObjValAs? String "text").toOption.getD ""
  let defs := ((j.getObjValAs? (Array String) "defs").toOption.getD #[]).toList
  let nodes : Json := match fortranSource text with
    | .error _ => Json.null
    | .ok lls => Json.arr ((group lls).map fun n => Json.arr #[Json.bool n.isDir, natArr n.lines]).toArray
  let model := match analyseFortran text defs with
    | .ok rows => Json.mkObj [("ok", rowsJson rows), ("lines", natArr (attributedLines rows))]
    | .error e => Json.mkObj [("exc", toString (repr e))]
  let ref := referenceFortran text defs
  let spec := match ref with
    | .ok r => Json.mkObj [("rows", rowsJson r.rows), ("lines", natArr (attributedLines r.rows)),
        ("bad", r.bad), ("unterminated", r.unterminated), ("diag", r.diag),
        ("err", match r.err with | some e => Json.str (toString (repr e)) | none => Json.null),
        ("c23", r.c23)]
    | .error e => Json.mkObj [("exc", toString (repr e))]
  let wf := match ref with
    | .ok r => !r.bad && !r.unterminated && !r.diag
    | .error _ => false
  Json.mkObj [("wf", Json.bool wf), ("nodes", nodes), ("model", model), ("spec", spec)]

/-! ## `fclean_cells`: the model's cells, to be diffed against the regenerated tables

`{"op":"fclean_cells","starts":[[[stack ids],[verify_continue code points]]],"lines":[[code points]],
  "codepoints":[n],"dstacks":[[ids]]}` →
`{"lines":[[entry per line] per start], "charclass":[class index per code point],
  "dstep":[[[entry per ASCII character] per blank=false,true] per dstack], "dnewline":[entry per dstack]}`
— the functions of `Model/FCleanCells.lean`, the ones the table theorems are about. -/
open CbiVerif.Fortran.Regen in
def handleCells (j : Json) : Json :=
  let starts := ((j.getObjValAs? (Array (Array (Array Nat))) "starts").toOption.getD #[]).toList.map fun a =>
    ((a[0]?.getD #[]).toList, (a[1]?.getD #[]).toList)
  let lines := ((j.getObjValAs? (Array (Array Nat)) "lines").toOption.getD #[]).toList.map (·.toList)
  let cps := ((j.getObjValAs? (Array Nat) "codepoints").toOption.getD #[]).toList
  let dstacks := ((j.getObjValAs? (Array (Array Nat)) "dstacks").toOption.getD #[]).toList.map (·.toList)
  let ent (e : Regen.Entry) : Json :=
    Json.arr #[Json.bool e.1, natArr e.2.1, natArr e.2.2.1, natArr e.2.2.2.1, Json.bool e.2.2.2.2]
  let cent (e : Regen.CEntry) : Json := Json.arr #[Json.bool e.1, natArr e.2.1, natArr e.2.2]
  Json.mkObj [
    ("lines", Json.arr (starts.map fun s0 => Json.arr (lines.map fun l => ent (lineObs (startSt s0) (chars l))).toArray).toArray),
    ("charclass", natArr (cps.map fun n => clsIdx (cls (Char.ofNat n)))),
    ("dstep", Json.arr (dstacks.map fun st => Json.arr ([false, true].map fun b =>
      Json.arr ((List.range 128).map fun n => cent (dCell (st.map dModeOfId) b (Char.ofNat n))).toArray).toArray).toArray),
    ("dnewline", Json.arr (dstacks.map fun st => cent (dNewlineCell (st.map dModeOfId))).toArray)]

/-! ## `floop_cells`: the model's loop iterations, to be diffed against the regenerated loop table

`{"op":"floop_cells","configs":[{"pre":[[[lines],[text code points],isDirective]],"n":number of physical lines of the
  prefix,"probes":[{"c":[[[lines],[code points],isDirective]],"n":number of physical lines of the probe}]}]}` →
`{"configs":[{"key":[[stack ids],[verify_continue],category,empty,trailing],"rows":[entry]}]}`, entry =
`[raises, [yield], [[stack ids],[verify_continue]], [yield], eofRaises, [yield], [yield]]`, yield = `[[lines],[code points],isDir]`
— `Regen.loopObs` / `Regen.absCfg` of `Model/FLoopCells.lean`, the functions `C17.floop_table_agrees` is about. -/
open CbiVerif.Fortran.Regen in
def handleLoopCells (j : Json) : Json :=
  let nats (x : Json) : List Nat := ((fromJson? x : Except String (Array Nat)).toOption.getD #[]).toList
  let yIn (x : Json) : Y :=
    match x with
    | .arr a => (nats (a[0]?.getD Json.null), nats (a[1]?.getD Json.null), (a[2]?.getD Json.null).getBool?.toOption.getD false)
    | _ => ([], [], false)
  let ysIn (x : Json) : List Y := match x with | .arr a => a.toList.map yIn | _ => []
  let yOut (y : Y) : Json := Json.arr #[natArr y.1, natArr y.2.1, Json.bool y.2.2]
  let ysOut (l : List Y) : Json := Json.arr (l.map yOut).toArray
  let cfgs := match j.getObjVal? "configs" with | .ok (.arr a) => a.toList | _ => []
  Json.mkObj [("configs", Json.arr (cfgs.map fun c =>
    let pre := ysIn ((c.getObjVal? "pre").toOption.getD Json.null)
    let n0 := (c.getObjValAs? Nat "n").toOption.getD 0
    let k := cfgAfter pre
    let key := absCfg k
    let probes := match c.getObjVal? "probes" with | .ok (.arr a) => a.toList | _ => []
    Json.mkObj [
      ("key", Json.arr #[natArr key.1.1, natArr key.1.2, (key.2.1 : Nat), Json.bool key.2.2.1, Json.bool key.2.2.2]),
      ("rows", Json.arr (probes.map fun p =>
        let e := loopObs k (n0 + (p.getObjValAs? Nat "n").toOption.getD 0) (ysIn ((p.getObjVal? "c").toOption.getD Json.null))
        Json.arr #[Json.bool e.1, ysOut e.2.1, Json.arr #[natArr e.2.2.1.1, natArr e.2.2.1.2], ysOut e.2.2.2.1,
                   Json.bool e.2.2.2.2.1, ysOut e.2.2.2.2.2.1, ysOut e.2.2.2.2.2.2]).toArray)]).toArray)]

def handlers : List (String × (Json → Json)) :=
  [("fortran", handleFortran), ("fortran_cond", handleCond), ("fclean_cells", handleCells), ("floop_cells", handleLoopCells)]

end CbiVerif.Drv.Fortran
