#!/venv/bin/python
"""seed_table.py : write seeded/MATRIX.md from seeded/*/meta.json (which check catches which seeded change, as recorded by
tools/seed_matrix.py / seed_matrix_par.py on the tree of the commit that contains the file)."""
import json
from pathlib import Path
V = Path(__file__).resolve().parents[1]
rows, tot, own, own_nf, other_only, missed = [], 0, 0, 0, 0, 0
for sd in sorted(p for p in (V / "seeded").iterdir() if p.is_dir() and (p / "meta.json").exists()):
    m = json.loads((sd / "meta.json").read_text())
    pid = m["property"]
    title = ""
    if (sd / "notes.md").exists():
        title = (sd / "notes.md").read_text().splitlines()[0].lstrip("# ").strip()[:110]
    cr = m.get("checks_run", [])
    o = [c for c in cr if c["check"].split()[1] == pid]
    oh = o[-1]["how"] if o else "not run"
    others = sorted({c["check"].split()[1] + ("*" if "no-failing" in c["how"] else "") for c in cr
                     if c.get("caught") and c["check"].split()[1] != pid})
    tot += 1
    if oh == "violation with concrete replay":
        own += 1
    elif oh == "no-failing-input-found":
        own_nf += 1
    elif others:
        other_only += 1
    else:
        missed += 1
    rows.append(f"| {sd.name} | {oh} | {' '.join(others)} | {title} |")
out = ["# Seeded changes and the checks that catch them", "",
       f"{tot} independently written changes (each keeps the 145 tests green and breaks its property; confirmed by `tools/seed_verify.sh`).",
       f"Caught by the check of their own property with a concrete replay: {own}; only as `no-failing-input-found`: {own_nf}; "
       f"only by the check of another property: {other_only}; by none: {missed}.",
       "`*` = that check reports `no-failing-input-found`.  Retired changes (behaviour-neutral after a repair) are under `seeded/_retired/`.", "",
       "| change | own property's check (quick tier) | other checks that catch it (where run) | title |", "|---|---|---|---|"] + rows
(V / "seeded" / "MATRIX.md").write_text("\n".join(out) + "\n")
print(out[3])
