#!/bin/bash
# Build the verification framework offline from files on disk only.
set -e
cd "$(dirname "$0")"
export PATH="/opt/veriftools/lean/bin:$PATH"
/venv/bin/python tools/gen_tables.py /repo
cd lean
lake build CbiVerif cbidriver
echo '{"op":"ping"}' | .lake/build/bin/cbidriver > /dev/null
echo "setup ok"
