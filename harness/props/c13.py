"""C13 — compilation-database entries resolve to the right files and directories.

Implementation: codebasin.config.load_database (log records captured), CompilationDatabase.from_json,
                util._validate_json, source.is_source_file, finder.find (end-to-end attribution)
Model (Lean):   CbiVerif.DbPath (posixpath algebra, pathlib suffix, shlex.split, schema predicate,
                load_database loop) — driver ops "dbpath", "dbload"
Spec (Lean):    CbiVerif.DbResolve (locations = component lists), same driver reply
Independent oracles (Python, written here from the property text):
  * the kernel: `os.stat(<directory>/<file>)` must be the same inode as the path the analysis resolved
    (no path algebra at all), and the path must be spelled absolute, without `.`/`..`/empty segments;
  * gcc: `gcc -E <-I as spelled> <file as spelled>` run with cwd = the entry's directory must open exactly
    the files (markers) the analysis attributes for that entry;
  * jsonschema on the schema file for the schema stream.
"""
from __future__ import annotations

import itertools
import json
import logging
import os
import posixpath
import shlex
import subprocess
from pathlib import PurePosixPath

from harness import core

TOPVAR = "{TOP}"
WARN_MISSING = "Ignoring non-existent file: "
WARN_EMPTY = "No files found in compilation database"


# --------------------------------------------------------------------------------------------
# scratch trees
# --------------------------------------------------------------------------------------------
def make_tree(rng):
    """Description of a random source tree below {TOP}: root `proj`, a build directory inside and one
    outside the root, include directories with same-named headers, sources with the same base name in
    several directories, every file with a unique marker, one symlinked directory."""
    rootname = rng.choice(["proj", "proj", "my proj", "p.c", "a/b/proj"])
    root = rootname
    inside = ["src", "src/sub", "inc", "src/inc", "build", "build/inc", "lib/deep"]
    outside = ["out", "out/inc", "out/src", "other/inc"]
    dirs = [root] + [f"{root}/{d}" for d in inside] + outside
    files = {}
    n = [0]

    def mark():
        n[0] += 1
        return f"MARK_{n[0]}"

    incdirs = [f"{root}/inc", f"{root}/src/inc", f"{root}/build/inc", "out/inc", "other/inc", f"{root}/build"]
    rng.shuffle(incdirs)
    # h2.h: leaf headers
    for d in incdirs[: rng.randint(2, 4)]:
        files[f"{d}/h2.h"] = f"int {mark()};\n"
    # h0.h / h1.h: marker, then at most one include (the last line)
    for d in incdirs:
        for h in ("h0.h", "h1.h"):
            if rng.random() < 0.7:
                tail = rng.choice(["", '#include "h2.h"\n', "#include <h2.h>\n", ""])
                files[f"{d}/{h}"] = f"#ifndef G_{n[0]}\n#define G_{n[0]}\nint {mark()};\n#endif\n" + tail
    srcdirs = [f"{root}/src", f"{root}/src/sub", f"{root}", f"{root}/build", "out/src", "out", f"{root}/lib/deep"]
    sources = []
    for d in srcdirs:
        for name in ("a.c", "b.cpp", "main.cc", "k.F90x", "t.h"):
            if name.endswith("x"):
                continue
            if rng.random() < 0.55:
                # (descent-only spellings: `#include "../x"` through a symlinked -I directory is C04's subject)
                inc = rng.choice(['#include "h0.h"\n', "#include <h0.h>\n", "#include <h1.h>\n", '#include "inc/h1.h"\n',
                                  '#include "h1.h"\n', ""])
                files[f"{d}/{name}"] = f"int {mark()};\nint v;\n" + inc
                sources.append(f"{d}/{name}")
    if not sources:
        files[f"{root}/src/a.c"] = f"int {mark()};\n#include \"h0.h\"\n"
        sources.append(f"{root}/src/a.c")
    # things that are not sources
    others = []
    for d in (f"{root}/build", "out", f"{root}/src"):
        for name in ("a.o", "lib.a", "prog", "notes.txt", "x.c.o", "Makefile"):
            if rng.random() < 0.4:
                files[f"{d}/{name}"] = f"int {mark()};\n"
                others.append(f"{d}/{name}")
    links = []
    if rng.random() < 0.7:
        links.append((f"{root}/lnk", os.path.relpath(rng.choice(["out/inc", "out/src", "out"]), root)))
    if rng.random() < 0.4:
        links.append(("alias", root))
    return {"root": root, "dirs": dirs, "files": files, "links": links, "sources": sources, "others": others,
            "incdirs": incdirs}


def materialise(top, tree):
    for d in tree["dirs"]:
        os.makedirs(os.path.join(top, d), exist_ok=True)
    for f, text in tree["files"].items():
        with open(os.path.join(top, f), "w") as fh:
            fh.write(text)
    for ln, tgt in tree["links"]:
        p = os.path.join(top, ln)
        if not os.path.lexists(p):
            os.symlink(tgt, p)


def markers_by_realpath(top, tree):
    out = {}
    for f, text in tree["files"].items():
        ms = [w.rstrip(";") for w in text.split() if w.startswith("MARK_")]
        out[os.path.realpath(os.path.join(top, f))] = ms[0]
    return out


# --------------------------------------------------------------------------------------------
# spellings
# --------------------------------------------------------------------------------------------
def my_norm(p):
    """The oracle's own reading of an absolute spelling: component stack (no os.path)."""
    assert p.startswith("/")
    st = []
    for c in p.split("/"):
        if c in ("", "."):
            continue
        if c == "..":
            if st:
                st.pop()
        else:
            st.append(c)
    return st


PROTECT = []


class VFS:
    """what the generator needs to know about the scratch tree, answered from its description
    (no file-system access while generating)"""

    def __init__(self, top, tree):
        self.top = top
        self.realdirs = {"/"}
        for d in [top] + [os.path.join(top, x) for x in tree["dirs"]]:
            parts = d.split("/")
            for k in range(2, len(parts) + 1):
                self.realdirs.add("/".join(parts[:k]))
        self.files = {os.path.join(top, f) for f in tree["files"]}
        self.links = {}
        for ln, tgt in tree["links"]:
            a = os.path.join(top, ln)
            self.links[a] = "/" + "/".join(my_norm(os.path.dirname(a) + "/" + tgt))

    def isrealdir(self, p):
        return "/" + "/".join(my_norm(p)) in self.realdirs

    def real(self, p):
        """realpath of a directory that is either real or one of the links"""
        return self.links.get(p, p)

    def exists(self, p):
        return p in self.files or p in self.realdirs or p in self.links


FS = []


def noise(rng, s, base_abs, allow_hazard=False):
    """Insert redundant segments into the spelling `s` (read in directory base_abs) that the kernel
    resolves to the same place: `.`, empty, `X/../X` for an existing real directory X, a trailing slash
    on directories is added by the caller.  With allow_hazard also `ghost/..` (non-existent directory).
    The scratch directory prefix itself is left alone (it is replaced by {TOP} in stored cases)."""
    if PROTECT and s.startswith(PROTECT[0] + "/"):
        return PROTECT[0] + "/" + noise(rng, s[len(PROTECT[0]) + 1:], PROTECT[0], allow_hazard)
    parts = s.split("/")
    out = []
    for i, c in enumerate(parts):
        last = i == len(parts) - 1
        r = rng.random()
        if c in ("", ".", ".."):
            out.append(c)
            continue
        if r < 0.12:
            out.append(".")
        elif r < 0.2 and i > 0:
            out.append("")
        elif r < 0.32 and not last:
            here = "/".join(parts[: i + 1])
            full = here if here.startswith("/") else base_abs + "/" + here
            if FS[0].isrealdir(full):
                out += [c, ".."]
        elif r < 0.36 and allow_hazard:
            out += ["ghost", ".."]
        out.append(c)
    return "/".join(out)


def spell(rng, target_abs, base_abs, is_dir, hazard=False):
    """Spell the absolute path target_abs for a reader standing in base_abs."""
    r = rng.random()
    if r < 0.3:
        s = target_abs
    else:
        s = os.path.relpath(target_abs, FS[0].real(base_abs))
        if FS[0].real(base_abs) != base_abs:
            # base reached through a symlink: a relative spelling with `..` would be read differently
            # by the kernel; use a descent-only or absolute spelling
            if s.startswith("..") and not hazard:
                s = target_abs
            elif hazard and rng.random() < 0.5:
                s = os.path.relpath(target_abs, "/" + "/".join(my_norm(base_abs)))  # lexical reading of the base
    if rng.random() < 0.45:
        s = noise(rng, s, base_abs, hazard)
    if is_dir and rng.random() < 0.2:
        s += "/"
    if s.startswith("/") and rng.random() < 0.05:
        s = "/" + s  # exactly two leading slashes (kept by normpath)
    return s


COMPILERS = ["gcc", "g++", "clang", "/usr/bin/gcc", "cc", "mystery-cc", "icpx", "nvcc", "icx"]


def gen_db(rng, top, tree, hazard=False):
    """Entries (with {TOP} for the scratch directory) + the generator's intent for each."""
    PROTECT[:] = [top]
    FS[:] = [VFS(top, tree)]
    root_abs = os.path.join(top, tree["root"])
    dirs_abs = [os.path.join(top, d) for d in tree["dirs"]]
    linkdirs = [os.path.join(top, ln) for ln, _ in tree["links"]]
    entries, intents = [], []
    for _ in range(rng.randint(1, 7)):
        kind = rng.choices(["good", "missing", "object", "link", "empty", "nonsource"], [60, 10, 8, 6, 10, 6])[0]
        # --- directory
        dchoice = rng.random()
        if dchoice < 0.25:
            D, dsp = None, None
        else:
            D = rng.choice([root_abs, os.path.join(root_abs, "build"), os.path.join(top, "out"),
                            os.path.join(root_abs, "src"), os.path.join(root_abs, "lib/deep")] + linkdirs[:1])
            if rng.random() < 0.5:
                dsp = noise(rng, D, "/", hazard) if rng.random() < 0.3 else D
            else:
                dsp = os.path.relpath(D, root_abs)
                if rng.random() < 0.4:
                    dsp = noise(rng, dsp, root_abs, hazard)
                if rng.random() < 0.2:
                    dsp += "/"
        base = D or root_abs
        # --- file
        if kind in ("good", "empty"):
            T = os.path.join(top, rng.choice(tree["sources"]))
        elif kind == "missing":
            T = os.path.join(rng.choice(dirs_abs), rng.choice(["gone.c", "gen/auto.cpp", "a.c.in.c"]))
            if FS[0].exists(T):
                kind = "good"
        elif kind in ("object", "link", "nonsource"):
            T = os.path.join(top, rng.choice(tree["others"])) if tree["others"] and rng.random() < 0.7 else \
                os.path.join(base, rng.choice(["x.o", "a.out", "prog", "README", "lib.so.1"]))
        fsp = spell(rng, T, base, False, hazard)
        # --- include directories
        incs = []
        isys = set()
        used = set()
        for _k in range(rng.choice([0, 1, 1, 2, 3])):
            U = os.path.join(top, rng.choice(tree["incdirs"])) if rng.random() < 0.9 else os.path.join(base, "no/such/inc")
            if U in used:
                continue
            used.add(U)
            form = rng.choice(["-I_", "-I", "-isystem"])
            incs.append((form, spell(rng, U, base, True, hazard), U))
        cc = rng.choice(COMPILERS)
        argv = [cc]
        if cc in ("icpx", "icx") and rng.random() < 0.7:
            argv.append("-fsycl")
        if rng.random() < 0.5:
            argv.append(rng.choice(["-DX=1", "-DNAME", "-DS=a b", "-O2", "-g"]))
        for form, sp, _U in incs:
            if form == "-I_":
                argv.append("-I" + sp)
            else:
                argv += [form, sp]
        if kind == "link":
            argv = [rng.choice(["ld", "gcc", "ar"]), "-o", "prog", fsp]
        else:
            argv += ["-c", fsp]
            if rng.random() < 0.5:
                argv += ["-o", "obj/x.o"]
        e = {"file": fsp}
        if dsp is not None:
            e["directory"] = dsp
        if kind == "empty":
            r = rng.random()
            if r < 0.4:
                e["arguments"] = []
            elif r < 0.7:
                e["command"] = rng.choice(["", " ", " \t "])
            else:
                e["arguments"] = []
                e["command"] = shlex.join(argv)  # arguments wins
        else:
            r = rng.random()
            if r < 0.5:
                e["arguments"] = argv
            elif r < 0.9:
                e["command"] = shlex.join(argv) if rng.random() < 0.7 else " ".join(
                    a if (" " not in a and "'" not in a) else '"' + a + '"' for a in argv)
            else:
                e["arguments"] = argv
                e["command"] = ""  # ignored
        if rng.random() < 0.2:
            e["output"] = "obj/x.o"
        entries.append(e)
        intents.append({"kind": kind, "target": T, "base": base, "incs": [(f, s, u) for f, s, u in incs], "argv": argv})

    return templ(entries, top), templ(intents, top)


def templ(x, top):
    if isinstance(x, str):
        return x.replace(top, TOPVAR)
    if isinstance(x, (list, tuple)):
        return [templ(y, top) for y in x]
    if isinstance(x, dict):
        return {k: templ(v, top) for k, v in x.items()}
    return x


# --------------------------------------------------------------------------------------------
# stream "shared": build-system style databases -- the same spelled strings in many directories
# --------------------------------------------------------------------------------------------
MOD_INSIDE = ["a", "b", "sub/c", "build/debug", "build/release", "src", "lib/deep"]
MOD_OUTSIDE = ["obj", "out/mod", "other"]
MOD_SOURCES = ["main.c", "version.c", "util/x.cpp", "gen/auto.cc", "x.cpp"]
MOD_INCDIRS = ["inc", "include", "util", "../shared/inc", "."]


def make_module_tree(rng):
    """A tree in which one relative layout (sources, include directories, headers) is instantiated below
    several `module' directories -- inside the root, the root itself, outside the root -- each file being
    present in a module only with some probability.  Hence one and the same relative spelling (`main.c`,
    `inc`, `../shared/inc`) names a different existing object, or nothing, depending on the directory in
    which it is read.  Every file carries a unique marker; no symbolic links (those are the hazard stream)."""
    rootname = rng.choice(["proj", "proj", "my proj", "p.c", "a/b/proj"])
    mods = rng.sample(MOD_INSIDE, rng.randint(2, 4))
    if rng.random() < 0.6:
        mods.append("")  # the root itself is a module
    mdirs = [f"{rootname}/{m}" if m else rootname for m in mods] + rng.sample(MOD_OUTSIDE, rng.choice([0, 1, 1, 2]))
    rng.shuffle(mdirs)
    sources_t = rng.sample(MOD_SOURCES, rng.randint(2, 4))
    incdirs_t = rng.sample(MOD_INCDIRS, rng.randint(1, 3))
    n = [0]

    def mark():
        n[0] += 1
        return f"MARK_{n[0]}"

    def norm(p):
        return "/".join(my_norm("/" + p))

    dirs, files, sources = [rootname] + list(mdirs), {}, []
    for md in mdirs:
        for idir in incdirs_t:
            d = norm(f"{md}/{idir}")
            if rng.random() < 0.85:
                dirs.append(d)
                if rng.random() < 0.5 and f"{d}/ver.h" not in files:
                    files[f"{d}/ver.h"] = f"int {mark()};\n"
                if rng.random() < 0.75 and f"{d}/cfg.h" not in files:
                    tail = rng.choice(["", '#include "ver.h"\n', "#include <ver.h>\n", ""])
                    files[f"{d}/cfg.h"] = f"#ifndef G_{n[0]}\n#define G_{n[0]}\nint {mark()};\n#endif\n" + tail
        for sf in sources_t:
            if rng.random() < 0.6:
                f = f"{md}/{sf}"
                dirs.append(posixpath.dirname(f))
                inc = rng.choice(['#include "cfg.h"\n', "#include <cfg.h>\n", '#include "inc/cfg.h"\n', "#include <ver.h>\n", ""])
                files[f] = f"int {mark()};\nint v;\n" + inc
                sources.append(f)
    if not sources:
        f = f"{mdirs[0]}/{sources_t[0]}"
        dirs.append(posixpath.dirname(f))
        files[f] = f"int {mark()};\n#include \"cfg.h\"\n"
        sources.append(f)
    others = []
    for md in mdirs:
        for name in ("main.o", "prog", "lib.a"):
            if rng.random() < 0.3:
                files[f"{md}/{name}"] = f"int {mark()};\n"
                others.append(f"{md}/{name}")
    return {"root": rootname, "dirs": list(dict.fromkeys(dirs)), "files": files, "links": [], "sources": sources,
            "others": others, "incdirs": [], "modules": mdirs, "sources_t": sources_t, "incdirs_t": incdirs_t}


def light_noise(rng, s):
    """redundant segments that are harmless in EVERY directory in which the spelling will be read"""
    r = rng.random()
    if r < 0.2 and not s.startswith("/"):
        s = "./" + s
    elif r < 0.3 and "/" in s.strip("/"):
        i = s.index("/", 1)
        s = s[:i] + rng.choice(["//", "/./"]) + s[i + 1:]
    return s


def gen_db_shared(rng, top, tree):
    """A database as a build system writes it: a few `rules' (a command line spelled ONCE: compiler, options,
    relative -I values, relative or absolute file) each applied in several module directories, so that entries
    share their `file` string and/or their whole argv and differ only in `directory` (spelled per entry:
    absent for the root, absolute, relative to the root, with redundant segments).  Some entries are repeated
    verbatim, some get a per-entry option, two rules may name the same file; rules for object files, link
    commands and empty commands are mixed in.  Whether an entry is `good' or `missing' is read off the tree:
    the same spelling exists in some modules and not in others.  Order: shuffled, module-major or rule-major."""
    PROTECT[:] = [top]
    FS[:] = [VFS(top, tree)]
    root_abs = os.path.join(top, tree["root"])
    mods = [os.path.join(top, m) for m in tree["modules"]]
    rules = []
    for _ in range(rng.randint(1, 3)):
        kind = rng.choices(["source", "object", "link", "empty"], [80, 7, 6, 7])[0]
        if kind == "source":
            if rng.random() < 0.85:
                fsp = light_noise(rng, rng.choice(tree["sources_t"] + ["gone.c"] * (rng.random() < 0.15)))
            else:
                fsp = os.path.join(top, rng.choice(tree["sources"]))  # one absolute file compiled from many directories
        elif kind == "empty":
            fsp = rng.choice(tree["sources_t"])
        else:
            fsp = rng.choice(["main.o", "prog", "lib.a", "util/x.o"])
        incs = []
        for idir in rng.sample(tree["incdirs_t"] + ["no/such/inc"], rng.choice([0, 1, 1, 2, 2])):
            form = rng.choice(["-I_", "-I", "-isystem"])
            if rng.random() < 0.12:
                sp = "/" + "/".join(my_norm(rng.choice(mods) + "/" + idir))  # an absolute one among the relative ones
            else:
                sp = light_noise(rng, idir) + ("/" if rng.random() < 0.15 else "")
            incs.append((form, sp))
        cc = rng.choice(COMPILERS)
        argv = [cc]
        if cc in ("icpx", "icx") and rng.random() < 0.7:
            argv.append("-fsycl")
        if rng.random() < 0.5:
            argv.append(rng.choice(["-DX=1", "-DNAME", "-DS=a b", "-O2", "-g"]))
        for form, sp in incs:
            argv += ["-I" + sp] if form == "-I_" else [form, sp]
        if kind == "link":
            argv = [rng.choice(["ld", "gcc", "ar"]), "-o", "prog", fsp]
        else:
            argv += ["-c", fsp]
            if rng.random() < 0.4:
                argv += ["-o", "obj/x.o"]
        rules.append({"kind": kind, "file": fsp, "argv": argv, "form": rng.choice(["arguments", "command"])})
    if len(rules) > 1 and rules[0]["kind"] == "source" and rng.random() < 0.25:
        # the same file compiled twice with different options
        rules[1] = dict(rules[0], argv=[rules[0]["argv"][0], "-DTWICE"] + rules[0]["argv"][1:])
    cells = []  # (rule index, module index, entry, intent)
    for ri, rule in enumerate(rules):
        k = len(mods) if rng.random() < 0.5 else rng.randint(2, len(mods))
        for mi in sorted(rng.sample(range(len(mods)), min(k, len(mods)))):
            D = mods[mi]
            r = rng.random()
            if D == root_abs and r < 0.6:
                dsp = None
            elif r < 0.35:
                dsp = noise(rng, D, "/") if rng.random() < 0.3 else D
            else:
                dsp = os.path.relpath(D, root_abs)
                if rng.random() < 0.35:
                    dsp = noise(rng, dsp, root_abs)
                if rng.random() < 0.15:
                    dsp += "/"
            argv = list(rule["argv"])
            if rule["kind"] != "link" and rng.random() < 0.15:
                argv = argv + ["-o", os.path.basename(D) + ".o"]  # nearly the same command line
            T = rule["file"] if rule["file"].startswith("/") else "/" + "/".join(my_norm(D + "/" + rule["file"]))
            if rule["kind"] == "source":
                kind = "good" if T in FS[0].files else "missing"
            else:
                kind = {"object": "object", "link": "link", "empty": "empty"}[rule["kind"]]
            e = {"file": rule["file"]}
            if dsp is not None:
                e["directory"] = dsp
            if kind == "empty":
                if rule["form"] == "arguments":
                    e["arguments"] = []
                else:
                    e["command"] = ""
            elif rule["form"] == "arguments":
                e["arguments"] = argv
            else:
                e["command"] = shlex.join(argv)
            intent = {"kind": kind, "target": T, "base": D, "incs": [], "argv": argv}
            cells.append((ri, mi, e, intent))
            if rng.random() < 0.1:
                cells.append((ri, mi, dict(e), dict(intent)))  # repeated verbatim
    order = rng.choice(["shuffle", "shuffle", "module-major", "rule-major", "reverse"])
    if order == "shuffle":
        rng.shuffle(cells)
    elif order == "module-major":
        cells.sort(key=lambda c: (c[1], c[0]))
    elif order == "reverse":
        cells.reverse()
    entries = [c[2] for c in cells]
    intents = [c[3] for c in cells]
    return templ(entries, top), templ(intents, top), order


def shared_features(case, top):
    """Which cross-entry situations the database contains (measured on the concrete entries, for the
    distribution buckets): kept entries with identical argv read in different directories; an entry for a
    missing file followed by a kept entry with the same `file` string; the same for any skipped entry."""
    feats = set()
    seen_argv, seen_missing, seen_file = {}, set(), {}
    for e, i in zip(case["entries"], case["intents"]):
        a = tuple(i["argv"])
        if i["kind"] == "good":
            rel_inc = any(not x.startswith(("/", TOPVAR)) for x in own_incs(list(a)))
            if a in seen_argv and i["base"] not in seen_argv[a]:
                feats.add("same-argv-other-dir" + ("+rel-I" if rel_inc else ""))
            seen_argv.setdefault(a, set()).add(i["base"])
            if e["file"] in seen_missing:
                feats.add("missing-then-present-same-file-string")
            if e["file"] in seen_file and i["target"] not in seen_file[e["file"]]:
                feats.add("same-file-string-other-target")
            if e["file"] in seen_file and i["target"] in seen_file[e["file"]]:
                feats.add("same-target-again")
            seen_file.setdefault(e["file"], set()).add(i["target"])
        elif i["kind"] == "missing":
            seen_missing.add(e["file"])
    return feats


def subst(x, top):
    if isinstance(x, str):
        return x.replace(TOPVAR, top)
    if isinstance(x, list):
        return [subst(y, top) for y in x]
    if isinstance(x, dict):
        return {k: subst(v, top) for k, v in x.items()}
    return x


# --------------------------------------------------------------------------------------------
# implementation adapters
# --------------------------------------------------------------------------------------------
class Capture(logging.Handler):
    def __init__(self):
        super().__init__(level=logging.DEBUG)
        self.records = []

    def emit(self, record):
        self.records.append((record.levelname, record.getMessage()))


def impl_load(dbpath, rootdir, cwd=None):
    """config.load_database with the warnings of codebasin.config captured."""
    from codebasin import config

    lg = logging.getLogger("codebasin.config")
    cap = Capture()
    old_level, old_prop = lg.level, lg.propagate
    lg.setLevel(logging.WARNING)
    lg.propagate = False
    lg.addHandler(cap)
    here = os.getcwd()
    try:
        if cwd:
            os.chdir(cwd)
        try:
            res = config.load_database(dbpath, rootdir)
            out = {"entries": [{"file": e["file"], "include_paths": list(e["include_paths"]), "pass": e["pass_name"]} for e in res],
                   "raw": res}
        except Exception as ex:  # noqa
            out = {"error": type(ex).__name__, "msg": str(ex)[:200]}
    finally:
        os.chdir(here)
        lg.removeHandler(cap)
        lg.setLevel(old_level)
        lg.propagate = old_prop
    out["missing"] = [m[len(WARN_MISSING):] for lv, m in cap.records if lv == "WARNING" and m.startswith(WARN_MISSING)]
    out["empty_warning"] = any(m.startswith(WARN_EMPTY) for lv, m in cap.records if lv == "WARNING")
    out["all_warnings"] = [m for lv, m in cap.records if lv == "WARNING"]
    out["errors_logged"] = [m for lv, m in cap.records if lv in ("ERROR", "CRITICAL")]
    return out


def real_parses(entries):
    """What the real ArgumentParser makes of each distinct argv: [(argv, [(pass, raw include_paths)])]."""
    from codebasin import CompileCommand, config

    table, seen = [], set()
    for e in entries:
        try:
            argv = CompileCommand.from_json(e).arguments
        except Exception:  # noqa
            continue
        if not argv or tuple(argv) in seen:
            continue
        seen.add(tuple(argv))
        try:
            cfgs = config.ArgumentParser(os.path.basename(argv[0])).parse_args(argv[1:])
            table.append([argv, [[c.pass_name, list(c.include_paths)] for c in cfgs]])
        except BaseException:  # noqa  (argparse errors are C11's subject)
            table.append([argv, None])
    return table


def canon(entries):
    """order-insensitive within runs of the same file (pass order = set iteration order)"""
    out, run = [], []
    for e in entries:
        if run and run[-1]["file"] != e["file"]:
            out += sorted(run, key=lambda x: (x["pass"], x["include_paths"]))
            run = []
        run.append({"file": e["file"], "include_paths": e["include_paths"], "pass": e["pass"]})
    out += sorted(run, key=lambda x: (x["pass"], x["include_paths"]))
    return out


def comps(p):
    return [c for c in p.split("/") if c]


def spelled_ok(p):
    """absolute, no empty/./.. segments (the leading `//` spelling of normpath is tolerated)"""
    if not p.startswith("/"):
        return False
    body = p[2:] if p.startswith("//") and not p.startswith("///") else p[1:]
    if body == "":
        return True
    return all(c not in ("", ".", "..") for c in body.split("/"))


def model_load(drv, cwd, root, doc, parses):
    """two-phase call: first learn which paths the model asks the existence oracle about, answer them
    with os.path.isfile (the test load_database makes since the repair of F-C13-3), then run model and spec with those answers."""
    req = {"op": "dbload", "cwd": cwd, "root": root, "doc": doc, "parses": [p for p in parses if p[1] is not None]}
    r1 = drv.ask(req)
    ex = [[p, os.path.isfile(p)] for p in dict.fromkeys(r1.get("candidates", []))]
    exl = []
    for loc in r1["spec"].get("candidates", []):
        exl.append([loc, os.path.isfile("/" + "/".join(loc))])
    req["exists"] = ex
    req["exists_loc"] = exl
    return drv.ask(req)


# --------------------------------------------------------------------------------------------
# oracles
# --------------------------------------------------------------------------------------------
def base_text(root_abs, directory):
    """the entry's working directory as text, for the kernel to resolve"""
    if directory is None:
        return root_abs
    return directory if directory.startswith("/") else root_abs + "/" + directory


def in_dir(base, p):
    return p if p.startswith("/") else base + "/" + p


def dotdot_hazard(text):
    """classifier of F-C13-1: some `..` segment of the spelled path follows a prefix that is a symbolic
    link or not an existing directory (the kernel and lexical normalisation then read it differently)."""
    cs = text.split("/")
    for i, c in enumerate(cs):
        if c == "..":
            prefix = "/".join(cs[:i]) or "/"
            pn = "/" + "/".join(my_norm(prefix)) if prefix.startswith("/") else prefix
            if os.path.islink(pn) or not os.path.isdir(pn) or os.path.realpath(pn) != pn:
                return True
    return False


def entry_hazard(root_abs, e):
    b = base_text(root_abs, e.get("directory"))
    texts = [b, in_dir(b, e["file"])]
    try:
        argv = e["arguments"] if "arguments" in e else shlex.split(e.get("command", ""))
    except ValueError:
        argv = []
    for a in own_incs(argv):
        texts.append(in_dir(b, a))
    return any(dotdot_hazard(t) for t in texts)


def own_incs(argv):
    """the oracle's own reading of a gcc-style command line: -I dirs first, then -isystem dirs"""
    i_, sys_ = [], []
    k = 1
    while k < len(argv):
        a = argv[k]
        if a == "-I" and k + 1 < len(argv):
            i_.append(argv[k + 1]); k += 2
        elif a == "-isystem" and k + 1 < len(argv):
            sys_.append(argv[k + 1]); k += 2
        elif a.startswith("-I") and len(a) > 2:
            i_.append(a[2:]); k += 1
        else:
            k += 1
    return i_ + sys_


def gcc_opened(cwd, argv_incs, file_spelled):
    """markers of the files gcc opens for `gcc -E <incs> file` started in cwd"""
    cmd = ["gcc", "-E", "-P", "-x", "c", "-nostdinc"] + argv_incs + [file_spelled]
    try:
        p = subprocess.run(cmd, cwd=cwd, capture_output=True, text=True, timeout=30)
    except (OSError, subprocess.TimeoutExpired) as ex:
        return None, "ORACLE-UNAVAILABLE " + str(ex)      # gcc did not run / did not finish: no verdict (not "cannot open")
    ms = sorted(set(w.rstrip(";") for w in p.stdout.split() if w.startswith("MARK_")))
    return ms, p.stderr[-300:]


def cbi_attributed(root_abs, raw_entries, marks):
    """markers of the files to which finder.find attributes the platform for these configuration entries"""
    from codebasin import CodeBase, finder

    cb = CodeBase(root_abs)
    st = finder.find(root_abs, cb, {"p": raw_entries}, summarize_only=False)
    got = set()
    unknown = []
    for fn in st.get_filenames():
        if len(st.get_map(fn)) > 0:
            m = marks.get(os.path.realpath(fn))
            if m is None:
                unknown.append(fn)
            else:
                got.add(m)
    return sorted(got), unknown


# --------------------------------------------------------------------------------------------
# one database
# --------------------------------------------------------------------------------------------
def check_db(ctx, drv, case, use_gcc=True, count=True, intent_oracle=True, independence=True):
    """case = {tree, entries, intents, root_spelling, cwd_rel, dbplace}; returns a report (for replay).
    intent_oracle=False (stream `unopenable', which brings its own kernel/gcc expectation): only the Lean model / spec
    comparison and (unless independence=False) the entry-by-entry independence are run here."""
    core.import_codebasin()
    report = {}
    with core.Scratch() as d:
        top = os.path.realpath(str(d))
        tree = subst(case["tree"], top)          # (link targets may be absolute: {TOP}/...)
        materialise(top, tree)
        marks = markers_by_realpath(top, tree)
        entries = subst(case["entries"], top)
        intents = subst(case.get("intents", []), top) if intent_oracle else []
        root_abs = os.path.join(top, tree["root"])
        cwd = subst(case.get("cwd", ""), top) or None
        rootarg = subst(case.get("root_spelling", root_abs), top)
        dbpath = os.path.join(subst(case.get("dbplace", TOPVAR), top), "compile_commands.json")
        with open(dbpath, "w") as fh:
            json.dump(entries, fh)
        got = impl_load(dbpath, rootarg, cwd)
        parses = real_parses(entries)
        argparse_trouble = any(p[1] is None for p in parses)
        report["implementation"] = {k: v for k, v in got.items() if k != "raw"}
        eff_cwd = cwd or os.getcwd()
        kinds = "+".join(sorted(set(i["kind"] for i in intents))) if intents else "?"
        if count:
            ctx.count(key=("shared-db:" if case.get("stream") == "shared" else "db:") + kinds)
            if case.get("stream") == "shared":
                for ft in sorted(shared_features(case, top)) or ["none"]:
                    ctx.dist["shared-feature:" + ft] += 1
        hazard = any(entry_hazard(root_abs, e) for e in entries)

        # ---------------- model and spec (Lean)
        m = None
        if drv is not None and not argparse_trouble:
            m = model_load(drv, eff_cwd, rootarg, entries, parses)
            report["model"] = m["model"]
            report["spec"] = m["spec"]
            mm = m["model"]
            if "error" in got or "error" in mm:
                same = ("error" in got) and ("error" in mm) and \
                       {"schema": "ValueError", "keyError": "KeyError", "noClosingQuotation": "ValueError",
                        "noEscapedCharacter": "ValueError"}.get(mm.get("error")) == got.get("error")
            else:
                same = canon(got["entries"]) == canon(mm["entries"]) and got["missing"] == mm["missing"] \
                       and got["empty_warning"] == mm["empty_warning"]
            if not same:
                ctx.corr_break("dbload", case, report["implementation"], mm)
            # implementation vs Lean spec (locations)
            sp = m["spec"]
            if sp["wf"] and "error" not in got:
                gl = [{"file": comps(e["file"]), "include": [comps(i) for i in e["include_paths"]], "pass": e["pass"]} for e in got["entries"]]
                gl = canon([{"file": "/".join(x["file"]), "include_paths": ["/".join(i) for i in x["include"]], "pass": x["pass"]} for x in gl])
                sl = canon([{"file": "/".join(x["file"]), "include_paths": ["/".join(i) for i in x["include"]], "pass": x["pass"]} for x in sp["entries"]])
                bad_spelling = [e["file"] for e in got["entries"] if not spelled_ok(e["file"])] + \
                               [i for e in got["entries"] for i in e["include_paths"] if not spelled_ok(i)]
                if gl != sl or [comps(x) for x in got["missing"]] != sp["missing"] or bad_spelling:
                    what = "load_database differs from the specification (Lean spec on locations): "
                    if bad_spelling:
                        what += f"result path not absolute/normalised: {bad_spelling[:2]}"
                    else:
                        what += f"got {[(e['file'], e['include_paths']) for e in got['entries']][:3]} warnings {got['missing'][:2]}; " \
                                f"expected files {[('/' + '/'.join(x['file']), ['/' + '/'.join(i) for i in x['include']]) for x in sp['entries']][:3]} " \
                                f"warnings {['/' + '/'.join(x) for x in sp['missing']][:2]}"
                    ctx.violation(what, case)
            elif sp["wf"] and "error" in got:
                ctx.violation(f"load_database aborts with {got['error']}: {got.get('msg')} on a database whose entries the "
                              "specification resolves or skips", case)

        # ---------------- independent oracle: generator intent + kernel
        per_cmd = []  # (entry, intent, implementation entries of this command)
        if intents and len(intents) == len(entries):
            npass = {tuple(a): len(ps) for a, ps in parses if ps is not None}
            if "error" in got:
                ctx.violation(f"load_database aborts with {got['error']}: {got.get('msg')} (entries for missing files, "
                              "non-source files and empty commands must be skipped)", case)
            elif not argparse_trouble:
                kernel_bad = []
                pos = 0
                for e, i in zip(entries, intents):
                    if i["kind"] != "good":
                        continue
                    k = npass.get(tuple(i["argv"]))
                    if k is None:
                        ctx.notes.append(f"generator: argv {i['argv']} is not what the command form yields")
                        kernel_bad = None
                        break
                    ges = list(zip(got["entries"][pos:pos + k], got["raw"][pos:pos + k]))
                    pos += k
                    per_cmd.append((e, i, ges))
                    if len(ges) < k:
                        kernel_bad.append(f"entry for {e['file']} (directory {e.get('directory')}) is missing from the result")
                        continue
                    want = [in_dir(i["base"], s_) for s_ in own_incs(i["argv"])]
                    for ge, _raw in ges:
                        if not _same(ge["file"], i["target"]):
                            kernel_bad.append(f"analysed file {ge['file']} is not the file the entry names: {e['file']} read in "
                                              f"{base_text(root_abs, e.get('directory'))} is {i['target']}")
                        if len(ge["include_paths"]) < len(want):
                            kernel_bad.append(f"include_paths {ge['include_paths']} shorter than the command's {want}")
                            continue
                        for g, w in zip(ge["include_paths"], want):
                            if os.path.exists(w):
                                ok = _same(g, w)
                            else:
                                ok = (not os.path.exists(g)) and os.path.realpath(g) == os.path.realpath(w)
                            if not ok:
                                kernel_bad.append(f"include directory {g} is not {w}")
                if kernel_bad is not None:
                    if pos < len(got["entries"]):
                        kernel_bad.append(f"result has entries nobody asked for: {[x['file'] for x in got['entries'][pos:]]}")
                    # warnings: exactly the missing source files, in order
                    exp_missing = [i for i in intents if i["kind"] == "missing"]
                    if len(got["missing"]) != len(exp_missing):
                        kernel_bad.append(f"warnings {got['missing']} but {len(exp_missing)} entries name missing source files")
                    else:
                        for g, i in zip(got["missing"], exp_missing):
                            if os.path.realpath(g) != os.path.realpath(i["target"]):
                                kernel_bad.append(f"warning names {g}, entry names {i['target']}")
                    if got["empty_warning"] != (len(got["entries"]) == 0):
                        kernel_bad.append("closing 'No files found' warning does not match the result")
                    # the statement says non-source and empty-command entries are skipped *with a warning* too
                    silent = [i for i in intents if i["kind"] in ("object", "link", "nonsource", "empty")]
                    if silent and "error" not in got:
                        others = [m for m in got.get("all_warnings", []) if not m.startswith(WARN_MISSING) and not m.startswith(WARN_EMPTY)]
                        if len(others) < len(silent):
                            ctx.classify(dict(case, silently_skipped=[(i["kind"], i["target"]) for i in silent][:4]),
                                         f"{len(silent)} entr(y/ies) for non-source files / empty commands skipped, "
                                         f"{len(others)} warning(s) issued for them",
                                         [("F-C13-2", lambda c: True)])
                    if kernel_bad:
                        report["kernel_oracle"] = kernel_bad
                        ctx.classify(case, "load_database vs kernel reading of the entries: " + "; ".join(kernel_bad[:3]),
                                     [("F-C13-1", lambda c: hazard)])

        # ---------------- skipped entries are a frame (on the implementation)
        if intents and len(intents) == len(entries) and "error" not in got and any(i["kind"] != "good" for i in intents) \
                and any(i["kind"] == "good" for i in intents):
            kept = [e for e, i in zip(entries, intents) if i["kind"] == "good"]
            with open(dbpath, "w") as fh:
                json.dump(kept, fh)
            got2 = impl_load(dbpath, rootarg, cwd)
            if count:
                ctx.count(key="frame")
            if "error" in got2 or canon(got2["entries"]) != canon(got["entries"]):
                ctx.violation("removing the skipped entries (missing / non-source / empty command) changes the result: "
                              f"{[e['file'] for e in got['entries']]} vs {[e['file'] for e in got2.get('entries', [])]}", case)
            with open(dbpath, "w") as fh:
                json.dump(entries, fh)

        # ---------------- entries are independent of each other (on the implementation): what an entry contributes
        # (configurations, warning) is what the database consisting of that entry alone yields -- the statement
        # speaks of "every entry" by itself, so nothing may be carried from one entry to another
        if independence and "error" not in got and 2 <= len(entries) <= 40:
            alone_e, alone_m, trouble = [], [], None
            for e in entries:
                with open(dbpath, "w") as fh:
                    json.dump([e], fh)
                g1 = impl_load(dbpath, rootarg, cwd)
                if "error" in g1:
                    trouble = f"the database consisting of the entry {e} alone aborts with {g1['error']}"
                    break
                alone_e += [{k: v for k, v in x.items()} for x in g1["entries"]]
                alone_m += g1["missing"]
            if count:
                ctx.count(key="independence")
            if trouble:
                ctx.violation(trouble + ", the whole database does not", case)
            elif canon(alone_e) != canon(got["entries"]) or alone_m != got["missing"]:
                report["independence"] = {"one_by_one": alone_e, "one_by_one_missing": alone_m}
                ctx.classify(case, "the result for the whole database is not the concatenation of the results for its entries taken "
                                   f"one by one: whole {[(x['file'], x['include_paths']) for x in got['entries']][:4]} warnings "
                                   f"{got['missing'][:3]}; one by one {[(x['file'], x['include_paths']) for x in alone_e][:4]} "
                                   f"warnings {alone_m[:3]}", [])
            with open(dbpath, "w") as fh:
                json.dump(entries, fh)

        # ---------------- gcc + end-to-end attribution
        if use_gcc and "error" not in got and per_cmd:
            union_expected = set()
            gcc_ok = True
            for e, i, ges in per_cmd:
                argv = i["argv"]
                incargs = []
                k = 1
                while k < len(argv):
                    if argv[k] in ("-I", "-isystem") and k + 1 < len(argv):
                        incargs += [argv[k], argv[k + 1]]; k += 2
                    elif argv[k].startswith("-I") and len(argv[k]) > 2:
                        incargs.append(argv[k]); k += 1
                    else:
                        k += 1
                bdir = base_text(root_abs, e.get("directory"))
                ms, err = gcc_opened(bdir, incargs, e["file"])
                if count:
                    ctx.count(key="gcc")
                mine = [raw for ge, raw in ges if ge["pass"] == "default"]
                if not ms:
                    gcc_ok = False
                    report.setdefault("gcc", []).append({"entry": e, "cwd": bdir, "error": err})
                    if (err or "").startswith("ORACLE-UNAVAILABLE"):
                        ctx.dist["gcc-oracle-unavailable(timeout/OSError)"] += 1
                        continue
                    if mine:
                        ctx.classify(case, f"entry {e['file']} (directory {e.get('directory')}): gcc started in {bdir} cannot open "
                                           f"the file ({(err or '').strip()[:120]}) but the analysis resolves it to {mine[0]['file']}",
                                     [("F-C13-1", lambda c: hazard)])
                    continue
                union_expected |= set(ms)
                if not mine:
                    continue
                try:
                    att, unknown = cbi_attributed(root_abs, [dict(mine[0], defines=[], include_files=[])], marks)
                except Exception as ex:  # noqa
                    ctx.violation(f"finder.find aborts on the configuration of one entry: {type(ex).__name__}: {ex}", case)
                    continue
                report.setdefault("gcc", []).append({"file": e["file"], "cwd": bdir, "gcc_opened": ms, "attributed": att})
                if att != ms or unknown:
                    ctx.classify(case, f"entry {e['file']} (directory {e.get('directory')}, {' '.join(incargs)}): gcc run in {bdir} "
                                       f"opens {ms}, the analysis attributes {att}{' and ' + str(unknown) if unknown else ''}",
                                 [("F-C13-1", lambda c: hazard)])
                else:
                    ctx.nontrivial.add(("gcc", case.get("seed"), e["file"], e.get("directory"), tuple(incargs)))
            # whole database: only named files and what they include are attributed
            if gcc_ok and got["raw"]:
                try:
                    att, unknown = cbi_attributed(root_abs, [dict(r, defines=[], include_files=[]) for r in got["raw"]], marks)
                    if count:
                        ctx.count(key="find")
                    report["attributed_all"] = att
                    if set(att) != union_expected or unknown:
                        ctx.classify(case, f"whole database: attributed files {att} {unknown}, files gcc opens for the kept entries "
                                           f"{sorted(union_expected)}", [("F-C13-1", lambda c: hazard)])
                except Exception as ex:  # noqa
                    ctx.violation(f"finder.find aborts: {type(ex).__name__}: {ex}", case)
        if count and "error" not in got and got["entries"]:
            for e in entries:
                ctx.nontrivial.add(json.dumps([e.get("directory"), e["file"].replace(top, TOPVAR)]))
    return report


def _same(a, b):
    try:
        return os.path.samefile(a, b)
    except OSError:
        return False


def gen_case(rng, hazard=False, shared=False):
    seed = rng.randrange(1 << 30)
    import random

    r = random.Random(seed)
    if shared:
        tree = make_module_tree(r)
        entries, intents, order = gen_db_shared(r, "/tmp/cbiverif_generator_top", tree)
        case = {"seed": seed, "stream": "shared", "order": order, "tree": tree, "entries": entries, "intents": intents,
                "dbplace": r.choice([TOPVAR, f"{TOPVAR}/{tree['root']}", f"{TOPVAR}/{r.choice(tree['modules'])}"])}
    else:
        tree = make_tree(r)
        entries, intents = gen_db(r, "/tmp/cbiverif_generator_top", tree, hazard)
        case = {"seed": seed, "tree": tree, "entries": entries, "intents": intents,
                "dbplace": r.choice([TOPVAR, f"{TOPVAR}/{tree['root']}", f"{TOPVAR}/{tree['root']}/build", f"{TOPVAR}/out"])}
    # how the root is handed over
    rr = r.random()
    root_abs = f"{TOPVAR}/{tree['root']}"
    if rr < 0.7:
        case["root_spelling"] = root_abs
    elif rr < 0.8:
        case["root_spelling"] = root_abs + "/"
    elif rr < 0.9:
        case["root_spelling"] = "."
        case["cwd"] = root_abs
    else:
        case["root_spelling"] = tree["root"]
        case["cwd"] = TOPVAR
    return case


# --------------------------------------------------------------------------------------------
# primitives: exhaustive sweeps against posixpath / pathlib / shlex / is_source_file
# --------------------------------------------------------------------------------------------
def sweep_primitives(ctx, drv, maxlen, shlen):
    from codebasin.source import is_source_file

    alpha = ["/", ".", "a", "c"]
    strs = ["".join(t) for n in range(0, maxlen + 1) for t in itertools.product(alpha, repeat=n)]
    for cwd in ("/w/d", "//w"):
        rs = drv.batch({"op": "dbpath", "fn": "all", "a": s, "cwd": cwd} for s in strs)
        for s, r in zip(strs, rs):
            ab = posixpath.normpath(s if s.startswith("/") else posixpath.join(cwd, s))
            exp = {"isabs": posixpath.isabs(s), "normpath": posixpath.normpath(s), "abspath": ab,
                   "join": posixpath.join(cwd, s), "name": PurePosixPath(s).name, "suffix": PurePosixPath(s).suffix,
                   "is_source": is_source_file(s)}
            ctx.count(key="prim")
            got = {k: r[k] for k in exp}
            if got != exp:
                ctx.corr_break("dbpath", {"a": s, "cwd": cwd}, exp, got)
            if r["resolve"] != my_norm(ab) or r["ext"] != r["suffix"]:
                ctx.notes.append(f"spec/model differ on {s!r}: {r}")
                ctx.corr_break("dbpath-spec", {"a": s, "cwd": cwd}, my_norm(ab), r)
    small = [s for s in strs if len(s) <= 3]
    reqs = [(a, b) for a in small for b in small]
    rs = drv.batch({"op": "dbpath", "fn": "join", "a": a, "b": b} for a, b in reqs)
    for (a, b), r in zip(reqs, rs):
        ctx.count(key="prim-join")
        if r["r"] != posixpath.join(a, b):
            ctx.corr_break("dbpath-join", {"a": a, "b": b}, posixpath.join(a, b), r)
    # extensions: every table entry and near misses, through the real is_source_file
    from codebasin import source as _s  # noqa
    names = []
    for ext in [".c", ".h", ".cpp", ".F90", ".f", ".S", ".asm", ".o", ".a", ".so", ".txt", ".C", ".H", ".cu", ".cuh", ".cl", ".inc", ""]:
        for stem in ["x", "dir.d/x", ".", "x.y", "", "a.c/..", "a.c/.", "x/"]:
            names += [stem + ext, stem + ext + "/", stem + ext + "."]
    rs = drv.batch({"op": "dbpath", "fn": "is_source", "a": s} for s in names)
    for s, r in zip(names, rs):
        ctx.count(key="prim-ext")
        if r["r"] != is_source_file(s):
            ctx.corr_break("is_source", {"a": s}, is_source_file(s), r)
    al2 = [" ", "a", "'", '"', "\\", "\t"]
    ss = ["".join(t) for n in range(0, shlen + 1) for t in itertools.product(al2, repeat=n)]
    rs = drv.batch({"op": "dbpath", "fn": "shsplit", "a": s} for s in ss)
    for s, r in zip(ss, rs):
        ctx.count(key="prim-shlex")
        try:
            e = {"r": shlex.split(s)}
        except ValueError as x:
            e = {"error": "noClosingQuotation" if "quotation" in str(x) else "noEscapedCharacter"}
        if e != r:
            ctx.corr_break("shsplit", {"a": s}, e, r)


# --------------------------------------------------------------------------------------------
# schema
# --------------------------------------------------------------------------------------------
def schema_docs(rng, n):
    good = {"file": "a.c", "directory": "/x", "arguments": ["gcc", "-c", "a.c"], "command": "gcc -c a.c", "output": "a.o"}
    bad_values = [1, None, True, ["x"], {"k": "v"}, [1], 1.5]
    docs = [[], {}, "x", 1, None, [1], ["x"], [[]], [{}], [good], [{"file": "a.c"}], [{"command": "gcc"}],
            [{"arguments": []}], [{"file": "a.c", "arguments": "gcc"}], [{"file": "a.c", "arguments": ["gcc", 1]}],
            [{"file": 1, "command": "x"}], [{"file": "a.c", "command": "x", "extra": 1}], [good, {"file": "b.c"}]]
    for _ in range(n):
        items = []
        for _k in range(rng.randint(0, 3)):
            it = {k: v for k, v in good.items() if rng.random() < 0.7}
            if rng.random() < 0.5:
                k = rng.choice(list(good) + ["extra"])
                it[k] = rng.choice(bad_values + ["s", ["a", "b"]])
            if rng.random() < 0.1:
                it = rng.choice([1, "x", None, []])
            items.append(it)
        docs.append(items)
    return docs


def check_schema(ctx, drv, doc, schema):
    import jsonschema
    from codebasin import CompilationDatabase, util

    case = {"schema_doc": doc}
    try:
        jsonschema.validate(instance=doc, schema=schema)
        valid = True
    except jsonschema.exceptions.ValidationError:
        valid = False
    try:
        util._validate_json(doc, "compiledb")
        got = "ok"
    except ValueError:
        got = "ValueError"
    except Exception as ex:  # noqa
        got = type(ex).__name__
    try:
        CompilationDatabase.from_json(doc)
        got2 = "ok"
    except Exception as ex:  # noqa
        got2 = type(ex).__name__
    ctx.count(key="schema:" + ("valid" if valid else "invalid"))
    if valid != (got == "ok") or (not valid and got2 != "ValueError"):
        ctx.violation(f"schema says {'valid' if valid else 'invalid'}, _validate_json: {got}, from_json: {got2}", case)
    if drv is not None:
        m = drv.ask({"op": "dbload", "cwd": "/", "root": "/r", "doc": doc, "parses": []})["model"]
        me = m.get("error")
        exp = "ok" if got2 == "ok" else {"ValueError": "schema", "KeyError": "keyError"}.get(got2, got2)
        if (me or "ok") != exp and not (me in ("noClosingQuotation", "noEscapedCharacter") and got2 == "ok"):
            ctx.corr_break("dbload-schema", case, got2, m)
    return {"schema_valid": valid, "_validate_json": got, "from_json": got2}


# --------------------------------------------------------------------------------------------
def run(ctx, drv, scale=1.0):
    core.import_codebasin()
    from codebasin import config

    config.ArgumentParser("gcc")  # load the compiler definitions once, from the harness's own cwd
    # the generator of the stream `unopenable' is forked from ctx.rng's state HERE, without consuming anything, so that
    # the older streams keep their random sequences and the new one does not depend on their wall-clock guards
    import random as _random
    fork = _random.Random()
    fork.setstate(ctx.rng.getstate())
    unopenable_rng = _random.Random(fork.getrandbits(62) ^ 0x0C13BAD)
    ctx.rule = ("databases of 1-7 entries over random scratch trees (root inside a scratch directory, build directory inside "
                "and outside the root, a symlinked directory, same-named sources and headers with unique markers); `file`, "
                "`directory` and -I/-isystem values spelled absolute, relative to the root, relative to the build directory, "
                "with `.`, empty and `X/../X` segments, trailing slashes, `//` prefix; `arguments` and `command` forms; "
                "compilers incl. multi-pass ones; mixed with entries for missing files, object files, link commands, "
                "non-source names and empty commands; root handed over absolute, with trailing slash, or relative to the "
                "process cwd. Stream `shared' (buckets shared-db:*, shared-feature:*): build-system style databases over "
                "trees in which one relative layout is instantiated in 2-7 module directories (inside the root, the root, "
                "outside) with each file present only in some of them; 1-3 command lines, each spelled once (relative -I "
                "values, relative or absolute file) and applied in several directories, so entries share the `file` string "
                "and/or the whole argv and differ in `directory`; verbatim repeats, nearly-equal command lines, the same file "
                "compiled twice; shuffled / module-major / rule-major order. Every database of 2-40 entries is also loaded "
                "entry by entry (bucket independence) and the concatenation compared. Non-trivial = distinct (directory spelling, file spelling) pairs of databases with at least one "
                "kept entry, plus distinct gcc-confirmed entries. Primitives: every string over {/ . a c} up to length "
                "6 (quick) / 7 (thorough) against posixpath/pathlib, every string over {space a ' \" \\ tab} up to length 5/6 "
                "against shlex. Stream `decoy' (buckets decoy-tree:*, decoy:*): multi-directory include trees of the C04 generator "
                "(1-4 commands with -I/-Idir/-isystem/-D/-include, nested quote/angle/computed includes, guards, #pragma once, "
                "optionally a symlinked include directory) salted with decoy files - sources and headers beside the entries' "
                "sources (the sources include real headers and a header only they include), headers in the -I/-isystem "
                "directories, headers carrying the base name of an included header in another directory, files in a directory no "
                "command mentions and at the top of the tree; the set of files attributed per platform by load_database + "
                "finder.find is compared with the files the reference preprocessor reads, with `gcc -M -MG`, and with the Lean "
                "model (`reachinc`); non-trivial there = well-formed tree with decoys of at least 3 categories and at least one "
                "header found outside its includer's directory. Stream `unopenable' (buckets unopenable-db:*, unopenable-entry:*, "
                "unopenable-gcc:*, unopenable-frame:load|find|cli): databases of 2-7 entries over a small tree in which 1-3 entries "
                "name something that is listed in its directory but is not a file one can open - a dangling symbolic link "
                "(relative / absolute target, chain of links, dangling directory link in the middle of the path: the `generated "
                "source, generator not run' layout), a regular file used as a directory, a link loop, a directory or a link to a "
                "directory carrying a source extension - or an unusual file that does open (link to a source, source-named link to "
                "a non-source file, non-source-named link to a source), next to plainly missing files, object files, link commands "
                "and empty commands; what must be kept / skipped with a warning is decided by open(2) (ENOENT/ENOTDIR = "
                "non-existent) and confirmed by gcc -E run in the entry's directory; the result is compared with the result for "
                "the database without the bad entries through load_database, through finder.find (set map, attributed files; "
                "these also against the files gcc opens) and, for a sample, through `codebasin -R summary` (exit status, summary, "
                "cbi.log); non-trivial there = distinct (kind, directory spelling, file spelling) of the bad / unusual entries of "
                "databases that passed every comparison.")
    ctx.assumptions += [
        "stream unopenable: `non-existent' is read as open(2) failing with ENOENT or ENOTDIR on `directory`/`file` (gcc: 'No such "
        "file or directory'); for a link loop (ELOOP) only skipping and the frame are judged, not the warning; the harness runs as "
        "root, so unreadable directories (EACCES) cannot be produced and are not generated; every `directory` of that stream is a "
        "real directory (no F-C13-1 hazard)",
        "os.path (posixpath), pathlib.PurePosixPath.suffix, shlex.split and jsonschema are modelled / trusted libraries; "
        "their models are compared exhaustively on short strings on every run",
        "the existence oracle of the model is answered by os.path.isfile (the test load_database makes) on exactly the paths the model asks about",
        "compiler emulation (argv -> passes and raw include_paths) is taken from the real ArgumentParser (C11/C12); the "
        "oracle reads -I/-Idir/-isystem itself",
        "lexical `..` elimination equals the kernel's reading only when no `..` follows a symlinked or non-existent "
        "directory (recorded as F-C13-1, generated in a separate stream)",
        "file spellings never end in `/`, `.` or `..` (the property speaks of files)",
        "decoy stream: trees on which a -include name resolves differently from the source's directory and from the working "
        "directory (D33) or a directory is given with both -I and -isystem (F-C04-2) are skipped there (subjects of C04); "
        "trees on which the reference preprocessor meets a missing header are skipped (C18); gcc -M is used where it is silent",
    ]
    if drv is not None:
        thorough = ctx.thorough() or ctx.budget_scale > 1
        sweep_primitives(ctx, drv, 7 if thorough else 6, 6 if thorough else 5)
        ctx.extra["exhaustive_parts"] = ("path primitives: all strings over {/ . a c} up to length %d; shlex: all strings over "
                                         "{space a ' \" \\ tab} up to length %d" % ((7, 6) if thorough else (6, 5)))
    # corpus first
    for f in sorted((core.VERIF / "corpus" / "C13").glob("*.json")):
        c = json.loads(f.read_text())
        if "schema_doc" in c or c.get("stream") == "unopenable":      # (the latter: replayed by its own stream below)
            continue
        check_db(ctx, drv, c)
    schema = json.loads((core.REPO / "codebasin" / "schema" / "compilation-database.schema").read_text())
    for doc in schema_docs(ctx.rng, ctx.n(150, 1500)):
        check_schema(ctx, drv, doc, schema)
    # wall-clock guard (loaded machines): never fewer than a third of the planned databases
    limit = 420 if ctx.budget_scale > 1 else (520 if ctx.thorough() else 70)
    n = ctx.n(110, 900)
    done = 0
    for i in range(n):
        if i >= n // 3 and ctx.elapsed() > limit * 0.8:
            ctx.notes.append(f"time guard: {i} of {n} databases explored")
            break
        case = gen_case(ctx.rng)
        rep = check_db(ctx, drv, case, use_gcc=True)
        done += 1
        if i < 4:
            ctx.sample({"entries": case["entries"], "root": case["root_spelling"], "implementation": rep.get("implementation")})
    # separate stream: `..` after a symlinked / non-existent directory (F-C13-1)
    n2 = ctx.n(25, 200)
    for i in range(n2):
        if i >= 8 and ctx.elapsed() > limit:
            ctx.notes.append(f"time guard: {i} of {n2} hazard databases explored")
            break
        case = gen_case(ctx.rng, hazard=True)
        case["stream"] = "dotdot-hazard"
        check_db(ctx, drv, case, use_gcc=True)
    # separate stream: build-system style databases (the same command line / the same `file` string in many
    # directories, repeated entries, missing in one directory and present in another)
    n3 = ctx.n(45, 400)
    done3 = 0
    for i in range(n3):
        if i >= n3 // 3 and ctx.elapsed() > limit:
            ctx.notes.append(f"time guard: {i} of {n3} shared-spelling databases explored")
            break
        case = gen_case(ctx.rng, shared=True)
        rep = check_db(ctx, drv, case, use_gcc=True)
        done3 += 1
        if i < 2:
            ctx.sample({"stream": "shared", "entries": case["entries"], "root": case["root_spelling"],
                        "implementation": rep.get("implementation")}, cap=8)
    ctx.extra["databases"] = done
    ctx.extra["shared_spelling_databases"] = done3
    # separate stream: entries whose `file` is a name that cannot be opened (dangling links, directories, ...),
    # through load_database, finder.find and the command line
    from harness.gen import unopenable as U
    big = ctx.thorough() or ctx.budget_scale > 1
    U.run_stream(ctx, drv, unopenable_rng, ctx.n(50, 500), 16 if big else 4, 90 if big else 14)
    decoy_stream(ctx, drv, limit)


def decoy_stream(ctx, drv, limit):
    """separate stream (buckets decoy-tree:*, decoy:*): include trees of the C04 generator salted with files that no entry
    names and nothing reached includes; load_database + finder.find against the reference preprocessor, gcc -M and the
    Lean model of the composed analysis (op `reachinc`, theorems of Props/C13Closure.lean)"""
    from harness.gen import decoytree as D
    for f in sorted((core.VERIF / "corpus" / "C13").glob("decoy*.json")):
        D.check_decoy_tree(ctx, drv, json.loads(f.read_text()), use_gcc=True)
    n4 = ctx.n(120, 500)
    t0 = ctx.elapsed()
    done4 = 0
    for i in range(n4):
        if i >= n4 // 3 and ctx.elapsed() - t0 > (25 if not ctx.thorough() and ctx.budget_scale <= 1 else 150):
            ctx.notes.append(f"time guard: {i} of {n4} decoy trees explored")
            break
        case = D.gen_case(ctx.rng, i)
        rep = D.check_decoy_tree(ctx, drv, case, use_gcc=True)
        done4 += 1
        if i < 2:
            ctx.sample({"stream": "decoy", "entries": [e["argv"] for e in case["desc"]["entries"]], "files": sorted(case["desc"]["files"]),
                        "decoys": rep.get("decoys"), "implementation": rep.get("implementation"), "gcc_M": rep.get("gcc_M")}, cap=10)
    ctx.extra["decoy_trees"] = done4


def search(ctx, drv):
    run(ctx, drv)


def replay(ctx, drv, case):
    core.import_codebasin()
    if "schema_doc" in case:
        schema = json.loads((core.REPO / "codebasin" / "schema" / "compilation-database.schema").read_text())
        return check_schema(ctx, drv, case["schema_doc"], schema)
    if case.get("stream") == "unopenable":
        from harness.gen import unopenable as U
        rep = U.check_case(ctx, drv, case, cli=True, count=False)
        rep["violations"] = [w for w, _ in ctx.violations]
        rep["known_findings"] = sorted(ctx.known_seen)
        rep["correspondence_breaks"] = ctx.corr_breaks[:2]
        return rep
    if case.get("stream") == "decoy":
        from harness.gen import decoytree as D
        rep = D.check_decoy_tree(ctx, drv, case, use_gcc=True, count=False)
        rep["violations"] = [w for w, _ in ctx.violations]
        rep["correspondence_breaks"] = ctx.corr_breaks[:2]
        return rep
    if "a" in case and "tree" not in case:
        return {"model": drv.ask({"op": "dbpath", "fn": "all", "a": case["a"], "cwd": case.get("cwd", "/")}) if drv else None,
                "posixpath.normpath": posixpath.normpath(case["a"])}
    rep = check_db(ctx, drv, case, use_gcc=True, count=False)
    rep["violations"] = [w for w, _ in ctx.violations]
    rep["known_findings"] = sorted(ctx.known_seen)
    return rep
