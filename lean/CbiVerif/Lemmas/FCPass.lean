import CbiVerif.Lemmas.FSourceLemmas
/-!
The C pass in `directives_only` mode in front of the Fortran cleaner, on texts the
reference accepts (no backslash, no `/*` on a directive line): every physical line is its
own logical line — dropped when blank, kept verbatim-classified when it is a directive,
blank-merged otherwise — and the reference scanner does not see blank merging.
-/
namespace CbiVerif.Fortran
open Tbl
set_option linter.unusedSimpArgs false


theorem isWs_eq_pyIsSpace (c : Char) : isWs c = pyIsSpace c := by
  unfold isWs cls
  by_cases h1 : c = '!' ; · subst h1; decide
  by_cases h2 : c = '&' ; · subst h2; decide
  by_cases h3 : c = '"' ; · subst h3; decide
  by_cases h4 : c = '\'' ; · subst h4; decide
  by_cases h5 : c = '$' ; · subst h5; decide
  by_cases h6 : c = '\\' ; · subst h6; decide
  simp only [h1, h2, h3, h4, h5, h6, beq_iff_eq, if_false]
  by_cases hs : pyIsSpace c = true
  · simp [hs]
  · simp only [hs, Bool.false_eq_true, if_false]
    split <;> simp_all

/-! ## the C pass on a line that is not a directive and has no backslash -/

/-- state of the buffer while only blanks were seen -/
theorem add_nonblank (b : OSL) (e : Emit) (h : b.blank = false) : (b.add e).blank = false := by
  have h1 : ¬ (b.parts = [] ∨ b.parts = [' ']) := fun hh => by rw [(blank_iff b).mpr hh] at h; cases h
  apply Bool.eq_false_iff.mpr
  intro hj
  rw [blank_iff] at hj
  apply h1
  cases e with
  | sp =>
    simp only [OSL.add] at hj
    split at hj
    · exact hj
    · rcases hp : b.parts with _ | ⟨x, xs⟩
      · left; rfl
      · rw [hp] at hj; cases xs <;> simp at hj
  | ns c =>
    simp only [OSL.add] at hj
    rcases hp : b.parts with _ | ⟨x, xs⟩
    · left; rfl
    · rw [hp] at hj; cases xs <;> simp at hj

theorem emitChar_vis (c : Char) : (emitChar c).visible = !pyIsSpace c := by
  unfold emitChar
  split
  · rename_i h; simp [h]
  · rename_i h; rw [vis_ns, isWs_eq_pyIsSpace]

theorem emitChar_lit (c : Char) : (emitChar c).litWs = false := by
  unfold emitChar
  split
  · rfl
  · rename_i h; rw [lit_ns, isWs_eq_pyIsSpace]; simpa using h

/-- not a directive, no backslash: the cleaner never leaves TOPLEVEL and merges blanks -/
theorem dProcess_code (l : List Char) : ∀ (ob : OSL),
    (∀ c ∈ l, c ≠ '\\') → (ob.blank = false ∨ (ob.OnlySp ∧ isDirectiveLine l = false)) →
    dProcess [.top] ob l = .ok ([.top], ob.addAll (l.map emitChar)) := by
  induction l with
  | nil => intro ob _ _; rfl
  | cons c cs ih =>
    intro ob hb ho
    have hc : c ≠ '\\' := hb c (by simp)
    have hnd : (c == '#' && ob.blank) = false := by
      rcases ho with ho | ⟨ho, hd⟩
      · simp [ho]
      · by_cases hh : c = '#'
        · subst hh
          simp only [isDirectiveLine] at hd
          have : pyIsSpace '#' = false := by decide
          simp [this] at hd
        · simp [hh]
    have h1 : dStep1 [.top] ob c = .ok ([.top], ob.add (emitChar c), false, false) := by
      simp only [dStep1, beq_iff_eq, hc, if_false, hnd, Bool.false_eq_true]
    simp only [dProcess, h1, Bool.false_eq_true, if_false, List.map_cons, OSL.addAll, List.foldl_cons]
    apply ih _ (fun x hx => hb x (by simp [hx]))
    rcases ho with ho | ⟨ho, hd⟩
    · left; exact add_nonblank _ _ ho
    · by_cases hs : pyIsSpace c = true
      · right
        refine ⟨onlySp_add ob _ ho (by rw [emitChar_vis]; simp [hs]) (emitChar_lit c), ?_⟩
        simpa [isDirectiveLine, hs] using hd
      · left
        apply blank_of_hasVis
        rw [hasVis_add, emitChar_vis]; simp [hs]



def DirSt (st : List DMode) : Prop :=
  st = [.dir, .top] ∨ st = [.dq, .dir, .top] ∨ st = [.sq, .dir, .top] ∨
  st = [.slash, .dir, .top] ∨ st = [.slash, .sq, .dir, .top]
def EndSt (st : List DMode) : Prop := DirSt st ∨ st = [.lineC, .dir, .top] ∨ st = [.lineC, .sq, .dir, .top]
def Ext (a b : OSL) : Prop := ∃ q, b.parts = a.parts ++ q

theorem ext_refl (a : OSL) : Ext a a := ⟨[], by simp⟩
theorem ext_trans {a b c : OSL} (h1 : Ext a b) (h2 : Ext b c) : Ext a c := by
  obtain ⟨q1, e1⟩ := h1; obtain ⟨q2, e2⟩ := h2
  exact ⟨q1 ++ q2, by rw [e2, e1, List.append_assoc]⟩
theorem ext_add (a : OSL) (e : Emit) : Ext a (a.add e) := by
  cases e with
  | sp => simp only [OSL.add]; split; exact ext_refl a; exact ⟨[' '], rfl⟩
  | ns c => exact ⟨[c], rfl⟩

set_option linter.unusedSimpArgs false

theorem dProcess_lineC (cs : List Char) (r : List DMode) (ob : OSL) :
    dProcess (.lineC :: r) ob cs = .ok (.lineC :: r, ob) := by
  cases cs with
  | nil => rfl
  | cons c cs => simp [dProcess, dStep1]

def slashOK (st : List DMode) (cs : List Char) : Prop := st.head? = some .slash → cs.head? ≠ some '*'

/-- a directive line without backslash and without `/*`: the cleaner stays inside the
directive states (never a block comment), only appends to the buffer -/
theorem dProcess_dir (l : List Char) : ∀ (st : List DMode) (ob : OSL), DirSt st →
    (∀ c ∈ l, c ≠ '\\') → hasSlashStar l = false → slashOK st l →
    ∃ st' ob', dProcess st ob l = .ok (st', ob') ∧ EndSt st' ∧ Ext ob ob' := by
  induction l with
  | nil => intro st ob hs _ _ _; exact ⟨st, ob, rfl, Or.inl hs, ext_refl ob⟩
  | cons c cs ih =>
    intro st ob hs hb hss hso
    have hc : c ≠ '\\' := hb c (by simp)
    have hb' : ∀ x ∈ cs, x ≠ '\\' := fun x hx => hb x (by simp [hx])
    simp only [hasSlashStar, Bool.or_eq_false_iff, Bool.and_eq_false_iff] at hss
    obtain ⟨hss1, hss2⟩ := hss
    have hnext : c = '/' → cs.head? ≠ some '*' := by
      intro hc'; rcases hss1 with h | h
      · simp [hc'] at h
      · simpa using h
    -- continue with a state/buffer after one plain step
    have cont : ∀ (st1 : List DMode) (ob1 : OSL), DirSt st1 → slashOK st1 cs → Ext ob ob1 →
        ∃ st' ob', dProcess st1 ob1 cs = .ok (st', ob') ∧ EndSt st' ∧ Ext ob ob' := by
      intro st1 ob1 h1 h2 h3
      obtain ⟨st', ob', e1, e2, e3⟩ := ih st1 ob1 h1 hb' hss2 h2
      exact ⟨st', ob', e1, e2, ext_trans h3 e3⟩
    rcases hs with hs | hs | hs | hs | hs <;> subst hs
    · -- dir
      by_cases h1 : c = '/'
      · simp only [dProcess, dStep1, beq_iff_eq, hc, h1, if_false, if_true, Bool.false_eq_true]
        simp only [reduceCtorEq, Char.reduceEq] 
        exact cont _ _ (by simp [DirSt]) (by intro _; exact hnext h1) (ext_refl ob)
      · by_cases h2 : c = '"'
        · subst h2
          simp only [dProcess, dStep1, beq_iff_eq, if_false, if_true, Bool.false_eq_true, Char.reduceEq]
          exact cont _ _ (by simp [DirSt]) (by intro h; simp at h) (ext_add ob _)
        · by_cases h3 : c = '\''
          · subst h3
            simp only [dProcess, dStep1, beq_iff_eq, if_false, if_true, Bool.false_eq_true, Char.reduceEq]
            exact cont _ _ (by simp [DirSt]) (by intro h; simp at h) (ext_add ob _)
          · simp only [dProcess, dStep1, beq_iff_eq, hc, h1, h2, h3, if_false, Bool.false_eq_true]
            exact cont _ _ (by simp [DirSt]) (by intro h; simp at h) (ext_add ob _)
    · -- dq
      by_cases h2 : c = '"'
      · subst h2
        simp only [dProcess, dStep1, beq_iff_eq, if_false, if_true, Bool.false_eq_true, Char.reduceEq]
        exact cont _ _ (by simp [DirSt]) (by intro h; simp at h) (ext_add ob _)
      · simp only [dProcess, dStep1, beq_iff_eq, hc, h2, if_false, Bool.false_eq_true]
        exact cont _ _ (by simp [DirSt]) (by intro h; simp at h) (ext_add ob _)
    · -- sq
      by_cases h1 : c = '/'
      · simp only [dProcess, dStep1, beq_iff_eq, hc, h1, if_false, if_true, Bool.false_eq_true, Char.reduceEq]
        exact cont _ _ (by simp [DirSt]) (by intro _; exact hnext h1) (ext_refl ob)
      · by_cases h3 : c = '\''
        · subst h3
          simp only [dProcess, dStep1, beq_iff_eq, if_false, if_true, Bool.false_eq_true, Char.reduceEq]
          exact cont _ _ (by simp [DirSt]) (by intro h; simp at h) (ext_add ob _)
        · simp only [dProcess, dStep1, beq_iff_eq, hc, h1, h3, if_false, Bool.false_eq_true]
          exact cont _ _ (by simp [DirSt]) (by intro h; simp at h) (ext_add ob _)
    · -- slash on dir
      have hstar : c ≠ '*' := by
        have := hso (by simp); simpa using this
      by_cases h1 : c = '/'
      · subst h1
        simp only [dProcess, dStep1, beq_iff_eq, if_false, if_true, Bool.false_eq_true, Char.reduceEq]
        rw [dProcess_lineC]
        exact ⟨_, _, rfl, Or.inr (Or.inl rfl), ext_refl ob⟩
      · by_cases h2 : c = '"'
        · subst h2
          simp only [dProcess, dStep1, beq_iff_eq, if_false, if_true, Bool.false_eq_true, Char.reduceEq]
          exact cont _ _ (by simp [DirSt]) (by intro h; simp at h) (ext_trans (ext_add ob _) (ext_add _ _))
        · by_cases h3 : c = '\''
          · subst h3
            simp only [dProcess, dStep1, beq_iff_eq, if_false, if_true, Bool.false_eq_true, Char.reduceEq]
            exact cont _ _ (by simp [DirSt]) (by intro h; simp at h) (ext_trans (ext_add ob _) (ext_add _ _))
          · simp only [dProcess, dStep1, beq_iff_eq, hc, h1, h2, h3, hstar, if_false, if_true, Bool.false_eq_true]
            exact cont _ _ (by simp [DirSt]) (by intro h; simp at h) (ext_trans (ext_add ob _) (ext_add _ _))
    · -- slash on sq
      have hstar : c ≠ '*' := by
        have := hso (by simp); simpa using this
      by_cases h1 : c = '/'
      · subst h1
        simp only [dProcess, dStep1, beq_iff_eq, if_false, if_true, Bool.false_eq_true, Char.reduceEq]
        rw [dProcess_lineC]
        exact ⟨_, _, rfl, Or.inr (Or.inr rfl), ext_refl ob⟩
      · by_cases h3 : c = '\''
        · subst h3
          simp only [dProcess, dStep1, beq_iff_eq, if_false, if_true, Bool.false_eq_true, Char.reduceEq]
          exact cont _ _ (by simp [DirSt]) (by intro h; simp at h) (ext_trans (ext_add ob _) (ext_add _ _))
        · simp only [dProcess, dStep1, beq_iff_eq, hc, h1, h3, hstar, if_false, if_true, Bool.false_eq_true]
          exact cont _ _ (by simp [DirSt]) (by intro h; simp at h) (ext_trans (ext_add ob _) (ext_add _ _))




/-- blank merging as a function of the line -/
def collapseAux : Bool → List Char → List Char
  | _, [] => []
  | tr, c :: cs =>
    if pyIsSpace c then (if tr then collapseAux true cs else ' ' :: collapseAux true cs)
    else c :: collapseAux false cs

def collapse (l : List Char) : List Char := collapseAux false l

theorem addAll_emitChar (l : List Char) : ∀ ob : OSL,
    (ob.addAll (l.map emitChar)).parts = ob.parts ++ collapseAux ob.trailing l := by
  induction l with
  | nil => intro ob; simp [OSL.addAll, collapseAux]
  | cons c cs ih =>
    intro ob
    simp only [List.map_cons, OSL.addAll, List.foldl_cons]
    have := ih (ob.add (emitChar c))
    simp only [OSL.addAll] at this
    rw [this]
    by_cases hs : pyIsSpace c = true
    · by_cases ht : ob.trailing = true
      · simp [emitChar, collapseAux, hs, ht, OSL.add]
      · simp [emitChar, collapseAux, hs, ht, OSL.add]
    · simp [emitChar, collapseAux, hs, OSL.add]

theorem collapse_eq (l : List Char) : (({} : OSL).addAll (l.map emitChar)).parts = collapse l := by
  rw [addAll_emitChar]; rfl

theorem collapseAux_true_head (l : List Char) (h : isDirectiveLine l = false) :
    (collapseAux true l).head? ≠ some '#' := by
  induction l with
  | nil => simp [collapseAux]
  | cons c cs ih =>
    simp only [isDirectiveLine] at h
    simp only [collapseAux]
    by_cases hs : pyIsSpace c = true
    · simp only [hs, if_true] at h ⊢; exact ih h
    · simp only [hs, Bool.false_eq_true, if_false, beq_eq_false_iff_ne, ne_eq] at h ⊢
      simpa using h

theorem collapse_notdir (l : List Char) (h : isDirectiveLine l = false) : isDirText (collapse l) = false := by
  have hsp : pyIsSpace ' ' = true := by decide
  unfold collapse isDirText
  cases l with
  | nil => rfl
  | cons c cs =>
    simp only [isDirectiveLine] at h
    simp only [collapseAux]
    by_cases hs : pyIsSpace c = true
    · simp only [hs, if_true, Bool.false_eq_true, if_false] at h ⊢
      have := collapseAux_true_head cs h
      rcases hc : collapseAux true cs with _ | ⟨b, r⟩
      · simp [category]
      · rw [hc] at this
        simp only [List.head?_cons, ne_eq, Option.some.injEq] at this
        simp [category, this]
    · simp only [hs, Bool.false_eq_true, if_false, beq_eq_false_iff_ne, ne_eq] at h ⊢
      have hc' : c ≠ ' ' := fun hh => by rw [hh, hsp] at hs; exact hs rfl
      rcases hc : collapseAux false cs with _ | ⟨b, r⟩
      · simp [category, h, hc']
      · simp [category, h, hc']



/-! ## the reference does not see blank merging -/

def isLineStart : RF → Bool | .code => true | .start _ => true | _ => false

def wsFixOK (m : RF) : Bool :=
  match rstep m .ws with
  | none => true
  | some o =>
    match rstep o.mode .ws with
    | none => false
    | some o' => o'.mode == o.mode && (!o'.vis || o.vis) && (!o'.lit || o.lit)

theorem wsFixOK_all : (allRF.all wsFixOK) = true := by decide

def lineStartOK (m : RF) : Bool :=
  (match rend m with | none => true | some m' => isLineStart m') &&
  (!isLineStart m || (rstep m .ws == some ⟨m, false, false⟩ && rend m == some m))

theorem lineStartOK_all : (allRF.all lineStartOK) = true := by decide

/-- a blank was just consumed in this state: one more changes nothing -/
def WsFix (a : RAcc) : Prop :=
  ∃ o, rstep a.mode .ws = some o ∧ o.mode = a.mode ∧ (a.vis || o.vis) = a.vis ∧ (a.lit || o.lit) = a.lit

theorem wsFix_after (a : RAcc) (o : ROut) (h : rstep a.mode .ws = some o) :
    WsFix ⟨o.mode, a.vis || o.vis, a.lit || o.lit⟩ := by
  have hall := wsFixOK_all
  simp only [List.all_eq_true] at hall
  have h1 := hall a.mode (mem_allRF _)
  simp only [wsFixOK, h] at h1
  cases h2 : rstep o.mode .ws with
  | none => simp [h2] at h1
  | some o' =>
    simp only [h2, Bool.and_eq_true, beq_iff_eq, Bool.or_eq_true, Bool.not_eq_true'] at h1
    obtain ⟨⟨e1, e2⟩, e3⟩ := h1
    refine ⟨o', h2, e1, ?_, ?_⟩
    · cases hv : o'.vis <;> simp_all
    · cases hv : o'.lit <;> simp_all

theorem cls_of_space (c : Char) (h : pyIsSpace c = true) : cls c = .ws := by
  have := isWs_eq_pyIsSpace c
  rw [h] at this
  simpa [isWs] using this

theorem rchars_collapse (l : List Char) : ∀ (a : RAcc) (tr : Bool) (x : RAcc),
    (tr = true → WsFix a) → rchars a l = some x → rchars a (collapseAux tr l) = some x := by
  induction l with
  | nil => intro a tr x _ h; simpa [collapseAux] using h
  | cons c cs ih =>
    intro a tr x hf h
    simp only [rchars] at h
    split at h
    · cases h
    · rename_i hasc
      cases ho : rstep a.mode (cls c) with
      | none => simp [ho] at h
      | some o =>
        simp only [ho] at h
        simp only [collapseAux]
        by_cases hs : pyIsSpace c = true
        · have hk := cls_of_space c hs
          rw [hk] at ho
          simp only [hs, if_true]
          cases tr with
          | true =>
            simp only [if_true]
            obtain ⟨o1, f1, f2, f3, f4⟩ := hf rfl
            rw [ho] at f1
            simp only [Option.some.injEq] at f1
            subst f1
            have ea : (⟨o.mode, a.vis || o.vis, a.lit || o.lit⟩ : RAcc) = a := by
              obtain ⟨am, av, al⟩ := a
              simp only at f2 f3 f4 ⊢
              simp [f2, f3, f4]
            rw [ea] at h
            exact ih a true x hf h
          | false =>
            simp only [Bool.false_eq_true, if_false, rchars]
            have h32 : ¬ (' '.toNat ≥ 128) := by decide
            have hsp : cls ' ' = .ws := by decide
            simp only [h32, if_false, hsp, ho]
            exact ih _ true x (fun _ => wsFix_after a o ho) h
        · simp only [hs, Bool.false_eq_true, if_false, rchars, hasc, ho]
          exact ih _ false x (by intro hh; cases hh) h

theorem rline_collapse (m : RF) (l : List Char) (r : RLine) (h : rline m l = some r) :
    rline m (collapse l) = some r := by
  unfold rline at h ⊢
  cases hr : rchars ⟨m, false, false⟩ l with
  | none => simp [hr] at h
  | some a =>
    rw [hr] at h
    have := rchars_collapse l ⟨m, false, false⟩ false a (by intro hh; cases hh) hr
    unfold collapse
    rw [this]
    exact h

theorem lineStart_facts (m : RF) (h : isLineStart m = true) :
    rstep m .ws = some ⟨m, false, false⟩ ∧ rend m = some m := by
  have hall := lineStartOK_all
  simp only [List.all_eq_true] at hall
  have h1 := hall m (mem_allRF _)
  simp only [lineStartOK, h, Bool.not_true, Bool.false_or, Bool.and_eq_true, beq_iff_eq] at h1
  exact h1.2

theorem rend_lineStart (m m' : RF) (h : rend m = some m') : isLineStart m' = true := by
  have hall := lineStartOK_all
  simp only [List.all_eq_true] at hall
  have h1 := hall m (mem_allRF _)
  simp only [lineStartOK, h, Bool.and_eq_true] at h1
  exact h1.1

theorem rline_lineStart (m : RF) (l : List Char) (r : RLine) (h : rline m l = some r) :
    isLineStart r.next = true := by
  unfold rline at h
  cases hr : rchars ⟨m, false, false⟩ l with
  | none => simp [hr] at h
  | some a =>
    rw [hr] at h
    cases he : rend a.mode with
    | none => simp [he] at h
    | some m2 =>
      simp only [he, Option.some.injEq] at h
      subst h
      exact rend_lineStart _ _ he

theorem rchars_blank (l : List Char) : ∀ (a x : RAcc), isLineStart a.mode = true → isBlankLine l = true →
    rchars a l = some x → x = a := by
  induction l with
  | nil => intro a x _ _ h; simp only [rchars, Option.some.injEq] at h; exact h.symm
  | cons c cs ih =>
    intro a x hm hb h
    have hk : cls c = .ws := by
      simp only [isBlankLine, dropWs] at hb
      by_cases hc : cls c = .ws
      · exact hc
      · simp [hc] at hb
    have hb' : isBlankLine cs = true := by
      simpa [isBlankLine, dropWs, hk] using hb
    simp only [rchars] at h
    split at h
    · cases h
    · rw [hk, (lineStart_facts a.mode hm).1] at h
      simp only [Bool.or_false] at h
      exact ih _ x hm hb' h

theorem rline_blank (m : RF) (l : List Char) (r : RLine) (hm : isLineStart m = true)
    (hb : isBlankLine l = true) (h : rline m l = some r) : r = ⟨m, false, false⟩ := by
  unfold rline at h
  cases hr : rchars ⟨m, false, false⟩ l with
  | none => simp [hr] at h
  | some a =>
    rw [hr] at h
    have := rchars_blank l ⟨m, false, false⟩ a hm hb hr
    subst this
    simp only [(lineStart_facts m hm).2, Option.some.injEq] at h
    rw [← h]; rfl


end CbiVerif.Fortran
