import CbiVerif.Lemmas.OrderSort

/-!
C14 helper lemmas, part 3: duplicates (groups as a set of sets), coverage export,
mode defines.
-/
namespace CbiVerif.Order

/-! ## first occurrences -/

theorem mem_firstOcc {α : Type} [DecidableEq α] {x : α} : ∀ {l : List α}, x ∈ firstOcc l ↔ x ∈ l
  | [] => by simp [firstOcc]
  | a :: l => by
    simp only [firstOcc, List.mem_cons, List.mem_filter, mem_firstOcc (l := l)]
    by_cases h : x = a <;> simp [h]

theorem nodup_firstOcc {α : Type} [DecidableEq α] : ∀ (l : List α), (firstOcc l).Nodup
  | [] => by simp [firstOcc]
  | a :: l => by
    simp only [firstOcc, List.nodup_cons]
    exact ⟨by simp [List.mem_filter], (nodup_firstOcc l).filter _⟩

/-! ## duplicates -/

section dups
variable {P C H : Type} [DecidableEq C] [DecidableEq H]

/-- `gs` is exactly the set of content-equality classes (within `files`) with at least two members,
each class once -/
structure IsClassPartition (content : P → C) (files : List P) (gs : List (List P)) : Prop where
  cls : ∀ g ∈ gs, ∃ a ∈ g, ∀ x, x ∈ g ↔ (x ∈ files ∧ content x = content a)
  nodup : ∀ g ∈ gs, g.Nodup
  two : ∀ g ∈ gs, 2 ≤ g.length
  complete : ∀ a ∈ files, ∀ b ∈ files, a ≠ b → content a = content b → ∃ g ∈ gs, a ∈ g
  disjoint : gs.Pairwise (fun g g' => ∀ x ∈ g, x ∉ g')

theorem two_le_length_of_two_mem {l : List P} {a b : P} (ha : a ∈ l) (hb : b ∈ l) (hab : a ≠ b) :
    2 ≤ l.length := by
  match l, ha, hb with
  | [], ha, _ => simp at ha
  | [x], ha, hb =>
    simp only [List.mem_singleton] at ha hb
    exact absurd (ha.trans hb.symm) hab
  | _ :: _ :: _, _, _ => simp

theorem confirm_spec (pick : List P → List P) (hpick : ∀ l, (pick l).Perm l) (content : P → C) :
    ∀ (n : Nat) (rem : List P), rem.Nodup → rem.length ≤ n →
      IsClassPartition content rem (confirm pick content n rem) := by
  intro n
  induction n with
  | zero =>
    intro rem _ hlen
    have : rem = [] := List.length_eq_zero_iff.mp (Nat.le_zero.mp hlen)
    subst this
    exact ⟨by simp [confirm], by simp [confirm], by simp [confirm], by simp, by simp [confirm]⟩
  | succ n ih =>
    intro rem hnd hlen
    have hp := hpick rem
    unfold confirm
    match hpk : pick rem, hp with
    | [], hp =>
      have : rem = [] := hp.symm.eq_nil
      subst this
      exact ⟨by simp, by simp, by simp, by simp, by simp⟩
    | [x], hp =>
      refine ⟨by simp, by simp, by simp, ?_, by simp⟩
      intro a ha b hb hab _
      have ha' : a ∈ [x] := hp.symm.subset ha
      have hb' : b ∈ [x] := hp.symm.subset hb
      simp only [List.mem_singleton] at ha' hb'
      exact absurd (ha'.trans hb'.symm) hab
    | first :: second :: rest0, hp =>
      -- abbreviations
      have hmem : ∀ x, x ∈ rem ↔ x = first ∨ x ∈ second :: rest0 := by
        intro x; rw [← hp.mem_iff]; simp
      have hnd' : (first :: second :: rest0).Nodup := hp.nodup_iff.mpr hnd
      have hfirst : first ∉ second :: rest0 := (List.nodup_cons.mp hnd').1
      have hrestnd : (second :: rest0).Nodup := (List.nodup_cons.mp hnd').2
      have hlen' : (first :: second :: rest0).length ≤ n + 1 := by rw [hp.length_eq]; exact hlen
      -- the remaining list for the next round
      have hr_nd : ((second :: rest0).filter (fun p => !(content p == content first))).Nodup :=
        hrestnd.filter _
      have hr_len : ((second :: rest0).filter (fun p => !(content p == content first))).length ≤ n := by
        have := List.length_filter_le (fun p => !(content p == content first)) (second :: rest0)
        simp only [List.length_cons] at hlen' this ⊢
        omega
      have hr_mem : ∀ x, x ∈ (second :: rest0).filter (fun p => !(content p == content first)) ↔
          (x ∈ rem ∧ content x ≠ content first) := by
        intro x
        rw [List.mem_filter, hmem]
        constructor
        · rintro ⟨h1, h2⟩
          exact ⟨Or.inr h1, by simpa using h2⟩
        · rintro ⟨h1 | h1, h2⟩
          · subst h1; exact absurd rfl h2
          · exact ⟨h1, by simpa using h2⟩
      have hm_mem : ∀ x, x ∈ first :: (second :: rest0).filter (fun p => content p == content first) ↔
          (x ∈ rem ∧ content x = content first) := by
        intro x
        rw [List.mem_cons, List.mem_filter, hmem]
        constructor
        · rintro (h1 | ⟨h1, h2⟩)
          · subst h1; exact ⟨Or.inl rfl, rfl⟩
          · exact ⟨Or.inr h1, by simpa using h2⟩
        · rintro ⟨h1 | h1, h2⟩
          · exact Or.inl h1
          · exact Or.inr ⟨h1, by simpa using h2⟩
      have hm_nd : (first :: (second :: rest0).filter (fun p => content p == content first)).Nodup :=
        List.nodup_cons.mpr ⟨fun h => hfirst (List.mem_filter.mp h).1, hrestnd.filter _⟩
      have IH := ih _ hr_nd hr_len
      -- the groups of the recursive call are classes of `rem` as well
      have IHcls : ∀ g ∈ confirm pick content n
            ((second :: rest0).filter (fun p => !(content p == content first))),
          ∃ a ∈ g, (∀ x, x ∈ g ↔ (x ∈ rem ∧ content x = content a)) ∧ content a ≠ content first := by
        intro g hg
        obtain ⟨a, hag, hcl⟩ := IH.cls g hg
        have ha := (hcl a).mp hag
        have hane : content a ≠ content first := ((hr_mem a).mp ha.1).2
        refine ⟨a, hag, ?_, hane⟩
        intro x
        rw [hcl x, hr_mem]
        constructor
        · rintro ⟨⟨h1, _⟩, h3⟩; exact ⟨h1, h3⟩
        · rintro ⟨h1, h3⟩; exact ⟨⟨h1, h3 ▸ hane⟩, h3⟩
      have IHcomplete : ∀ a ∈ rem, ∀ b ∈ rem, a ≠ b → content a = content b →
          content a ≠ content first →
          ∃ g ∈ confirm pick content n
            ((second :: rest0).filter (fun p => !(content p == content first))), a ∈ g := by
        intro a ha b hb hab hc hne
        exact IH.complete a ((hr_mem a).mpr ⟨ha, hne⟩) b ((hr_mem b).mpr ⟨hb, hc ▸ hne⟩) hab hc
      simp only []
      split
      · -- the class of `first` has at least two members
        rename_i hlen2
        refine ⟨?_, ?_, ?_, ?_, ?_⟩
        · intro g hg
          rcases List.mem_cons.mp hg with rfl | hg
          · exact ⟨first, List.mem_cons_self, hm_mem⟩
          · obtain ⟨a, hag, hcl, _⟩ := IHcls g hg
            exact ⟨a, hag, hcl⟩
        · intro g hg
          rcases List.mem_cons.mp hg with rfl | hg
          · exact hm_nd
          · exact IH.nodup g hg
        · intro g hg
          rcases List.mem_cons.mp hg with rfl | hg
          · exact hlen2
          · exact IH.two g hg
        · intro a ha b hb hab hc
          by_cases hfa : content a = content first
          · exact ⟨_, List.mem_cons_self, (hm_mem a).mpr ⟨ha, hfa⟩⟩
          · obtain ⟨g, hg, hag⟩ := IHcomplete a ha b hb hab hc hfa
            exact ⟨g, List.mem_cons_of_mem _ hg, hag⟩
        · refine List.pairwise_cons.mpr ⟨?_, IH.disjoint⟩
          intro g hg x hx hxg
          obtain ⟨a, _, hcl, hane⟩ := IHcls g hg
          have h1 := ((hm_mem x).mp hx).2
          have h2 := ((hcl x).mp hxg).2
          exact hane (h2.symm.trans h1)
      · -- `first` is alone in its class
        rename_i hlen2
        refine ⟨?_, IH.nodup, IH.two, ?_, IH.disjoint⟩
        · intro g hg
          obtain ⟨a, hag, hcl, _⟩ := IHcls g hg
          exact ⟨a, hag, hcl⟩
        · intro a ha b hb hab hc
          by_cases hfa : content a = content first
          · exfalso
            apply hlen2
            exact two_le_length_of_two_mem ((hm_mem a).mpr ⟨ha, hfa⟩)
              ((hm_mem b).mpr ⟨hb, hc ▸ hfa⟩) hab
          · exact IHcomplete a ha b hb hab hc hfa

theorem findDuplicates_spec (pick : List P → List P) (hpick : ∀ l, (pick l).Perm l)
    (content : P → C) (hash : C → H) (files : List P) (hnd : files.Nodup) :
    IsClassPartition content files (findDuplicates pick content hash files) := by
  have bucket_spec : ∀ h : H,
      IsClassPartition content (files.filter (fun f => hash (content f) == h))
        (if (files.filter (fun f => hash (content f) == h)).length > 1
         then confirm pick content (files.filter (fun f => hash (content f) == h)).length
                (files.filter (fun f => hash (content f) == h))
         else []) := by
    intro h
    split
    · exact confirm_spec pick hpick content _ _ (hnd.filter _) (Nat.le_refl _)
    · rename_i hlen
      refine ⟨by simp, by simp, by simp, ?_, by simp⟩
      intro a ha b hb hab _
      exact absurd (two_le_length_of_two_mem ha hb hab) hlen
  -- members of a bucket group hash to the bucket's digest
  have hash_of : ∀ h : H, ∀ g ∈ (if (files.filter (fun f => hash (content f) == h)).length > 1
         then confirm pick content (files.filter (fun f => hash (content f) == h)).length
                (files.filter (fun f => hash (content f) == h))
         else []), ∀ x ∈ g, hash (content x) = h := by
    intro h g hg x hx
    obtain ⟨a, _, hcl⟩ := (bucket_spec h).cls g hg
    have := ((hcl x).mp hx).1
    simpa using (List.mem_filter.mp this).2
  unfold findDuplicates
  refine ⟨?_, ?_, ?_, ?_, ?_⟩
  · intro g hg
    obtain ⟨h, _, hg⟩ := List.mem_flatMap.mp hg
    obtain ⟨a, hag, hcl⟩ := (bucket_spec h).cls g hg
    have hah : hash (content a) = h := hash_of h g hg a hag
    refine ⟨a, hag, fun x => ?_⟩
    rw [hcl x, List.mem_filter]
    constructor
    · rintro ⟨⟨h1, _⟩, h2⟩; exact ⟨h1, h2⟩
    · rintro ⟨h1, h2⟩; exact ⟨⟨h1, by simp [h2, hah]⟩, h2⟩
  · intro g hg
    obtain ⟨h, _, hg⟩ := List.mem_flatMap.mp hg
    exact (bucket_spec h).nodup g hg
  · intro g hg
    obtain ⟨h, _, hg⟩ := List.mem_flatMap.mp hg
    exact (bucket_spec h).two g hg
  · intro a ha b hb hab hc
    have hA : a ∈ files.filter (fun f => hash (content f) == hash (content a)) :=
      List.mem_filter.mpr ⟨ha, by simp⟩
    have hB : b ∈ files.filter (fun f => hash (content f) == hash (content a)) :=
      List.mem_filter.mpr ⟨hb, by simp [hc]⟩
    obtain ⟨g, hg, hag⟩ := (bucket_spec (hash (content a))).complete a hA b hB hab hc
    exact ⟨g, List.mem_flatMap.mpr ⟨hash (content a),
      mem_firstOcc.mpr (List.mem_map.mpr ⟨a, ha, rfl⟩), hg⟩, hag⟩
  · rw [List.pairwise_flatMap]
    refine ⟨fun h _ => (bucket_spec h).disjoint, ?_⟩
    refine (nodup_firstOcc _).imp_of_mem ?_
    intro h h' _ _ hne g hg g' hg' x hx hx'
    exact hne ((hash_of h g hg x hx).symm.trans (hash_of h' g' hg' x hx'))

/-- groups as a set of sets: the same groups up to the order of the groups and of their members -/
def SameGroups (gs gs' : List (List P)) : Prop :=
  (∀ g ∈ gs, ∃ g' ∈ gs', ∀ x, x ∈ g ↔ x ∈ g') ∧ (∀ g' ∈ gs', ∃ g ∈ gs, ∀ x, x ∈ g ↔ x ∈ g')

omit [DecidableEq C] in
theorem sameGroups_of_partitions {content : P → C} {files files' : List P}
    (hf : ∀ x, x ∈ files ↔ x ∈ files') {gs gs' : List (List P)}
    (h : IsClassPartition content files gs) (h' : IsClassPartition content files' gs') :
    SameGroups gs gs' := by
  have key : ∀ {fa fb : List P} {ga gb : List (List P)}, (∀ x, x ∈ fa ↔ x ∈ fb) →
      IsClassPartition content fa ga → IsClassPartition content fb gb →
      ∀ g ∈ ga, ∃ g' ∈ gb, ∀ x, x ∈ g ↔ x ∈ g' := by
    intro fa fb ga gb hfab ha hb g hg
    obtain ⟨a, hag, hcl⟩ := ha.cls g hg
    have h2 := ha.two g hg
    have hnd := ha.nodup g hg
    -- a second member of g
    obtain ⟨b, hbg, hab⟩ : ∃ b ∈ g, a ≠ b := by
      match g, hag, h2, hnd with
      | [x], _, h2, _ => simp at h2
      | x :: y :: r, hag, _, hnd =>
        have hxy : x ≠ y := by
          intro e; subst e
          simp at hnd
        by_cases hax : a = x
        · exact ⟨y, by simp, hax ▸ hxy⟩
        · exact ⟨x, by simp, hax⟩
    have haf := ((hcl a).mp hag).1
    have hbf := (hcl b).mp hbg
    obtain ⟨g', hg', hag'⟩ := hb.complete a ((hfab a).mp haf) b ((hfab b).mp hbf.1) hab hbf.2.symm
    refine ⟨g', hg', fun x => ?_⟩
    obtain ⟨a', ha'g', hcl'⟩ := hb.cls g' hg'
    have hca : content a = content a' := ((hcl' a).mp hag').2
    rw [hcl x, hcl' x, hfab x, hca]
  refine ⟨key hf h h', ?_⟩
  intro g' hg'
  obtain ⟨g, hg, hx⟩ := key (fun x => (hf x).symm) h' h g' hg'
  exact ⟨g, hg, fun x => (hx x).symm⟩

omit [DecidableEq C] in
/-- the sorted printed form is the same for the same set of sets -/
theorem printedSorted_eq {content : P → C} {files files' : List P}
    {ple : P → P → Bool} {gle : List P → List P → Bool}
    (ptrans : ∀ a b c, ple a b → ple b c → ple a c) (ptotal : ∀ a b, ple a b || ple b a)
    (pantisymm : ∀ a b, ple a b → ple b a → a = b)
    (gtrans : ∀ a b c, gle a b → gle b c → gle a c) (gtotal : ∀ a b, gle a b || gle b a)
    (gantisymm : ∀ a b, gle a b → gle b a → a = b)
    (hf : ∀ x, x ∈ files ↔ x ∈ files') {gs gs' : List (List P)}
    (h : IsClassPartition content files gs) (h' : IsClassPartition content files' gs') :
    printedDuplicates ple gle gs = printedDuplicates ple gle gs' := by
  have sort_eq : ∀ {g g' : List P}, g.Nodup → g'.Nodup → (∀ x, x ∈ g ↔ x ∈ g') →
      g.mergeSort ple = g'.mergeSort ple := by
    intro g g' n n' hm
    exact mergeSort_eq_of_perm ptrans ptotal (fun a _ b _ => pantisymm a b)
      ((List.perm_ext_iff_of_nodup n n').mpr hm)
  have nodup_sorted : ∀ {fs : List P} {ga : List (List P)}, IsClassPartition content fs ga →
      (ga.map fun g => g.mergeSort ple).Nodup := by
    intro fs ga ha
    rw [List.Nodup, List.pairwise_map]
    refine ha.disjoint.imp_of_mem ?_
    intro g g' hg _ hdis heq
    obtain ⟨a, hag, _⟩ := ha.cls g hg
    have : a ∈ g'.mergeSort ple := heq ▸ List.mem_mergeSort.mpr hag
    exact hdis a hag (List.mem_mergeSort.mp this)
  have hsame := sameGroups_of_partitions hf h h'
  unfold printedDuplicates
  apply mergeSort_eq_of_perm gtrans gtotal (fun a _ b _ => gantisymm a b)
  rw [List.perm_ext_iff_of_nodup (nodup_sorted h) (nodup_sorted h')]
  intro c
  simp only [List.mem_map]
  constructor
  · rintro ⟨g, hg, rfl⟩
    obtain ⟨g', hg', hm⟩ := hsame.1 g hg
    exact ⟨g', hg', (sort_eq (h.nodup g hg) (h'.nodup g' hg') hm).symm⟩
  · rintro ⟨g', hg', rfl⟩
    obtain ⟨g, hg, hm⟩ := hsame.2 g' hg'
    exact ⟨g, hg, sort_eq (h.nodup g hg) (h'.nodup g' hg') hm⟩

end dups

/-! ## coverage export -/

theorem covLe_trans (a b c : CovRecord) : covLe a b → covLe b c → covLe a c := by
  simp only [covLe, decide_eq_true_eq]; exact le_trans
theorem covLe_total (a b : CovRecord) : covLe a b || covLe b a := by
  simp only [covLe, Bool.or_eq_true, decide_eq_true_eq]; exact le_total _ _

/-! ## defines of compiler modes -/

/-- no name is given two different bodies -/
def Consistent (ds : List Def) : Prop := ∀ d ∈ ds, ∀ d' ∈ ds, d.1 = d'.1 → d.2 = d'.2

theorem consistentB_iff (ds : List Def) : consistentB ds = true ↔ Consistent ds := by
  unfold consistentB Consistent
  simp only [List.all_eq_true, Bool.or_eq_true, bne_iff_ne, ne_eq, beq_iff_eq]
  constructor
  · intro h d hd d' hd' hn
    rcases h d hd d' hd' with h1 | h1
    · exact absurd hn h1
    · exact h1
  · intro h d hd d' hd'
    by_cases hn : d.1 = d'.1
    · exact Or.inr (h d hd d' hd' hn)
    · exact Or.inl hn

theorem definedAs_perm {ds ds' : List Def} (hc : Consistent ds) (h : ds.Perm ds') (name : String) :
    definedAs ds name = definedAs ds' name := by
  unfold definedAs
  cases h1 : ds.find? (fun d => d.1 == name) with
  | none =>
    have : ds'.find? (fun d => d.1 == name) = none := by
      rw [List.find?_eq_none] at h1 ⊢
      intro d hd; exact h1 d (h.symm.subset hd)
    rw [this]
  | some d =>
    have hd := List.mem_of_find?_eq_some h1
    have hdn : d.1 = name := by simpa using List.find?_some h1
    cases h2 : ds'.find? (fun d => d.1 == name) with
    | none =>
      rw [List.find?_eq_none] at h2
      exact absurd (by simpa using hdn) (h2 d (h.subset hd))
    | some d' =>
      have hd' := h.symm.subset (List.mem_of_find?_eq_some h2)
      have hdn' : d'.1 = name := by simpa using List.find?_some h2
      simp only [Option.map_some]
      rw [hc d hd d' hd' (hdn.trans hdn'.symm)]

/-- a duplicate-free listing of a set of modes is a permutation of every other one -/
theorem perm_of_nodup_same_mem {α : Type} {l l' : List α} (h : l.Nodup) (h' : l'.Nodup)
    (hm : ∀ x, x ∈ l ↔ x ∈ l') : l.Perm l' :=
  (List.perm_ext_iff_of_nodup h h').mpr hm

theorem definedAs_append (a b : List Def) (name : String) :
    definedAs (a ++ b) name = (definedAs a name).or (definedAs b name) := by
  unfold definedAs
  rw [List.find?_append]
  cases a.find? (fun d => d.1 == name) <;> simp

end CbiVerif.Order
