import CbiVerif.PP.Define
import CbiVerif.PP.CharConst
/-! Model of ExpressionEvaluator (with the drafted repairs D2–D5, D7 applied). -/
namespace CbiVerif.PP

structure Val where
  unsigned : Bool
  v : Int
deriving Repr, DecidableEq, Inhabited

def two64 : Int := 18446744073709551616
def two63 : Int := 9223372036854775808

/-- `_c_int(value, unsigned)` -/
def cInt (value : Int) (unsigned : Bool) : Val :=
  let r := value % two64
  if unsigned then ⟨true, r⟩ else if r ≥ two63 then ⟨false, r - two64⟩ else ⟨false, r⟩

def unaryOps : List String := ["-", "+", "!", "~"]

def binInfo : String → Option (Nat × Bool)
  | "?" => some (1, true)
  | "||" => some (2, false) | "&&" => some (3, false)
  | "|" => some (4, false) | "^" => some (5, false) | "&" => some (6, false)
  | "==" => some (7, false) | "!=" => some (7, false)
  | "<" => some (8, false) | "<=" => some (8, false) | ">" => some (8, false) | ">=" => some (8, false)
  | "<<" => some (9, false) | ">>" => some (9, false)
  | "+" => some (10, false) | "-" => some (10, false)
  | "*" => some (11, false) | "/" => some (11, false) | "%" => some (11, false)
  | _ => none

def b2v (b : Bool) : Val := ⟨false, if b then 1 else 0⟩

def applyUnary (op : String) (x : Val) : Val :=
  if op == "-" then cInt (-x.v) x.unsigned
  else if op == "+" then cInt x.v x.unsigned
  else if op == "!" then b2v (x.v == 0)
  else cInt (-x.v - 1) x.unsigned      -- ~v = -v-1

def natAnd (a b : Int) : Int := ((a.toNat &&& b.toNat : Nat) : Int)
def natOr (a b : Int) : Int := ((a.toNat ||| b.toNat : Nat) : Int)
def natXor (a b : Int) : Int := ((a.toNat ^^^ b.toNat : Nat) : Int)

def applyBinary (op : String) (l r : Val) : Val :=
  if op == "||" then b2v (l.v != 0 || r.v != 0)
  else if op == "&&" then b2v (l.v != 0 && r.v != 0)
  else if op == "<<" || op == ">>" then
    let u := l.unsigned
    let c := r.v
    if c < 0 || c ≥ 64 then cInt 0 u
    else if op == "<<" then cInt (l.v * (2 : Int) ^ c.toNat) u
    else cInt (l.v / (2 : Int) ^ c.toNat) u      -- Python >> floors, Int./ on positive divisor is floor (ediv)
  else
    let u := l.unsigned || r.unsigned
    let a := (cInt l.v u).v
    let b := (cInt r.v u).v
    -- bitwise operations on the unsigned 64-bit representations
    let ua := a % two64
    let ub := b % two64
    if op == "|" then cInt (natOr ua ub) u
    else if op == "^" then cInt (natXor ua ub) u
    else if op == "&" then cInt (natAnd ua ub) u
    else if op == "==" then b2v (a == b)
    else if op == "!=" then b2v (a != b)
    else if op == "<" then b2v (a < b)
    else if op == "<=" then b2v (a ≤ b)
    else if op == ">" then b2v (a > b)
    else if op == ">=" then b2v (a ≥ b)
    else if op == "+" then cInt (a + b) u
    else if op == "-" then cInt (a - b) u
    else if op == "*" then cInt (a * b) u
    else -- / %
      if b == 0 then cInt 0 u
      else
        let q0 : Int := (a.natAbs / b.natAbs : Nat)
        let q := if (a < 0) != (b < 0) then -q0 else q0
        if op == "/" then cInt q u else cInt (a - q * b) u

/-- literal conversion of `term()` after the repair: regex
    (0[xX]hex+ | 0[bB]bin+ | 0 oct* | [1-9] dec*) (u(ll|LL|l|L)? | (ll|LL|l|L)u?)? -/
def parseDigits (base : Nat) (cs : List Char) : Option Nat :=
  cs.foldl (fun acc c => match acc with
    | none => none
    | some n =>
      let d := if c.isDigit then c.toNat - '0'.toNat
               else if 'a' ≤ c && c ≤ 'f' then c.toNat - 'a'.toNat + 10
               else if 'A' ≤ c && c ≤ 'F' then c.toNat - 'A'.toNat + 10 else 99
      if d < base then some (n * base + d) else none) (some 0)

def suffixes : List (String × Bool) :=
  -- all accepted suffix spellings, with "is unsigned"
  let us := ["u", "U"]; let ls := ["ll", "LL", "l", "L"]
  (us.map (·, true)) ++ (ls.map (·, false)) ++ (us.flatMap fun u => ls.map fun l => (u ++ l, true)) ++ (ls.flatMap fun l => us.map fun u => (l ++ u, true))

def literal (text : String) : Except Err Val :=
  -- split off the longest matching suffix such that the remainder is a valid digit string
  let cs := text.toList
  let tryWith (digits : List Char) (unsigned : Bool) : Option (Except Err Val) :=
    let r : Option Nat :=
      match digits with
      | '0' :: x :: rest =>
        if x == 'x' || x == 'X' then (if rest.isEmpty then none else parseDigits 16 rest)
        else if x == 'b' || x == 'B' then (if rest.isEmpty then none else parseDigits 2 rest)
        else parseDigits 8 (x :: rest)
      | ['0'] => some 0
      | d :: rest => if d.isDigit && d != '0' then parseDigits 10 (d :: rest) else none
      | [] => none
    r.map fun n =>
      if unsigned then (if (n : Int) < two64 then .ok ⟨true, n⟩ else .error .overflow)
      else (if (n : Int) < two63 then .ok ⟨false, n⟩ else .error .overflow)
  let cands : List (List Char × Bool) :=
    [(cs, false)] ++ suffixes.filterMap fun (s, u) => if text.endsWith s then some (cs.take (cs.length - s.length), u) else none
  match cands.filterMap (fun (d, u) => tryWith d u) with
  | r :: _ => r
  | [] => .error (.other "ValueError")

mutual
partial def evalExpr (ts : List Tok) (minPrec : Nat) : Except Err (Val × List Tok) := do
  let (e, rest) ← evalPrimary ts
  evalLoop e rest minPrec
partial def evalLoop (e : Val) (ts : List Tok) (minPrec : Nat) : Except Err (Val × List Tok) :=
  match ts with
  | t :: rest =>
    match binInfo t.text with
    | some (p, ra) =>
      if p ≥ minPrec then
        if t.kind != .op then .error (.parse "Expected Operator")
        else if t.text == "?" then do
          let (tv, r1) ← evalExpr rest 0
          match r1 with
          | c :: r2 =>
            if c.kind == .op && c.text == ":" then do
              let (fv, r3) ← evalExpr r2 p
              let u := tv.unsigned || fv.unsigned
              let chosen := if e.v != 0 then tv else fv
              evalLoop (cInt chosen.v u) r3 minPrec
            else .error (.parse "Expected :")
          | [] => .error (.parse "No tokens left")
        else do
          let (rv, r1) ← evalExpr rest (if ra then p else p + 1)
          evalLoop (applyBinary t.text e rv) r1 minPrec
      else .ok (e, ts)
    | none => .ok (e, ts)
  | [] => .ok (e, ts)
partial def evalPrimary (ts : List Tok) : Except Err (Val × List Tok) :=
  -- unary
  let unary : Option (Except Err (Val × List Tok)) :=
    match ts with
    | t :: rest =>
      if t.kind == .op && unaryOps.contains t.text then
        some (match evalExpr rest 12 with
          | .ok (v, r) => .ok (applyUnary t.text v, r)
          | .error e => .error e)
      else none
    | [] => none
  match unary with
  | some (.ok r) => .ok r
  | some (.error (.parse _)) | none =>
    -- parenthesised
    let paren : Option (Except Err (Val × List Tok)) :=
      match ts with
      | t :: rest =>
        if t.kind == .punct && t.text == "(" then
          some (match evalExpr rest 0 with
            | .ok (v, c :: r) => if c.kind == .punct && c.text == ")" then .ok (v, r) else .error (.parse "Expected )")
            | .ok (_, []) => .error (.parse "No tokens left")
            | .error e => .error e)
        else none
      | [] => none
    match paren with
    | some (.ok r) => .ok r
    | some (.error (.parse _)) | none => evalTerm ts
    | some (.error e) => .error e
  | some (.error e) => .error e
partial def evalTerm (ts : List Tok) : Except Err (Val × List Tok) :=
  match ts with
  | t :: rest =>
    if t.kind == .num then
      match literal t.text with
      | .ok v => .ok (v, rest)
      | .error e => .error e
    else if t.kind == .chr then
      match characterValue t.text.toList with
      | .ok n => .ok (⟨false, n⟩, rest)
      | .error .type_ => .error .type_
      | .error .value => .error (.other "ValueError")
    else if t.kind == .ident then
      -- call(): identifier '(' expression-list ')'  → 0 ; else identifier → 0
      match rest with
      | p :: r1 =>
        if p.kind == .punct && p.text == "(" then
          match evalArgList r1 with
          | .ok r2 =>
            match r2 with
            | c :: r3 => if c.kind == .punct && c.text == ")" then .ok (⟨false, 0⟩, r3) else .ok (⟨false, 0⟩, rest)
            | [] => .ok (⟨false, 0⟩, rest)
          | .error e => .error e
        else .ok (⟨false, 0⟩, rest)
      | [] => .ok (⟨false, 0⟩, rest)
    else .error (.parse "Expected term")
  | [] => .error (.parse "No tokens left")
/-- __expression_list: returns the remaining tokens; only ParseError is swallowed -/
partial def evalArgList (ts : List Tok) : Except Err (List Tok) :=
  match evalExpr ts 0 with
  | .ok (_, r) =>
    let rec more (fuel : Nat) (ts : List Tok) : Except Err (List Tok) :=
      match fuel with
      | 0 => .ok ts
      | fuel + 1 =>
        match ts with
        | c :: r1 =>
          if c.kind == .punct && c.text == "," then
            match evalExpr r1 0 with
            | .ok (_, r2) => more fuel r2
            | .error (.parse _) => .ok r1
            | .error e => .error e
          else .ok ts
        | [] => .ok ts
    more (r.length + 1) r
  | .error (.parse _) => .ok ts
  | .error e => .error e
end

/-- evaluate(): truth value -/
def evaluate (ts : List Tok) : Except Err Bool :=
  match evalExpr ts 0 with
  | .ok (v, _) => .ok (v.v != 0)
  | .error e => .error e

end CbiVerif.PP
