import CbiVerif.Model.FindInc
import CbiVerif.Model.WarnMsg
/-! # The unknown-directive events of a file's text with the column the code prints

`tokens[0].col` of `insert_directive_node` is the position of the `#` token in the logical line handed to the
lexer: the number of white-space characters `Lexer.whitespace` skips first.  `directivesOfTextC` is
`Inc.directivesOfText` with that column attached (`Props/C18Msg.directives_with_col_agree`). -/
namespace CbiVerif.WarnMsg
open CbiVerif.PP CbiVerif.Inc CbiVerif.Warn

def directiveCol (text : String) : Nat := (text.toList.takeWhile isWs).length

def directivesOfTextC (text : String) : List (Directive × Nat) :=
  match cFileSource text with
  | .ok (lls, _, _) =>
    lls.filterMap fun ll =>
      if ll.isDirective then (directiveOf ll.text ll.start).map fun d => (d, directiveCol ll.text) else none
  | .error _ => []

/-- the events `insert_directive_node` reports for a file, with line, column, name and spelling -/
def directiveEventsC (file : String) (text : String) : List Event :=
  ((directivesOfTextC text).filter fun dc => dc.1.warns).map fun dc =>
    { kind := .unknownDirective, file := file, line := dc.1.line, col := dc.2, name := dc.1.name, spelling := dc.1.spelling }

end CbiVerif.WarnMsg
