import CbiVerif.Spec.GitIgnore
/-! helper lemmas about the gitignore reference (`Spec/GitIgnore.lean`) for `Props/C09GitIgnore.lean` -/
namespace CbiVerif.GitIgnore

/-! ## matcher -/

theorem tokAux_lits (s : Chars) : ∀ (n : Nat) (bound : Bool), (∀ c ∈ s, isSpecial c = false) → s.length < n →
    tokAux n bound s = some (s.map Tok.lit) := by
  induction s with
  | nil =>
    intro n b _ hn
    cases n with
    | zero => simp at hn
    | succ n => simp [tokAux]
  | cons c r ih =>
    intro n b hs hn
    cases n with
    | zero => simp at hn
    | succ n =>
      have hc : isSpecial c = false := hs c (by simp)
      simp only [isSpecial, Bool.or_eq_false_iff] at hc
      obtain ⟨⟨⟨h1, h2⟩, h3⟩, h4⟩ := hc
      have hr := ih n (c == '/') (fun d hd => hs d (by simp [hd])) (by simp at hn; omega)
      simp [tokAux, h1, h2, h3, h4, hr]

theorem tokenize_lits (s : Chars) (hs : ∀ c ∈ s, isSpecial c = false) : tokenize s = some (s.map Tok.lit) :=
  tokAux_lits s _ true hs (by omega)

theorem wm_lits_append (s : Chars) (ts : List Tok) :
    ∀ t, wm (s.map Tok.lit ++ ts) t = true ↔ ∃ r, t = s ++ r ∧ wm ts r = true := by
  induction s with
  | nil => intro t; simp
  | cons c s ih =>
    intro t
    cases t with
    | nil => simp [wm]
    | cons d t' =>
      simp only [List.map_cons, List.cons_append, wm, Bool.and_eq_true, beq_iff_eq, ih t']
      constructor
      · rintro ⟨rfl, r, rfl, h⟩; exact ⟨r, rfl, h⟩
      · rintro ⟨r, h, hr⟩
        simp only [List.cons.injEq] at h
        obtain ⟨rfl, rfl⟩ := h
        exact ⟨rfl, r, rfl, hr⟩

theorem wm_lits (s t : Chars) : wm (s.map Tok.lit) t = true ↔ t = s := by
  have := wm_lits_append s [] t
  simp only [List.append_nil] at this
  rw [this]
  constructor
  · rintro ⟨r, rfl, hr⟩
    simp only [wm, List.isEmpty_iff] at hr
    simp [hr]
  · rintro rfl; exact ⟨[], by simp, by simp [wm]⟩

theorem starLoop_iff (f : Chars → Bool) :
    ∀ t, starLoop f t = true ↔ ∃ a b, t = a ++ b ∧ '/' ∉ a ∧ f b = true := by
  intro t
  induction t with
  | nil =>
    simp only [starLoop]
    constructor
    · intro h; exact ⟨[], [], rfl, by simp, h⟩
    · rintro ⟨a, b, hab, _, hf⟩
      have : a = [] ∧ b = [] := by simpa using hab.symm
      rw [this.2] at hf; exact hf
  | cons c t ih =>
    simp only [starLoop, Bool.or_eq_true, Bool.and_eq_true, bne_iff_ne, ne_eq, ih]
    constructor
    · rintro (h | ⟨hc, a, b, rfl, ha, hf⟩)
      · exact ⟨[], c :: t, rfl, by simp, h⟩
      · refine ⟨c :: a, b, rfl, ?_, hf⟩
        simp only [List.mem_cons, not_or]
        exact ⟨fun h => hc h.symm, ha⟩
    · rintro ⟨a, b, hab, ha, hf⟩
      cases a with
      | nil => left; simp only [List.nil_append] at hab; rw [hab]; exact hf
      | cons c' a' =>
        right
        simp only [List.cons_append, List.cons.injEq] at hab
        obtain ⟨rfl, rfl⟩ := hab
        simp only [List.mem_cons, not_or] at ha
        exact ⟨fun h => ha.1 h.symm, a', b, rfl, ha.2, hf⟩

theorem anyLoop_iff (f : Chars → Bool) :
    ∀ t, anyLoop f t = true ↔ ∃ a b, t = a ++ b ∧ f b = true := by
  intro t
  induction t with
  | nil =>
    simp only [anyLoop]
    constructor
    · intro h; exact ⟨[], [], rfl, h⟩
    · rintro ⟨a, b, hab, hf⟩
      have : a = [] ∧ b = [] := by simpa using hab.symm
      rw [this.2] at hf; exact hf
  | cons c t ih =>
    simp only [anyLoop, Bool.or_eq_true, ih]
    constructor
    · rintro (h | ⟨a, b, rfl, hf⟩)
      · exact ⟨[], c :: t, rfl, h⟩
      · exact ⟨c :: a, b, rfl, hf⟩
    · rintro ⟨a, b, hab, hf⟩
      cases a with
      | nil => left; simp only [List.nil_append] at hab; rw [hab]; exact hf
      | cons c' a' =>
        right
        simp only [List.cons_append, List.cons.injEq] at hab
        obtain ⟨rfl, rfl⟩ := hab
        exact ⟨a', b, rfl, hf⟩

/-! ## lines -/

theorem trimAux_clean (s : Chars) : ∀ done sp, (∀ c ∈ s, c ≠ '\\') → s ≠ [] → s.getLast? ≠ some ' ' →
    trimAux done sp s = done.reverse ++ sp.reverse ++ s := by
  induction s with
  | nil => intro _ _ _ h; exact absurd rfl h
  | cons c r ih =>
    intro done sp hb _ hl
    have hcb : (c == '\\') = false := by simpa using hb c (by simp)
    cases r with
    | nil =>
      have hc : (c == ' ') = false := by
        simp only [List.getLast?_singleton, ne_eq, Option.some.injEq] at hl
        simpa using hl
      simp [trimAux, hc, hcb]
    | cons d r' =>
      have hl' : (d :: r').getLast? ≠ some ' ' := by simpa [List.getLast?_cons_cons] using hl
      have hb' : ∀ x ∈ d :: r', x ≠ '\\' := fun x hx => hb x (List.mem_cons_of_mem _ hx)
      by_cases hc : c = ' '
      · subst hc
        have := ih done (' ' :: sp) hb' (by simp) hl'
        simp only [trimAux, beq_self_eq_true, if_true]
        rw [this]; simp
      · have hc' : (c == ' ') = false := by simpa using hc
        have := ih (c :: (sp ++ done)) [] hb' (by simp) hl'
        simp only [trimAux, hc', hcb, Bool.false_eq_true, if_false]
        rw [this]; simp

theorem trimTrailing_clean (s : Chars) (hb : ∀ c ∈ s, c ≠ '\\') (hne : s ≠ []) (hl : s.getLast? ≠ some ' ') :
    trimTrailing s = s := by
  unfold trimTrailing
  rw [trimAux_clean s [] [] hb hne hl]; simp

/-- a pattern body that needs no line-level treatment: no backslash, not empty, does not end in a blank -/
structure Clean (s : Chars) : Prop where
  noBackslash : ∀ c ∈ s, c ≠ '\\'
  nonempty : s ≠ []
  noTrailingBlank : s.getLast? ≠ some ' '

/-- what a line without escapes, comment mark and trailing blanks parses to -/
def cleanPat (neg : Bool) (b : Chars) : Pat :=
  let db := stripDir b
  let anchored := db.2.contains '/'
  { neg := neg, dirOnly := db.1, anchored := anchored, toks := tokenize (if anchored then stripLead db.2 else db.2) }

theorem parseLine_clean (b : Chars) (h : Clean b) (h1 : b.head? ≠ some '#') (h2 : b.head? ≠ some '!') :
    parseLine b = some (cleanPat false b) := by
  have hE : b.isEmpty = false := by cases b with | nil => exact absurd rfl h.nonempty | cons _ _ => rfl
  have hH : (b.head? == some '#') = false := by simpa using h1
  simp only [parseLine, hE, hH, Bool.or_self, Bool.false_eq_true, if_false,
    trimTrailing_clean b h.noBackslash h.nonempty h.noTrailingBlank, stripNeg, h2, cleanPat]

theorem parseLine_neg_clean (b : Chars) (h : Clean b) :
    parseLine ('!' :: b) = some (cleanPat true b) := by
  have hc : Clean ('!' :: b) := by
    refine ⟨?_, by simp, ?_⟩
    · intro c hc
      simp only [List.mem_cons] at hc
      rcases hc with rfl | hc
      · decide
      · exact h.noBackslash c hc
    · cases b with
      | nil => exact absurd rfl h.nonempty
      | cons d r => simpa [List.getLast?_cons_cons] using h.noTrailingBlank
  have hH : ((some '!' : Option Char) == some '#') = false := by decide
  simp only [parseLine, List.isEmpty_cons, List.head?_cons, Bool.false_or, hH, Bool.false_eq_true, if_false,
    trimTrailing_clean _ hc.noBackslash hc.nonempty hc.noTrailingBlank, stripNeg, List.tail_cons, if_true, cleanPat]

/-! ## deciding -/

theorem lastMatch_append_single (ps : List Pat) (p : Pat) (comps : Comps) (d : Bool) :
    lastMatch (ps ++ [p]) comps d = if matchPat p comps d then some (!p.neg) else lastMatch ps comps d := by
  simp [lastMatch, List.foldl_append]

theorem foldl_unmatched (x : Comps) (d : Bool) (qs : List Pat) :
    ∀ (a : Option Bool),
      qs.foldl (fun acc p => if matchPat p x d then some (!p.neg) else acc) a =
        match lastMatch qs x d with
        | some v => some v
        | none => a := by
  induction qs with
  | nil => intro a; simp [lastMatch]
  | cons q qs ih =>
    intro a
    have e1 := ih (if matchPat q x d then some (!q.neg) else a)
    have e2 := ih (if matchPat q x d then some (!q.neg) else none)
    have e3 : lastMatch (q :: qs) x d =
        qs.foldl (fun acc p => if matchPat p x d then some (!p.neg) else acc) (if matchPat q x d then some (!q.neg) else none) := rfl
    rw [List.foldl_cons, e1, e3, e2]
    cases lastMatch qs x d with
    | some v => rfl
    | none => by_cases hq : matchPat q x d = true <;> simp [hq]

theorem lastMatch_append (ps qs : List Pat) (x : Comps) (d : Bool) :
    lastMatch (ps ++ qs) x d = match lastMatch qs x d with
      | some v => some v
      | none => lastMatch ps x d := by
  unfold lastMatch
  rw [List.foldl_append]
  exact foldl_unmatched x d qs _

theorem lastMatch_remove (ps qs : List Pat) (p : Pat) (x : Comps) (d : Bool) (h : matchPat p x d = false) :
    lastMatch (ps ++ p :: qs) x d = lastMatch (ps ++ qs) x d := by
  rw [lastMatch_append, lastMatch_append]
  have : lastMatch (p :: qs) x d = match lastMatch qs x d with
      | some v => some v
      | none => lastMatch [p] x d := lastMatch_append [p] qs x d
  rw [this]
  have h1 : lastMatch [p] x d = none := by simp [lastMatch, h]
  rw [h1]
  cases lastMatch qs x d <;> simp [lastMatch]

/-- the walk only looks at `excludedAt`: two pattern lists that exclude the same prefixes ignore the same paths -/
theorem ignoredFrom_congr (ps qs : List Pat) (comps : Comps) :
    ∀ (pre : Comps) (d : Bool),
      (∀ k, 0 < k → k ≤ comps.length → ∀ d', excludedAt ps (pre ++ comps.take k) d' = excludedAt qs (pre ++ comps.take k) d') →
      ignoredFrom ps pre comps d = ignoredFrom qs pre comps d := by
  induction comps with
  | nil => intro pre d _; simp [ignoredFrom]
  | cons c rest ih =>
    intro pre d h
    have h1 : ∀ d', excludedAt ps (pre ++ [c]) d' = excludedAt qs (pre ++ [c]) d' := by
      intro d'; simpa using h 1 (by omega) (by simp) d'
    cases rest with
    | nil => simp [ignoredFrom, h1]
    | cons c2 r2 =>
      have h2 := ih (pre ++ [c]) d (by
        intro k hk hk' d'
        have := h (k + 1) (by omega) (by simp at hk' ⊢; omega) d'
        simpa [List.take_succ_cons, List.append_assoc] using this)
      simp only [ignoredFrom, h1, h2]

/-- the shape of the walk when exclusion of a prefix depends on its last component (and on the directory flag) only -/
theorem ignoredFrom_byLast (ps : List Pat) (Q : Chars → Prop) (g : Chars → Bool → Bool)
    (hg : ∀ (x : Comps) (c : Chars) (d' : Bool), (∀ y ∈ x ++ [c], Q y) → excludedAt ps (x ++ [c]) d' = g c d')
    (comps : Comps) :
    ∀ (pre : Comps) (d : Bool), (∀ y ∈ pre ++ comps, Q y) →
      ignoredFrom ps pre comps d =
        (comps.dropLast.any (fun c => g c true) || match comps.getLast? with
          | some c => g c d
          | none => false) := by
  induction comps with
  | nil => intro pre d _; simp [ignoredFrom]
  | cons c rest ih =>
    intro pre d hq
    have h1 : ∀ d', excludedAt ps (pre ++ [c]) d' = g c d' := fun d' =>
      hg pre c d' (fun y hy => hq y (by
        rcases List.mem_append.mp hy with h | h
        · exact List.mem_append.mpr (Or.inl h)
        · rw [List.mem_singleton.mp h]; exact List.mem_append.mpr (Or.inr (List.mem_cons_self ..))))
    cases rest with
    | nil => simp [ignoredFrom, h1]
    | cons c2 r2 =>
      have h2 := ih (pre ++ [c]) d (fun y hy => hq y (by simpa [List.append_assoc] using hy))
      simp only [ignoredFrom, h1, h2, List.dropLast_cons_cons, List.any_cons, List.getLast?_cons_cons, Bool.or_assoc]

/-! ## paths as text -/

theorem joinPath_cons_cons (c c2 : Chars) (r : Comps) : joinPath (c :: c2 :: r) = c ++ '/' :: joinPath (c2 :: r) := rfl

theorem slash_mem_joinPath (c c2 : Chars) (r : Comps) : '/' ∈ joinPath (c :: c2 :: r) := by
  rw [joinPath_cons_cons]; simp

/-- the text of a path equals a slash-free non-empty name iff the path is that single component -/
theorem joinPath_eq_name (x : Comps) (s : Chars) (hs : '/' ∉ s) (hne : s ≠ []) : joinPath x = s ↔ x = [s] := by
  constructor
  · intro h
    match x, h with
    | [], h => exact absurd h.symm hne
    | [c], h => simp only [joinPath] at h; rw [h]
    | c :: c2 :: r, h => exact absurd (h ▸ slash_mem_joinPath c c2 r) hs
  · rintro rfl; rfl

/-! ## the walk, declaratively -/

theorem any_dropLast_or_last {α : Type} (f : α → Bool) (l : List α) :
    (l.dropLast.any f || match l.getLast? with
      | some c => f c
      | none => false) = l.any f := by
  induction l with
  | nil => rfl
  | cons a r ih =>
    cases r with
    | nil => simp
    | cons b r' =>
      simp only [List.dropLast_cons_cons, List.getLast?_cons_cons, List.any_cons, Bool.or_assoc] at ih ⊢
      rw [ih]

/-- a path is ignored iff one of its proper parent directories is excluded or the path itself is -/
theorem ignoredFrom_iff (ps : List Pat) (comps : Comps) : ∀ (pre : Comps) (d : Bool),
    ignoredFrom ps pre comps d = true ↔
      (∃ k, 0 < k ∧ k < comps.length ∧ excludedAt ps (pre ++ comps.take k) true = true) ∨
      (comps ≠ [] ∧ excludedAt ps (pre ++ comps) d = true) := by
  induction comps with
  | nil => intro pre d; simp [ignoredFrom]
  | cons c rest ih =>
    intro pre d
    cases rest with
    | nil =>
      simp only [ignoredFrom, List.length_singleton]
      constructor
      · intro h; exact Or.inr ⟨by simp, h⟩
      · rintro (⟨k, h1, h2, _⟩ | ⟨_, h⟩)
        · omega
        · exact h
    | cons c2 r2 =>
      have e : ∀ l : Comps, (pre ++ [c]) ++ l = pre ++ c :: l := fun l => by simp
      simp only [ignoredFrom, Bool.or_eq_true, ih (pre ++ [c]) d, e]
      constructor
      · rintro (h | ⟨k, h1, h2, h3⟩ | ⟨_, h⟩)
        · exact Or.inl ⟨1, by omega, by simp, by simpa using h⟩
        · exact Or.inl ⟨k + 1, by omega, by simp at h2 ⊢; omega, by simpa [List.take_succ_cons] using h3⟩
        · exact Or.inr ⟨by simp, h⟩
      · rintro (⟨k, h1, h2, h3⟩ | ⟨_, h⟩)
        · cases k with
          | zero => omega
          | succ k' =>
            cases k' with
            | zero => left; simpa using h3
            | succ k'' =>
              right; left
              exact ⟨k'' + 1, by omega, by simp at h2 ⊢; omega, by simpa [List.take_succ_cons] using h3⟩
        · exact Or.inr (Or.inr ⟨by simp, h⟩)

/-- below a directory that is not the first level nothing is excluded by a list that only excludes one-component paths -/
theorem ignoredFrom_deep_false (ps : List Pat) (hE : ∀ (x : Comps) (d' : Bool), x.length ≠ 1 → excludedAt ps x d' = false)
    (comps : Comps) : ∀ (pre : Comps) (d : Bool), pre ≠ [] → ignoredFrom ps pre comps d = false := by
  induction comps with
  | nil => intro pre d _; simp [ignoredFrom]
  | cons c rest ih =>
    intro pre d hp
    have hlen : (pre ++ [c]).length ≠ 1 := by
      cases pre with
      | nil => exact absurd rfl hp
      | cons a r => simp
    cases rest with
    | nil => simp [ignoredFrom, hE _ d hlen]
    | cons c2 r2 => simp [ignoredFrom, hE _ true hlen, ih (pre ++ [c]) d (by simp)]

theorem mem_dropLast_or_last {α : Type} (s : α) (l : List α) : s ∈ l ↔ s ∈ l.dropLast ∨ l.getLast? = some s := by
  induction l with
  | nil => simp
  | cons a r ih =>
    cases r with
    | nil => simp [eq_comm]
    | cons b r' =>
      have e1 : s ∈ a :: b :: r' ↔ s = a ∨ s ∈ b :: r' := List.mem_cons
      have e2 : s ∈ a :: (b :: r').dropLast ↔ s = a ∨ s ∈ (b :: r').dropLast := List.mem_cons
      rw [List.dropLast_cons_cons, List.getLast?_cons_cons, e1, e2, ih, or_assoc]

theorem ignoredFrom_byLast_iff (ps : List Pat) (Q : Chars → Prop) (g : Chars → Bool → Bool)
    (hg : ∀ (x : Comps) (c : Chars) (d' : Bool), (∀ y ∈ x ++ [c], Q y) → excludedAt ps (x ++ [c]) d' = g c d')
    (comps pre : Comps) (d : Bool) (hq : ∀ y ∈ pre ++ comps, Q y) :
    ignoredFrom ps pre comps d = true ↔
      (∃ c ∈ comps.dropLast, g c true = true) ∨ (∃ c, comps.getLast? = some c ∧ g c d = true) := by
  rw [ignoredFrom_byLast ps Q g hg comps pre d hq, Bool.or_eq_true, List.any_eq_true]
  cases comps.getLast? <;> simp

end CbiVerif.GitIgnore
