#!/venv/bin/python
"""agent_diff.py <name> [--copy-new] : compare /tmp/ag_<name>/verif with /verif (new / changed / deleted files)."""
import filecmp, os, shutil, sys
name = sys.argv[1]
src = f"/tmp/ag_{name}/verif"
dst = "/verif"
SKIP = {".lake", "__pycache__", "replays", ".git", "evidence"}
new, changed = [], []
for root, dirs, files in os.walk(src):
    dirs[:] = [d for d in dirs if d not in SKIP]
    for f in files:
        if f.endswith(".pyc") or f == ".build.lock":
            continue
        s = os.path.join(root, f)
        rel = os.path.relpath(s, src)
        d = os.path.join(dst, rel)
        if not os.path.exists(d):
            new.append(rel)
        elif not filecmp.cmp(s, d, shallow=False):
            changed.append(rel)
deleted = []
for root, dirs, files in os.walk(dst):
    dirs[:] = [d for d in dirs if d not in SKIP]
    for f in files:
        rel = os.path.relpath(os.path.join(root, f), dst)
        if not os.path.exists(os.path.join(src, rel)) and not f.endswith(".pyc") and f != ".build.lock":
            deleted.append(rel)
print("NEW:"); [print("  ", x) for x in sorted(new)]
print("CHANGED:"); [print("  ", x) for x in sorted(changed)]
if "--deleted" in sys.argv:
    print("DELETED-in-agent:"); [print("  ", x) for x in sorted(deleted)]
if "--copy-new" in sys.argv:
    for rel in new:
        os.makedirs(os.path.dirname(os.path.join(dst, rel)), exist_ok=True)
        shutil.copy2(os.path.join(src, rel), os.path.join(dst, rel))
    print("copied", len(new), "new files")
