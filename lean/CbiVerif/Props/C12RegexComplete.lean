import CbiVerif.Props.C12
import CbiVerif.Props.C12Regex
import CbiVerif.Lemmas.RegexComplete
import CbiVerif.Lemmas.RegexPrio
import CbiVerif.Lemmas.RegexParse
import CbiVerif.Lemmas.RegexShapes
/-!
# C12 — completeness and priority-exactness of the regular-expression matcher, the parser, all-values corollaries

`Props/C12Regex.lean` proved SOUNDNESS of the back-tracking matcher of `Model/Regex.lean` (the `re.findall` of
`_ExtendMatchAction`).  Proved here:

* COMPLETENESS for every expression (`matcher_complete`, which is the `MatcherComplete` left open there): whenever
  the language `Spec.Regex.Match` has a match at a position, the match attempt succeeds; `search` answers the LEFTMOST
  position that has a match (`search_finds_leftmost`, `search_none_iff`); `findall` reports every position where a
  match starts unless the position lies strictly inside an earlier reported hit (`findall_complete`).
* PRIORITY (which match at a position): `Spec/RegexPrio.lean` lists all matches in Python's preference order without
  any back-tracking (`allMatches`: first alternative first, greedy repetition, left part of a sequence dominates).
  On the fragment `inFragment` (bodies of `*` / `+` cannot match the empty string) the list holds exactly the matches
  of the language (`allMatches_exact_partial`), the matcher returns its first acceptable element together with the
  groups (`matcher_priority_exact_partial`), and `findall` equals the scan computed from the specification alone
  (`findall_eq_spec_partial`).  The parser answers only expressions of the fragment (`parse_in_fragment`), hence for
  EVERY pattern the model accepts `findallStr` is the specification's `findall` (`findallStr_eq_spec`).
* PARSER: a metacharacter-free pattern parses to `lit` (`parse_literal`); printing a flat expression canonically and
  parsing it back gives the expression (`parse_roundtrip_partial`; groups, alternation and character sets are not
  covered: `ParseRoundtrip`); the regenerated built-in table contains exactly one pattern, nvcc's (`builtin_patterns_all`),
  one `store_split` rule and the two formats the all-values lemmas are about.
* ALL-VALUES corollaries: the nvcc closed form on a comma-joined list of architecture names (`nvArchs_comma_list`,
  `nvcc_findall_comma_list`), `str.split(c)` on a `c`-joined list (`pySplit_joined`), `Template(prefix$value)`
  (`substitute_prefix`), and the `-fsycl-targets` rule end to end (`sycl_targets_selects`).
-/
namespace CbiVerif.C12
open CbiVerif.Regex CbiVerif.Compilers CbiVerif.Gen.Compilers

/-! ## completeness (every expression) -/

/-- a match attempt succeeds whenever the language has a match it may report (after an empty match at the same
    place: a non-empty one) -/
theorem matcher_complete_adv (r : Re) (adv : Bool) (s s' : List Char) (h : Match r s s')
    (hadv : adv = true → s'.length ≠ s.length) : (matchAt r adv s).isSome = true :=
  matchAt_complete r adv s s' h hadv

example : Match (.star (.alt (.chr 'a') .empty)) "aab".toList "b".toList ∧ (true = true → "b".toList.length ≠ "aab".toList.length) :=
  ⟨.starS (.altL (.chr 'a' _)) (.starS (.altL (.chr 'a' _)) (.star0 _ _)), by decide⟩

/-- the statement left open in `Props/C12Regex.lean`, for ALL expressions (also outside the parser's fragment) -/
theorem matcher_complete : MatcherComplete :=
  fun r s s' h => matchAt_complete r false s s' h (fun h => absurd h (by decide))

/-- success of a match attempt is exactly existence of a reportable match of the language -/
theorem matcher_sound_and_complete (r : Re) (adv : Bool) (s : List Char) :
    (matchAt r adv s).isSome = true ↔ ∃ s', Match r s s' ∧ (adv = true → s'.length ≠ s.length) :=
  matchAt_isSome_iff r adv s

/-- `search` answers the leftmost position with a match: the reported position has one, and no earlier position `j`
    has any match of the language (at the first position, when `adv` is set: any non-empty match) -/
theorem search_finds_leftmost (r : Re) (s : List Char) (off : Nat) (adv : Bool) (st : Nat) (sAt rest : List Char) (caps : Caps)
    (h : search r off s adv = some (st, sAt, rest, caps)) :
    ∃ k, st = off + k ∧ k ≤ s.length ∧ sAt = s.drop k ∧ Match r sAt rest ∧
      ∀ j, j < k → ∀ s', Match r (s.drop j) s' → (adv = true ∧ j = 0 ∧ s'.length = (s.drop j).length) := by
  obtain ⟨k, h1, h2, h3, h4, h5⟩ := search_leftmost r s off adv st sAt rest caps h
  refine ⟨k, h1, h2, h3, (matchAt_sound r _ sAt rest caps h4).1, ?_⟩
  intro j hj s' hm
  apply Classical.byContradiction
  intro hc
  apply h5 j hj
  refine ⟨s', hm, ?_⟩
  intro ha hl
  apply hc
  simp only [Bool.and_eq_true, beq_iff_eq] at ha
  exact ⟨ha.1, ha.2, hl⟩

example : search (.plus (.cls false [.digit])) 0 "ab12".toList false = some (2, "12".toList, [], []) := by decide

/-- `search` answers `none` exactly when no position has a reportable match -/
theorem search_none_iff (r : Re) (s : List Char) (off : Nat) (adv : Bool) :
    search r off s adv = none ↔ ∀ j, j ≤ s.length → ¬ Reportable r (adv && j == 0) (s.drop j) := by
  constructor
  · exact search_none r s off adv
  · intro h
    cases hs : search r off s adv with
    | none => rfl
    | some y =>
      obtain ⟨st, sAt, rest, caps⟩ := y
      obtain ⟨k, _, h2, h3, h4, _⟩ := search_leftmost r s off adv st sAt rest caps hs
      obtain ⟨hm, ha⟩ := matchAt_sound r _ sAt rest caps h4
      exact absurd ⟨rest, h3 ▸ hm, h3 ▸ ha⟩ (h k h2)

/-- "findall returns all non-overlapping matches": every position of the text at which the language has a match is
    the start of a reported hit or lies strictly inside a reported hit -/
theorem findall_complete (r : Re) (s : List Char) (j : Nat) (hj : j ≤ s.length) (s' : List Char) (hm : Match r (s.drop j) s') :
    ∃ h ∈ hits r s, h.start = j ∨ (h.start < j ∧ j < h.start + h.text.length) := by
  have := scan_complete r (2 * s.length + 3) 0 s false (by simp) j hj ⟨s', hm, by simp⟩
  simpa [Hit.covers, hits] using this

example : (hits (.alt (lit "ab".toList) (.chr 'b')) "abb".toList).map (fun h => (h.start, h.text.length)) = [(0, 2), (2, 1)] := by decide

/-! ## priority: which match is reported -/

/-- the priority list holds exactly the matches of the language (fragment: see `inFragment`) -/
theorem allMatches_exact_partial (r : Re) (hf : inFragment r = true) (s s' : List Char) (caps : Caps) :
    (∃ caps', (s', caps') ∈ allMatches r s caps) ↔ Match r s s' :=
  ⟨fun ⟨c', h⟩ => allMatches_sound r s caps (s', c') h, fun h => allMatches_complete h hf caps⟩

/-- without the fragment hypothesis: every listed match is a match of the language -/
theorem allMatches_sound_all (r : Re) (s : List Char) (caps : Caps) (x : MRes) (h : x ∈ allMatches r s caps) : Match r s x.1 :=
  allMatches_sound r s caps x h

/-- the full statement (not proved outside the fragment; CPython itself treats an empty iteration of a repetition
    differently from this matcher, which is why the parser refuses such patterns) -/
def MatcherPriorityExact : Prop := ∀ (r : Re) (adv : Bool) (s : List Char), matchAt r adv s = firstMatch r adv s

/-- the matcher reports the most preferred acceptable match (rest of the text AND groups) -/
theorem matcher_priority_exact_partial (r : Re) (hf : inFragment r = true) (adv : Bool) (s : List Char) :
    matchAt r adv s = firstMatch r adv s :=
  matchAt_eq_firstMatch r hf adv s

/-- the same for any continuation: the first listed match the continuation accepts -/
theorem matchRe_priority_exact_partial {R : Type} (r : Re) (hf : inFragment r = true) (s : List Char) (caps : Caps) (k : Cont R) :
    matchRe r s caps k = (allMatches r s caps).findSome? (fun x => k x.1 x.2) :=
  matchRe_eq_first r hf s caps k

example : inFragment nvRe = true ∧
    (allMatches (.seq (.star (.chr 'a')) (.opt (.chr 'a'))) "aa".toList []).map (fun x => x.1.length) = [0, 0, 1, 1, 2] := by decide
/-- first alternative first: `a|ab` reports `a` although `ab` is longer; greedy: `a*` takes both -/
example : firstMatch (.alt (.chr 'a') (lit "ab".toList)) false "ab".toList = some ("b".toList, []) ∧
    firstMatch (.star (.chr 'a')) false "aab".toList = some ("b".toList, []) ∧
    firstMatch (.star (.chr 'a')) true "b".toList = none := by decide

/-- `findall` is the scan computed from the specification alone -/
theorem findall_eq_spec_partial (r : Re) (hf : inFragment r = true) (ng : Nat) (s : List Char) :
    findall r ng s = specFindall r ng s := by
  simp only [findall, specFindall, hits, specScan_eq r hf]

/-- the parser answers only expressions of the fragment … -/
theorem parse_in_fragment (p : String) (r : Re) (ng : Nat) (h : parse p = .ok (r, ng)) : inFragment r = true :=
  parse_inFragment p r ng h

example : parse "(?:a|b+)*c?$" = .ok (.seq (.star (.alt (.chr 'a') (.plus (.chr 'b')))) (.seq (.opt (.chr 'c')) .eol), 0) := by decide

/-- … hence for EVERY pattern the model accepts, what the driver computes for `re.findall` is the specification's
    `findall` of the parsed expression (no fragment hypothesis left) -/
theorem findallStr_eq_spec (pattern value : String) :
    findallStr pattern value =
      match parse pattern with
      | .error e => .error e
      | .ok (r, ng) => .ok ((specFindall r ng value.toList).map fun m => m.map String.ofList) := by
  unfold findallStr
  cases h : parse pattern with
  | error e => rfl
  | ok x => obtain ⟨r, ng⟩ := x; simp only [findall_eq_spec_partial r (parse_in_fragment pattern r ng h)]

/-! ## the parser -/

/-- a pattern without metacharacters is the literal expression of its text, with no group -/
theorem parse_literal (p : List Char) (hp : ∀ c ∈ p, isMeta c = false) : parse (String.ofList p) = .ok (lit p, 0) := by
  simp only [parse, String.toList_ofList]
  rw [parseLoop_lit 0 p hp _ {} (by omega) rfl rfl]
  simp [lit]

example : ∀ c ∈ "sm_80-x,y=z".toList, isMeta c = false := by decide

/-- the full statement: a printer that is a right inverse of the parser on everything the parser answers (NOT proved:
    it needs the canonical text of groups — numbered in the order of their opening parentheses —, of alternations and
    of character sets with ranges) -/
def ParseRoundtrip : Prop :=
  ∃ pp : Re → String, ∀ (p : String) (r : Re) (ng : Nat), parse p = .ok (r, ng) → parse (pp r) = .ok (r, ng)

/-- the proved part: a flat expression — a sequence of characters (metacharacters escaped), `.`, the class escapes
    `\d \w \s \D \W \S`, each optionally followed by `*` / `+` / `?`, and `$` — printed canonically (`ppFlat`) parses back to
    itself.  Covers e.g. `sm_\d+`, `spir64\w*`, `[`-free user patterns; `parse_literal` is the special case without
    quantifiers and escapes. -/
theorem parse_roundtrip_partial (items : List Re) (p : List Char) (h : ppFlat items = some p) :
    parse (String.ofList p) = .ok (seqOf items, 0) :=
  parse_flat items p h

example : ppFlat [.chr 's', .chr 'm', .chr '_', .plus (.cls false [.digit]), .opt (.chr '.'), .star .any, .eol] =
    some "sm_\\d+\\.?.*$".toList := by decide

/-- all `extend_match` patterns of all shipped compiler definitions: nvcc's, nothing else; all formats and
    separators of the shipped value rules (an edit of the `.toml` files breaks these kernel evaluations) -/
theorem builtin_patterns_all :
    ((loadCompilers builtinFiles .absent).1.flatMap fun kc => kc.2.parser.filterMap (·.pattern)) = [nvccPattern] ∧
    ((loadCompilers builtinFiles .absent).1.flatMap fun kc =>
      (kc.2.parser.filter fun r => r.action == "store_split" || r.action == "extend_match").map
        fun r => (kc.1, r.action, r.flags.headD "", r.sep, r.format)) =
      [("icx", "store_split", "-fsycl-targets", some ",", some "sycl-$value"),
       ("nvcc", "extend_match", "--gpu-architecture", none, some "sm_$value")] := by decide

/-! ## all-values corollaries for the shipped value rules -/

/-- `re.findall` of the nvcc rule on a comma-joined list of architecture names `sm_<d1>,compute_<d2>,…`: the digits, in order -/
theorem nvArchs_comma_list (es : List (Bool × List Char)) (hall : ∀ e ∈ es, e.2 ≠ [] ∧ e.2.all Char.isDigit = true) :
    nvArchs (joinWith ',' (es.map archName)) = es.map (·.2) :=
  nvArchs_join es hall

theorem nvcc_findall_comma_list (es : List (Bool × List Char)) (hall : ∀ e ∈ es, e.2 ≠ [] ∧ e.2.all Char.isDigit = true) :
    findallFor nvccPattern (String.ofList (joinWith ',' (es.map archName))) = some (es.map fun e => String.ofList e.2) := by
  rw [nvcc_findall_closed_form, String.toList_ofList, nvArchs_join es hall, List.map_map]
  rfl

example : String.ofList (joinWith ',' ([(false, "70".toList), (true, "80".toList), (false, "90".toList)].map archName)) = "sm_70,compute_80,sm_90" ∧
    (∀ e ∈ [(false, "70".toList), (true, "80".toList), (false, "90".toList)], e.2 ≠ [] ∧ e.2.all Char.isDigit = true) := by decide

/-- `value.split(c)` on the `c`-joined list of `c`-free fields gives the fields back (at least one field: `"".split(",")` is `[""]`) -/
theorem pySplit_joined (c : Char) (fields : List (List Char)) (hne : fields ≠ []) (hall : ∀ f ∈ fields, c ∉ f) :
    pySplit (String.ofList (joinWith c fields)) (some (String.singleton c)) = .ok (fields.map String.ofList) :=
  pySplit_join c fields hne hall

example : String.ofList (joinWith ',' ["spir64".toList, [], "spir64_gen".toList]) = "spir64,,spir64_gen" ∧ String.singleton ',' = "," ∧
    (∀ f ∈ ["spir64".toList, [], "spir64_gen".toList], ',' ∉ f) := by decide

/-- `string.Template(prefix + "$value").substitute(value=v)` is `prefix + v`, for every value and every `$`-free prefix -/
theorem substitute_prefix (p : List Char) (hp : '$' ∉ p) (v : String) :
    substitute (some (String.ofList (p ++ "$value".toList))) v = .ok (String.ofList (p ++ v.toList)) :=
  substitute_prefix_value p hp v

theorem substitute_sycl (v : String) : substitute (some "sycl-$value") v = .ok (String.ofList ("sycl-".toList ++ v.toList)) :=
  substitute_prefix_value "sycl-".toList (by decide) v

theorem substitute_sm (v : String) : substitute (some "sm_$value") v = .ok (String.ofList ("sm_".toList ++ v.toList)) :=
  substitute_prefix_value "sm_".toList (by decide) v

/-- the shipped `-fsycl-targets` rule on every comma-joined target list `t1,…,tn`: it stores the passes `sycl-t1 … sycl-tn`
    under the first spelling of the flag -/
theorem sycl_targets_selects (mt : Matches) (st : PState) (f : String) (flags : List String)
    (fields : List (List Char)) (hne : fields ≠ []) (hall : ∀ t ∈ fields, ',' ∉ t) :
    takeAction mt st f ⟨flags, .one, .storeSplit "passes" (some ",") (some "sycl-$value")⟩ (some (String.ofList (joinWith ',' fields))) =
      .ok { st with passesByFlag := dictSet st.passesByFlag (flags.headD f)
                      (fields.map fun t => String.ofList ("sycl-".toList ++ t)) } := by
  apply store_split_selects mt st f flags (some ",") (some "sycl-$value") _ (fields.map String.ofList)
  · exact pySplit_join ',' fields hne hall
  · rw [mapM'_ok (substitute (some "sycl-$value")) (fun v => String.ofList ("sycl-".toList ++ v.toList)) _
      (fun x _ => substitute_sycl x), List.map_map]
    congr 1
    apply List.map_congr_left
    intro t _
    simp

/-- the nvcc rule end to end on a comma-joined architecture list: the pass names `sm_<d1> … sm_<dn>` -/
theorem nvcc_passes_comma_list (es : List (Bool × List Char)) (hall : ∀ e ∈ es, e.2 ≠ [] ∧ e.2.all Char.isDigit = true) :
    (findallFor nvccPattern (String.ofList (joinWith ',' (es.map archName)))).map (mapM' (substitute (some "sm_$value"))) =
      some (.ok (es.map fun e => String.ofList ("sm_".toList ++ e.2))) := by
  rw [nvcc_findall_comma_list es hall]
  simp only [Option.map]
  rw [mapM'_ok (substitute (some "sm_$value")) (fun v => String.ofList ("sm_".toList ++ v.toList)) _
      (fun x _ => substitute_sm x), List.map_map]
  congr 2
  apply List.map_congr_left
  intro t _
  simp

end CbiVerif.C12
