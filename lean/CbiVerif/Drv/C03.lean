import Lean.Data.Json
import CbiVerif.Model.MacroExpand
import CbiVerif.Spec.Prosser
import CbiVerif.PP.Eval
import CbiVerif.PP.ExpandOld
/-! driver ops for C03: `c03` (model + spec + instrumentation for one (definitions, text)),
    `c03def` (one definition through the `#define` path and through the command-line path) -/
open Lean
namespace CbiVerif.Drv.C03
open CbiVerif.PP CbiVerif.MX

def kindName (k : TKind) : String := match k with
  | .num => "num" | .chr => "chr" | .str => "str" | .ident => "ident" | .op => "op" | .punct => "punct" | .unknown => "unknown"

def tokJ (t : Tok) : Json :=
  Json.mkObj [("k", kindName t.kind), ("t", t.text), ("w", t.pw), ("x", t.expandable)]

def errName (e : Err) : String := match e with
  | .runtime _ => "RuntimeError" | .parse _ => "ParseError" | .index => "IndexError" | .type_ => "AttributeError"
  | .overflow => "Overflow" | .other m => "Other:" ++ m

def xrJ (r : XR) : Json := match r with
  | .ok ts => Json.mkObj [("ok", Json.arr (ts.map tokJ).toArray)]
  | .error e => Json.mkObj [("exc", errName e)]
  | .fuel => Json.mkObj [("fuel", true)]

def macroJ (m : PP.Macro) : Json :=
  Json.mkObj [("name", m.name),
    ("args", match m.args with | none => Json.null | some a => Json.arr (a.map Json.str).toArray),
    ("variadic", m.variadic), ("has_strcat", m.hasStrcat),
    ("needs", Json.arr (m.needsExp.map Json.bool).toArray),
    ("repl", Json.arr (m.replacement.map tokJ).toArray)]

def specKind (k : CbiVerif.Spec.Prosser.K) : String := match k with
  | .id => "ident" | .num => "num" | .str => "str" | .chr => "chr" | .punct => "punct"

def specJ (r : Except CbiVerif.Spec.Prosser.Unspec (List CbiVerif.Spec.Prosser.T)) : Json := match r with
  | .ok ts => Json.mkObj [("ok", Json.arr (ts.map fun t => Json.mkObj [("k", specKind t.kind), ("t", t.text), ("w", t.ws)]).toArray)]
  | .error e => Json.mkObj [("unspec", toString (repr e))]

def oldJ (tbl : Table) (ts : List Tok) : Json :=
  match CbiVerif.PP.Old.runExpand tbl ts with
  | .ok r => Json.mkObj [("ok", Json.arr (r.map tokJ).toArray)]
  | .error e => Json.mkObj [("exc", errName e)]
  | .sig s => Json.mkObj [("sig", s)]

/-- nesting limit of the instrumentation run: far beyond the code's `max_level`, so that "the expansion needs at least
    `max_level` nested streams" (finding D12) is observed, but finite, so that a runaway recursion ends -/
def scanLim : Nat := 4 * CbiVerif.Gen.maxLevel + 8

/-- (iterations, peak stack depth) of a run with the nesting limit `scanLim` -/
def scan (tbl : Table) : Nat → MS → Nat → Nat → Nat × Nat
  | 0, _, n, pk => (n, pk)
  | f + 1, s, n, pk =>
    match step { lim := scanLim } tbl s with
    | .cont s' => scan tbl f s' (n + 1) (max pk s'.stack.length)
    | _ => (n + 1, pk)

def handleC03 (j : Json) : Json :=
  let defs := ((j.getObjValAs? (Array String) "defs").toOption.getD #[]).toList
  let cmd := ((j.getObjValAs? (Array String) "cmd").toOption.getD #[]).toList
  let text := (j.getObjValAs? String "text").toOption.getD ""
  let wantOld := (j.getObjValAs? Bool "old").toOption.getD false
  let spec := CbiVerif.Spec.Prosser.prosser (cmd.map CbiVerif.Spec.Prosser.cmdlineToDefine ++ defs) text
  let ts := tokenize text
  match buildTable cmd defs with
  | .error e => Json.mkObj [("model", Json.mkObj [("defexc", errName e)]), ("spec", specJ spec)]
  | .ok tbl =>
    let r := cbiExpand tbl ts
    let ev : Json := match r with
      | .ok out => (match evaluate out with
        | .ok b => Json.mkObj [("ok", b)]
        | .error e => Json.mkObj [("exc", errName e)])
      | .error e => Json.mkObj [("exc", errName e)]
      | .fuel => Json.mkObj [("fuel", true)]
    -- instrumentation: the same step function with a nesting limit far beyond `max_level`
    let (steps, peak) := if ts.isEmpty then (0, 0) else scan tbl 300000 (initState ts) 0 1
    Json.mkObj ([("model", xrJ r), ("eval", ev), ("spec", specJ spec),
      ("steps", steps), ("peak", peak), ("max_level", CbiVerif.Gen.maxLevel)]
      ++ (if wantOld then [("old", oldJ tbl ts)] else []))

/-- one definition: `{"define": "F(x) x"}` and/or `{"cmdline": "F(x)=x"}` -/
def handleDef (j : Json) : Json :=
  let one (r : Except Err PP.Macro) : Json := match r with
    | .ok m => Json.mkObj [("ok", macroJ m)]
    | .error e => Json.mkObj [("exc", errName e)]
  let d := (j.getObjValAs? String "define").toOption
  let c := (j.getObjValAs? String "cmdline").toOption
  Json.mkObj ((match d with
      | some s => [("define", one (defineLine ("#define " ++ s))),
                   ("spec_define", match CbiVerif.Spec.Prosser.parseDefine s with
                      | .ok _ => Json.str "ok" | .error e => Json.str (toString (repr e)))]
      | none => []) ++
    (match c with
      | some s => [("cmdline", one (defineCmdline s)), ("as_define", Json.str (CbiVerif.Spec.Prosser.cmdlineToDefine s))]
      | none => []))

def handlers : List (String × (Json → Json)) := [("c03", handleC03), ("c03def", handleDef)]

end CbiVerif.Drv.C03
