import CbiVerif.Props.C14
import CbiVerif.Props.C14Compose
import CbiVerif.Lemmas.C14Metrics
import CbiVerif.Lemmas.C14MetricsRat
import CbiVerif.Props.C06Compose
import CbiVerif.Props.C07
import CbiVerif.Drv.Order
/-!
# C14 about SOURCE TEXT — metrics and distance matrix of the composed pipeline

`Props/C14Compose.lean` proves order independence of the summary rows, the coverage export and the attribution of the composed
text-level pipeline `C06C.analyse`.  This file adds the METRIC lines under the table (divergence, coverage, average coverage,
Total SLOC) and the DISTANCE MATRIX of the clustering report, computed from `C06C.setmapOfTexts` (`C14C.metricsOfTexts`,
`C14C.distanceMatrixOfTexts`, `Model/C14Metrics.lean`) by the definitions `C14.metrics_perm_anyfloat` /
`C14.distance_matrix_perm_anyfloat` are about (`Order.metricLines`, `Order.distanceMatrix`).

The bridge from `SM.Setmap` to `Order.Setmap` is the identity (one type).  The keys of the dict of the texts are platform sets
in platform-TABLE order, not `canon` keys; this needs no conversion because `Model/Order.lean` reads a key only as a set
(`contains`, `any`, `canon` of the union): `Lemmas/C14Metrics.lean` proves that re-listing every key changes no metric
(`metricsOf_ren`, `distanceMatrix_ren`), which is exactly the effect of permuting the `[platform.*]` tables.

Floats are an arbitrary carrier with arbitrary, law-free `add` / `div` / `mul` (`Order.FloatOps`).  `none` = the analysis raises
(it raises under every rearrangement or under none).  Hypotheses: distinct file paths, distinct platform names.
-/
namespace CbiVerif.C14.Text
open CbiVerif.SM CbiVerif.C06C CbiVerif.C14C

variable {F : Type} (ops : CbiVerif.Order.FloatOps F)

/-- any reading of the dict that is invariant under permuting its items is invariant under permuting the files -/
theorem read_perm_files {β : Type} (g : Setmap → β) (hgp : ∀ sm sm' : Setmap, sm.Perm sm' → g sm = g sm')
    {files files' : List SrcFile} (hf : files.Perm files') (hnd : (files.map (·.path)).Nodup) (plats : List Plat) :
    readTexts g files plats = readTexts g files' plats := by
  apply readTexts_eq_of_good g (good_perm_files hf hnd plats)
  intro _ _
  have hfs : (closed files plats).Perm (closed files' plats) := by
    unfold closed; rw [← lkOf_perm hf hnd]; exact hf.map _
  exact hgp _ _ (getSetmap_perm hfs).1

/-- any reading of the dict that is invariant under re-listing its keys is invariant under permuting the platform tables -/
theorem read_perm_platforms {β : Type} (g : Setmap → β)
    (hgr : ∀ (σ : Key → Key) (sm : Setmap), (∀ e ∈ sm, (σ e.1).Perm e.1) → g (sm.map (ren σ)) = g sm)
    (files : List SrcFile) {plats plats' : List Plat} (hp : plats.Perm plats') (hpn : (plats.map (·.name)).Nodup) :
    readTexts g files plats = readTexts g files plats' := by
  apply readTexts_eq_of_good g (good_perm_plats files hp)
  intro hg _
  obtain ⟨h2, _, hsm, _⟩ := setmap_perm_platforms files hp hpn _ (analyse_closed files plats hg)
  have hcl : closed files plats' = (closed files plats).map (relistRec (plats'.map (·.name))) :=
    ((analyse_iff files plats' _).mp h2).2.symm
  rw [hcl, hsm, relistSetmap_eq]
  exact (hgr _ _ fun e he => relist_perm hpn (hp.map _) (setmap_keys_sublist files plats e he)).symm

/-- every reading of the dict is invariant under rearranging (permuting, repeating) database entries -/
theorem read_same_entries {β : Type} (g : Setmap → β) (files : List SrcFile) {plats plats' : List Plat}
    (h : SameEntries plats plats') : readTexts g files plats = readTexts g files plats' := by
  unfold readTexts setmapOfTexts
  cases ha : analyse files plats with
  | ok fs => rw [(setmap_perm_entries files h fs).mp ha]
  | error e =>
    cases hb : analyse files plats' with
    | ok fs => rw [(setmap_perm_entries files h fs).mpr hb] at ha; cases ha
    | error e' => rfl

/-! ## the metric lines -/

/-- the bridge: `C14.metrics_perm_anyfloat` read on dicts of the text-level pipeline (`SM.Setmap` = `Order.Setmap`), the
    platform set being the union of the keys in dict order on both sides -/
theorem metricsOf_perm {sm sm' : Setmap} (h : sm.Perm sm') : metricsOf ops sm = metricsOf ops sm' :=
  metrics_perm_anyfloat ops h (fun _ => (h.flatMap_right _).mem_iff)

/-- **metrics_of_texts_perm_files.**  For every carrier and every law-free `add` / `div` / `mul`, every code base (texts,
    distinct paths), every configuration and every enumeration order of the files: divergence, coverage, average coverage and
    Total SLOC computed from `get_setmap` of the texts are the same values (and the analysis raises under both orders or under
    neither). -/
theorem metrics_of_texts_perm_files {files files' : List SrcFile} (hf : files.Perm files')
    (hnd : (files.map (·.path)).Nodup) (plats : List Plat) :
    metricsOfTexts ops files plats = metricsOfTexts ops files' plats :=
  read_perm_files (metricsOf ops) (fun _ _ h => metricsOf_perm ops h) hf hnd plats

/-- **metrics_of_texts_perm_platforms.**  … and for every order of the `[platform.*]` tables (distinct names): the dict has
    re-listed keys, the metric lines are the same values. -/
theorem metrics_of_texts_perm_platforms (files : List SrcFile) {plats plats' : List Plat} (hp : plats.Perm plats')
    (hpn : (plats.map (·.name)).Nodup) : metricsOfTexts ops files plats = metricsOfTexts ops files plats' :=
  read_perm_platforms (metricsOf ops) (fun σ sm h => metricsOf_ren σ sm h ops) files hp hpn

/-- **metrics_of_texts_same_entries.**  … and for every rearrangement (permutation, repetition) of the entries of the
    compilation databases.  No hypothesis. -/
theorem metrics_of_texts_same_entries (files : List SrcFile) {plats plats' : List Plat} (h : SameEntries plats plats') :
    metricsOfTexts ops files plats = metricsOfTexts ops files plats' :=
  read_same_entries (metricsOf ops) files h

/-- **metrics_of_texts_deterministic.**  The metric lines are a function of the multiset of files, the set of platform tables
    and the sets of database entries. -/
theorem metrics_of_texts_deterministic {files files' : List SrcFile} {plats plats' : List Plat} (hf : files.Perm files')
    (hnd : (files.map (·.path)).Nodup) (hp : PlatsEquiv plats plats') (hpn : (plats.map (·.name)).Nodup) :
    metricsOfTexts ops files plats = metricsOfTexts ops files' plats' := by
  obtain ⟨mid, hpm, hse⟩ := hp
  rw [metrics_of_texts_perm_files ops hf hnd plats, metrics_of_texts_perm_platforms ops files' hpm hpn,
    metrics_of_texts_same_entries ops files' hse]

/-! ## the distance matrix -/

/-- **distance_matrix_of_texts_perm.**  For every carrier and every law-free arithmetic: the distance matrix of the code base
    given as texts — the sorted platform list that labels rows and columns, and every cell — is the same under every
    permutation of the files, every permutation of the `[platform.*]` tables and every rearrangement of database entries. -/
theorem distance_matrix_of_texts_perm {files files' : List SrcFile} {plats plats' : List Plat} (hf : files.Perm files')
    (hnd : (files.map (·.path)).Nodup) (hp : PlatsEquiv plats plats') (hpn : (plats.map (·.name)).Nodup) :
    distanceMatrixOfTexts ops files plats = distanceMatrixOfTexts ops files' plats' := by
  obtain ⟨mid, hpm, hse⟩ := hp
  unfold distanceMatrixOfTexts
  rw [read_perm_files _ (fun _ _ h => (distance_matrix_perm_anyfloat ops h).1) hf hnd plats,
    read_perm_platforms _ (fun σ sm h => distanceMatrix_ren σ sm h ops) files' hpm hpn,
    read_same_entries _ files' hse]

/-- every single distance (any two names, listed platforms or not) as well -/
theorem distance_of_texts_perm (p q : String) {files files' : List SrcFile} {plats plats' : List Plat} (hf : files.Perm files')
    (hnd : (files.map (·.path)).Nodup) (hp : PlatsEquiv plats plats') (hpn : (plats.map (·.name)).Nodup) :
    readTexts (fun sm => CbiVerif.Order.distance ops sm p q) files plats =
      readTexts (fun sm => CbiVerif.Order.distance ops sm p q) files' plats' := by
  obtain ⟨mid, hpm, hse⟩ := hp
  rw [read_perm_files _ (fun _ _ h => (distance_matrix_perm_anyfloat ops h).2 p q) hf hnd plats,
    read_perm_platforms _ (fun σ sm h => distance_ren σ sm h ops p q) files' hpm hpn,
    read_same_entries _ files' hse]

/-! ## non-vacuity (kernel-checked) on the example of `Props/C14Compose.lean` -/

open CbiVerif.Drv.Order in
/-- exact rationals (NaN = `none`): the metric lines and the matrix of the example are defined and not trivial, the dicts of the
    two presentations differ as lists (see `Props/C14Compose.lean`), the hypotheses of the theorems hold -/
example :
    ((metricsOfTexts ratOps exFiles exPlats).map fun m => (m.divergence, m.coverage, m.avgCoverage, m.totalSloc))
      = some (some (2/9 : Rat), some (900/11 : Rat), some (800/11 : Rat), 11) ∧
    distanceMatrixOfTexts ratOps exFiles exPlats
      = some (["cpu", "gpu"], [[some 0, some (2/9 : Rat)], [some (2/9 : Rat), some 0]]) ∧
    (exFiles.map (·.path)).Nodup ∧ (exPlats.map (·.name)).Nodup := by
  decide +kernel

open CbiVerif.Drv.Order in
/-- an instance of the theorems: files swapped, tables swapped, gpu's entries swapped and one repeated -/
example : metricsOfTexts ratOps exFiles exPlats = metricsOfTexts ratOps exFiles.reverse exPlats' ∧
    distanceMatrixOfTexts ratOps exFiles exPlats = distanceMatrixOfTexts ratOps exFiles.reverse exPlats' :=
  ⟨metrics_of_texts_deterministic ratOps (List.reverse_perm _).symm (by decide +kernel) exPlats_equiv (by decide +kernel),
   distance_matrix_of_texts_perm ratOps (List.reverse_perm _).symm (by decide +kernel) exPlats_equiv (by decide +kernel)⟩

/-! ## exact values: the metrics of the texts are the definitions applied to the reference attribution -/

open CbiVerif.Metrics in
/-- **metrics_of_texts_are_definitions.**  For every code base given as texts (distinct paths, every text inside C05's guard)
    and every configuration whose units the ISO C reference accepts, on which the analysis does not raise: let `L` be the
    attribution written from the two specifications alone (`C06C.specLineAttr` of every file: every line the C05 specification
    counts, once, with the platforms whose reference preprocessor run keeps its node) and `R = lineSetmap L` the same list read
    as a setmap with one row per counted LINE.  Then over exact rationals coverage (for every `platforms` argument), average
    coverage, every distance and the divergence computed from `get_setmap` of the texts EQUAL C07's definitions applied to `R`
    (NaN exactly together), and every count they are made of is a number of reference-attributed lines: the total is the number
    of counted lines, `usedBy` the number of lines whose platform set meets the selection, union / symmetric difference /
    intersection the numbers of lines used by `p` or `q` / exactly one / both.  So `C07.coverage_def`, `avg_def`,
    `distance_jaccard`, `divergence_def` and the range theorems speak about line sets of the reference attribution. -/
theorem metrics_of_texts_are_definitions (files : List SrcFile) (plats : List Plat) (fs : List FileRec)
    (h : analyse files plats = .ok fs) (hnd : (files.map (·.path)).Nodup) (hacc : CbiVerif.C06.RefAcceptsAll files plats)
    (hg : ∀ f ∈ files, C06C.guard f.text = true) :
    ∃ ps, List.Forall₂ (fun (f : SrcFile) (p : Parsed) => parseSrc f.text = .ok p) files ps ∧
      setmapOfTexts files plats = .ok (getSetmap fs) ∧
      (∀ sel, coverage (getSetmap fs) sel = coverage (lineSetmap (refLines plats files ps)) sel) ∧
      (∀ sel, averageCoverage (getSetmap fs) sel = averageCoverage (lineSetmap (refLines plats files ps)) sel) ∧
      (∀ p q, distance (getSetmap fs) p q = distance (lineSetmap (refLines plats files ps)) p q) ∧
      divergence (getSetmap fs) = divergence (lineSetmap (refLines plats files ps)) ∧
      Metrics.total (getSetmap fs) = (refLines plats files ps).length ∧
      (∀ sel, usedBy (getSetmap fs) sel = (refLines plats files ps).countP fun y => y.2.any fun p => sel.contains p) ∧
      (∀ p q, unionCount (getSetmap fs) p q = (refLines plats files ps).countP fun y => y.2.contains p || y.2.contains q) ∧
      (∀ p q, xorCount (getSetmap fs) p q = (refLines plats files ps).countP fun y => (y.2.contains p) != (y.2.contains q)) ∧
      (∀ p q, interCount (getSetmap fs) p q = (refLines plats files ps).countP fun y => y.2.contains p && y.2.contains q) := by
  obtain ⟨ps, hps, _⟩ := CbiVerif.C06.setmap_rows_are_reference_counts files plats fs h hnd hacc hg []
  have hrows : ∀ k, SM.get (getSetmap fs) k = (refLines plats files ps).countP fun y => y.2 = k := by
    intro k
    obtain ⟨ps', hps', hk⟩ := CbiVerif.C06.setmap_rows_are_reference_counts files plats fs h hnd hacc hg k
    rw [parses_unique hps' hps] at hk
    unfold refLines
    rw [countP_flatMap_sum, hk]
  have hws : ∀ w : Key → Bool, wsum (getSetmap fs) w = (refLines plats files ps).countP fun y => w y.2 :=
    fun w => wsum_eq_countP w _ _ (nodup_keys_getSetmap fs) hrows
  have hW : WEq (getSetmap fs) (lineSetmap (refLines plats files ps)) := fun w => by rw [hws, wsum_lineSetmap]
  obtain ⟨hwf, hrow, _⟩ := CbiVerif.C06.setmap_total_is_sloc_of_text files plats fs h
  have hff := CbiVerif.C06.file_lines_counted_once files plats fs h
  have hpos : ∀ e ∈ getSetmap fs, 0 < e.2 := by
    apply getSetmap_rows_pos fs hwf _ _ hrow
    · intro r hr
      obtain ⟨f, _, hf⟩ := forall₂_right hff r hr
      exact hf.2.1
    · intro r hr
      obtain ⟨f, hfm, hf⟩ := forall₂_right hff r hr
      exact (hf.2.2.2.2.2 (hg f hfm)).2.2
  obtain ⟨m1, m2, m3, m4⟩ := metrics_weq hW hpos (lineSetmap_pos _)
  refine ⟨ps, hps, ?_, m1, m2, m3, m4, ?_, fun sel => ?_, fun p q => ?_, fun p q => ?_, fun p q => ?_⟩
  · unfold setmapOfTexts; rw [h]
  · rw [total_eq_wsum, hws]; simp
  · rw [usedBy_eq_wsum, hws]
  · rw [unionCount_eq_wsum, hws]
  · rw [xorCount_eq_wsum, hws]
  · rw [interCount_eq_wsum, hws]

/-- non-vacuity: the hypotheses hold on the example of `Props/C06Compose.lean` (kernel-checked there: the analysis does not
    raise, texts inside the guard, names distinct, the reference accepts all units); here the reference attribution of the
    example and the values of the definitions on it -/
example :
    (CbiVerif.C06.exSrc.all fun f => C06C.guard f.text) = true ∧ (CbiVerif.C06.exSrc.map (·.path)).Nodup ∧
    CbiVerif.C06.refAcceptsAllb CbiVerif.C06.exSrc CbiVerif.C06.exPlats = true ∧
    ((analyse CbiVerif.C06.exSrc CbiVerif.C06.exPlats).toOption.map fun fs =>
        (CbiVerif.Metrics.coverage (getSetmap fs) [], CbiVerif.Metrics.averageCoverage (getSetmap fs) [],
         CbiVerif.Metrics.distance (getSetmap fs) "cpu" "gpu", CbiVerif.Metrics.divergence (getSetmap fs)))
      = some (some (250/3 : Rat), some (425/6 : Rat), some (3/10 : Rat), some (3/10 : Rat)) := by
  decide +kernel

end CbiVerif.C14.Text
