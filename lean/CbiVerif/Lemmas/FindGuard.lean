import CbiVerif.Model.FindFold
import CbiVerif.Lemmas.FindFold
/-!
Helper lemmas for C08: transparency of a threaded state *except on flagged steps*.

`Transparent Inv step A` (Lemmas/FindFold.lean) demands that EVERY step from a state satisfying the
invariant shows exactly what the stateless analysis `A` shows.  `TransparentUnless Inv flag step A`
demands it of the steps that are not flagged by the decidable test `flag s e`, and demands of all
steps that they keep the invariant.  A run none of whose steps is flagged (`cleanJobs`) then equals
`findG A` (`findS_refines_unless`).  With `flag := fun _ _ => false` this is `Transparent`.
-/
namespace CbiVerif.FindFold

variable {Entry Key Warn Err σ : Type}

def TransparentUnless (Inv : σ → Prop) (flag : σ → Entry → Bool)
    (step : σ → Entry → Except Err (Out Key Warn × σ)) (A : Entry → Except Err (Out Key Warn)) : Prop :=
  ∀ s e, Inv s →
    (∀ o s', step s e = .ok (o, s') → Inv s') ∧
    (flag s e = false →
      match step s e with
      | .ok (o, _) => A e = .ok o
      | .error er => A e = .error er)

/-- no step of the run of the commands `es` (in this order, from state `s`) is flagged; the run stops
at the first command that raises -/
def cleanJobs (flag : σ → Entry → Bool) (step : σ → Entry → Except Err (Out Key Warn × σ)) :
    List Entry → σ → Bool
  | [], _ => true
  | e :: es, s =>
    !flag s e &&
      match step s e with
      | .ok (_, s') => cleanJobs flag step es s'
      | .error _ => true

theorem transparent_iff_unless (Inv : σ → Prop) (step : σ → Entry → Except Err (Out Key Warn × σ))
    (A : Entry → Except Err (Out Key Warn)) :
    Transparent Inv step A ↔ TransparentUnless Inv (fun _ _ => false) step A := by
  constructor
  · intro h s e hs
    have h1 := h s e hs
    refine ⟨fun o s' hst => ?_, fun _ => ?_⟩
    · rw [hst] at h1; exact h1.2
    · cases hst : step s e with
      | error er => rw [hst] at h1; exact h1
      | ok os => obtain ⟨o, s'⟩ := os; rw [hst] at h1; exact h1.1
  · intro h s e hs
    obtain ⟨h1, h2⟩ := h s e hs
    have h2 := h2 rfl
    cases hst : step s e with
    | error er => rw [hst] at h2; exact h2
    | ok os => obtain ⟨o, s'⟩ := os; rw [hst] at h2; exact ⟨h2, h1 o s' hst⟩

theorem cleanJobs_false_flag (step : σ → Entry → Except Err (Out Key Warn × σ)) (es : List Entry) (s : σ) :
    cleanJobs (fun _ _ => false) step es s = true := by
  induction es generalizing s with
  | nil => rfl
  | cons e es ih =>
    simp only [cleanJobs, Bool.not_false, Bool.true_and]
    cases step s e with
    | error er => rfl
    | ok os => exact ih os.2

theorem foldlM_stepEntryS_unless (Inv : σ → Prop) (flag : σ → Entry → Bool)
    (step : σ → Entry → Except Err (Out Key Warn × σ)) (A : Entry → Except Err (Out Key Warn))
    (ht : TransparentUnless Inv flag step A) (p : String) (es rest : List Entry) (acc : Acc Key Warn)
    (s : σ) (hs : Inv s) (hc : cleanJobs flag step (es ++ rest) s = true) :
    match es.foldlM (stepEntryS step p) (acc, s) with
    | .ok (a, s') => es.foldlM (stepEntry A p) acc = .ok a ∧ Inv s' ∧ cleanJobs flag step rest s' = true
    | .error er => es.foldlM (stepEntry A p) acc = .error er := by
  induction es generalizing acc s with
  | nil => exact ⟨rfl, hs, hc⟩
  | cons e es ih =>
    simp only [List.foldlM_cons]
    obtain ⟨hI, hT⟩ := ht s e hs
    simp only [List.cons_append, cleanJobs, Bool.and_eq_true, Bool.not_eq_true'] at hc
    have h1 := hT hc.1
    simp only [stepEntryS, stepEntry]
    cases hstep : step s e with
    | error er =>
      rw [hstep] at h1
      simp only at h1
      rw [h1]
      rfl
    | ok os =>
      obtain ⟨o, s'⟩ := os
      rw [hstep] at h1
      simp only at h1
      rw [h1]
      have hc2 := hc.2
      rw [hstep] at hc2
      exact ih (associate p acc o) s' (hI o s' hstep) hc2

theorem jobs_cons_snd (pe : String × List Entry) (c : Config Entry) :
    (jobs (pe :: c)).map (·.2) = pe.2 ++ (jobs c).map (·.2) := by
  simp [jobs, List.map_append, Function.comp_def]

/-- a run none of whose steps is flagged computes what the stateless fold computes -/
theorem findS_refines_unless (Inv : σ → Prop) (flag : σ → Entry → Bool)
    (step : σ → Entry → Except Err (Out Key Warn × σ)) (A : Entry → Except Err (Out Key Warn))
    (ht : TransparentUnless Inv flag step A) (c : Config Entry) (acc : Acc Key Warn) (s : σ) (hs : Inv s)
    (hc : cleanJobs flag step ((jobs c).map (·.2)) s = true) :
    match c.foldlM (fun acc pe => pe.2.foldlM (stepEntryS step pe.1) acc) (acc, s) with
    | .ok (a, s') => c.foldlM (stepPlatform A) acc = .ok a ∧ Inv s'
    | .error er => c.foldlM (stepPlatform A) acc = .error er := by
  induction c generalizing acc s with
  | nil => exact ⟨rfl, hs⟩
  | cons pe c ih =>
    simp only [List.foldlM_cons]
    rw [jobs_cons_snd] at hc
    have h1 := foldlM_stepEntryS_unless Inv flag step A ht pe.1 pe.2 _ acc s hs hc
    unfold stepPlatform
    cases hin : List.foldlM (stepEntryS step pe.1) (acc, s) pe.2 with
    | error er =>
      rw [hin] at h1
      simp only at h1
      rw [h1]
      rfl
    | ok as =>
      obtain ⟨a, s'⟩ := as
      rw [hin] at h1
      simp only at h1
      rw [h1.1]
      exact ih a s' h1.2.1 h1.2.2

end CbiVerif.FindFold
