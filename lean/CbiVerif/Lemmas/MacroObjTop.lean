import CbiVerif.Lemmas.MacroObj
/-! # C03, object-like fragment, top level: the nesting budget `|tbl| + 1` always fits, the fuel of `cbiExpand`
    suffices, hence `cbiExpand tbl ts = .ok (E …)` -/
namespace CbiVerif.MX
open CbiVerif.PP

/-- number of keys in `ks` that are not disabled in `D` -/
def free (D : NoExp) : List String → Nat
  | [] => 0
  | k :: ks => (if D.contains (some k) then 0 else 1) + free D ks

def keys (tbl : Table) : List String := tbl.map (·.1)

theorem free_le_length (D : NoExp) (ks : List String) : free D ks ≤ ks.length := by
  induction ks with
  | nil => simp [free]
  | cons k ks ih => simp only [free, List.length_cons]; split <;> omega

theorem free_head_le (x : Option String) (k : String) (D : NoExp) :
    (if (x :: D).contains (some k) then 0 else 1) ≤ (if D.contains (some k) then 0 else 1) := by
  rw [List.contains_cons]
  cases D.contains (some k) <;> cases (some k == x) <;> decide

theorem free_cons_le (x : Option String) (D : NoExp) (ks : List String) : free (x :: D) ks ≤ free D ks := by
  induction ks with
  | nil => simp [free]
  | cons k ks ih =>
    have := free_head_le x k D
    simp only [free]
    omega

theorem free_cons_lt (x : String) (D : NoExp) (ks : List String) (hx : x ∈ ks) (hD : D.contains (some x) = false) :
    free (some x :: D) ks < free D ks := by
  induction ks with
  | nil => simp at hx
  | cons k ks ih =>
    have hh := free_head_le (some x) k D
    simp only [free]
    by_cases hk : k = x
    · subst hk
      have hle := free_cons_le (some k) D ks
      have h1 : (some k :: D).contains (some k) = true := by rw [List.contains_cons]; simp
      rw [h1, hD]
      simp only [if_true, Bool.false_eq_true, if_false]
      omega
    · have hx' : x ∈ ks := by
        rcases List.mem_cons.mp hx with h | h
        · exact absurd h.symm hk
        · exact h
      have := ih hx'
      omega

theorem get_mem_keys (tbl : Table) (n : String) (m : Macro) (h : tbl.get n = some m) : n ∈ keys tbl := by
  unfold Table.get at h
  cases hf : tbl.find? (·.1 == n) with
  | none => simp [hf] at h
  | some e =>
    have hmem := List.mem_of_find?_eq_some hf
    have hp := List.find?_some hf
    have : e.1 = n := by simpa using hp
    unfold keys
    exact this ▸ List.mem_map_of_mem hmem

/-- a nesting budget larger than the number of still-enabled macro names is never exhausted -/
theorem fits_of_free (tbl : Table) (hT : TblOK tbl) : ∀ (d : Nat) (D : NoExp) (ts : List Tok),
    free D (keys tbl) < d → Fits tbl d D ts := by
  intro d
  induction d with
  | zero => intro D ts h; omega
  | succ d ihd =>
    intro D ts
    induction ts with
    | nil => intro _; simp [Fits]
    | cons a as iha =>
      intro h
      simp only [Fits]
      refine ⟨iha h, ?_⟩
      intro _ hq m hm
      have hname := hT.named _ _ hm
      have hmem := get_mem_keys tbl _ _ hm
      have hD : D.contains (some a.text) = false := by
        simp only [Bool.or_eq_false_iff] at hq; exact hq.2
      have hlt := free_cons_lt a.text D (keys tbl) hmem hD
      rw [hname]
      exact ihd (some a.text :: D) _ (by omega)

theorem fits_top (tbl : Table) (hT : TblOK tbl) (D : NoExp) (ts : List Tok) : Fits tbl (tbl.length + 1) D ts := by
  apply fits_of_free tbl hT
  have := free_le_length D (keys tbl)
  have hk : (keys tbl).length = tbl.length := by simp [keys]
  omega

/-! bodies are bounded by `bodyMax` -/
theorem foldl_max_ge (l : Table) (a : Nat) : a ≤ l.foldl (fun n e => max n e.2.replacement.length) a := by
  induction l generalizing a with
  | nil => simp
  | cons x xs ih => simp only [List.foldl_cons]; exact Nat.le_trans (Nat.le_max_left _ _) (ih _)

theorem foldl_max_mem (l : Table) (a : Nat) (e : String × Macro) (he : e ∈ l) :
    e.2.replacement.length ≤ l.foldl (fun n e => max n e.2.replacement.length) a := by
  induction l generalizing a with
  | nil => simp at he
  | cons x xs ih =>
    simp only [List.foldl_cons]
    rcases List.mem_cons.mp he with h | h
    · subst h; exact Nat.le_trans (Nat.le_max_right _ _) (foldl_max_ge xs _)
    · exact ih _ h

theorem bodiesLe_bodyMax (tbl : Table) : BodiesLe tbl (bodyMax tbl) := by
  intro n m h
  unfold Table.get at h
  cases hf : tbl.find? (·.1 == n) with
  | none => simp [hf] at h
  | some e =>
    have hmem := List.mem_of_find?_eq_some hf
    simp [hf] at h
    subst h
    exact foldl_max_mem tbl 0 e hmem

/-! from `runK` to `run` -/
theorem run_of_runK (c : Cfg) (tbl : Table) : ∀ (k n : Nat) (s s' : MS), runK c tbl k s = some s' →
    run c tbl (k + n) s = run c tbl n s' := by
  intro k
  induction k with
  | zero => intro n s s' h; simp [runK] at h; subst h; simp
  | succ k ih =>
    intro n s s' h
    simp only [runK] at h
    have e : k + 1 + n = (k + n) + 1 := by omega
    rw [e]
    simp only [run]
    cases hs : step c tbl s with
    | cont s1 => simp only [hs] at h; exact ih n s1 s' h
    | done r => simp [hs] at h
    | err x => simp [hs] at h

theorem run_mono_fuel (c : Cfg) (tbl : Table) : ∀ (f : Nat) (s : MS) (r : List Tok), run c tbl f s = .ok r → ∀ g, f ≤ g → run c tbl g s = .ok r := by
  intro f
  induction f with
  | zero => intro s r h; simp [run] at h
  | succ f ih =>
    intro s r h g hg
    obtain ⟨g', rfl⟩ : ∃ g', g = g' + 1 := ⟨g - 1, by omega⟩
    simp only [run] at h ⊢
    cases hs : step c tbl s with
    | cont s1 => simp only [hs] at h ⊢; exact ih s1 r h g' (by omega)
    | done x => simp only [hs] at h ⊢; exact h
    | err x => simp [hs] at h

/-- the last two iterations: the exhausted bottom stream raises EndofParse, `expand` returns its tokens -/
theorem run_final (c : Cfg) (tbl : Table) (R : List Tok) (n : Nat) :
    run c tbl (n + 2) ⟨[⟨R.map some, R.length, false⟩], [none], [], none⟩ = .ok R := by
  have h1 : step c tbl ⟨[⟨R.map some, R.length, false⟩], [none], [], none⟩
      = .cont ⟨[], [], [], some R⟩ := by
    have : R.length ≥ (R.map some).length := by simp
    simp only [step, this, if_true, eopState, filterSome_map, List.tail_cons]
  have h2 : step c tbl ⟨[], [], [], some R⟩ = .done R := by simp [step]
  have e : n + 2 = (n + 1) + 1 := by omega
  rw [e]
  simp only [run, h1, h2]

/-- only the macro names among the disabled entries matter: the `none` placeholders of the outermost stream and of argument
    streams disable nothing -/
theorem E_congr (tbl : Table) : ∀ (d : Nat) (D D' : NoExp) (ts : List Tok),
    (∀ x, D.contains (some x) = D'.contains (some x)) → E tbl d D ts = E tbl d D' ts := by
  intro d
  induction d with
  | zero =>
    intro D D' ts _
    induction ts with
    | nil => simp [E]
    | cons a as ih => simp only [E, ih]
  | succ d ihd =>
    intro D D' ts h
    induction ts with
    | nil => simp [E]
    | cons a as iha =>
      have hcons : ∀ (n : String) (x : String), (some n :: D).contains (some x) = (some n :: D').contains (some x) := by
        intro n x; simp only [List.contains_cons, h x]
      rw [E, E, h a.text, iha]
      cases hm : tbl.get a.text with
      | none => rfl
      | some m => simp only [ihd (some m.name :: D) (some m.name :: D') _ (hcons m.name)]

/-- at top level nothing is disabled -/
theorem E_top (tbl : Table) (d : Nat) (ts : List Tok) : E tbl d [none] ts = E tbl d [] ts :=
  E_congr tbl d [none] [] ts (by intro x; simp)

/-- **object-like tables**: `expandWith` returns the recursive expansion (nothing disabled at the start) whenever limit and fuel
    are large enough -/
theorem expandWith_obj (c : Cfg) (tbl : Table) (hT : TblOK tbl) (ts : List Tok) (hnd : NoDef ts)
    (hlim : tbl.length + 2 < c.lim) (fuel : Nat) (hfuel : ts.length * Cb (bodyMax tbl) (tbl.length + 1) + 2 ≤ fuel) :
    expandWith c tbl fuel ts = .ok (E tbl (tbl.length + 1) [] ts) := by
  rw [← E_top]
  unfold expandWith
  have h0 : ¬ (c.lim = 0) := by omega
  simp only [h0, if_false]
  cases ts with
  | nil => simp [E]
  | cons a as =>
    simp only [List.isEmpty_cons, Bool.false_eq_true, if_false]
    obtain ⟨k, hkb, hk⟩ := expand_top c tbl hT (bodyMax tbl) (bodiesLe_bodyMax tbl) (tbl.length + 1) (a :: as) hnd
      (fits_top tbl hT _ _) (by omega)
    have hrun := run_of_runK c tbl k 2 _ _ hk
    rw [run_final c tbl _ 0] at hrun
    exact run_mono_fuel c tbl (k + 2) _ _ hrun fuel (by omega)

end CbiVerif.MX
