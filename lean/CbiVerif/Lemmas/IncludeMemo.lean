import CbiVerif.Model.IncludeMemo
/-! Helper lemmas for C04: the memo of `find_include_file`, the two append lists. -/
namespace CbiVerif.IncMemo
open CbiVerif.IncludeSearch

variable {K : Type} [BEq K] [LawfulBEq K]

/-- the memo only holds answers of the memo-free resolver -/
def Sound (key : Query → K) (res : Query → Option String) (m : Memo K) : Prop :=
  ∀ q r, m.lookup (key q) = some r → r = res q

omit [LawfulBEq K] in
theorem sound_nil (key : Query → K) (res : Query → Option String) : Sound key res [] := by
  intro q r h; simp [Memo.lookup] at h

omit [LawfulBEq K] in
theorem lookup_append_single (m : Memo K) (k k' : K) (r : Option String) :
    Memo.lookup (m ++ [(k, r)]) k' =
      match m.lookup k' with
      | some x => some x
      | none => if k == k' then some r else none := by
  unfold Memo.lookup
  rw [List.find?_append]
  cases h : m.find? (fun e => e.1 == k') with
  | some e => simp
  | none => by_cases hk : k == k' <;> simp [hk]

/-- one step: the memoised answer is the memo-free one, and soundness is kept;
needs: the key determines the memo-free answer -/
theorem findBy_spec (key : Query → K) (res : Query → Option String)
    (hkey : ∀ q q', key q = key q' → res q = res q') (m : Memo K) (q : Query) (h : Sound key res m) :
    (findBy key res m q).1 = res q ∧ Sound key res (findBy key res m q).2 := by
  unfold findBy
  cases hl : m.lookup (key q) with
  | some r => exact ⟨h q r hl, h⟩
  | none =>
    refine ⟨rfl, ?_⟩
    intro q' r' hq
    rw [lookup_append_single] at hq
    cases hm : m.lookup (key q') with
    | some x =>
      rw [hm] at hq
      simp at hq
      subst hq
      exact h q' x hm
    | none =>
      rw [hm] at hq
      by_cases hk : key q == key q'
      · simp [hk] at hq
        subst hq
        exact hkey q q' (by simpa using hk)
      · simp [hk] at hq

theorem runBy_spec (key : Query → K) (res : Query → Option String)
    (hkey : ∀ q q', key q = key q' → res q = res q') (m : Memo K) (h : Sound key res m) (qs : List Query) :
    runBy key res m qs = qs.map res := by
  induction qs generalizing m with
  | nil => rfl
  | cons q qs ih =>
    obtain ⟨h1, h2⟩ := findBy_spec key res hkey m q h
    simp only [runBy, List.map_cons]
    rw [h1, ih _ h2]

/-- the key of the code determines the answer of the memo-free loop -/
theorem key_determines (E : Env) (paths : List String) (q q' : Query) (h : q.key = q'.key) :
    resolveM E paths q = resolveM E paths q' := by
  obtain ⟨n, d, s⟩ := q
  obtain ⟨n', d', s'⟩ := q'
  simp only [Query.key, Prod.mk.injEq] at h
  obtain ⟨hn, hd⟩ := h
  subst hn
  cases s <;> cases s' <;> simp_all [resolveM]

theorem resolveM_eq_spec (E : Env) (ipaths isystem : List String) (q : Query) :
    resolveM E (ipaths ++ isystem) q = resolve E (!q.sys) q.dir ipaths isystem q.name := by
  cases hs : q.sys <;> simp [resolveM, resolve, searchList, hs]

/-! the two append lists -/
theorem foldl_step (l : Lists) (argv : List Flag) :
    argv.foldl Lists.step l =
      { includePaths := l.includePaths ++ argv.filterMap Flag.getI
        systemIncludePaths := l.systemIncludePaths ++ argv.filterMap Flag.getSys } := by
  induction argv generalizing l with
  | nil => simp
  | cons a as ih =>
    rw [List.foldl_cons, ih]
    cases a <;> simp [Lists.step, Flag.getI, Flag.getSys, List.filterMap_cons]

end CbiVerif.IncMemo
