import CbiVerif.Model.Eval
import CbiVerif.PP.Macro
/-! Adapter: the proved evaluator (`Eval.cbiEval`) behind the interface of `PP.evaluate`
    (`PP/Eval.lean`, the design-phase port used by the end-to-end models `PP/Analyse.lean` and
    `PP/Find.lean`).  Replacing `evaluate` there by `Eval.evaluatePP` makes the end-to-end models use
    the one definition the C02 theorems are about; until then the C02 check cross-checks the two
    (`harness/props/c02.py`, note "PP.evaluate differs"). -/
namespace CbiVerif.Eval
open CbiVerif.PP CbiVerif.Climb

def evaluatePP (ts : List Tok) : Except Err Bool :=
  match cbiEval (ts.map eraseFlags) with
  | .ok b => .ok b
  | .error .parse => .error (.parse "Could not evaluate expression.")
  | .error (.other 1) => .error .overflow
  | .error (.other 2) => .error .type_
  | .error (.other 3) => .error (.parse "Could not evaluate expression.")   -- ValueError → ParseError in evaluate()
  | .error (.other _) => .error (.other "ModelOutOfFuel")

end CbiVerif.Eval
