import CbiVerif.Lemmas.CLexOut
/-! # C05: the specification's counted lines / logical lines against the per-line reference data -/
namespace CbiVerif.CLexSim
open CbiVerif.CClean CbiVerif.CLexRef CbiVerif.CText

def flagsToLines (n : Nat) : List Bool → List Nat
  | [] => []
  | b :: bs => (if b then [n + 1] else []) ++ flagsToLines (n + 1) bs

theorem expect_lines (lds : List LD) : ∀ (v : Option Cls) (start : Nat) (lines : List Nat) (n : Nat),
    (expect v start lines n lds).flatMap (fun x => x.2.2.1) = lines ++ flagsToLines n (lds.map fun d => anyVisible d.es) := by
  induction lds with
  | nil => intro v start lines n; simp [expect, flagsToLines]
  | cons d ds ih =>
    intro v start lines n
    simp only [expect, List.map_cons, flagsToLines]
    cases d.ends
    · simp only [Bool.false_eq_true, if_false, ih]
      cases anyVisible d.es <;> simp
    · simp only [if_true, List.flatMap_cons, ih]
      cases anyVisible d.es <;> simp

/-- in the expected result a BLANK logical line has no counted line -/
theorem expect_blank (lds : List LD) : ∀ (v : Option Cls) (start : Nat) (lines : List Nat) (n : Nat),
    (v = none → lines = []) → ∀ x ∈ expect v start lines n lds, x.2.2.2 = Cat.blank → x.2.2.1 = [] := by
  induction lds with
  | nil =>
    intro v start lines n hv x hx hc
    simp only [expect, List.mem_singleton] at hx
    subst hx
    simp only at hc ⊢
    cases v with
    | none => exact hv rfl
    | some k => simp only [catV] at hc; split at hc <;> simp at hc
  | cons d ds ih =>
    intro v start lines n hv x hx hc
    have hstep : lead v d.es = none → (if anyVisible d.es then lines ++ [n + 1] else lines) = [] := by
      intro hl
      cases v with
      | some k => simp [lead_some] at hl
      | none =>
        have hs := lead_isSome d.es
        rw [hl] at hs
        simp only [Option.isSome_none] at hs
        simp [← hs, hv rfl]
    simp only [expect] at hx
    split at hx
    · simp only [List.mem_cons] at hx
      rcases hx with rfl | hx
      · simp only at hc ⊢
        cases hl : lead v d.es with
        | none => exact hstep hl
        | some k => rw [hl] at hc; simp only [catV] at hc; split at hc <;> simp at hc
      · exact ih none _ [] _ (fun _ => rfl) x hx hc
    · exact ih _ _ _ _ hstep x hx hc

/-- facts about the scan of one physical line that do not mention the cleaner -/
theorem line_out (s : DState) (n : Nat) (r : RawLine) (sc : Scan)
    (h : decomment s (lineItems n r) = some sc) (hk : sc.k1 = false) (hp : plainLine r = true) :
    (∀ x ∈ sc.out, x.lineNo = n) ∧ (∀ x ∈ sc.out, x.plain = true) ∧
    ∃ ends body, sc.out = body ++ (if ends then [Surv.nl n] else []) ∧ (∀ x ∈ body, x.isNl = false) ∧
      ldOf sc = ⟨renderAll body, ends⟩ := by
  obtain ⟨ends, body, f⟩ := line_ref s n r sc h hp
  refine ⟨?_, decomment_plain _ s sc h (lineItems_plain n r hp), ends, body, f.out, f.noNl, ldOf_facts f⟩
  intro x hx
  rw [f.out, List.mem_append] at hx
  rcases hx with hx | hx
  · exact (onLine_iff x n).mp (f.tags hk x hx)
  · cases ends <;> simp at hx
    subst hx; rfl

theorem tags_ge (rs : List RawLine) : ∀ (s : DState) (n : Nat) (scs : List Scan), scanPer s (n + 1) rs = some scs →
    (∀ sc ∈ scs, sc.k1 = false) → (∀ r ∈ rs, plainLine r = true) →
    ∀ x ∈ scs.flatMap (·.out), n + 1 ≤ x.lineNo := by
  induction rs with
  | nil =>
    intro s n scs h _ _
    simp only [scanPer, Option.some.injEq] at h
    subst h; simp
  | cons r rs ih =>
    intro s n scs h hk hp
    simp only [scanPer] at h
    cases hd : decomment s (lineItems (n + 1) r) with
    | none => simp [hd] at h
    | some sc =>
      simp only [hd] at h
      cases hr : scanPer sc.st (n + 1 + 1) rs with
      | none => simp [hr] at h
      | some rest =>
        simp only [hr, Option.some.injEq] at h
        subst h
        intro x hx
        simp only [List.flatMap_cons, List.mem_append] at hx
        rcases hx with hx | hx
        · have := (line_out s (n + 1) r sc hd (hk sc (by simp)) (hp r (by simp))).1 x hx
          omega
        · have := ih sc.st (n + 1) rest hr (fun y hy => hk y (by simp [hy])) (fun y hy => hp y (by simp [hy])) x hx
          omega

theorem scanPer_length (rs : List RawLine) : ∀ (s : DState) (n : Nat) (scs : List Scan), scanPer s n rs = some scs →
    scs.length = rs.length := by
  induction rs with
  | nil => intro s n scs h; simp only [scanPer, Option.some.injEq] at h; subst h; rfl
  | cons r rs ih =>
    intro s n scs h
    simp only [scanPer] at h
    cases hd : decomment s (lineItems n r) with
    | none => simp [hd] at h
    | some sc =>
      simp only [hd] at h
      cases hr : scanPer sc.st (n + 1) rs with
      | none => simp [hr] at h
      | some rest =>
        simp only [hr, Option.some.injEq] at h
        subst h
        simp [ih sc.st (n + 1) rest hr]

/-- the specification's counted lines, line by line -/
theorem spec_lines (cnt : Nat) (rs : List RawLine) : ∀ (s : DState) (n : Nat) (scs : List Scan) (pre : List Surv),
    scanPer s (n + 1) rs = some scs → (∀ sc ∈ scs, sc.k1 = false) → (∀ r ∈ rs, plainLine r = true) →
    (∀ x ∈ pre, x.lineNo < n + 1) → n + rs.length ≤ cnt →
    linesOf cnt (pre ++ scs.flatMap (·.out)) =
      linesOf cnt pre ++ flagsToLines n (scs.map fun sc => anyVisible (ldOf sc).es) := by
  induction rs with
  | nil =>
    intro s n scs pre h _ _ _ _
    simp only [scanPer, Option.some.injEq] at h
    subst h; simp [flagsToLines]
  | cons r rs ih =>
    intro s n scs pre h hk hp hpre hcnt
    simp only [scanPer] at h
    cases hd : decomment s (lineItems (n + 1) r) with
    | none => simp [hd] at h
    | some sc =>
      simp only [hd] at h
      cases hr : scanPer sc.st (n + 1 + 1) rs with
      | none => simp [hr] at h
      | some rest =>
        simp only [hr, Option.some.injEq] at h
        subst h
        obtain ⟨t1, t2, _⟩ := line_out s (n + 1) r sc hd (hk sc (by simp)) (hp r (by simp))
        simp only [List.length_cons] at hcnt
        have hpre' : ∀ x ∈ pre ++ sc.out, x.lineNo < n + 1 + 1 := by
          intro x hx
          rw [List.mem_append] at hx
          rcases hx with hx | hx
          · have := hpre x hx; omega
          · have := t1 x hx; omega
        have := ih sc.st (n + 1) rest (pre ++ sc.out) hr (fun y hy => hk y (by simp [hy]))
          (fun y hy => hp y (by simp [hy])) hpre' (by omega)
        simp only [List.flatMap_cons, List.map_cons, flagsToLines]
        rw [← List.append_assoc, this, linesOf_append cnt (n + 1) pre sc.out hpre t1 (by omega) (by omega)]
        simp only [ldOf, anyVisible_renderAll sc.out t2, List.append_assoc]

/-- F-C05-2 excluded for the text ⇒ excluded for every line -/
theorem k2_lines (cnt : Nat) (rs : List RawLine) : ∀ (s : DState) (n : Nat) (scs : List Scan) (pre : List Surv),
    scanPer s (n + 1) rs = some scs → (∀ sc ∈ scs, sc.k1 = false) → (∀ r ∈ rs, plainLine r = true) →
    (∀ x ∈ pre, x.lineNo < n + 1) → n + rs.length ≤ cnt →
    k2Of cnt (pre ++ scs.flatMap (·.out)) = false → ∀ sc ∈ scs, K2free sc := by
  induction rs with
  | nil =>
    intro s n scs pre h _ _ _ _ _
    simp only [scanPer, Option.some.injEq] at h
    subst h; simp
  | cons r rs ih =>
    intro s n scs pre h hk hp hpre hcnt hk2
    simp only [scanPer] at h
    cases hd : decomment s (lineItems (n + 1) r) with
    | none => simp [hd] at h
    | some sc =>
      simp only [hd] at h
      cases hr : scanPer sc.st (n + 1 + 1) rs with
      | none => simp [hr] at h
      | some rest =>
        simp only [hr, Option.some.injEq] at h
        subst h
        obtain ⟨t1, t2, _⟩ := line_out s (n + 1) r sc hd (hk sc (by simp)) (hp r (by simp))
        simp only [List.length_cons] at hcnt
        have hpre' : ∀ x ∈ pre ++ sc.out, x.lineNo < n + 1 + 1 := by
          intro x hx
          rw [List.mem_append] at hx
          rcases hx with hx | hx
          · have := hpre x hx; omega
          · have := t1 x hx; omega
        have hge := tags_ge rs sc.st (n + 1) rest hr (fun y hy => hk y (by simp [hy])) (fun y hy => hp y (by simp [hy]))
        intro x hx
        simp only [List.mem_cons] at hx
        rcases hx with rfl | hx
        · -- the line itself
          unfold K2free
          rw [anyLitWs_renderAll _ t2, anyVisible_renderAll _ t2]
          intro hlit
          unfold k2Of at hk2
          rw [List.any_eq_false] at hk2
          have hmem : n + 1 ∈ List.range' 1 cnt := by rw [List.mem_range'_1]; omega
          have h2 := hk2 (n + 1) hmem
          simp only [List.flatMap_cons, List.any_append, Bool.and_eq_true, Bool.not_eq_true', not_and,
            Bool.not_eq_false, Bool.or_eq_true] at h2
          have h3 := h2 (Or.inr (Or.inl (by rw [any_litWhiteOn_same _ _ t1]; exact hlit)))
          rcases h3 with h3 | h3 | h3
          · rw [any_nonWhiteOn_lt pre (n + 1) (n + 1) hpre (Nat.le_refl _)] at h3; exact absurd h3 (by simp)
          · rwa [any_nonWhiteOn_same _ _ t1] at h3
          · exfalso
            rw [List.any_eq_true] at h3
            obtain ⟨y, hy, hy2⟩ := h3
            have := hge y hy
            rw [nonWhiteOn_eq] at hy2
            simp only [Bool.and_eq_true, beq_iff_eq] at hy2
            omega
        · exact ih sc.st (n + 1) rest (pre ++ sc.out) hr (fun y hy => hk y (by simp [hy]))
            (fun y hy => hp y (by simp [hy])) hpre' (by omega)
            (by simpa [List.flatMap_cons, List.append_assoc] using hk2) x hx


/-! ## physical lines: only the last one can lack its newline -/

def nlOK : List RawLine → Bool
  | [] => true
  | [_] => true
  | r :: rs => r.nl && nlOK rs

theorem nlOK_cons_true (b : List Char) (rs : List RawLine) (h : nlOK rs = true) : nlOK (⟨b, true⟩ :: rs) = true := by
  cases rs with
  | nil => rfl
  | cons r rs' => simpa [nlOK] using h

theorem rawLinesAux_nlOK (t : List Char) : ∀ cur, nlOK (rawLinesAux t cur) = true := by
  induction t with
  | nil => intro cur; simp only [rawLinesAux]; split <;> rfl
  | cons c cs ih =>
    intro cur
    simp only [rawLinesAux]
    split
    · exact nlOK_cons_true _ _ (ih [])
    · exact ih _

theorem badFinal_false (ls : List RawLine) (h1 : nlOK ls = true) (h2 : noFinalBackslash ls = true) : badFinal ls = false := by
  induction ls with
  | nil => rfl
  | cons r rs ih =>
    cases rs with
    | nil =>
      have : CClean.endsBackslash r.body = false := by
        have : CLexRef.endsBackslash r.body = false := by simpa [noFinalBackslash] using h2
        exact this
      simp [badFinal, this]
    | cons r2 rs2 =>
      simp only [nlOK, Bool.and_eq_true] at h1
      simp only [noFinalBackslash] at h2
      have := ih h1.2 h2
      simp only [badFinal, List.any_cons] at this ⊢
      simp [h1.1, this]

/-- everything the text-level theorems need, extracted from `wf`, `¬k1`, `¬k2` -/
structure TextFacts (ls : List RawLine) (scs : List Scan) : Prop where
  scan : scanPer {} 1 ls = some scs
  k1 : ∀ sc ∈ scs, sc.k1 = false
  k2 : ∀ sc ∈ scs, K2free sc
  last : (lastSt {} scs).mode = .code
  plain : ∀ r ∈ ls, plainLine r = true
  nofinal : noFinalBackslash ls = true

theorem text_facts (ls : List RawLine) (hwf : wfLines ls = true) (hk1 : (resultLines ls).k1 = false)
    (hk2 : (resultLines ls).k2 = false) : ∃ scs, TextFacts ls scs ∧ scanLines ls = some ⟨lastSt {} scs, scs.flatMap (·.out), scs.any (·.k1)⟩ := by
  unfold wfLines at hwf
  simp only [Bool.and_eq_true] at hwf
  obtain ⟨⟨hnf, hpl⟩, hsc⟩ := hwf
  have hscan : scanLines ls = (scanPer {} 1 ls).map fun scs => ⟨lastSt {} scs, scs.flatMap (·.out), scs.any (·.k1)⟩ :=
    decomment_splice ls {} 1
  cases hper : scanPer {} 1 ls with
  | none => rw [hscan, hper] at hsc; simp at hsc
  | some scs =>
    rw [hper] at hscan
    simp only [Option.map_some] at hscan
    rw [hscan] at hsc
    simp only [beq_iff_eq] at hsc
    unfold resultLines at hk1 hk2
    rw [hscan] at hk1 hk2
    simp only at hk1 hk2
    have hk1' : ∀ sc ∈ scs, sc.k1 = false := by
      intro sc hsc'
      rw [List.any_eq_false] at hk1
      simpa using hk1 sc hsc'
    have hplain : ∀ r ∈ ls, plainLine r = true := by
      intro r hr
      rw [List.all_eq_true] at hpl
      exact hpl r hr
    refine ⟨scs, ⟨hper, hk1', ?_, hsc, hplain, hnf⟩, hscan⟩
    exact k2_lines ls.length ls {} 0 scs [] hper hk1' hplain (by simp) (by omega) (by simpa using hk2)


/-- the model's result for a well-formed text outside F-C05-1/2, in terms of the reference data -/
theorem model_eq_expect (ls : List RawLine) (scs : List Scan) (f : TextFacts ls scs) (hnl : nlOK ls = true) :
    (cFileSourceLines ls).err = none ∧
    (cFileSourceLines ls).all.map LLine.sum = expect none 1 [] 0 (scs.map ldOf) := by
  have hbad : badFinal ls = false := badFinal_false ls hnl f.nofinal
  have h := srcLoop_expect ls {} 0 scs false {} none f.scan f.k1 f.k2 f.last f.plain f.nofinal (by simp)
    (Or.inl ⟨rfl, rfl⟩) (fun _ => rfl) (by simp)
  have habs : absStack false ({} : DState).mode = [.top] := rfl
  rw [habs] at h
  unfold cFileSourceLines
  simp only [hbad, Bool.false_eq_true, if_false, h.2]
  exact ⟨by simp [hasErr], h.1⟩

end CbiVerif.CLexSim
