"""C06, stream `inc` — attribution across files, languages and forced includes, judged by the real preprocessor.

The analysis-result-level streams of c06.py take the per-line attribution from the implementation and check that every
report is its sum; the `txt` stream judges the attribution itself but has no includes.  Here the attribution of code bases
WITH `#include`, `-include`, shared headers between C / C++ and Fortran units and byte-level variety (CRLF, lone CR,
Latin-1 / UTF-8 comment bytes) is judged against an expectation that never looks at the implementation:

  oracle 1 (external)     `gcc -E -P` / `gfortran -cpp -E -P` of every compile command (harness/gen/c06mix.py): a counted
                          line is used by platform p iff its marker / the marker of its block comes through one of p's
                          commands; the counted lines themselves are known by construction.  From that attribution
                          get_setmap, the summary table, both trees and the coverage export (partition AND the SHA-512 of
                          the BYTES on disk) are recomputed exactly as in the other streams.
  oracle 2 (metamorphic)  "the set of all platforms that use it": whether p uses a line depends on p's commands alone, so
                          p analysed alone (fresh state) must mark exactly the lines that carry p in the full analysis.

Implementation: config.load_database + finder.find on the written tree (full, and once per platform), get_setmap,
report.summary, report.files (prune off / on), coverage `_compute` for one platform.  The Lean model (op `c06`) is fed the
implementation's analysis result, as in the `gen` stream, for the correspondence.
"""
from __future__ import annotations

import collections
import concurrent.futures
import hashlib
import json
import os
import random
import re
import time

from harness import core
from harness.gen import c06mix as M
from harness.gen import codebase as G

_POOL = None


def pool():
    global _POOL
    if _POOL is None:
        _POOL = concurrent.futures.ThreadPoolExecutor(max_workers=6)
    return _POOL


def features(case):
    """what the case contains (for the evidence / the non-triviality rule)"""
    files, plats = case["files"], case["platforms"]
    feats = set()
    inc_by = collections.defaultdict(set)  # base name -> languages of the files that name it in an #include
    for p, f in files.items():
        for t, _ in f["lines"]:
            m = re.match(r'#include "(.*)"', t)
            if m:
                inc_by[os.path.basename(m.group(1))].add("f" if f["lang"] == "f" else "c")
    if any(len(v) == 2 for v in inc_by.values()):
        feats.add("header included from C and from Fortran")

    def split(argv):
        inc, rest, i = [], [], 1
        while i < len(argv):
            if argv[i] == "-include":
                inc.append(argv[i + 1])
                i += 2
            else:
                rest.append(argv[i])
                i += 1
        return tuple(rest), tuple(inc)

    seen = {}
    for name, entries in plats.items():
        for e in entries:
            rest, inc = split(e["arguments"])
            if inc:
                feats.add("-include")
            for (other, inc2) in seen.get((e["file"], rest), []):
                if other != name and inc2 != inc:
                    feats.add("same -D/-I, different -include")
                if other != name and inc2 == inc:
                    feats.add("identical command on two platforms")
            seen.setdefault((e["file"], rest), []).append((name, inc))
    for f in files.values():
        if f["lang"] is None:
            continue
        feats.add("eol=" + f["eol"])
        if any(ord(c) > 127 for t, _ in f["lines"] for c in t):
            feats.add("bytes=" + f["enc"])
        if not f["final_nl"]:
            feats.add("no final newline")
    return feats


def statements(lines):
    """the lines of a generated file grouped into units that stand or fall together (a statement with its continuation line
    or with the comment line attached to it, a two-line comment)"""
    units, i = [], 0
    while i < len(lines):
        t = lines[i][0]
        two = i + 1 < len(lines) and (t.endswith(("\\", "&")) or ("/*" in t and "*/" not in t.split("/*")[-1]))
        units.append(lines[i:i + 2] if two else lines[i:i + 1])
        i += 2 if two else 1
    return units


def fake_result(att):
    """an analysis result (the shape check_coverage / the model take) that says exactly `att`: one node per line"""
    return [{"path": list(p), "link": link, "nodes": [[list(k), 1, [ln]] for ln, k in sorted(d.items())]} for p, (link, d) in att.items()]


def evaluate(ctx, drv, case, replaying=False):
    """-> dict(spec=[...], model=[...], status, info)"""
    from harness.props import c06 as C06

    info = {}
    with core.Scratch() as d, core.Scratch() as outdir:
        root = os.path.join(os.path.realpath(d), "cb")
        os.makedirs(root)
        outdir = os.path.realpath(outdir)
        M.write_case(root, case)
        plats = list(case["platforms"])
        # ---- oracle 1: the real preprocessor, once per distinct command
        cmds = {}
        for name in plats:
            for e in case["platforms"][name]:
                cmds.setdefault((e["file"], tuple(e["arguments"])), e)
        futs = {k: pool().submit(M.run_oracle, root, e) for k, e in cmds.items()}
        outs = {k: f.result() for k, f in futs.items()}
        bad = [(k, why) for k, (ids, why) in outs.items() if ids is None]
        if bad:
            return {"spec": [], "model": [], "status": "oracle unavailable: " + str(bad[0][1])[:200], "info": info}
        diag = any(why for _, why in outs.values())
        survived = {name: set().union(*[outs[(e["file"], tuple(e["arguments"]))][0] for e in case["platforms"][name]])
                    if case["platforms"][name] else set() for name in plats}
        att = M.expected_attribution(case, survived)
        exp_cnt = C06.expected_setmap(att)
        v = C06.Verdict()
        # ---- implementation: full analysis
        try:
            cb, st = G.analyse(root, plats)
            result = C06.analysis_result(cb, st, root)
        except Exception as e:  # noqa
            v.s(f"the analysis raises {type(e).__name__}: {str(e)[:120]} on a code base gcc / gfortran preprocess without complaint")
            return {"spec": v.spec, "model": [], "status": "raises", "info": info, "exp_cnt": exp_cnt}
        att_impl, problems = C06.attribution_of(result)
        for p in problems:
            v.s("analysis result: " + p)
        if sorted(att_impl) != sorted(att):
            v.s(f"files of the code base {sorted('/'.join(p) for p in att_impl)} but the source files written are {sorted('/'.join(p) for p in att)}")
        for p in sorted(att):
            if p not in att_impl:
                continue
            want, got = att[p][1], att_impl[p][1]
            if sorted(got) != sorted(want):
                v.s(f"{'/'.join(p)}: lines of the nodes {sorted(got)} but the lines that hold code are {sorted(want)}")
                continue
            wrong = [ln for ln in sorted(want) if got[ln] != want[ln]]
            if wrong:
                ln = wrong[0]
                v.s(f"{'/'.join(p)}:{ln} `{case['files']['/'.join(p)]['lines'][ln - 1][0]}` is attributed to {C06.row_name(got[ln])} but the platforms whose "
                    f"preprocessor lets it through are {C06.row_name(want[ln])} ({len(wrong)} such line(s) in this file)")
        # ---- oracle 2: every platform alone
        solo = {}
        for name in plats:
            try:
                cb1, st1 = G.analyse(root, [name])
                solo[name] = C06.analysis_result(cb1, st1, root)
            except Exception as e:  # noqa
                v.s(f"the analysis of platform {name} alone raises {type(e).__name__}")
                continue
            a1, _ = C06.attribution_of(solo[name])
            for p, (_, d1) in sorted(a1.items()):
                dm = att_impl.get(p, (None, {}))[1]
                alone = {ln for ln, k in d1.items() if k}
                full = {ln for ln, k in dm.items() if name in k}
                if alone != full or sorted(d1) != sorted(dm):
                    v.s(f"{'/'.join(p)}: platform {name} analysed alone uses lines {sorted(alone)}, in the full analysis it is in the platform set of "
                        f"lines {sorted(full)}")
                    break
        # ---- every report against the expected attribution
        variants = [(False, None), (True, None)]
        model = C06.ask_model(drv, root, result, variants)
        setmap = st.get_setmap(cb)
        C06.check_setmap(v, "get_setmap", setmap, exp_cnt, None)
        out = C06.impl_summary(setmap)
        if out is None:
            if sum(exp_cnt.values()):
                v.s("summary raises ZeroDivisionError although the code base has counted lines")
        else:
            C06.check_summary(v, "summary", out, exp_cnt, None)
        trees = []
        for i, (prune, levels) in enumerate(variants):
            o = C06.impl_files(cb, st, prune, levels)
            trees.append(o)
            C06.check_tree(v, f"files(prune={prune})", o, root, att, prune, levels, None, summary_cnt=exp_cnt)
        # the same reports against the model run on the implementation's own analysis result (correspondence)
        vm = C06.Verdict()
        if model is not None:
            C06.check_setmap(vm, "get_setmap", setmap, C06.expected_setmap(att_impl), model)
            if out is not None:
                C06.check_summary(vm, "summary", out, C06.expected_setmap(att_impl), model)
            for i, (prune, levels) in enumerate(variants):
                C06.check_tree(vm, f"files(prune={prune})", trees[i], root, att_impl, prune, levels, model["trees"][i])
        v.model += vm.model
        # ---- coverage export of one platform: partition and content hash
        rng = random.Random(hashlib.sha1(json.dumps(case, sort_keys=True).encode()).hexdigest())
        cov_plat = rng.choice(plats) if plats else None
        cov = None
        if cov_plat is not None:
            att1 = {p: (link, {ln: ((cov_plat,) if cov_plat in k else ()) for ln, k in dd.items()}) for p, (link, dd) in att.items()}
            try:
                cov = C06.impl_coverage(root, os.path.join(root, f"{cov_plat}.json"), os.path.join(outdir, "cov.json"))
            except Exception as e:  # noqa
                v.s(f"coverage compute for {cov_plat} raises {type(e).__name__}")
            if cov is not None:
                C06.check_coverage(v, f"coverage({cov_plat})", cov, root, fake_result(att1), None)
                if model is not None and cov_plat in solo:
                    m1 = C06.ask_model(drv, root, solo[cov_plat], [])
                    vm1 = C06.Verdict()
                    C06.check_coverage(vm1, f"coverage({cov_plat})", cov, root, solo[cov_plat], m1)
                    v.model += vm1.model
        info = {"result": result, "diag": diag}
        if replaying:
            info = {
                "oracle (preprocessor runs)": {" ".join(M.oracle_cmd(e)): sorted(outs[k][0]) for k, e in cmds.items()},
                "spec (per-line attribution from the preprocessor runs)": {"/".join(p): {ln: C06.row_name(k) for ln, k in sorted(dd.items())} for p, (_, dd) in sorted(att.items())},
                "implementation": {
                    "attribution": {"/".join(p): {ln: C06.row_name(k) for ln, k in sorted(dd.items())} for p, (_, dd) in sorted(att_impl.items())},
                    "get_setmap": {C06.row_name(C06.key_of(k)): c for k, c in setmap.items()},
                    "summary": (out or "ZeroDivisionError").splitlines(),
                    "files": trees[0].splitlines(),
                    "coverage(%s)" % cov_plat: cov,
                },
                "spec setmap": {C06.row_name(k): c for k, c in exp_cnt.items()},
                "model": C06.model_brief(model),
            }
        return {"spec": v.spec, "model": v.model, "status": "ok", "info": info, "exp_cnt": exp_cnt}


# --------------------------------------------------------------------------
def shrink(ctx, drv, case, budget=25):
    """greedy reduction while the oracle still objects: platforms, commands, unreferenced files, byte variety, leaf lines"""
    t0 = time.time()

    def bad(c):
        try:
            return bool(evaluate(ctx, drv, c)["spec"])
        except Exception:  # noqa
            return False

    def referenced(c):
        names = set()
        for f in c["files"].values():
            for t, _ in f["lines"]:
                m = re.match(r'#include "(.*)"', t)
                if m:
                    names.add(os.path.basename(m.group(1)))
        for es in c["platforms"].values():
            for e in es:
                names.add(os.path.basename(e["file"]))
                names.update(os.path.basename(a) for a in e["arguments"])
        return names

    def variants(c):
        for name in list(c["platforms"]):
            if len(c["platforms"]) > 1:
                yield dict(c, platforms={k: v for k, v in c["platforms"].items() if k != name})
        for name, es in c["platforms"].items():
            for j in range(len(es)):
                yield dict(c, platforms=dict(c["platforms"], **{name: es[:j] + es[j + 1:]}))
        ref = referenced(c)
        for p in list(c["files"]):
            if os.path.basename(p) not in ref:
                yield dict(c, files={k: v for k, v in c["files"].items() if k != p})
        for p, f in c["files"].items():
            if f["eol"] != "lf" or not f["final_nl"]:
                yield dict(c, files=dict(c["files"], **{p: dict(f, eol="lf", final_nl=True)}))
            units = statements(f["lines"])
            if any(all(g is None for _, g in u) for u in units):
                yield dict(c, files=dict(c["files"], **{p: dict(f, lines=[x for u in units if any(g is not None for _, g in u) for x in u])}))
            for j, u in enumerate(units):
                # a statement with a marker of its own that opens no block: not the first one of the file, not directly after a
                # directive, and no directive is governed by its marker
                govs = {g for _, g in u if g is not None}
                if j == 0 or not govs or any(t.startswith("#") for t, _ in u) or units[j - 1][-1][0].startswith("#"):
                    continue
                if any(g in govs for v in units[:j] + units[j + 1:] for _, g in v):
                    continue
                yield dict(c, files=dict(c["files"], **{p: dict(f, lines=[x for v in units[:j] + units[j + 1:] for x in v])}))

    changed = True
    while changed and time.time() - t0 < budget:
        changed = False
        for vnt in variants(case):
            if time.time() - t0 > budget:
                break
            if bad(vnt):
                case, changed = vnt, True
                break
    return case


def nontrivial_key(case, exp_cnt, feats):
    """non-trivial: >= 2 platform sets of which one is non-empty, and an attribution that needs another file: a forced
    include or a header included from two languages"""
    sets = set(exp_cnt)
    if len(sets) >= 2 and any(sets) and ("-include" in feats or "header included from C and from Fortran" in feats):
        return hashlib.sha1(json.dumps([case["files"], case["platforms"]], sort_keys=True).encode()).hexdigest()
    return None


def run_one(ctx, drv, case, origin):
    case = dict(case, origin=origin)
    r = evaluate(ctx, drv, case)
    feats = features(case)
    if r["status"].startswith("oracle unavailable"):
        ctx.dist["inc:oracle unavailable (skipped)"] += 1
        if len([n for n in ctx.notes if n.startswith("inc: oracle")]) < 3:
            ctx.notes.append(f"inc: oracle unavailable for {origin}: {r['status'][:160]}")
        return
    if r["spec"]:
        small = shrink(ctx, drv, case) if not any(w.startswith("[inc]") for w, _ in ctx.violations) else case
        sp = evaluate(ctx, drv, small)["spec"] or r["spec"]
        ctx.violation("[inc] " + "; ".join(sp[:3]), small)
    if r["model"]:
        ctx.corr_break("c06:inc", case, r["model"][:3], "see replay")
    exp_cnt = r.get("exp_cnt") or {}
    ctx.count(key=f"inc:platforms={len(case['platforms'])},{case.get('style')}", nontrivial_key=nontrivial_key(case, exp_cnt, feats))
    for f in sorted(feats):
        ctx.dist["inc:" + f] += 1
    if r["info"].get("diag"):
        ctx.dist["inc:preprocessor printed a diagnostic"] += 1
    if len(case["platforms"]) >= 2 and "-include" in feats:
        ctx.sample({"kind": "inc", "files": {p: [t for t, _ in f["lines"]][:12] for p, f in list(case["files"].items())[:3]},
                    "platforms": {k: [" ".join(e["arguments"]) for e in v[:3]] for k, v in case["platforms"].items()},
                    "setmap": {"{" + ", ".join(k) + "}": c for k, c in exp_cnt.items()}}, cap=10)


def run_stream(ctx, drv, n, seconds=None):
    t0 = time.time()
    for i in range(n):
        if seconds is not None and time.time() - t0 > seconds:
            ctx.notes.append(f"inc stream stopped by its time box ({seconds}s) after {i} of {n} code bases")
            break
        seed = ctx.rng.randrange(1 << 30)
        run_one(ctx, drv, M.gen_case(random.Random(seed)), f"inc:{seed}")


def replay(ctx, drv, case):
    r = evaluate(ctx, drv, case, replaying=True)
    if r["spec"]:
        ctx.violation("[inc] " + "; ".join(r["spec"][:3]), case)
    if r["model"]:
        ctx.corr_break("c06:inc", case, r["model"][:3], "see replay")
    return dict({"contradicts_property": r["spec"], "differs_from_model": r["model"], "status": r["status"]}, **r["info"])
