"""C03, stream `strconf`: the statements of lean/CbiVerif/Props/C03StrConf.lean on the real code.

`C03.stringify_conforms`: for an argument of the class `StrArgOk`, whenever the specification (`Spec.Prosser.stringize`, C11
6.10.3.2p2) assigns a string literal to `# param`, `Lexer.stringify` returns that token.  `C03.replaceFn_hash_conforms_partial`:
for a function-like, non-variadic macro whose replacement list has `#` but no `##`, `MacroFunction.replace` and
`Spec.Prosser.subst` return the same tokens (kind class, spelling, white-space flag).

Per generated input three things are checked:
  * correspondence: `Lexer.stringify` / `MacroFunction.replace` of the real code == `PP.stringify` / `MX.replaceFn` (driver ops
    `c03stringify` / `c03replace`; exact kind, text, prev_white; same exception class);
  * the driver's evaluation of the theorem's conclusion under its hypotheses is `true` (a `false` would contradict a proved theorem:
    reported as a note, never silently);
  * oracle: inside the hypotheses, the REAL code's result == the specification's result.
Finding D45 (a string literal ending in an escaped backslash was not lexed as one token) is repaired: `StrArgOk` holds for every
lexed argument (`C03.tokenize_in_class`), and arguments spelled with a backslash as last character are judged like all others."""
from . import c03 as C

IDENTS = ["a", "b", "x1", "_t", "foo", "N", "defined", "x", "y"]
NUMS = ["0", "1", "42", "0x1F", "1.5e+3", ".5", "1u"]
OPS = ["+", "-", "*", "/", "<", ">", "<=", "==", "&&", "||", "!", "(", ")", ",", ";", "[", "]", "?", ":", "<<", ".", "#", "##"]
STRS = ['""', '"s"', '"a b"', '"q\\"r"', '"x\\n"', '"\\\\n"', '"a\\\\"', '"%d\\t"', '"\'"', '"#"']
CHRS = ["'a'", "'\\n'", "'\"'", "'\\\\'", "'\\''", "'\\0'", "'\\x41'", "' '"]
STRAY = ["\\", '"', "'", "@", "$", "`"]


def gen_arg(rng, stray=0.12):
    n = rng.choice([0, 1, 1, 2, 2, 3, 4, 6])
    out = []
    for _ in range(n):
        u = rng.random()
        if u < stray:
            p = rng.choice(STRAY)
        elif u < 0.35:
            p = rng.choice(IDENTS)
        elif u < 0.5:
            p = rng.choice(NUMS)
        elif u < 0.7:
            p = rng.choice(OPS[:-2]) if rng.random() < 0.9 else rng.choice(OPS)
        elif u < 0.87:
            p = rng.choice(STRS)
        else:
            p = rng.choice(CHRS)
        out.append(rng.choice(["", " ", " ", "  ", "\t "]) + p)
    return "".join(out) + rng.choice(["", "", " "])


def gen_defn(rng):
    k = rng.choice([1, 1, 2, 2, 3])
    params = ["x", "y", "z"][:k]
    n = rng.choice([1, 2, 3, 4, 6])
    body = []
    hashed = False
    for _ in range(n):
        u = rng.random()
        if u < 0.4:
            # now and then a `#` that is not followed by a parameter (constraint violation: both sides must reject or differ only
            # outside `replaceReady`)
            body.append(rng.choice(["#", "# ", " #", " # "]) + (rng.choice(params) if rng.random() < 0.96 else rng.choice(["q", "1", "+"])))
            hashed = True
        elif u < 0.65:
            body.append(" " + rng.choice(params))
        elif u < 0.8:
            body.append(rng.choice([" ", ""]) + rng.choice(["+", "(", ")", ",", "==", "-"]))
        elif u < 0.9:
            body.append(" " + rng.choice(IDENTS[:6] + NUMS[:3]))
        else:
            body.append(" " + rng.choice(STRS[:5] + CHRS[:3]))
    if not hashed:
        body.append(" #" + rng.choice(params))
    return "M(" + ",".join(params) + ")" + " " + "".join(body).strip(), k


def _impl_stringify(pp, arg):
    try:
        t = pp.Lexer.stringify(pp.Lexer(arg).tokenize())
        return {"ok": C._tok(t)}
    except Exception as e:  # noqa
        return {"exc": type(e).__name__}


def _impl_replace(pp, defn, args):
    m, err = C.impl_define(pp, defn)
    if err:
        return {"defexc": err}
    try:
        ia = [(pp.Lexer(a).tokenize(), pp.Lexer(a).tokenize()) for a in args]
        return {"ok": [C._tok(t) for t in m.replace(ia)]}
    except Exception as e:  # noqa
        return {"exc": type(e).__name__}


def _mj(t):
    return [t["k"], t["t"], t["w"]]


def _spec_triple(t):
    return (t["k"], t["t"], bool(t["w"]))


def _impl_triples(toks):
    """(kind class of the specification, spelling, white-space flag) per token of the real code"""
    return [("punct" if k == "unknown" else k, s, bool(w)) for (k, s), (_k, _t, w) in zip(C.norm_impl(toks), toks)]


def check_stringify(ctx, drv, pp, arg, origin="random"):
    case = {"strconf": "stringify", "arg": arg, "origin": "strconf-" + origin}
    R = C.ask(ctx, drv, {"op": "c03stringify", "arg": arg})
    if not R:
        return
    ctx.count("strconf:stringify")
    I = _impl_stringify(pp, arg)
    M = {"ok": _mj(R["model"])} if R["model"] is not None else {"exc": "none"}
    if ("ok" in I) != ("ok" in M) or ("ok" in I and list(I["ok"]) != M["ok"]):
        ctx.corr_break("c03stringify", case, I, M)   # the oracle below still judges the real code
    else:
        ctx.dist["strconf:stringify model==impl"] += 1
    if not R["theorem_holds"]:
        ctx.dist["proved_fragment:DRIVER CONTRADICTS THEOREM"] += 1
        ctx.notes.append(f"driver evaluation contradicts C03.stringify_conforms on {case}")
    S = R["spec"]
    if "unspec" in S:
        ctx.dist["strconf:stringify spec undefined (not a string literal)"] += 1
        return
    same = "ok" in I and _impl_triples([I["ok"]]) == [_spec_triple(S)]
    if not R["arg_ok"]:
        # `C03.tokenize_in_class`: every lexed argument is in the class (since the repair of finding D45 `StrArgOk` has no other clause)
        ctx.dist["proved_fragment:DRIVER CONTRADICTS THEOREM"] += 1
        ctx.notes.append(f"driver evaluation contradicts C03.tokenize_in_class on {case}")
    ctx.dist["strconf:stringify inside StrArgOk, spec defined"] += 1
    if len(R["tokens"]) > 1:
        ctx.dist["strconf:stringify inside, 2+ tokens"] += 1
    if any(t["k"] in ("str", "chr") for t in R["tokens"]):
        ctx.dist["strconf:stringify inside, literal in the argument"] += 1
    if arg.rstrip().endswith("\\"):
        ctx.dist["strconf:stringify spelling ends in a backslash (former finding D45)"] += 1
    if not same:
        ctx.violation(f"# operand: Lexer.stringify gives {I} where C11 6.10.3.2p2 (Spec.Prosser.stringize) gives {S}", case)


def check_replace(ctx, drv, pp, defn, args, origin="random"):
    case = {"strconf": "replace", "defn": defn, "args": args, "origin": "strconf-" + origin}
    R = C.ask(ctx, drv, {"op": "c03replace", "defn": defn, "args": args})
    if not R:
        return
    ctx.count("strconf:replace")
    I = _impl_replace(pp, defn, args)
    if "defexc" in R or "defexc" in I:
        if ("defexc" in R) != ("defexc" in I):
            ctx.corr_break("c03replace", case, I, R)
        return
    M = R["model"]
    Mn = {"ok": [_mj(t) for t in M["ok"]]} if "ok" in M else {"exc": M["exc"]}
    if "ok" in I:
        agree = "ok" in Mn and [list(x) for x in I["ok"]] == Mn["ok"]
    else:
        agree = "exc" in Mn and C.EXC_EQ.get(I["exc"], I["exc"]) == Mn["exc"]
    if not agree:
        ctx.corr_break("c03replace", case, I, Mn)   # the oracle below still judges the real code
    else:
        ctx.dist["strconf:replace model==impl"] += 1
    if not R["theorem_holds"]:
        ctx.dist["proved_fragment:DRIVER CONTRADICTS THEOREM"] += 1
        ctx.notes.append(f"driver evaluation contradicts C03.replaceFn_hash_conforms_partial on {case}")
    S = R["spec"]
    if not R["hyps"]:
        ctx.dist["strconf:replace outside the hypotheses"] += 1
        return
    if "ok" not in S or "ok" not in I:
        ctx.dist["strconf:replace inside, one side fails (" + ("spec" if "ok" not in S else "impl") + ")"] += 1
        if "ok" in S and R.get("ready"):
            # C03.replaceFn_hash_total_partial: under replaceReady the code returns whenever the specification does
            ctx.violation(f"replacement list with #: MacroFunction.replace fails ({I}) where C11 6.10.3.1/6.10.3.2 "
                          f"(Spec.Prosser.subst) gives {' '.join(t['t'] for t in S['ok'])!r}", case)
        return
    if R.get("ready"):
        ctx.dist["strconf:replace inside replaceFn_hash_total_partial (replaceReady)"] += 1
    ctx.dist["strconf:replace inside replaceFn_hash_conforms_partial, both defined"] += 1
    it, st = _impl_triples(I["ok"]), [_spec_triple(t) for t in S["ok"]]
    if it != st and [x[:2] for x in it] == [x[:2] for x in st]:
        ctx.violation(f"replacement list with #: the white-space flags of MacroFunction.replace's tokens {[x[2] for x in it]} differ from "
                      f"those of C11 6.10.3.1/6.10.3.2 (Spec.Prosser.subst) {[x[2] for x in st]} (tokens {' '.join(x[1] for x in st)!r})", case)
    elif it != st:
        ctx.violation(f"replacement list with #: MacroFunction.replace gives {C.spell(C.norm_impl(I['ok']))!r} where "
                      f"C11 6.10.3.1/6.10.3.2 (Spec.Prosser.subst) gives {' '.join(t['t'] for t in S['ok'])!r}", case)


FIXED_ARGS = ["\"a\\\\\"", "", "a", " a  +  b ", "\"q\\\"r\" 'c'", "'\\\\'", "a \\\\ b", "\\\\", "a\\", "\"x\\n\"  1", "f( 1 , 2 )", "'\"'"]
FIXED_DEFS = [("M(x,y) #x y + x #y", ["a  +  'c'", "\"s\\n\" 1"]), ("S(x) #x", [" a  b "]), ("T(a,b) a # b (b)", ["1", ""]),
              ("U(x) x x #x", ["\"\\\\n\""]), ("W(x) \"#\" x", ["1"]), ("V(x,y) #x#y", ["a", "b"])]


def run(ctx, drv, cb):
    from codebasin import preprocessor as pp
    for a in FIXED_ARGS:
        check_stringify(ctx, drv, pp, a, "fixed")
    for d, args in FIXED_DEFS:
        check_replace(ctx, drv, pp, d, args, "fixed")
    for _ in range(ctx.n(500, 4000)):
        if len(ctx.violations) >= 20:
            break
        check_stringify(ctx, drv, pp, gen_arg(ctx.rng))
    for _ in range(ctx.n(400, 3000)):
        if len(ctx.violations) >= 20:
            break
        d, k = gen_defn(ctx.rng)
        if ctx.rng.random() < 0.05:
            k = max(0, k - 1)   # too few arguments: outside `replaceReady` when the missing one is used
        check_replace(ctx, drv, pp, d, [gen_arg(ctx.rng, stray=0.04) for _ in range(k)])


def replay(ctx, drv, case):
    from codebasin import preprocessor as pp
    if case["strconf"] == "stringify":
        out = {"implementation": _impl_stringify(pp, case["arg"])}
        if drv is not None:
            out["model_and_spec"] = drv.ask({"op": "c03stringify", "arg": case["arg"]})
        return out
    out = {"implementation": _impl_replace(pp, case["defn"], case["args"])}
    if drv is not None:
        out["model_and_spec"] = drv.ask({"op": "c03replace", "defn": case["defn"], "args": case["args"]})
    return out
