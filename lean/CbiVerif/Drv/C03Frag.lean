import Lean.Data.Json
import CbiVerif.Lemmas.MacroFunSpecC
import CbiVerif.Lemmas.MacroStrRef
/-! driver op `c03frag`: which proved fragment of C03 a (definitions, text) lies in.  The predicates evaluated here are the
    hypotheses of `C03.object_like_conforms_partial`, `C03.funlike_conforms_partial` and `C03.funlike_simple_conforms_partial`
    themselves (`funTblb`, `confTblb`, `ctokb`, `fitsb`, `confb`, `simpleText`, `exactArity`, the two fuel bounds), with nesting
    budget `d = |tbl| + 2` and argument bound `L = 64`. -/
open Lean
namespace CbiVerif.Drv.C03Frag
open CbiVerif.PP CbiVerif.MX

def fragL : Nat := 64

/-- all hypotheses of `C03.funlike_conforms_partial` for budget `d` and bound `fragL` (cheap tests first) -/
def confHyps (tbl : Table) (ts : List Tok) (d : Nat) : Bool :=
  funTblb tbl && confTblb tbl && ts.all (ctokb tbl) && confb tbl fragL d [] ts && fitsb tbl d [] ts &&
    decide (d + 1 < CbiVerif.Gen.maxLevel) && decide (cost tbl d [] ts + 2 ≤ fuelFor tbl ts) &&
    decide (cost tbl d [] ts + fragL + 1 < CbiVerif.Spec.Prosser.defaultFuel)

/-- all hypotheses of `C03.funlike_simple_conforms_partial` -/
def simpleHyps (tbl : Table) (ts : List Tok) : Bool :=
  simpleTblb tbl && confTblb tbl && ts.all (ctokb tbl) && simpleText tbl ts && exactArity tbl ts &&
    decide (tbl.length + 2 < CbiVerif.Gen.maxLevel) &&
    decide (ts.length * Cb (bodyMax tbl) (tbl.length + 1) + ts.length + 1 < CbiVerif.Spec.Prosser.defaultFuel)

/-- number of calls of function-like macros the reference performs at the top level of the text (0: the text exercises only the
    object-like part) -/
def topCalls (tbl : Table) : Nat → List Tok → Nat
  | 0, _ => 0
  | _ + 1, [] => 0
  | n + 1, t :: ts =>
    match (if t.kind == .ident then tbl.get t.text else none) with
    | some m => (if m.args.isSome && (callOf ts).isSome then 1 else 0) + topCalls tbl n ts
    | none => topCalls tbl n ts

/-- all hypotheses of `C03.strcat_partial` for budget `d`, and that the machine returns the reference `RefS` (what the theorem says) -/
def strcatHyps (tbl : Table) (ts : List Tok) (d : Nat) : Bool :=
  fitsbS tbl d [] ts && decide (d + 1 < CbiVerif.Gen.maxLevel) && decide (costS tbl d [] ts + 2 ≤ fuelFor tbl ts)

def usesStrcat (tbl : Table) : Bool := tbl.any fun e => e.2.args.isSome && e.2.hasStrcat

def handle (j : Json) : Json :=
  let defs := ((j.getObjValAs? (Array String) "defs").toOption.getD #[]).toList
  let cmd := ((j.getObjValAs? (Array String) "cmd").toOption.getD #[]).toList
  let text := (j.getObjValAs? String "text").toOption.getD ""
  match buildTable cmd defs with
  | .error _ => Json.mkObj [("table", false)]
  | .ok tbl =>
    let ts := tokenize text
    let d := tbl.length + 2
    let conf := confHyps tbl ts d
    -- inside the fragment the theorem says: model = specification (spellings); evaluated here on the same definitions
    let agree : Bool :=
      if conf then
        (match cbiExpand tbl ts, CbiVerif.Spec.Prosser.prosserToks (specTableF tbl) (ts.map (toSpec [])) with
         | .ok r, .ok o => r.map spellTok == o.map (·.text)
         | _, _ => false)
      else true
    let str := strcatHyps tbl ts d
    let strAgree : Bool :=
      if str then (match cbiExpand tbl ts with | .ok r => r.map spellTok == (RefS tbl d [] ts).map spellTok | _ => false) else true
    Json.mkObj [("table", true), ("strcat", str), ("strcat_holds", strAgree), ("has_strcat", usesStrcat tbl), ("funlike_macros", (tbl.filter (·.2.args.isSome)).length),
      ("calls", topCalls tbl ts.length ts), ("conf", conf), ("simple", simpleHyps tbl ts), ("theorem_holds", agree),
      ("spec_spellings", match CbiVerif.Spec.Prosser.prosserToks (specTableF tbl) (ts.map (toSpec [])) with
        | .ok o => Json.arr (o.map (fun t => Json.str t.text)).toArray | .error _ => Json.null)]

def handlers : List (String × (Json → Json)) := [("c03frag", handle)]

end CbiVerif.Drv.C03Frag
