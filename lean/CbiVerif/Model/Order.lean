/-!
Model for C14 (results independent of enumeration order).

Every place where the Python runtime chooses an iteration order (set / frozenset /
dict iteration, `os.scandir` through `Path.rglob`, the order of `[platform.*]`
tables) is an explicit **list argument** here; the theorems in `Props/C14.lean`
quantify over all permutations of those lists.

Floats are an arbitrary carrier `F` with arbitrary (law-free) operations
(`FloatOps`): nothing about IEEE arithmetic is assumed, in particular neither
associativity nor commutativity of `add`.

Core Lean only (the native driver links this file).
-/
namespace CbiVerif.Order

/-! ## platform sets (frozenset of names) -/

/-- a platform set as the runtime hands it over: names in *some* order, possibly repeated -/
abbrev PSet := List String

/-- insert into a strictly increasing list (set semantics) -/
def insertSet (x : String) : List String → List String
  | [] => [x]
  | y :: ys => if x < y then x :: y :: ys else if x = y then y :: ys else y :: insertSet x ys

/-- canonical representative of the *set* of the listed names = `sorted(set(xs))`;
two lists are the same frozenset iff their `canon` is the same list (`C14.canon_eq_iff`) -/
def canon (xs : List String) : List String := xs.foldr insertSet []

/-! ## per-line attribution (`ParserState.associate`) -/

/-- one execution of `association[node].add(platform.name)` -/
structure Visit where
  platform : String
  file : String
  node : Nat
deriving DecidableEq, Repr

/-- `association[node]` of `file` after the events, as a set.  The event list is the
concatenation, in the order `finder.find` happens to process platforms and database
entries, of the nodes each entry visits (a fresh `Platform` object per entry). -/
def assocOf (events : List Visit) (file : String) (node : Nat) : PSet :=
  canon ((events.filter fun v => v.file == file && v.node == node).map (·.platform))

/-! ## setmap (`ParserState.get_setmap`) -/

/-- a `dict[frozenset, int]` in insertion order -/
abbrev Setmap := List (PSet × Nat)

/-- `setmap[k] += n` on an insertion-ordered defaultdict(int) -/
def addTo (k : PSet) (n : Nat) : Setmap → Setmap
  | [] => [(k, n)]
  | (k', c) :: rest => if k' = k then (k', c + n) :: rest else (k', c) :: addTo k n rest

/-- `get_setmap`: the contributions `(association[node] in the runtime's set order, node.num_lines)`
of the code nodes, in the order files are enumerated (`rglob`) and nodes are walked -/
def getSetmap (cs : List (PSet × Nat)) : Setmap :=
  cs.foldl (fun sm c => addTo (canon c.1) c.2 sm) []

/-- `setmap.get(k, 0)` -/
def lookup (sm : Setmap) (k : PSet) : Nat := ((sm.filter fun e => e.1 == k).map (·.2)).sum

def keys (sm : Setmap) : List PSet := sm.map (·.1)

/-- contributions of a code base given per file (outer list = enumeration order of the files,
inner list = nodes of the file) -/
def contribs (files : List (List (PSet × Nat))) : List (PSet × Nat) := files.flatten

/-! ## summary table (`report.summary`) -/

/-- Python list comparison `a <= b` on lists of strings -/
def lexLe : List String → List String → Bool
  | [], _ => true
  | _ :: _, [] => false
  | a :: as, b :: bs => if a < b then true else if a = b then lexLe as bs else false

/-- Python tuple comparison of the keys `(len(s), sorted(s))` the repaired code sorts by -/
def keyLe (a b : PSet) : Bool :=
  decide (a.length < b.length) || (a.length == b.length && lexLe a b)

def entryLe (a b : PSet × Nat) : Bool := keyLe (canon a.1) (canon b.1)

/-- the key the code used before the D26 repair: `len(s)` only -/
def entryLeLenOnly (a b : PSet × Nat) : Bool := decide ((canon a.1).length ≤ (canon b.1).length)

def total (sm : Setmap) : Nat := (sm.map (·.2)).sum

/-- arbitrary "floating point" operations: no laws assumed -/
structure FloatOps (F : Type) where
  ofNat : Nat → F
  add : F → F → F
  div : F → F → F
  mul : F → F → F
  zero : F
  hundred : F
  nan : F

variable {F : Type}

/-- `"{" + ", ".join(sorted(pset)) + "}"` -/
def setName (k : PSet) : String := "{" ++ ", ".intercalate (canon k) ++ "}"

/-- `(float(count) / float(total)) * 100` -/
def percent (ops : FloatOps F) (c t : Nat) : F := ops.mul (ops.div (ops.ofNat c) (ops.ofNat t)) ops.hundred

/-- rows `[name, count, percent]` of the summary table in printed order, for a sort
comparison `le`; `none` = `ZeroDivisionError` (entries but no lines) -/
def summaryRowsWith (le : PSet × Nat → PSet × Nat → Bool) (ops : FloatOps F) (sm : Setmap) :
    Option (List (String × Nat × F)) :=
  if total sm = 0 ∧ sm ≠ [] then none
  else some ((sm.mergeSort le).map fun e => (setName e.1, e.2, percent ops e.2 (total sm)))

/-- the table of the code as it is (after the D26 repair) -/
def summaryRows (ops : FloatOps F) (sm : Setmap) := summaryRowsWith entryLe ops sm

/-! ## metrics (`report.distance`, `divergence`, `coverage`, `average_coverage`) -/

/-- `sorted(extract_platforms(setmap))` -/
def platformsSorted (sm : Setmap) : List String := canon (sm.flatMap (·.1))

def unionCount (sm : Setmap) (p q : String) : Nat :=
  (sm.map fun e => if e.1.contains p || e.1.contains q then e.2 else 0).sum
def xorCount (sm : Setmap) (p q : String) : Nat :=
  (sm.map fun e => if (e.1.contains p) != (e.1.contains q) then e.2 else 0).sum

/-- repaired `report.distance`: two integer accumulations, one division -/
def distance (ops : FloatOps F) (sm : Setmap) (p q : String) : F :=
  if unionCount sm p q = 0 then ops.nan
  else ops.div (ops.ofNat (xorCount sm p q)) (ops.ofNat (unionCount sm p q))

/-- `itertools.combinations(platforms, 2)` -/
def pairs : List String → List (String × String)
  | [] => []
  | p :: ps => ps.map (fun q => (p, q)) ++ pairs ps

/-- `divergence` over an explicit platform list (the code passes the sorted list) -/
def divergenceOn (ops : FloatOps F) (sm : Setmap) (plats : List String) : F :=
  match pairs plats with
  | [] => ops.nan
  | ps => ops.div (ps.foldl (fun acc pq => ops.add acc (distance ops sm pq.1 pq.2)) ops.zero)
            (ops.ofNat ps.length)

/-- repaired `report.divergence` -/
def divergence (ops : FloatOps F) (sm : Setmap) : F := divergenceOn ops sm (platformsSorted sm)

/-- distance matrix of the clustering report: rows and columns in sorted platform order -/
def distanceMatrix (ops : FloatOps F) (sm : Setmap) : List String × List (List F) :=
  let ps := platformsSorted sm
  (ps, ps.map fun p => ps.map fun q => distance ops sm p q)

/-- lines used by at least one platform of `ps` (`subset == frozenset()` is skipped) -/
def usedBy (sm : Setmap) (ps : List String) : Nat :=
  (sm.map fun e => if e.1.any (fun p => ps.contains p) then e.2 else 0).sum

/-- `report.coverage(setmap, platforms)` for a non-empty `platforms` -/
def coverageOf (ops : FloatOps F) (sm : Setmap) (ps : List String) : F :=
  if total sm = 0 then ops.nan
  else ops.mul (ops.div (ops.ofNat (usedBy sm ps)) (ops.ofNat (total sm))) ops.hundred

/-- `report.coverage(setmap)` (all platforms) -/
def coverage (ops : FloatOps F) (sm : Setmap) : F := coverageOf ops sm (platformsSorted sm)

/-- `sum([coverage(setmap, [p]) for p in order]) / len(order)` for an explicit iteration order -/
def averageCoverageOn (ops : FloatOps F) (sm : Setmap) (order : List String) : F :=
  if order.length = 0 then ops.nan
  else ops.div ((order.map fun p => coverageOf ops sm [p]).foldl ops.add ops.zero) (ops.ofNat order.length)

/-- `report.average_coverage(setmap, platforms)` as it is now (5d7f56c): the code iterates
`sorted(platforms)`; `platforms` is the set as the runtime happens to list it -/
def averageCoverage (ops : FloatOps F) (sm : Setmap) (platforms : List String) : F :=
  averageCoverageOn ops sm (canon platforms)

/-- `average_coverage` before 5d7f56c: the set was iterated as the runtime listed it -/
def averageCoverageUnsorted (ops : FloatOps F) (sm : Setmap) (platforms : List String) : F :=
  averageCoverageOn ops sm platforms

/-- the four metric values under the table: divergence, coverage, average coverage, total SLOC -/
structure MetricLines (F : Type) where
  divergence : F
  coverage : F
  avgCoverage : F
  totalSloc : Nat

/-- metric lines of `report.summary`; `platformSet` = the set `set().union(*setmap.keys())` in the
order the runtime happens to list it (it is handed to `average_coverage`, which sorts it) -/
def metricLines (ops : FloatOps F) (sm : Setmap) (platformSet : List String) : MetricLines F :=
  { divergence := divergence ops sm, coverage := coverage ops sm,
    avgCoverage := averageCoverage ops sm platformSet, totalSloc := total sm }

/-- metric lines before 5d7f56c -/
def metricLinesUnsorted (ops : FloatOps F) (sm : Setmap) (platformSet : List String) : MetricLines F :=
  { divergence := divergence ops sm, coverage := coverage ops sm,
    avgCoverage := averageCoverageUnsorted ops sm platformSet, totalSloc := total sm }

/-- distance as computed before the D27 repair: one float addition per setmap entry -/
def distancePinned (ops : FloatOps F) (sm : Setmap) (p q : String) : F :=
  sm.foldl (fun acc e =>
    if (e.1.contains p) != (e.1.contains q)
    then ops.add acc (ops.div (ops.ofNat e.2) (ops.ofNat (unionCount sm p q))) else acc) ops.zero

/-! ## duplicates (`report.find_duplicates`, `report.duplicates`) -/

section dups
variable {P C H : Type} [DecidableEq C] [DecidableEq H]

/-- confirmation loop on one hash bucket.  `pick` is the order in which the runtime iterates the
`remaining` set at this round (`remaining.pop()` takes the head); any `pick` that permutes its
argument is a possible run. -/
def confirm (pick : List P → List P) (content : P → C) : (fuel : Nat) → List P → List (List P)
  | 0, _ => []
  | n + 1, remaining =>
    match pick remaining with
    | [] => []
    | [_] => []
    | first :: rest =>
      let matches_ := first :: rest.filter (fun p => content p == content first)
      let remaining' := rest.filter (fun p => !(content p == content first))
      if matches_.length > 1 then matches_ :: confirm pick content n remaining'
      else confirm pick content n remaining'

/-- distinct elements in first-occurrence order (= key order of a dict filled in list order) -/
def firstOcc {α : Type} [DecidableEq α] : List α → List α
  | [] => []
  | a :: l => a :: (firstOcc l).filter (fun x => !(x == a))

/-- `find_duplicates`: bucket by digest in first-occurrence order of the enumeration `files`,
confirm inside each bucket -/
def findDuplicates (pick : List P → List P) (content : P → C) (hash : C → H) (files : List P) :
    List (List P) :=
  (firstOcc (files.map fun f => hash (content f))).flatMap fun h =>
    let bucket := files.filter (fun f => hash (content f) == h)
    if bucket.length > 1 then confirm pick content bucket.length bucket else []

/-- the report before 6255f9a: groups in bucket order, paths of a group in the iteration
order `show_` of the `matches` set -/
def printedDuplicatesUnsorted (show_ : List P → List P) (groups : List (List P)) : List (List P) :=
  groups.map show_

/-- the report as it is printed now (6255f9a): `sorted(sorted(matches) for matches in confirmed_matches)`;
`ple`/`gle` = the total orders Python uses for paths and for lists of paths -/
def printedDuplicates (ple : P → P → Bool) (gle : List P → List P → Bool)
    (groups : List (List P)) : List (List P) :=
  (groups.map fun g => g.mergeSort ple).mergeSort gle
end dups

def strLe (a b : String) : Bool := decide (a ≤ b)

/-- Python list comparison `a <= b` for lists whose elements are ordered by `le`:
the first position where the elements differ decides -/
def lexLeG {α : Type} [DecidableEq α] (le : α → α → Bool) : List α → List α → Bool
  | [], _ => true
  | _ :: _, [] => false
  | a :: as, b :: bs => if a = b then lexLeG le as bs else le a b

/-- a path as `pathlib` compares it: the list of its components (`str(p).split("/")`) -/
abbrev PathParts := List String
/-- `PurePosixPath.__le__`: component lists compared as Python lists of strings -/
def pathLe (a b : PathParts) : Bool := lexLeG strLe a b
/-- comparison of two sorted groups (lists of paths) -/
def pathGroupLe (a b : List PathParts) : Bool := lexLeG pathLe a b

/-! ## coverage export (`codebasin.coverage compute`) -/

structure CovRecord where
  file : String
  id : String
  used : List Nat
  unused : List Nat
deriving DecidableEq, Repr

/-- `covarray` before 2ec5e5c: one record per file in enumeration order -/
def covExportUnsorted {P : Type} (recordOf : P → CovRecord) (files : List P) : List CovRecord :=
  files.map recordOf

def covLe (a b : CovRecord) : Bool := decide (a.file ≤ b.file)

/-- `covarray` as it is written now (2ec5e5c: `for filename in sorted(codebase)`).  The code sorts the
absolute file names; all of them start with the same `source_dir + "/"`, so that is the order of the
relative names stored in the records. -/
def covExport {P : Type} (recordOf : P → CovRecord) (files : List P) : List CovRecord :=
  (files.map recordOf).mergeSort covLe

/-! ## per-directory figures of the file tree (`report.files` / `FileTree.insert`) -/

/-- setmap of the tree node `dir`: contributions of the files beneath it, in enumeration order -/
def nodeSetmap {P : Type} (under : P → Bool) (contribOf : P → List (PSet × Nat)) (files : List P) : Setmap :=
  getSetmap ((files.filter under).flatMap contribOf)

/-! ## defines contributed by compiler modes (`ArgumentParser.parse_args`, `Platform.define`) -/

/-- a macro definition `(name, body)` -/
abbrev Def := String × String

/-- before 9c35d6c: `config._update(mode)` for the active modes in the iteration order `modes` of a `set` -/
def modeDefinesSetOrder (cmdline : List Def) (modes : List (List Def)) : List Def := cmdline ++ modes.flatten

/-- as it is now (9c35d6c): `args.modes = list(dict.fromkeys(args.modes))` — every activated mode once,
in the order of its first activation on the command line; no set is involved any more.
`flags` = mode names in command-line order (repeats possible), `table` = the compiler's modes. -/
def modeDefines (cmdline : List Def) (table : String → List Def) (flags : List String) : List Def :=
  cmdline ++ (firstOcc flags).flatMap table

/-- `Platform.define` keeps the first definition of a name: what `name` ends up defined as -/
def definedAs (ds : List Def) (name : String) : Option String :=
  (ds.find? fun d => d.1 == name).map (·.2)

/-- executable form of `Consistent` (`Lemmas/OrderDups.lean`): no name is given two different bodies -/
def consistentB (ds : List Def) : Bool :=
  ds.all fun d => ds.all fun d' => d.1 != d'.1 || d.2 == d'.2

end CbiVerif.Order
