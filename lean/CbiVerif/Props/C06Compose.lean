import CbiVerif.Props.C06Base
import CbiVerif.Lemmas.C06ComposeText
/-!
# C06 about SOURCE TEXT — the composed pipeline

`C06C.analyse files plats` (`Model/C06Compose.lean`) is the analysis result of a code base given as texts and of a
configuration given as `-D` lists per platform and file: the C05 parser model (`CClean.parseFile`), the directive parser and
the C01 associator (`PP.analyseNodes`) per configuration entry, the platform set per node.  The driver executes exactly this
definition (op `c06text`).  The theorems below restate `C06.setmap_total` / `setmap_lines` / `lines_partition` /
`summary_rows_are_line_counts` for it and DISCHARGE their hypotheses (`num_lines = len(lines)`, disjoint node line lists,
"the lines are the counted physical lines of the file") from `C05.partition`, `C05.main`, `C05.nodes_of_ok`, and tie the
platform sets to the ISO C reference machine through `C01.analyseNodes_eq_reference`.

Every statement is for all texts, all platform lists and all `-D` lists; sums over several files are by list induction
(`List.Forall₂` pairs the i-th file with the i-th record).  Scope: no `#include` resolution (C04's layer).
-/
namespace CbiVerif.C06
open CbiVerif.SM CbiVerif.C06C

/-- what the record `r` of the analysis says about the text of the file `f` it was computed from -/
def FileFacts (f : SrcFile) (r : FileRec) : Prop :=
  r.path = f.path ∧ r.link = false ∧
  (CbiVerif.Cov.fileLines r.nodes).Pairwise (· < ·) ∧
  (∀ m ∈ CbiVerif.Cov.fileLines r.nodes, 1 ≤ m ∧ m ≤ (CbiVerif.CText.rawLines f.text).length) ∧
  (∀ n ∈ r.nodes, n.numLines = n.lines.length) ∧
  (C06C.guard f.text = true →
    CbiVerif.Cov.fileLines r.nodes = CLexRef.countedLines f.text ∧
    r.nodes.map (·.lines) = (CLexRef.nodes f.text).map (·.2) ∧ ∀ n ∈ r.nodes, 1 ≤ n.numLines)

/-- **file_lines_counted_once.**  For every code base (texts) and every configuration on which the analysis does not raise:
    the i-th record belongs to the i-th file, is not a link, and the concatenation of `node.lines` over ALL its nodes (code
    nodes and directive nodes, `tree.walk()` order) is strictly increasing — no physical line in two nodes or twice in one —
    within `1..n`, with `num_lines = len(lines)` for every node (from `C05.partition`, no hypothesis on the text); and for a
    text inside C05's guard (well-formed, outside F-C05-1/2) that concatenation IS the list of lines the C05 specification
    counts, grouped into nodes as the specification groups them, every node holding at least one line. -/
theorem file_lines_counted_once (files : List SrcFile) (plats : List Plat) (fs : List FileRec)
    (h : analyse files plats = .ok fs) : List.Forall₂ FileFacts files fs := by
  obtain ⟨ps, pr, _, hp⟩ := analyse_pairs files plats fs h
  refine hp.imp ?_
  rintro f r ⟨p, _, hparse, rfl⟩
  obtain ⟨r0, hpf, hn, _, _⟩ := parseSrc_ok f.text p hparse
  obtain ⟨h1, h2, h3, _, _⟩ := CbiVerif.C05.partition f.text r0 hpf
  rw [hn] at h1 h2 h3
  refine ⟨rfl, rfl, ?_, ?_, ?_, ?_⟩
  · show (CbiVerif.Cov.fileLines (nodeRecs pr f.path p.nodes)).Pairwise (· < ·)
    rw [fileLines_nodeRecs]; exact h1
  · show ∀ m ∈ CbiVerif.Cov.fileLines (nodeRecs pr f.path p.nodes), _
    rw [fileLines_nodeRecs]; exact h2
  · exact nodeRecs_wf pr f.path p.nodes h3
  · intro hg
    obtain ⟨hwf, hk1, hk2⟩ := (guard_iff f.text).mp hg
    obtain ⟨hnodes, _, hpos⟩ := CbiVerif.C05.nodes_of_ok f.text hwf hk1 hk2 r0 hpf
    rw [hn] at hnodes hpos
    refine ⟨?_, ?_, ?_⟩
    · show CbiVerif.Cov.fileLines (nodeRecs pr f.path p.nodes) = _
      rw [fileLines_nodeRecs, ← hn]; exact nodes_lines_eq_counted f.text r0 hpf hg
    · show (nodeRecs pr f.path p.nodes).map (·.lines) = _
      rw [nodeRecs_lines, ← hnodes, List.map_map]; rfl
    · intro n hn'
      have hmem : n.numLines ∈ (nodeRecs pr f.path p.nodes).map (·.numLines) := List.mem_map_of_mem hn'
      rw [nodeRecs_numLines] at hmem
      obtain ⟨nd, hnd, he⟩ := List.mem_map.mp hmem
      rw [← he]; exact (hpos nd hnd).2

/-- **setmap_total_is_sloc_of_text.**  For every code base (texts) and configuration on which the analysis does not raise:
    every row of `get_setmap` is the number of counted lines whose node carries exactly that platform set (`setmap_lines`,
    its hypothesis `NodesWF` discharged), the sum of the setmap is the number of lines of all nodes of all files, and when
    every text is inside C05's guard that sum is the number of lines the C05 SPECIFICATION counts in the texts — the SLOC
    of the code base. -/
theorem setmap_total_is_sloc_of_text (files : List SrcFile) (plats : List Plat) (fs : List FileRec)
    (h : analyse files plats = .ok fs) :
    NodesWF fs ∧ (∀ k, get (getSetmap fs) k = specCount fs k) ∧ total (getSetmap fs) = specSloc fs ∧
    total (getSetmap fs) = (fs.map fun r => (CbiVerif.Cov.fileLines r.nodes).length).sum ∧
    ((∀ f ∈ files, C06C.guard f.text = true) →
      total (getSetmap fs) = (files.map fun f => (CLexRef.countedLines f.text).length).sum) := by
  have hff := file_lines_counted_once files plats fs h
  have hwf : NodesWF fs := by
    intro r hr n hn
    obtain ⟨f, _, hf⟩ := forall₂_right hff r hr
    exact hf.2.2.2.2.1 n hn
  have hl : ∀ r ∈ fs, r.link = false := by
    intro r hr
    obtain ⟨f, _, hf⟩ := forall₂_right hff r hr
    exact hf.2.1
  obtain ⟨hrow, htot⟩ := setmap_lines fs hwf
  refine ⟨hwf, hrow, htot, by rw [htot, specSloc_nolink fs hl], ?_⟩
  intro hg
  rw [htot, specSloc_nolink fs hl]
  clear hwf hl hrow htot h
  induction hff with
  | nil => rfl
  | @cons f r files fs hfr _ ih =>
    simp only [List.map_cons, List.sum_cons]
    rw [ih (fun f' hf' => hg f' (List.mem_cons_of_mem _ hf')), (hfr.2.2.2.2.2 (hg f List.mem_cons_self)).1]

/-- **summary_rows_of_text.**  The rows `codebasin -R summary` prints for the analysis of the texts: each row's count is the
    number of counted lines carrying exactly its platform set, its percentage that count over the SLOC, and `Total SLOC` is
    the number of lines the C05 specification counts in the texts (`summary_rows_are_line_counts`, hypothesis discharged). -/
theorem summary_rows_of_text (files : List SrcFile) (plats : List Plat) (fs : List FileRec)
    (h : analyse files plats = .ok fs) (rows : List CbiVerif.Summary.Row)
    (hr : CbiVerif.Summary.rows (getSetmap fs) = some rows) :
    (∀ r ∈ rows, r.count = specCount fs r.key ∧ r.percent = (specCount fs r.key : ℚ) / (specSloc fs : ℚ) * 100) ∧
    CbiVerif.Summary.totalCount (getSetmap fs) = specSloc fs ∧
    ((∀ f ∈ files, C06C.guard f.text = true) →
      CbiVerif.Summary.totalCount (getSetmap fs) = (files.map fun f => (CLexRef.countedLines f.text).length).sum) := by
  obtain ⟨hwf, _, htot, _, hg⟩ := setmap_total_is_sloc_of_text files plats fs h
  obtain ⟨h1, h2⟩ := summary_rows_are_line_counts fs hwf rows hr
  exact ⟨h1, h2, fun hgu => by rw [h2, ← htot]; exact hg hgu⟩

/-- **coverage_partition_of_text.**  The coverage export of the analysis of the texts has one record per file, and in the
    record of every file `used_lines ++ unused_lines` is a rearrangement of the lines of its nodes, WITHOUT repetition and
    with no line on both sides (`lines_partition`, its disjointness hypothesis discharged from `C05.partition`); a line is
    used iff its node carries a non-empty platform set, unused iff the empty one; and for a text inside C05's guard the
    two lists together are exactly the lines the C05 specification counts. -/
theorem coverage_partition_of_text (files : List SrcFile) (plats : List Plat) (fs : List FileRec)
    (h : analyse files plats = .ok fs) :
    CbiVerif.Cov.compute fs = fs.map (fun r => (r.path, CbiVerif.Cov.split r.nodes)) ∧
    List.Forall₂ (fun (f : SrcFile) (r : FileRec) =>
      r.path = f.path ∧
      ((CbiVerif.Cov.split r.nodes).used ++ (CbiVerif.Cov.split r.nodes).unused).Perm (CbiVerif.Cov.fileLines r.nodes) ∧
      ((CbiVerif.Cov.split r.nodes).used ++ (CbiVerif.Cov.split r.nodes).unused).Nodup ∧
      (∀ l ∈ (CbiVerif.Cov.split r.nodes).used, l ∉ (CbiVerif.Cov.split r.nodes).unused) ∧
      (∀ l, l ∈ (CbiVerif.Cov.split r.nodes).used ↔ ∃ n ∈ r.nodes, l ∈ n.lines ∧ n.plats ≠ []) ∧
      (∀ l, l ∈ (CbiVerif.Cov.split r.nodes).unused ↔ ∃ n ∈ r.nodes, l ∈ n.lines ∧ n.plats = []) ∧
      (C06C.guard f.text = true →
        ((CbiVerif.Cov.split r.nodes).used ++ (CbiVerif.Cov.split r.nodes).unused).Perm (CLexRef.countedLines f.text)))
      files fs := by
  have hff := file_lines_counted_once files plats fs h
  constructor
  · unfold CbiVerif.Cov.compute
    rw [List.filter_eq_self.mpr]
    intro r hr
    obtain ⟨f, _, hf⟩ := forall₂_right hff r hr
    simp [hf.2.1]
  · refine hff.imp ?_
    intro f r hf
    obtain ⟨hperm, hu, hun, hnd⟩ := lines_partition r.nodes
    have hnodup : (CbiVerif.Cov.fileLines r.nodes).Nodup :=
      hf.2.2.1.imp (fun hab => Nat.ne_of_lt hab)
    obtain ⟨h1, h2⟩ := hnd hnodup
    exact ⟨hf.1, hperm, h1, h2, hu, hun, fun hg => by rw [← (hf.2.2.2.2.2 hg).1]; exact hperm⟩

/-! ## the platform sets are those of the reference preprocessor -/

/-- every compile command of the configuration is a unit the ISO C reference machine accepts silently (no structural
    diagnostic, no unterminated `#if`, no macro redefinition) — the hypothesis of `C01.analyseNodes_eq_reference` -/
def RefAcceptsAll (files : List SrcFile) (plats : List Plat) : Prop :=
  ∀ f ∈ files, ∀ p, parseSrc f.text = .ok p → ∀ pl ∈ plats, ∀ e ∈ pl.entries, e.file = f.path →
    refAccepts p.pnodes e.defs = true

/-- **platform_sets_are_reference.**  For distinct file names and a configuration whose units the reference accepts: the
    platform set of the j-th node of every file is exactly the list of platforms having a compile command for that file under
    whose `-D` list the ISO C reference machine (`PP.referenceNodes`: flat conditional stack, C's `#define`) does not skip
    node j.  (From `C01.analyseNodes_eq_reference`, for every entry of every platform.) -/
theorem platform_sets_are_reference (files : List SrcFile) (plats : List Plat) (fs : List FileRec)
    (h : analyse files plats = .ok fs) (hnd : (files.map (·.path)).Nodup) (hacc : RefAcceptsAll files plats) :
    List.Forall₂ (fun f r => ∃ p, parseSrc f.text = .ok p ∧ r.nodes.length = p.nodes.length ∧
        p.pnodes.length = p.nodes.length ∧
        r.nodes.map (·.plats) = (List.range p.nodes.length).map (specPlats plats f.path p.pnodes)) files fs := by
  obtain ⟨ps, pr, hpr, hp⟩ := analyse_pairs files plats fs h
  refine hp.imp ?_
  rintro f r ⟨p, hm, hparse, rfl⟩
  have hf : f ∈ files := (List.of_mem_zip hm).1
  have hl := lookup_of_mem files ps f p hnd hm
  refine ⟨p, hparse, ?_, ?_, ?_⟩
  · show (nodeRecs pr f.path p.nodes).length = _
    unfold nodeRecs; simp
  · obtain ⟨_, _, _, hfa, _⟩ := parseSrc_ok f.text p hparse
    exact hfa.length_eq.symm
  · show (nodeRecs pr f.path p.nodes).map (·.plats) = _
    rw [nodeRecs_plats]
    apply List.map_congr_left
    intro j _
    exact platsOf_ref files ps f.path p hl j plats pr hpr (fun pl hpl e he hef => hacc f hf p hparse pl hpl e he hef)

/-- **used_iff_reference_keeps.**  Under the same hypotheses, in the coverage record of every file a line is listed as USED
    iff it is a line of a node that some platform's reference preprocessor run does not skip: there is a platform with a
    compile command for the file under whose `-D` list the ISO C reference machine keeps the node. -/
theorem used_iff_reference_keeps (files : List SrcFile) (plats : List Plat) (fs : List FileRec)
    (h : analyse files plats = .ok fs) (hnd : (files.map (·.path)).Nodup) (hacc : RefAcceptsAll files plats) :
    List.Forall₂ (fun f r => ∃ p, parseSrc f.text = .ok p ∧
      ∀ l, l ∈ (CbiVerif.Cov.split r.nodes).used ↔
        ∃ j nd, p.nodes[j]? = some nd ∧ l ∈ nd.lines ∧
          ∃ pl ∈ plats, ∃ e ∈ pl.entries, e.file = f.path ∧ refKeeps p.pnodes e.defs j = true) files fs := by
  obtain ⟨ps, pr, hpr, hp⟩ := analyse_pairs files plats fs h
  refine hp.imp ?_
  rintro f r ⟨p, hm, hparse, rfl⟩
  have hf : f ∈ files := (List.of_mem_zip hm).1
  have hl := lookup_of_mem files ps f p hnd hm
  refine ⟨p, hparse, fun l => ?_⟩
  rw [(lines_partition (mkRec pr (f, p)).nodes).2.1 l]
  show (∃ n ∈ nodeRecs pr f.path p.nodes, l ∈ n.lines ∧ n.plats ≠ []) ↔ _
  have hplats : ∀ j, platsOf pr f.path j = specPlats plats f.path p.pnodes j := fun j =>
    platsOf_ref files ps f.path p hl j plats pr hpr (fun pl hpl e he hef => hacc f hf p hparse pl hpl e he hef)
  have hne : ∀ j, specPlats plats f.path p.pnodes j ≠ [] ↔
      ∃ pl ∈ plats, ∃ e ∈ pl.entries, e.file = f.path ∧ refKeeps p.pnodes e.defs j = true := by
    intro j
    unfold specPlats
    simp only [ne_eq, List.map_eq_nil_iff, List.filter_eq_nil_iff, List.any_eq_true, Bool.and_eq_true, beq_iff_eq,
      not_forall, Classical.not_not, exists_prop]
  unfold nodeRecs
  constructor
  · rintro ⟨n, hn, hln, hpl⟩
    obtain ⟨x, hx, rfl⟩ := List.mem_map.mp hn
    obtain ⟨nd, j⟩ := x
    have hget : p.nodes[j]? = some nd := by
      have := List.mem_zipIdx_iff_getElem?.mp hx
      simpa using this
    exact ⟨j, nd, hget, hln, (hne j).mp (by rw [← hplats j]; exact hpl)⟩
  · rintro ⟨j, nd, hget, hln, hex⟩
    refine ⟨⟨platsOf pr f.path j, nd.numLines, nd.lines⟩, ?_, hln, ?_⟩
    · apply List.mem_map.mpr
      exact ⟨(nd, j), List.mem_zipIdx_iff_getElem?.mpr (by simpa using hget), rfl⟩
    · show platsOf pr f.path j ≠ []
      rw [hplats j]; exact (hne j).mpr hex

/-- **line_attribution_is_reference.**  For distinct file names, a configuration whose units the reference accepts, and every
    file whose text is inside C05's guard: the per-line attribution of the record (`SM.lineAttr`, the list `setmap_lines` /
    `specCount` count over) is EXACTLY the attribution written from the two specifications alone (`specLineAttr`): every
    line the C05 specification counts, once, with the platforms whose ISO C reference run keeps the specification's node
    it belongs to.  Hence every row of the setmap is the number of such lines with exactly that platform list. -/
theorem line_attribution_is_reference (files : List SrcFile) (plats : List Plat) (fs : List FileRec)
    (h : analyse files plats = .ok fs) (hnd : (files.map (·.path)).Nodup) (hacc : RefAcceptsAll files plats) :
    List.Forall₂ (fun (f : SrcFile) (r : FileRec) => ∃ p, parseSrc f.text = .ok p ∧
        (C06C.guard f.text = true → lineAttr r = specLineAttr plats f p.pnodes)) files fs := by
  obtain ⟨ps, pr, hpr, hp⟩ := analyse_pairs files plats fs h
  refine hp.imp ?_
  rintro f r ⟨p, hm, hparse, rfl⟩
  have hf : f ∈ files := (List.of_mem_zip hm).1
  have hl := lookup_of_mem files ps f p hnd hm
  refine ⟨p, hparse, fun hg => ?_⟩
  obtain ⟨hwf, hk1, hk2⟩ := (guard_iff f.text).mp hg
  obtain ⟨r0, hpf, hn, _, _⟩ := parseSrc_ok f.text p hparse
  obtain ⟨hnodes, _, _⟩ := CbiVerif.C05.nodes_of_ok f.text hwf hk1 hk2 r0 hpf
  rw [hn] at hnodes
  have hplats : ∀ j, platsOf pr f.path j = specPlats plats f.path p.pnodes j := fun j =>
    platsOf_ref files ps f.path p hl j plats pr hpr (fun pl hpl e he hef => hacc f hf p hparse pl hpl e he hef)
  unfold specLineAttr
  rw [← hnodes, List.zipIdx_map, List.flatMap_map]
  show (nodeRecs pr f.path p.nodes).flatMap (fun n => n.lines.map fun l => (l, n.plats)) = _
  unfold nodeRecs
  rw [List.flatMap_map]
  simp only [Prod.map, id, hplats]

/-- **setmap_rows_are_reference_counts.**  … and when every text is inside the guard, the row of platform set `k` in
    `get_setmap` of the texts is the number of (file, counted line) pairs whose reference attribution is exactly `k`. -/
theorem setmap_rows_are_reference_counts (files : List SrcFile) (plats : List Plat) (fs : List FileRec)
    (h : analyse files plats = .ok fs) (hnd : (files.map (·.path)).Nodup) (hacc : RefAcceptsAll files plats)
    (hg : ∀ f ∈ files, C06C.guard f.text = true) (k : Key) :
    ∃ ps, List.Forall₂ (fun (f : SrcFile) (p : Parsed) => parseSrc f.text = .ok p) files ps ∧
      get (getSetmap fs) k =
        ((files.zip ps).map fun x => (specLineAttr plats x.1 x.2.pnodes).countP fun y => y.2 = k).sum := by
  have hrow := (setmap_total_is_sloc_of_text files plats fs h).2.1
  have hff := file_lines_counted_once files plats fs h
  have hla := line_attribution_is_reference files plats fs h hnd hacc
  have hl : fs.filter (fun r => !r.link) = fs := by
    apply List.filter_eq_self.mpr
    intro r hr
    obtain ⟨f, _, hf⟩ := forall₂_right hff r hr
    simp [hf.2.1]
  rw [hrow k]
  unfold specCount allLines
  rw [hl, countP_flatMap_sum]
  clear hrow hff hl h hnd hacc
  induction hla with
  | nil => exact ⟨[], .nil, rfl⟩
  | @cons f r files fs hfr _ ih =>
    obtain ⟨p, hp, hattr⟩ := hfr
    obtain ⟨ps, hps, hsum⟩ := ih (fun f' hf' => hg f' (List.mem_cons_of_mem _ hf'))
    refine ⟨p :: ps, .cons hp hps, ?_⟩
    simp only [List.map_cons, List.sum_cons, List.zip_cons_cons]
    rw [hsum, hattr (hg f List.mem_cons_self)]

/-! ## non-vacuity (kernel-checked): a two-file code base, two platforms, three compile commands -/

/-- decidable form of `RefAcceptsAll` -/
def refAcceptsAllb (files : List SrcFile) (plats : List Plat) : Bool :=
  files.all fun f =>
    match parseSrc f.text with
    | .ok p => plats.all fun pl => pl.entries.all fun e => !(e.file == f.path) || refAccepts p.pnodes e.defs
    | .error _ => true

theorem refAcceptsAll_of_b (files : List SrcFile) (plats : List Plat) (h : refAcceptsAllb files plats = true) :
    RefAcceptsAll files plats := by
  intro f hf p hp pl hpl e he hef
  unfold refAcceptsAllb at h
  have h1 := List.all_eq_true.mp h f hf
  simp only [hp] at h1
  have h2 := List.all_eq_true.mp (List.all_eq_true.mp h1 pl hpl) e he
  simpa [hef] using h2

/-- `src/a.c`: a comment on a code line, an `#ifdef/#else` whose else branch is a continued line, a line comment, an
    `#if B==2`; `u.h`: no platform compiles it, one blank line -/
def exSrc : List SrcFile :=
  [⟨["src", "a.c"], "int a; /* c */\n#ifdef A\nint b;\n#else\nint c; \\\n  int d;\n#endif\n// x\n#if B==2\nint e;\n#endif\n".toList⟩,
   ⟨["u.h"], "int u;\n\nint v;\n".toList⟩]

def exPlats : List Plat :=
  [⟨"cpu", [⟨["src", "a.c"], ["A"]⟩]⟩, ⟨"gpu", [⟨["src", "a.c"], ["B=2"]⟩, ⟨["src", "a.c"], ["A=1"]⟩]⟩]

/-- the hypotheses of all theorems above hold on it (the analysis does not raise, both texts are inside C05's guard, file names
    are distinct, the reference accepts all three units), and the result is not trivial: three platform sets, an unused file,
    an uncounted line inside a counted region -/
example :
    ((analyse exSrc exPlats).toOption.map fun fs => (getSetmap fs, (CbiVerif.Cov.compute fs).map fun x => (x.2.used, x.2.unused)))
      = some ([(["cpu", "gpu"], 7), (["gpu"], 3), ([], 2)], [([1, 2, 3, 4, 5, 6, 7, 9, 10, 11], []), ([], [1, 3])]) ∧
    (exSrc.all fun f => C06C.guard f.text) = true ∧ (exSrc.map (·.path)).Nodup ∧ refAcceptsAllb exSrc exPlats = true ∧
    (exSrc.map fun f => (CLexRef.countedLines f.text).length).sum = 12 := by
  decide +kernel

end CbiVerif.C06
