import Lean.Data.Json
import CbiVerif.Model.Metrics
/-! driver ops for C07 -/
open Lean
namespace CbiVerif.Drv.Metrics

def ratJson (r : Option Rat) : Json := match r with
  | none => Json.null
  | some q => Json.str (toString q.num ++ "/" ++ toString q.den)

def handleMetrics (j : Json) : Json :=
  let sm : CbiVerif.Metrics.Setmap := ((j.getObjValAs? (Array Json) "setmap").toOption.getD #[]).toList.map fun e =>
    match e with
    | Json.arr a => (((a[0]!).getArr?.toOption.getD #[]).toList.map (fun x => x.getStr?.toOption.getD ""), (a[1]!).getNat?.toOption.getD 0)
    | _ => ([], 0)
  let ps := ((j.getObjValAs? (Array String) "platforms").toOption.getD #[]).toList
  let plats := (CbiVerif.Metrics.platformsOf sm).mergeSort (fun a b => decide (a ≤ b))
  Json.mkObj [
    ("coverage", ratJson (CbiVerif.Metrics.coverage sm ps)),
    ("avg", ratJson (CbiVerif.Metrics.averageCoverage sm ps)),
    ("divergence", ratJson (CbiVerif.Metrics.divergence sm)),
    ("plats", Json.arr (plats.map Json.str).toArray),
    ("matrix", Json.arr (plats.map fun p => Json.arr (plats.map fun q => ratJson (CbiVerif.Metrics.distance sm p q)).toArray).toArray)]


def handlers : List (String × (Json → Json)) := [("metrics", handleMetrics)]

end CbiVerif.Drv.Metrics
