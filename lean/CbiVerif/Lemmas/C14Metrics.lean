import CbiVerif.Lemmas.C14Compose
import CbiVerif.Lemmas.OrderSort
import CbiVerif.Model.C14Metrics
/-!
Helper lemmas for `Props/C14Metrics.lean`, part 1 (law-free floats): the metric functions of `Model/Order.lean` read a key as a
SET, so re-listing every key of a dict (`ren σ` with `σ k ~ k`) changes none of them; readings of `setmapOfTexts`.
-/
namespace CbiVerif.C14C
open CbiVerif.SM CbiVerif.C06C

section ren
variable (σ : Key → Key) (sm : Setmap) (hperm : ∀ e ∈ sm, (σ e.1).Perm e.1)
include hperm

/-- a conditional sum whose condition reads the key as a set -/
theorem condSum_ren (w : Key → Bool) (hw : ∀ a b : Key, a.Perm b → w a = w b) :
    ((sm.map (ren σ)).map fun e => if w e.1 then e.2 else 0).sum = (sm.map fun e => if w e.1 then e.2 else 0).sum := by
  rw [List.map_map]
  congr 1
  apply List.map_congr_left
  intro e he
  simp only [Function.comp, ren, hw _ _ (hperm e he)]

theorem unionCount_ren (p q : String) : Order.unionCount (sm.map (ren σ)) p q = Order.unionCount sm p q :=
  condSum_ren σ sm hperm (fun k => k.contains p || k.contains q) (fun _ _ h => by rw [h.contains_eq, h.contains_eq])

theorem xorCount_ren (p q : String) : Order.xorCount (sm.map (ren σ)) p q = Order.xorCount sm p q :=
  condSum_ren σ sm hperm (fun k => (k.contains p) != (k.contains q)) (fun _ _ h => by rw [h.contains_eq, h.contains_eq])

theorem usedBy_ren (ps : List String) : Order.usedBy (sm.map (ren σ)) ps = Order.usedBy sm ps :=
  condSum_ren σ sm hperm (fun k => k.any fun p => ps.contains p) (fun _ _ h => h.any_eq)

omit hperm in
theorem total_ren : Order.total (sm.map (ren σ)) = Order.total sm := by
  unfold Order.total; simp [List.map_map, Function.comp_def, ren]

theorem platformSet_ren (x : String) : x ∈ platformSet (sm.map (ren σ)) ↔ x ∈ platformSet sm := by
  unfold platformSet
  simp only [List.mem_flatMap, List.mem_map]
  constructor
  · rintro ⟨_, ⟨e, he, rfl⟩, hx⟩; exact ⟨e, he, (hperm e he).mem_iff.mp hx⟩
  · rintro ⟨e, he, hx⟩; exact ⟨ren σ e, ⟨e, he, rfl⟩, (hperm e he).mem_iff.mpr hx⟩

theorem platformsSorted_ren : Order.platformsSorted (sm.map (ren σ)) = Order.platformsSorted sm :=
  Order.canon_congr (platformSet_ren σ sm hperm)

variable {F : Type} (ops : Order.FloatOps F)

theorem distance_ren (p q : String) : Order.distance ops (sm.map (ren σ)) p q = Order.distance ops sm p q := by
  unfold Order.distance; rw [unionCount_ren σ sm hperm, xorCount_ren σ sm hperm]

theorem divergence_ren : Order.divergence ops (sm.map (ren σ)) = Order.divergence ops sm := by
  unfold Order.divergence Order.divergenceOn
  rw [platformsSorted_ren σ sm hperm]
  have : ∀ pq : String × String, Order.distance ops (sm.map (ren σ)) pq.1 pq.2 = Order.distance ops sm pq.1 pq.2 :=
    fun pq => distance_ren σ sm hperm ops pq.1 pq.2
  simp only [this]

theorem coverageOf_ren (ps : List String) : Order.coverageOf ops (sm.map (ren σ)) ps = Order.coverageOf ops sm ps := by
  unfold Order.coverageOf; rw [total_ren, usedBy_ren σ sm hperm]

theorem averageCoverage_ren {o o' : List String} (ho : ∀ x, x ∈ o ↔ x ∈ o') :
    Order.averageCoverage ops (sm.map (ren σ)) o = Order.averageCoverage ops sm o' := by
  unfold Order.averageCoverage Order.averageCoverageOn
  rw [Order.canon_congr ho]
  have : ∀ p : String, Order.coverageOf ops (sm.map (ren σ)) [p] = Order.coverageOf ops sm [p] :=
    fun p => coverageOf_ren σ sm hperm ops [p]
  simp only [this]

/-- the four metric lines of a dict do not change when every key is listed in another order -/
theorem metricsOf_ren : metricsOf ops (sm.map (ren σ)) = metricsOf ops sm := by
  unfold metricsOf Order.metricLines Order.coverage
  rw [divergence_ren σ sm hperm, platformsSorted_ren σ sm hperm, coverageOf_ren σ sm hperm,
    averageCoverage_ren σ sm hperm ops (platformSet_ren σ sm hperm), total_ren]

/-- … nor does the distance matrix -/
theorem distanceMatrix_ren : Order.distanceMatrix ops (sm.map (ren σ)) = Order.distanceMatrix ops sm := by
  unfold Order.distanceMatrix
  rw [platformsSorted_ren σ sm hperm]
  have : ∀ p q, Order.distance ops (sm.map (ren σ)) p q = Order.distance ops sm p q := distance_ren σ sm hperm ops
  simp only [this]

end ren

/-! ## readings of `setmapOfTexts` -/

theorem setmapOfTexts_closed (files : List SrcFile) (plats : List Plat) (h : Good files plats) :
    setmapOfTexts files plats = .ok (getSetmap (closed files plats)) := by
  unfold setmapOfTexts; rw [analyse_closed files plats h]

theorem readTexts_good {β : Type} (g : Setmap → β) (files : List SrcFile) (plats : List Plat) (h : Good files plats) :
    readTexts g files plats = some (g (getSetmap (closed files plats))) := by
  unfold readTexts; rw [setmapOfTexts_closed files plats h]

theorem readTexts_bad {β : Type} (g : Setmap → β) (files : List SrcFile) (plats : List Plat) (h : ¬ Good files plats) :
    readTexts g files plats = none := by
  unfold readTexts setmapOfTexts
  cases ha : analyse files plats with
  | error e => rfl
  | ok fs => exact absurd ((analyse_iff files plats fs).mp ha).1 h

theorem readTexts_eq_of_good {β : Type} (g : Setmap → β) {files files' : List SrcFile} {plats plats' : List Plat}
    (hg : Good files plats ↔ Good files' plats')
    (hc : Good files plats → Good files' plats' → g (getSetmap (closed files plats)) = g (getSetmap (closed files' plats'))) :
    readTexts g files plats = readTexts g files' plats' := by
  by_cases h : Good files plats
  · rw [readTexts_good g _ _ h, readTexts_good g _ _ (hg.mp h), hc h (hg.mp h)]
  · rw [readTexts_bad g _ _ h, readTexts_bad g _ _ (fun x => h (hg.mpr x))]

end CbiVerif.C14C
