import CbiVerif.Model.CodeBase
/-! Helper lemmas for C09 / C15: the two path walks over the file-system model. -/
namespace CbiVerif.FS
open CbiVerif.Path

/-! ## `allFrom` -/
theorem eq_nil_or_snoc {α : Type} (l : List α) : l = [] ∨ ∃ l' b, l = l' ++ [b] := by
  rcases List.eq_nil_or_concat l with h | ⟨t, x, h⟩
  · exact Or.inl h
  · exact Or.inr ⟨t, x, by rw [h, List.concat_eq_append]⟩
theorem allFrom_append (fs : FS) (ok : Option Entry → Bool) :
    ∀ (a pre b : Comps), allFrom fs ok pre (a ++ b) = (allFrom fs ok pre a && allFrom fs ok (pre ++ a) b) := by
  intro a
  induction a with
  | nil => intro pre b; simp [allFrom]
  | cons x xs ih =>
    intro pre b
    simp only [List.cons_append, allFrom, ih]
    rw [show pre ++ [x] ++ xs = pre ++ x :: xs by simp]
    simp [Bool.and_assoc]

theorem allFrom_snoc (fs : FS) (ok : Option Entry → Bool) (s pre : Comps) (nm : String) :
    allFrom fs ok pre (s ++ [nm]) = (allFrom fs ok pre s && (nm != ".." && ok (lstat fs (pre ++ s ++ [nm])))) := by
  rw [allFrom_append]; simp [allFrom]

theorem allFrom_dropLast (fs : FS) (ok : Option Entry → Bool) (pre s : Comps)
    (h : allFrom fs ok pre s = true) : allFrom fs ok pre s.dropLast = true := by
  rcases eq_nil_or_snoc s with rfl | ⟨t, x, rfl⟩
  · simpa using h
  · rw [List.dropLast_concat]; rw [allFrom_snoc] at h; simp at h; exact h.1

theorem allFrom_last (fs : FS) (ok : Option Entry → Bool) (s : Comps) (nm : String)
    (h : allFrom fs ok [] (s ++ [nm]) = true) : nm ≠ ".." ∧ ok (lstat fs (s ++ [nm])) = true := by
  rw [allFrom_snoc] at h; simp at h; exact h.2

theorem allFrom_mono (fs : FS) (ok ok' : Option Entry → Bool) (himp : ∀ e, ok e = true → ok' e = true) :
    ∀ (s pre : Comps), allFrom fs ok pre s = true → allFrom fs ok' pre s = true := by
  intro s
  induction s with
  | nil => intro pre _; rfl
  | cons x xs ih =>
    intro pre h
    simp only [allFrom, Bool.and_eq_true] at h ⊢
    exact ⟨⟨h.1.1, himp _ h.1.2⟩, ih _ h.2⟩

/-! ## small facts about the entry tests -/

theorem isDirE_iff (x : Option Entry) : isDirE x = true ↔ x = some .dir := by
  cases x with
  | none => simp [isDirE]
  | some e => cases e <;> simp [isDirE]

theorem isFileE_iff (x : Option Entry) : isFileE x = true ↔ x = some .file := by
  cases x with
  | none => simp [isFileE]
  | some e => cases e <;> simp [isFileE]

theorem lstat_nil (fs : FS) : lstat fs [] = some .dir := by simp [lstat]

theorem dirPath_nil (fs : FS) : dirPath fs [] = true := rfl

theorem linkFree_nil (fs : FS) : linkFree fs [] = true := rfl

theorem dirPath_snoc (fs : FS) (d : Comps) (nm : String) :
    dirPath fs (d ++ [nm]) = (dirPath fs d && (nm != ".." && isDirE (lstat fs (d ++ [nm])))) := by
  unfold dirPath; rw [allFrom_snoc]; simp

theorem linkFree_snoc (fs : FS) (d : Comps) (nm : String) :
    linkFree fs (d ++ [nm]) = (linkFree fs d && (nm != ".." && notLinkE (lstat fs (d ++ [nm])))) := by
  unfold linkFree; rw [allFrom_snoc]; simp

theorem name_snoc (d : Comps) (nm : String) : name (d ++ [nm]) = nm := by
  simp [name]

theorem canon_snoc (fs : FS) (d : Comps) (nm : String) :
    canon fs (d ++ [nm]) =
      (dirPath fs d && (nm != ".." && (isDirE (lstat fs (d ++ [nm])) || isFileE (lstat fs (d ++ [nm]))))) := by
  have he : (d ++ [nm]).isEmpty = false := by cases d <;> rfl
  simp [canon, name_snoc, he]

theorem canon_nil (fs : FS) : canon fs [] = true := by simp [canon, dirPath_nil]

theorem canon_of_dirPath (fs : FS) (c : Comps) (h : dirPath fs c = true) : canon fs c = true := by
  rcases eq_nil_or_snoc c with rfl | ⟨d, nm, rfl⟩
  · exact canon_nil fs
  · rw [dirPath_snoc] at h; simp only [Bool.and_eq_true] at h
    rw [canon_snoc]; simp [h.1, h.2.1, h.2.2]

theorem start_dirPath (fs : FS) (cwd : Comps) (p : P) (h : dirPath fs cwd = true) : dirPath fs (start cwd p) = true := by
  unfold start; split
  · rfl
  · exact h

theorem start_linkFree (fs : FS) (cwd : Comps) (p : P) (h : linkFree fs cwd = true) : linkFree fs (start cwd p) = true := by
  unfold start; split
  · rfl
  · exact h

/-! ## the OS walk and the `realpath` walk -/

theorem namei_realpath_ok (fs : FS) : ∀ (n : Nat) (cur rest c : Comps),
    namei fs n cur rest = .ok c → realpath fs n cur rest = .ok c := by
  intro n
  induction n with
  | zero => intro cur rest c h; simp [namei] at h
  | succ n ih =>
    intro cur rest c h
    cases rest with
    | nil => simpa [namei, realpath] using h
    | cons nm rest =>
      simp only [namei] at h
      simp only [realpath]
      by_cases hnm : nm = ".."
      · simp only [hnm, if_true] at h ⊢; exact ih _ _ _ h
      · simp only [hnm, if_false] at h ⊢
        cases hl : lstat fs (cur ++ [nm]) with
        | none => simp [hl] at h
        | some e =>
          cases e with
          | file =>
            simp only [hl] at h ⊢
            by_cases hr : rest = []
            · subst hr; simp only [if_true] at h; exact ih _ _ _ h
            · simp [hr] at h
          | dir => simp only [hl] at h ⊢; exact ih _ _ _ h
          | link t => simp only [hl] at h ⊢; exact ih _ _ _ h

theorem namei_realpath_loop (fs : FS) : ∀ (n : Nat) (cur rest : Comps),
    namei fs n cur rest = .loop → realpath fs n cur rest = .loop := by
  intro n
  induction n with
  | zero => intro cur rest h; simp [realpath]
  | succ n ih =>
    intro cur rest h
    cases rest with
    | nil => simp [namei] at h
    | cons nm rest =>
      simp only [namei] at h
      simp only [realpath]
      by_cases hnm : nm = ".."
      · simp only [hnm, if_true] at h ⊢; exact ih _ _ h
      · simp only [hnm, if_false] at h ⊢
        cases hl : lstat fs (cur ++ [nm]) with
        | none => simp [hl] at h
        | some e =>
          cases e with
          | file =>
            simp only [hl] at h ⊢
            by_cases hr : rest = []
            · subst hr; simp only [if_true] at h; exact ih _ _ h
            · simp [hr] at h
          | dir => simp only [hl] at h ⊢; exact ih _ _ h
          | link t => simp only [hl] at h ⊢; exact ih _ _ h

theorem realpath_ok_or_loop (fs : FS) : ∀ (n : Nat) (cur rest : Comps),
    (∃ r, realpath fs n cur rest = .ok r) ∨ realpath fs n cur rest = .loop := by
  intro n
  induction n with
  | zero => intro cur rest; right; simp [realpath]
  | succ n ih =>
    intro cur rest
    cases rest with
    | nil => left; exact ⟨cur, by simp [realpath]⟩
    | cons nm rest =>
      simp only [realpath]
      by_cases hnm : nm = ".."
      · simp only [hnm, if_true]; exact ih _ _
      · simp only [hnm, if_false]
        split
        · exact ih _ _
        · exact ih _ _

/-- the OS walk, started in a physical directory, ends at a canonical path -/
theorem namei_canon (fs : FS) : ∀ (n : Nat) (cur rest c : Comps),
    dirPath fs cur = true → namei fs n cur rest = .ok c → canon fs c = true := by
  intro n
  induction n with
  | zero => intro cur rest c _ h; simp [namei] at h
  | succ n ih =>
    intro cur rest c hd h
    cases rest with
    | nil =>
      simp only [namei, Res.ok.injEq] at h; subst h; exact canon_of_dirPath fs _ hd
    | cons nm rest =>
      simp only [namei] at h
      by_cases hnm : nm = ".."
      · simp only [hnm, if_true] at h
        exact ih _ _ _ (allFrom_dropLast _ _ _ _ hd) h
      · simp only [hnm, if_false] at h
        cases hl : lstat fs (cur ++ [nm]) with
        | none => simp [hl] at h
        | some e =>
          cases e with
          | file =>
            simp only [hl] at h
            by_cases hr : rest = []
            · subst hr; simp only [if_true] at h
              cases n with
              | zero => simp [namei] at h
              | succ m =>
                simp only [namei, Res.ok.injEq] at h; subst h
                rw [canon_snoc]; simp [hd, hnm, hl, isFileE]
            · simp [hr] at h
          | dir =>
            simp only [hl] at h
            refine ih _ _ _ ?_ h
            rw [dirPath_snoc]; simp [hd, hnm, hl, isDirE]
          | link t =>
            simp only [hl] at h
            exact ih _ _ _ (start_dirPath fs cur t hd) h

/-- walking down real directories costs one unit of fuel per component and nothing else happens -/
theorem namei_walk_dirs (fs : FS) : ∀ (a pre b : Comps) (n : Nat),
    allFrom fs isDirE pre a = true → namei fs (n + a.length) pre (a ++ b) = namei fs n (pre ++ a) b := by
  intro a
  induction a with
  | nil => intro pre b n _; simp
  | cons x xs ih =>
    intro pre b n h
    simp only [allFrom, Bool.and_eq_true] at h
    obtain ⟨⟨h1, h2⟩, h3⟩ := h
    have hx : x ≠ ".." := by simpa using h1
    rw [show n + (x :: xs).length = (n + xs.length) + 1 by simp only [List.length_cons]; omega]
    simp only [List.cons_append, namei, hx, if_false]
    rw [(isDirE_iff _).mp h2]
    simp only []
    rw [ih _ _ _ h3]; simp

/-- a canonical path resolves to itself -/
theorem namei_of_canon (fs : FS) (c : Comps) (n : Nat) (hc : canon fs c = true) (hn : c.length + 2 ≤ n) :
    namei fs n [] c = .ok c := by
  rcases eq_nil_or_snoc c with rfl | ⟨d, nm, rfl⟩
  · obtain ⟨k, rfl⟩ : ∃ k, n = k + 1 := ⟨n - 1, by simp at hn; omega⟩
    simp [namei]
  · rw [canon_snoc] at hc
    simp only [Bool.and_eq_true, Bool.or_eq_true] at hc
    obtain ⟨hd, hnm, hk⟩ := hc
    have hnm' : nm ≠ ".." := by simpa using hnm
    obtain ⟨k, rfl⟩ : ∃ k, n = (k + 2) + d.length := ⟨n - d.length - 2, by simp at hn; omega⟩
    rw [namei_walk_dirs fs d [] [nm] (k + 2) hd]
    simp only [List.nil_append, namei, hnm', if_false]
    rcases hk with hk | hk
    · rw [(isDirE_iff _).mp hk]
    · rw [(isFileE_iff _).mp hk]; simp

/-- along a link-free path the OS walk cannot end anywhere else -/
theorem namei_linkFree_id (fs : FS) : ∀ (a pre c : Comps) (n : Nat),
    allFrom fs notLinkE pre a = true → namei fs n pre a = .ok c → c = pre ++ a := by
  intro a
  induction a with
  | nil =>
    intro pre c n _ h
    cases n with
    | zero => simp [namei] at h
    | succ n => simp only [namei, Res.ok.injEq] at h; simp [h]
  | cons x xs ih =>
    intro pre c n hall h
    simp only [allFrom, Bool.and_eq_true] at hall
    obtain ⟨⟨h1, h2⟩, h3⟩ := hall
    have hx : x ≠ ".." := by simpa using h1
    cases n with
    | zero => simp [namei] at h
    | succ n =>
      simp only [namei, hx, if_false] at h
      cases hl : lstat fs (pre ++ [x]) with
      | none => simp [hl] at h
      | some e =>
        cases e with
        | file =>
          simp only [hl] at h
          by_cases hr : xs = []
          · subst hr; simp only [if_true] at h
            have := ih (pre ++ [x]) c n h3 h
            simpa using this
          · simp [hr] at h
        | dir =>
          simp only [hl] at h
          have := ih (pre ++ [x]) c n h3 h
          simpa using this
        | link t => simp [hl, notLinkE] at h2

/-- `realpath` only ever returns link-free paths -/
theorem realpath_linkFree (fs : FS) : ∀ (n : Nat) (cur rest r : Comps),
    linkFree fs cur = true → realpath fs n cur rest = .ok r → linkFree fs r = true := by
  intro n
  induction n with
  | zero => intro cur rest r _ h; simp [realpath] at h
  | succ n ih =>
    intro cur rest r hd h
    cases rest with
    | nil => simp only [realpath, Res.ok.injEq] at h; subst h; exact hd
    | cons nm rest =>
      simp only [realpath] at h
      by_cases hnm : nm = ".."
      · simp only [hnm, if_true] at h
        exact ih _ _ _ (allFrom_dropLast _ _ _ _ hd) h
      · simp only [hnm, if_false] at h
        have hstep : ∀ e, lstat fs (cur ++ [nm]) = e → notLinkE e = true → linkFree fs (cur ++ [nm]) = true := by
          intro e he hne
          rw [linkFree_snoc]; simp [hd, hnm, he, hne]
        cases hl : lstat fs (cur ++ [nm]) with
        | none =>
          simp only [hl] at h
          exact ih _ _ _ (hstep _ hl rfl) h
        | some e =>
          cases e with
          | file => simp only [hl] at h; exact ih _ _ _ (hstep _ hl rfl) h
          | dir => simp only [hl] at h; exact ih _ _ _ (hstep _ hl rfl) h
          | link t => simp only [hl] at h; exact ih _ _ _ (start_linkFree fs cur t hd) h

theorem realpath_walk_linkFree (fs : FS) : ∀ (a pre b : Comps) (n : Nat),
    allFrom fs notLinkE pre a = true → realpath fs (n + a.length) pre (a ++ b) = realpath fs n (pre ++ a) b := by
  intro a
  induction a with
  | nil => intro pre b n _; simp
  | cons x xs ih =>
    intro pre b n h
    simp only [allFrom, Bool.and_eq_true] at h
    obtain ⟨⟨h1, h2⟩, h3⟩ := h
    have hx : x ≠ ".." := by simpa using h1
    rw [show n + (x :: xs).length = (n + xs.length) + 1 by simp only [List.length_cons]; omega]
    simp only [List.cons_append, realpath, hx, if_false]
    have hrec := ih (pre ++ [x]) b n h3
    rw [show pre ++ [x] ++ xs = pre ++ x :: xs by simp] at hrec
    cases hl : lstat fs (pre ++ [x]) with
    | none => simp only []; exact hrec
    | some e =>
      cases e with
      | file => simp only []; exact hrec
      | dir => simp only []; exact hrec
      | link t => simp [hl, notLinkE] at h2

/-- a link-free path is a fixed point of `realpath` -/
theorem realpath_of_linkFree (fs : FS) (r : Comps) (n : Nat) (hr : linkFree fs r = true) (hn : r.length + 1 ≤ n) :
    realpath fs n [] r = .ok r := by
  obtain ⟨k, rfl⟩ : ∃ k, n = (k + 1) + r.length := ⟨n - r.length - 1, by omega⟩
  have := realpath_walk_linkFree fs r [] [] (k + 1) hr
  simp only [List.append_nil, List.nil_append] at this
  rw [this]; simp [realpath]

theorem dirPath_linkFree (fs : FS) (c : Comps) (h : dirPath fs c = true) : linkFree fs c = true := by
  refine allFrom_mono fs isDirE notLinkE ?_ c [] h
  intro e he
  rw [(isDirE_iff _).mp he]; rfl

theorem canon_linkFree (fs : FS) (c : Comps) (h : canon fs c = true) : linkFree fs c = true := by
  rcases eq_nil_or_snoc c with rfl | ⟨d, nm, rfl⟩
  · rfl
  · rw [canon_snoc] at h
    simp only [Bool.and_eq_true, Bool.or_eq_true] at h
    obtain ⟨hd, hnm, hk⟩ := h
    rw [linkFree_snoc]
    simp only [Bool.and_eq_true]
    refine ⟨dirPath_linkFree fs d hd, hnm, ?_⟩
    rcases hk with hk | hk
    · rw [(isDirE_iff _).mp hk]; rfl
    · rw [(isFileE_iff _).mp hk]; rfl

/-- a canonical path is `/` or an entry of the file system holding a directory or a regular file -/
theorem canon_cases (fs : FS) (c : Comps) (h : canon fs c = true) :
    lstat fs c = some .dir ∨ lstat fs c = some .file := by
  rcases eq_nil_or_snoc c with rfl | ⟨d, nm, rfl⟩
  · exact Or.inl (lstat_nil fs)
  · rw [canon_snoc] at h
    simp only [Bool.and_eq_true, Bool.or_eq_true] at h
    rcases h.2.2 with hk | hk
    · exact Or.inl ((isDirE_iff _).mp hk)
    · exact Or.inr ((isFileE_iff _).mp hk)

theorem canon_dir_dirPath (fs : FS) (c : Comps) (h : canon fs c = true) (hd : lstat fs c = some .dir) :
    dirPath fs c = true := by
  rcases eq_nil_or_snoc c with rfl | ⟨d, nm, rfl⟩
  · rfl
  · rw [canon_snoc] at h
    simp only [Bool.and_eq_true, Bool.or_eq_true] at h
    rw [dirPath_snoc]; simp only [Bool.and_eq_true]
    exact ⟨h.1, h.2.1, by rw [hd]; rfl⟩

/-! ## well-formed file systems -/

theorem lookup_some_mem (fs : FS) (c : Comps) (e : Entry) (h : fs.lookup c = some e) : (c, e) ∈ fs := by
  induction fs with
  | nil => simp [List.lookup] at h
  | cons kv t ih =>
    obtain ⟨k, v⟩ := kv
    by_cases hk : c = k
    · subst hk; simp [List.lookup] at h; simp [h]
    · have hb : (c == k) = false := by simpa using hk
      simp only [List.lookup, hb] at h
      exact List.mem_cons_of_mem _ (ih h)

theorem lstat_mem (fs : FS) (c : Comps) (e : Entry) (hc : c ≠ []) (h : lstat fs c = some e) : (c, e) ∈ fs := by
  unfold lstat at h; simp only [hc, if_false] at h
  exact lookup_some_mem fs c e h

theorem lstat_mem_keys (fs : FS) (c : Comps) (e : Entry) (hc : c ≠ []) (h : lstat fs c = some e) : c ∈ keys fs := by
  have := lstat_mem fs c e hc h
  unfold keys
  exact List.mem_map.mpr ⟨(c, e), this, rfl⟩

theorem mem_keys_lstat (fs : FS) (c : Comps) (hc : c ∈ keys fs) (hne : c ≠ []) : ∃ e, lstat fs c = some e := by
  unfold lstat; simp only [hne, if_false]
  induction fs with
  | nil => simp [keys] at hc
  | cons kv t ih =>
    obtain ⟨k, v⟩ := kv
    by_cases hk : c = k
    · subst hk; exact ⟨v, by simp [List.lookup]⟩
    · have hb : (c == k) = false := by simpa using hk
      simp only [List.lookup, hb]
      apply ih
      simp only [keys, List.map_cons, List.mem_cons] at hc
      rcases hc with hc | hc
      · exact absurd hc hk
      · exact hc

theorem wf_entry (fs : FS) (hwf : wf fs = true) (c : Comps) (e : Entry) (hm : (c, e) ∈ fs) :
    c ≠ [] ∧ ".." ∉ c ∧ lstat fs c.dropLast = some .dir := by
  unfold wf at hwf
  simp only [Bool.and_eq_true, List.all_eq_true] at hwf
  have := hwf.2 (c, e) hm
  obtain ⟨⟨h1, h2⟩, h3⟩ := this
  refine ⟨by simpa using h1, by simpa using h2, (isDirE_iff _).mp h3⟩

theorem wf_keys_nodup (fs : FS) (hwf : wf fs = true) : (keys fs).Nodup := by
  unfold wf at hwf
  simp only [Bool.and_eq_true, decide_eq_true_eq] at hwf
  exact hwf.1

/-- in a well-formed file system whatever exists as a directory or a file has a canonical path -/
theorem wf_canon (fs : FS) (hwf : wf fs = true) : ∀ (c : Comps),
    (lstat fs c = some .dir ∨ lstat fs c = some .file) → canon fs c = true := by
  have key : ∀ (k : Nat) (c : Comps), c.length = k →
      (lstat fs c = some .dir ∨ lstat fs c = some .file) → canon fs c = true := by
    intro k
    induction k with
    | zero =>
      intro c hlen _
      have : c = [] := List.eq_nil_of_length_eq_zero hlen
      subst this; exact canon_nil fs
    | succ k ih =>
      intro c hlen h
      rcases eq_nil_or_snoc c with rfl | ⟨d, nm, rfl⟩
      · exact canon_nil fs
      · have hne : d ++ [nm] ≠ [] := by simp
        obtain ⟨e, he⟩ : ∃ e, lstat fs (d ++ [nm]) = some e := by
          rcases h with h | h <;> exact ⟨_, h⟩
        have hm := lstat_mem fs _ e hne he
        obtain ⟨_, hdd, hpar⟩ := wf_entry fs hwf _ e hm
        rw [List.dropLast_concat] at hpar
        have hdlen : d.length = k := by simp at hlen; omega
        have hcd := ih d hdlen (Or.inl hpar)
        have hdp := canon_dir_dirPath fs d hcd hpar
        have hnm : nm ≠ ".." := by
          intro hEq; apply hdd; simp [hEq]
        rw [canon_snoc]
        simp only [Bool.and_eq_true, Bool.or_eq_true]
        refine ⟨hdp, by simpa using hnm, ?_⟩
        rcases h with h | h
        · left; rw [h]; rfl
        · right; rw [h]; rfl
  intro c h
  exact key c.length c rfl h

theorem wf_key_ne_nil (fs : FS) (hwf : wf fs = true) (c : Comps) (hc : c ∈ keys fs) : c ≠ [] := by
  unfold keys at hc
  obtain ⟨⟨k, e⟩, hm, rfl⟩ := List.mem_map.mp hc
  exact (wf_entry fs hwf k e hm).1

/-- in a well-formed file system the parent of every entry (of any kind) is a physical directory -/
theorem wf_parent_dirPath (fs : FS) (hwf : wf fs = true) (c : Comps) (hc : c ∈ keys fs) :
    dirPath fs c.dropLast = true ∧ name c ≠ ".." := by
  unfold keys at hc
  obtain ⟨⟨k, e⟩, hm, rfl⟩ := List.mem_map.mp hc
  obtain ⟨hne, hdd, hpar⟩ := wf_entry fs hwf k e hm
  refine ⟨canon_dir_dirPath fs _ (wf_canon fs hwf _ (Or.inl hpar)) hpar, ?_⟩
  show name k ≠ ".."
  rcases eq_nil_or_snoc k with rfl | ⟨d, nm, rfl⟩
  · exact absurd rfl hne
  · rw [name_snoc]; intro hEq; apply hdd; simp [hEq]

end CbiVerif.FS
