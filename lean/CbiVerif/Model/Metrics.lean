/-!
Model of `codebasin/report.py`: `coverage`, `average_coverage`, `distance`,
`divergence`, `extract_platforms` — exact rational arithmetic (`Rat`), NaN as `none`.

A setmap is a list of (platform set, line count) entries in dict order; a
platform set is a list of names.  Everything here is core Lean (no imports) so
that it also runs in the native driver.
-/
namespace CbiVerif.Metrics

abbrev Setmap := List (List String × Nat)

/-- `sum(setmap.values())` -/
def total (sm : Setmap) : Nat := (sm.map (·.2)).sum

/-- lines whose platform set meets `ps` (`any(p in platforms for p in subset)`) -/
def usedBy (sm : Setmap) (ps : List String) : Nat :=
  (sm.map fun e => if e.1.any (fun p => ps.contains p) then e.2 else 0).sum

/-- `set().union(*setmap.keys())` / `extract_platforms` (order = first occurrence) -/
def platformsOf (sm : Setmap) : List String := (sm.flatMap (·.1)).eraseDups

/-- `if not platforms: platforms = all platforms` -/
def selected (sm : Setmap) (ps : List String) : List String :=
  if ps.isEmpty then platformsOf sm else ps

/-- value of `coverage` when it is defined -/
def coverage0 (sm : Setmap) (ps : List String) : Rat :=
  (usedBy sm ps : Rat) / (total sm : Rat) * 100

/-- `report.coverage(setmap, platforms)`; `none` = NaN -/
def coverage (sm : Setmap) (ps : List String) : Option Rat :=
  if total sm = 0 then none else some (coverage0 sm (selected sm ps))

/-- `report.average_coverage(setmap, platforms)` -/
def averageCoverage (sm : Setmap) (ps : List String) : Option Rat :=
  let ps := selected sm ps
  if ps.length = 0 ∨ total sm = 0 then none
  else some ((ps.map fun p => coverage0 sm [p]).sum / (ps.length : Rat))

def unionCount (sm : Setmap) (p q : String) : Nat :=
  (sm.map fun e => if e.1.contains p || e.1.contains q then e.2 else 0).sum
def xorCount (sm : Setmap) (p q : String) : Nat :=
  (sm.map fun e => if (e.1.contains p) != (e.1.contains q) then e.2 else 0).sum
def interCount (sm : Setmap) (p q : String) : Nat :=
  (sm.map fun e => if e.1.contains p && e.1.contains q then e.2 else 0).sum

/-- value of `distance` when it is defined -/
def distance0 (sm : Setmap) (p q : String) : Rat :=
  (xorCount sm p q : Rat) / (unionCount sm p q : Rat)

/-- `report.distance(setmap, p1, p2)`; `none` = NaN (no line used by either platform) -/
def distance (sm : Setmap) (p q : String) : Option Rat :=
  if unionCount sm p q = 0 then none else some (distance0 sm p q)

/-- sum of `d a b` over the unordered pairs of a list (`itertools.combinations(ps, 2)`) -/
def pairSum (d : String → String → Rat) : List String → Rat
  | [] => 0
  | a :: l => (l.map (d a)).sum + pairSum d l

/-- every pair has a defined distance (otherwise NaN propagates through the sum) -/
def pairsDefined (sm : Setmap) : List String → Bool
  | [] => true
  | a :: l => l.all (fun b => unionCount sm a b != 0) && pairsDefined sm l

def npairs (l : List String) : Nat := l.length * (l.length - 1) / 2

/-- `divergence` over an explicit (duplicate-free) platform list -/
def divergenceOn (sm : Setmap) (ps : List String) : Option Rat :=
  if npairs ps = 0 ∨ pairsDefined sm ps = false then none
  else some (pairSum (distance0 sm) ps / (npairs ps : Rat))

/-- `report.divergence(setmap)` (the code sorts the platforms; by `C07.divergence_perm`
the order is irrelevant for the exact value) -/
def divergence (sm : Setmap) : Option Rat := divergenceOn sm (platformsOf sm)

/-- multiply every count by `k` -/
def scale (k : Nat) (sm : Setmap) : Setmap := sm.map fun e => (e.1, k * e.2)
/-- rename platforms -/
def rename (f : String → String) (sm : Setmap) : Setmap := sm.map fun e => (e.1.map f, e.2)

end CbiVerif.Metrics
