import CbiVerif.Model.Tree
/-! # C01 model, part 2: `ParserState.associate` (codebasin/finder.py) + `Node.visit`

The pre-order visitor with the `branch_taken` stack.  It is generic in the world
state `Env` and in what evaluation does (`Sem Env`):
* `evalIf σ pay` = `IfNode/ElIfNode.evaluate_for_platform` (macro expansion + expression
  evaluation); it returns the truth value *and* a new world, so a raised exception is a
  sticky error flag inside `Env` and any other side effect of evaluation is covered;
* `exec σ pay` = `evaluate_for_platform` of a non-conditional directive
  (`#define`, `#undef`, `#pragma`, `#include`, unrecognised).
`out` is the list of node ids handed to `association[node].add(platform.name)`, in order.
`crash` = `branch_taken[-1]` / `branch_taken.pop()` on an empty list (IndexError): only
possible when the file starts with `#elif/#else/#endif` (see `Model/Tree.lean`).
Core Lean only. -/
namespace CbiVerif.Cond

structure AState (Env : Type) where
  σ : Env
  taken : List Bool := []           -- `branch_taken`, top first
  out : List Nat := []              -- ids attributed, in visit order
  crash : Bool := false

variable {Env : Type}

mutual
/-- `associator(node)` followed by the descent of `Node.visit` -/
def visit (M : Sem Env) (st : AState Env) : Tree → AState Env
  | .node l kids =>
    let st := { st with out := st.out ++ [l.id] }          -- association[node].add(platform.name)
    match l.kind with
    | .code => st                                          -- evaluate_for_platform = False, no children
    | .other => { st with σ := M.exec st.σ l.pay }
    | .endk =>
      match st.taken with
      | [] => { st with crash := true }                    -- pop from empty list
      | _ :: ts => { st with taken := ts }
    | .ifk =>
      let r := M.evalIf st.σ l.pay
      let st := { st with σ := r.2, taken := r.1 :: st.taken }
      if r.1 then visitList M st kids else st
    | .elifk =>
      match st.taken with
      | [] => { st with crash := true }                    -- branch_taken[-1] on empty list
      | t :: ts => if t then st else                       -- chain already decided: NEXT_SIBLING, not evaluated
          let r := M.evalIf st.σ l.pay
          let st := { st with σ := r.2, taken := r.1 :: ts }
          if r.1 then visitList M st kids else st
    | .elsek =>
      match st.taken with
      | [] => { st with crash := true }
      | t :: ts => if t then st else
          let st := { st with taken := true :: ts }
          visitList M st kids
def visitList (M : Sem Env) (st : AState Env) : List Tree → AState Env
  | [] => st
  | t :: ts => visitList M (visit M st t) ts
end

/-- The whole single-file pipeline after parsing: build the tree, visit it.
`none` = `SourceTree.insert` raised. -/
def model (M : Sem Env) (σ : Env) (ls : List Lbl) : Option (AState Env) :=
  (build ls).map fun ts => visitList M { σ := σ } ts

/-! ## `Platform.define` / `Platform.undefine` (codebasin/platform.py) -/
variable {B E : Type}

/-- `Platform.define`: "Define a new macro for this platform, only if it's not already
defined" — the FIRST definition is kept (a real preprocessor keeps the last). -/
def MWorld.defineCBI (w : MWorld B E) (n : String) (b : B) : MWorld B E :=
  match lookup w.tbl n with
  | none => { w with tbl := w.tbl ++ [(n, b)] }
  | some _ => w

/-- `evaluate_for_platform` of `DefineNode` / `UndefNode` / other directives; a raised
exception (`make_macro`) is the sticky `err`. -/
def MWorld.execCBI (L : Lang B E) (w : MWorld B E) (p : Nat) : MWorld B E :=
  match w.err with
  | some _ => w
  | none =>
    match L.act p with
    | .define n b => w.defineCBI n b
    | .undef n => w.undef n
    | .fail e => { w with err := some e }
    | .nop => w

/-- CBI's meaning of payloads: same expression evaluation, keep-first `#define` -/
def semCBI (L : Lang B E) : Sem (MWorld B E) := ⟨MWorld.evalIf L, MWorld.execCBI L⟩

end CbiVerif.Cond
