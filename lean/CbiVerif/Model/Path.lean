/-! # POSIX path algebra on component lists (C09, C13, C15)

Paths are what `pathlib.PurePosixPath` / `os.path` see: a flag "absolute" and the list of
components.  Core Lean only. -/
namespace CbiVerif.Path

abbrev Comps := List String

/-- a path as it is spelled: `comps` may contain `..`, never `""` or `"."` when produced by `ofString` -/
structure P where
  abs : Bool
  comps : Comps
deriving Repr, DecidableEq

/-- `Path(s)` and the component scan of `os.path.realpath`: split at `/`, drop empty components and `.` -/
def ofString (s : String) : P :=
  { abs := s.startsWith "/", comps := (s.splitOn "/").filter (fun c => c != "" && c != ".") }

/-- `str(path)` for a non-empty path (an empty relative path prints as "", pathlib prints ".") -/
def render (p : P) : String := (if p.abs then "/" else "") ++ "/".intercalate p.comps

def renderAbs (c : Comps) : String := "/" ++ "/".intercalate c

/-- `os.path.join(a, b)` -/
def join (a b : P) : P := if b.abs then b else { abs := a.abs, comps := a.comps ++ b.comps }

/-- the component loop of `os.path.normpath` (purely lexical `..` folding) -/
def normAux (isAbs : Bool) : Comps → Comps → Comps
  | acc, [] => acc
  | acc, c :: rest =>
    if c = ".." then
      if acc = [] then (if isAbs then normAux isAbs [] rest else normAux isAbs [".."] rest)
      else if acc.getLast? = some ".." then normAux isAbs (acc ++ [".."]) rest
      else normAux isAbs acc.dropLast rest
    else normAux isAbs (acc ++ [c]) rest

/-- `os.path.normpath` -/
def normpath (p : P) : P := { abs := p.abs, comps := normAux p.abs [] p.comps }

/-- `os.path.abspath` with the working directory `cwd` (lexical; symbolic links are not consulted) -/
def abspath (cwd : Comps) (p : P) : Comps := (normpath (join ⟨true, cwd⟩ p)).comps

/-- `PurePath.is_relative_to` for two absolute paths: a comparison of components, nothing else -/
def isRelativeTo (p root : Comps) : Bool := root.isPrefixOf p

/-- `PurePath.relative_to` (only used when `isRelativeTo` holds) -/
def relativeTo (p root : Comps) : Comps := p.drop root.length

/-- `PurePath.name` -/
def name (c : Comps) : String := c.getLast?.getD ""

/-- split the characters of a name at its last `.`: (stem, characters after the dot) -/
def splitLastDot (cs : List Char) : Option (List Char × List Char) :=
  match cs.reverse.span (fun ch => ch != '.') with
  | (_, []) => none
  | (revExt, _ :: revStem) => some (revStem.reverse, revExt.reverse)

/-- `PurePath(name).suffix` (CPython 3.12): the last dot must be neither the first nor the last character -/
def suffix (nm : String) : String :=
  match splitLastDot nm.toList with
  | none => ""
  | some (stem, ext) => if stem.isEmpty || ext.isEmpty then "" else String.ofList ('.' :: ext)

/-- a stem that consists of dots only (including the empty stem) -/
def dotsOnly (cs : List Char) : Bool := cs.all (fun ch => ch == '.')

/-- `os.path.splitext(name)[1]`: leading dots of the name never start an extension -/
def splitextExt (nm : String) : String :=
  match splitLastDot nm.toList with
  | none => ""
  | some (stem, ext) => if dotsOnly stem then "" else String.ofList ('.' :: ext)

/-- the names on which the two extension readings can differ while pathlib reports a non-empty suffix -/
def dotStem (nm : String) : Bool :=
  match splitLastDot nm.toList with
  | none => false
  | some (stem, _) => dotsOnly stem

end CbiVerif.Path
