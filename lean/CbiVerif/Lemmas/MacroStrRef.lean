import CbiVerif.Lemmas.MacroFunStep
/-! # C03, function-like macros with `#` / `##`: the recursive reference `RefS`

`RefS` is the reference `Ref` of `Lemmas/MacroFunRef.lean` with the plain parameter substitution `substRef` replaced by the model of
`MacroFunction.replace` itself (`MX.replaceFn`: the `#` / `##` pass `strcatPass` followed by `substArgs`), applied to the argument
list `process_args` builds (`argList`: an argument is macro-expanded on its own iff the macro marks it — an argument that is only
an operand of `#` / `##` is not).  Everything the stack machine adds — the stream stack, `splice`, the suspended loops of argument
pre-expansion, the disabled-name list, painting — is in `RefS` as plain recursion; what is left of `#` / `##` is the
non-recursive function `replaceFn`.

* `fitsbS d D ts`: the run described by `RefS` stays inside the fragment: as `fitsb`, and at every call the macro is not variadic
  and `replaceFn` succeeds (enough arguments, every `##` gives one token);
* `costS d D ts`: bound on the number of loop iterations.

Core Lean only. -/
namespace CbiVerif.MX
open CbiVerif.PP

/-- `MacroFunction.replace` on the collected arguments of a call; `none`: it raises -/
def replRef (m : Macro) (ex : List Tok → List Tok) (args : List (List Tok)) : Option (List Tok) :=
  match replaceFn m (argList m ex args 0) with
  | .ok r => some r
  | .error _ => none

def scanRefS (tbl : Table) (ex : NoExp → List Tok → List Tok) : Nat → NoExp → List Tok → List Tok
  | 0, _, ts => ts
  | _ + 1, _, [] => []
  | n + 1, D, t :: ts =>
    if t.kind != .ident then t :: scanRefS tbl ex n D ts
    else if !t.expandable || D.contains (some t.text) then paint t :: scanRefS tbl ex n D ts
    else
      match tbl.get t.text with
      | none => t :: scanRefS tbl ex n D ts
      | some m =>
        match m.args with
        | none => ex (some m.name :: D) (fixpw m.replacement t.pw) ++ scanRefS tbl ex n D ts
        | some _ =>
          match callOf ts with
          | none => t :: scanRefS tbl ex n D ts
          | some (args, rest) =>
            match replRef m (ex (none :: D)) args with
            | none => t :: scanRefS tbl ex n D ts
            | some repl => ex (some m.name :: D) (fixpw repl t.pw) ++ scanRefS tbl ex n D rest

/-- **the reference for macros with `#` / `##`** -/
def RefS (tbl : Table) : Nat → NoExp → List Tok → List Tok
  | 0, _, ts => ts
  | d + 1, D, ts => scanRefS tbl (RefS tbl d) ts.length D ts

def scanFitS (tbl : Table) (ex : NoExp → List Tok → List Tok) (fit : NoExp → List Tok → Bool) : Nat → NoExp → List Tok → Bool
  | 0, _, ts => ts.isEmpty
  | _ + 1, _, [] => true
  | n + 1, D, t :: ts =>
    t.text != "defined" &&
    (if t.kind != .ident then scanFitS tbl ex fit n D ts
     else if !t.expandable || D.contains (some t.text) then scanFitS tbl ex fit n D ts
     else
       match tbl.get t.text with
       | none => scanFitS tbl ex fit n D ts
       | some m =>
         match m.args with
         | none => fit (some m.name :: D) (fixpw m.replacement t.pw) && scanFitS tbl ex fit n D ts
         | some _ =>
           match callOf ts with
           | none => (match ts with | x :: _ => dtext x != "(" | [] => false) && scanFitS tbl ex fit n D ts
           | some (args, rest) =>
             match replRef m (ex (none :: D)) args with
             | none => false
             | some repl =>
               !m.variadic && args.all (fit (none :: D)) && fit (some m.name :: D) (fixpw repl t.pw) && scanFitS tbl ex fit n D rest)

/-- **the fragment** for macros with `#` / `##` -/
def fitsbS (tbl : Table) : Nat → NoExp → List Tok → Bool
  | 0, _, ts => ts.isEmpty
  | d + 1, D, ts => scanFitS tbl (RefS tbl d) (fitsbS tbl d) ts.length D ts

def scanCostS (tbl : Table) (ex : NoExp → List Tok → List Tok) (cost : NoExp → List Tok → Nat) : Nat → NoExp → List Tok → Nat
  | 0, _, _ => 0
  | _ + 1, _, [] => 0
  | n + 1, D, t :: ts =>
    if t.kind != .ident then 1 + scanCostS tbl ex cost n D ts
    else if !t.expandable || D.contains (some t.text) then 1 + scanCostS tbl ex cost n D ts
    else
      match tbl.get t.text with
      | none => 1 + scanCostS tbl ex cost n D ts
      | some m =>
        match m.args with
        | none => cost (some m.name :: D) (fixpw m.replacement t.pw) + 2 + scanCostS tbl ex cost n D ts
        | some _ =>
          match callOf ts with
          | none => 1 + scanCostS tbl ex cost n D ts
          | some (args, rest) =>
            match replRef m (ex (none :: D)) args with
            | none => 1 + scanCostS tbl ex cost n D ts
            | some repl =>
              (args.map fun a => cost (none :: D) a + 2).sum + cost (some m.name :: D) (fixpw repl t.pw) + 2 +
              scanCostS tbl ex cost n D rest

def costS (tbl : Table) : Nat → NoExp → List Tok → Nat
  | 0, _, _ => 0
  | d + 1, D, ts => scanCostS tbl (RefS tbl d) (costS tbl d) ts.length D ts

end CbiVerif.MX
