import Lean.Data.Json
import CbiVerif.Model.Compilers
import CbiVerif.Model.CompilersRe
import CbiVerif.Generated.Compilers
/-! driver ops for C12.  The compiler tables are sent as the JSON image of the parsed TOML, so the
    request for a user configuration is literally `tomllib.load(".cbi/config")`. -/
open Lean
namespace CbiVerif.Drv.Compilers
open CbiVerif.Compilers

def strs (e : Json) (k : String) : List String := ((e.getObjValAs? (Array String) k).toOption.getD #[]).toList
def optStr (e : Json) (k : String) : Option String := (e.getObjValAs? String k).toOption
def optStrs (e : Json) (k : String) : Option (List String) := ((e.getObjValAs? (Array String) k).toOption).map Array.toList
def optArr (e : Json) (k : String) : Option (List Json) := ((e.getObjValAs? (Array Json) k).toOption).map Array.toList

def decRule (r : Json) : Rule :=
  { flags := strs r "flags", action := (optStr r "action").getD "",
    dest := optStr r "dest", const := optStr r "const", sep := optStr r "sep", format := optStr r "format",
    pattern := optStr r "pattern",
    default := match r.getObjVal? "default" with
      | .ok (Json.str s) => some (.str s)
      | .ok (Json.arr a) => some (.list (a.toList.map fun x => x.getStr?.toOption.getD ""))
      | _ => none
    override := (r.getObjValAs? Bool "override").toOption }

def decMode (m : Json) : ModeDef :=
  { name := (optStr m "name").getD "", defines := strs m "defines", includePaths := strs m "include_paths",
    includeFiles := strs m "include_files" }
def decPass (m : Json) : PassDef := { toModeDef := decMode m, modes := strs m "modes" }

def decDef (d : Json) : Definition :=
  { aliasOf := optStr d "alias_of", options := optStrs d "options",
    parser := (optArr d "parser").map (·.map decRule),
    modes := (optArr d "modes").map (·.map decMode),
    passes := (optArr d "passes").map (·.map decPass) }

def decDefs (j : Json) (k : String) : List (String × Definition) :=
  ((optArr j k).getD []).map fun p => match p with
    | Json.arr a => ((a[0]!).getStr?.toOption.getD "", decDef a[1]!)
    | _ => ("", {})

def decUser (j : Json) : UserFile :=
  match j.getObjVal? "user" with
  | .ok u =>
    match optStr u "kind" with
    | some "broken" => .broken
    | some "nokey" => .noCompilerKey
    | some "defs" => .defs (decDefs u "defs")
    | _ => .absent
  | _ => .absent

def decMatches (j : Json) : List ((String × String) × List String) :=
  ((optArr j "matches").getD []).map fun e => match e with
    | Json.arr a => (((a[0]!).getStr?.toOption.getD "", (a[1]!).getStr?.toOption.getD ""),
                     ((a[2]!).getArr?.toOption.getD #[]).toList.map fun x => x.getStr?.toOption.getD "")
    | _ => (("", ""), [])

def jstrs (l : List String) : Json := Json.arr (l.map Json.str).toArray

def logJson : Log → Json
  | .notRecognized n => jstrs ["notRecognized", n]
  | .aliasLoop n => jstrs ["aliasLoop", n]
  | .aliasUnknown n a => jstrs ["aliasUnknown", n, a]
  | .unrecognizedArgs a => Json.arr #[Json.str "unrecognizedArgs", jstrs a]
  | .badPass p => jstrs ["badPass", p]
  | .badMode m => jstrs ["badMode", m]
  | .invalidConfig => jstrs ["invalidConfig"]
  | .redefinedAsAlias n a => jstrs ["redefinedAsAlias", n, a]
  | .overridesAlias n => jstrs ["overridesAlias", n]
  | .modeRedefined m => jstrs ["modeRedefined", m]
  | .passRedefined p => jstrs ["passRedefined", p]

def errJson : PErr → Json
  | .argumentError => "ArgumentError"
  | .systemExit => "SystemExit"
  | .keyError => "KeyError"
  | .valueError => "ValueError"
  | .attributeError => "AttributeError"
  | .conflict => "ArgumentError"
  | .unsupported w => Json.str ("unsupported:" ++ w)

def cfgJson (c : PPConfig) : Json :=
  Json.mkObj [("pass", c.passName), ("defines", jstrs c.defines), ("include_paths", jstrs c.includePaths),
              ("include_files", jstrs c.includeFiles)]

def modeJson (m : ModeDef) : Json :=
  Json.mkObj [("defines", jstrs m.defines), ("include_paths", jstrs m.includePaths), ("include_files", jstrs m.includeFiles)]

def compJson (c : Compiler) : Json :=
  Json.mkObj [("alias_of", match c.aliasOf with | some a => Json.str a | none => Json.null),
    ("options", jstrs c.options),
    ("parser", Json.arr (c.parser.map fun r => Json.mkObj [("flags", jstrs r.flags), ("action", r.action), ("dest", match r.dest with | some d => Json.str d | none => Json.null)]).toArray),
    ("modes", Json.arr (c.modes.map fun (k, m) => Json.arr #[Json.str k, modeJson m]).toArray),
    ("passes", Json.arr (c.passes.map fun (k, p) => Json.arr #[Json.str k, modeJson p.toModeDef, jstrs p.modes]).toArray)]

def resolvedKind : Resolved → Json
  | .found _ => "found"
  | .notRecognized => "notRecognized"
  | .loop => "loop"
  | .unknownTarget a => Json.arr #["unknownTarget", Json.str a]

/-- `re.findall` is computed by the model (`emulateRe` / `loadDatabaseRe`: `Model/Regex.lean`); "matches" is only
    consulted for patterns outside the supported fragment.
    {"op":"c12","user":{kind,defs},"builtin"?:[[[name,def]...]...],"matches":[[flag0,value,[..]]],
     "cmds":[{"argv0","argv","file"?, "filedir"?}], "dump"?:bool} -/
def handleC12 (j : Json) : Json :=
  let builtin : List (List (String × Definition)) :=
    match optArr j "builtin" with
    | some fs => fs.map fun f => match f with
        | Json.arr a => a.toList.map fun p => match p with
          | Json.arr q => ((q[0]!).getStr?.toOption.getD "", decDef q[1]!)
          | _ => ("", {})
        | _ => []
    | none => CbiVerif.Gen.Compilers.builtinFiles
  let mt := decMatches j
  let (cs, loadLogs) := loadCompilers builtin (decUser j)
  let cmds := (optArr j "cmds").getD []
  let results := cmds.map fun cj =>
    let argv0 := (optStr cj "argv0").getD ""
    let argv := strs cj "argv"
    let r := resolve cs argv0
    let base : List (String × Json) := [("resolved", resolvedKind r)]
    match emulateRe cs mt argv0 argv with
    | .error e => Json.mkObj (base ++ [("exc", errJson e)])
    | .ok (cfgs, logs) =>
      let cmd : CbiVerif.Compilers.Command := { file := (optStr cj "file").getD "", filedir := (optStr cj "filedir").getD "", argv0 := argv0, argv := argv }
      let es := entriesOf cmd cfgs
      Json.mkObj (base ++ [("ok", Json.arr (cfgs.map cfgJson).toArray),
        ("entries", Json.arr (es.map fun e => cfgJson e.cfg).toArray),
        ("logs", Json.arr (logs.map logJson).toArray)])
  -- `load_database` as one call over all commands (what `any_pass_attributes` is stated about)
  let allCmds : List CbiVerif.Compilers.Command := cmds.map fun cj =>
    { file := (optStr cj "file").getD "", filedir := (optStr cj "filedir").getD "", argv0 := (optStr cj "argv0").getD "", argv := strs cj "argv" }
  let db : List (String × Json) :=
    if (j.getObjValAs? Bool "db").toOption.getD false then
      match loadDatabaseRe cs mt allCmds with
      | .error e => [("db_exc", errJson e)]
      | .ok (es, logs) => [("db_entries", Json.arr (es.map fun e => Json.mkObj [("file", e.file), ("cfg", cfgJson e.cfg)]).toArray),
                           ("db_logs", Json.arr (logs.map logJson).toArray)]
    else []
  let dump : List (String × Json) :=
    if (j.getObjValAs? Bool "dump").toOption.getD false then
      [("map", Json.arr (cs.map fun (k, c) => Json.arr #[Json.str k, compJson c]).toArray)]
    else []
  Json.mkObj ([("load_logs", Json.arr (loadLogs.map logJson).toArray), ("results", Json.arr results.toArray)] ++ db ++ dump)

/-- {"op":"c12attr","nodes":[..],"config":[[platform,[entry id,..]],..],"uses":[[entry id,[node,..]],..]}
    → `attributeAll` with `uses` given as a table (observed on the real code one entry at a time) -/
def handleAttr (j : Json) : Json :=
  let nodes := strs j "nodes"
  let pairList (k : String) : List (String × List String) := ((optArr j k).getD []).map fun e => match e with
    | Json.arr a => ((a[0]!).getStr?.toOption.getD "", ((a[1]!).getArr?.toOption.getD #[]).toList.map fun x => x.getStr?.toOption.getD "")
    | _ => ("", [])
  let usesTab := pairList "uses"
  let config : List (String × List Entry) := (pairList "config").map fun (p, ids) => (p, ids.map fun i => (⟨i, default⟩ : Entry))
  let uses (e : Entry) (n : String) : Bool := match lookup usesTab e.file with | some ns => ns.contains n | none => false
  let res := attributeAll uses nodes config
  Json.mkObj [("pairs", Json.arr (res.map fun (n, p) => Json.arr #[Json.str n, Json.str p]).toArray)]

def handlers : List (String × (Json → Json)) := [("c12", handleC12), ("c12attr", handleAttr)]

end CbiVerif.Drv.Compilers
