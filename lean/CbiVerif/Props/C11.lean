import CbiVerif.Lemmas.Argv
import CbiVerif.Lemmas.Shlex
import CbiVerif.Lemmas.Extract
/-! # C11 — the options `-D`, `-I`, `-isystem`, `-include` are extracted from any command line, robustly

Objects:
* `Argparse.argparseModel` — the model of `config.ArgumentParser(<compiler>).parse_args(argv)`
  (CPython 3.12 `argparse` subset, driven by `Generated/ArgTable.lean`); the driver op `c11` runs it
  against the real code;
* `Extract.extract` — the property-level extractor (left-to-right scan);
* `Extract.Tame` — decidable: the command line is complete and shows none of the recorded shapes
  D21 / D22 / D23 / D36 (`Extract.classes argv = []`);
* `Shlex.commandArguments`, `ShellQuote.shellJoin` — `shlex.split` and `shlex.join`.
-/
namespace CbiVerif.C11
open CbiVerif.Argparse CbiVerif.Extract CbiVerif.ArgvLemmas CbiVerif.ExtractLemmas

abbrev Argv := List (List Char)

/-- The table / constructor keywords / parse call / `PreprocessorConfiguration` assembly / `shlex.split` call
re-extracted from the code on this run (including the `-U` row with CBI's `_UndefineAction` and the characters that end
a macro name there) are the ones all theorems below are about. -/
theorem table_generated :
    Argparse.table = ArgvLemmas.T ∧ Argparse.settingsOK = true ∧ Shlex.splitOK = true ∧
    Gen.ArgTable.definesSrc = [['d','e','f','i','n','e','s']] ∧
    Gen.ArgTable.includePathsSrc = [['i','n','c','l','u','d','e','_','p','a','t','h','s'],
      ['s','y','s','t','e','m','_','i','n','c','l','u','d','e','_','p','a','t','h','s']] ∧
    Gen.ArgTable.includeFilesSrc = [['i','n','c','l','u','d','e','_','f','i','l','e','s']] ∧
    Gen.ArgTable.undefineStops = ['=', '('] :=
  ⟨table_eq, settings_ok, ShlexLemmas.split_ok, rfl, rfl, rfl, rfl⟩

/-- **C11.main** — on every tame command line (any length, any mixture of modelled and unmodelled
arguments) the parser model does not abort and returns exactly the lists of the property-level
extractor: same values, same order, nothing else. -/
theorem main (argv : Argv) (h : Tame argv) : argparseModel argv = .ok (toModel (extract argv)) := by
  have hrun := run_eq_scan argv .idle none false {} .idle h
  have hamb := not_ambiguous argv false h
  have hun : (T.any fun o => o.kind == Kind.unsupported) = false := by decide
  have h0 : toCfg {} = ({} : Cfg) := rfl
  rw [h0] at hrun
  unfold argparseModel parseKnown
  rw [settings_ok, table_eq, hamb, hun]
  simp only [Bool.not_true, Bool.false_eq_true, if_false, hrun, Except.map]
  rw [assemble_toCfg]; rfl

/-- non-vacuity of `main`: a realistic command line (unmodelled flags with and without arguments, both
spellings of every modelled flag, values with `=`, quotes, blanks) is tame, and its result is not trivial -/
example :
    let argv : Argv := ["gcc-arg".toList, "-O2".toList, "-g3".toList, "-Wall".toList, "-std=c++17".toList,
      "-DA=1".toList, "-D".toList, "B=\"x y\"".toList, "-MF".toList, "x.d".toList, "-I".toList, "inc dir".toList,
      "-isystem".toList, "/sys".toList, "-Iother".toList, "-include".toList, "pre.h".toList, "-fPIC".toList,
      "-ccbin".toList, "g++".toList, "-c".toList, "file.c".toList, "-o".toList, "out.o".toList]
    Tame argv ∧ extract argv = ⟨["A=1".toList, "B=\"x y\"".toList],
      ["inc dir".toList, "other".toList, "/sys".toList], ["pre.h".toList]⟩ := by decide

/-- the analysis is not aborted on a tame command line -/
theorem no_abort (argv : Argv) (h : Tame argv) : ∃ r, argparseModel argv = .ok r := ⟨_, main argv h⟩

/-- `Tame` is exactly the complement of the recorded classes (plus incompleteness) -/
theorem tame_iff_no_class (argv : Argv) : Tame argv ↔ ∀ t : Tag, t ∉ classes argv := by
  unfold Tame
  constructor
  · intro h t; rw [h]; simp
  · intro h; exact List.eq_nil_iff_forall_not_mem.mpr h

/-! ### order -/

/-- **order_preserved** — a command line built from items (modelled flag in separate or attached spelling,
or unmodelled argument), in any interleaving: for each modelled flag other than `-D` the extracted list is exactly
the sequence of that flag's values *in command-line order* (for `-U`: the names).
Statement changed with `-U` support: it used to hold for `g = .D` too; with `-U` the definitions are the ones *in
force* (`defines_in_force`), which is the old statement whenever the command line has no `-U` (`order_preserved_defines`). -/
theorem order_preserved (items : List Item) (h : ∀ it ∈ items, it.WF) (g : Flag) (hg : g ≠ .D) :
    (lists (renderAll items)).get g = items.filterMap (Item.value? g) :=
  (lists_items items h).2.1 g hg

/-- **defines_in_force** — the extracted definitions are exactly the `-D` values that no later `-U` names, in
command-line order (`Extract.inForce`; membership: `ExtractLemmas.mem_inForce`, order: `inForce_sublist`). -/
theorem defines_in_force (items : List Item) (h : ∀ it ∈ items, it.WF) :
    (lists (renderAll items)).defines = inForce items :=
  (lists_items items h).2.2

/-- the old `order_preserved` for `-D`: without `-U` the definitions are all `-D` values in command-line order -/
theorem order_preserved_defines (items : List Item) (h : ∀ it ∈ items, it.WF) (hu : ∀ it ∈ items, it.value? .U = none) :
    (lists (renderAll items)).get .D = items.filterMap (Item.value? .D) := by
  show (lists (renderAll items)).defines = _
  rw [defines_in_force items h, inForce_no_undef items hu]

/-- in general the definitions are a subsequence of the `-D` values: nothing is invented, the order is kept -/
theorem defines_sublist (items : List Item) (h : ∀ it ∈ items, it.WF) :
    ((lists (renderAll items)).defines).Sublist (items.filterMap (Item.value? .D)) := by
  rw [defines_in_force items h]; exact inForce_sublist items

/-- the same for the parser model on tame command lines; the search path is all `-I` directories followed by
all `-isystem` directories -/
theorem order_preserved_model (items : List Item) (h : ∀ it ∈ items, it.WF) (ht : Tame (renderAll items)) :
    argparseModel (renderAll items) = .ok (toModel
      ⟨inForce items,
       items.filterMap (Item.value? .I) ++ items.filterMap (Item.value? .isystem),
       items.filterMap (Item.value? .include)⟩) := by
  rw [main _ ht]
  have e := fun g hg => order_preserved items h g hg
  have e1 := defines_in_force items h
  have e2 := e .I (by decide); have e3 := e .isystem (by decide); have e4 := e .include (by decide)
  simp only [Lists.get] at e2 e3 e4
  simp only [extract, Lists.result, e1, e2, e3, e4]

example : (∀ it ∈ [Item.other "-Wall".toList, .att .D "A".toList, .sep .isystem "s".toList, .sep .I "i".toList,
      .att .D "B=2".toList, .att .U "A".toList], it.WF) ∧
    Tame (renderAll [Item.other "-Wall".toList, .att .D "A".toList, .sep .isystem "s".toList, .sep .I "i".toList,
      .att .D "B=2".toList, .att .U "A".toList]) ∧
    inForce [Item.other "-Wall".toList, .att .D "A".toList, .sep .isystem "s".toList, .sep .I "i".toList,
      .att .D "B=2".toList, .att .U "A".toList] = ["B=2".toList] := by
  refine ⟨?_, by decide, by decide⟩
  intro it hit
  simp only [List.mem_cons, List.not_mem_nil, or_false] at hit
  rcases hit with rfl | rfl | rfl | rfl | rfl | rfl <;> simp [Item.WF] <;> decide

/-! ### unmodelled options are ignored -/

/-- **unknown_ignored** — inserting an argument the property does not model after a complete prefix does not
change what is extracted -/
theorem unknown_ignored (xs ys : Argv) (u : List Char) (hc : Complete xs) (hu : reading u = .other) :
    extract (xs ++ [u] ++ ys) = extract (xs ++ ys) := by
  have e : lists ([u] ++ ys) = lists ys := by simp [lists, scan, hu]
  unfold extract
  rw [List.append_assoc, lists_append xs _ hc, lists_append xs _ hc, e]

/-- the same for the parser model, when both command lines are tame -/
theorem unknown_ignored_model (xs ys : Argv) (u : List Char) (hc : Complete xs) (hu : reading u = .other)
    (h1 : Tame (xs ++ [u] ++ ys)) (h2 : Tame (xs ++ ys)) :
    argparseModel (xs ++ [u] ++ ys) = argparseModel (xs ++ ys) := by
  rw [main _ h1, main _ h2, unknown_ignored xs ys u hc hu]

example : Complete ["-DA".toList, "-I".toList, "x".toList] ∧ reading "-march=native".toList = .other ∧
    Tame (["-DA".toList, "-I".toList, "x".toList] ++ ["-march=native".toList] ++ ["-DB".toList]) ∧
    Tame (["-DA".toList, "-I".toList, "x".toList] ++ ["-DB".toList]) := by decide

/-- an unmodelled option that takes a separate argument (`-MF x`, `-x c++`, `-ccbin g++`) is ignored together
with its argument -/
theorem unknown_pair_ignored (xs ys : Argv) (u x : List Char) (hc : Complete xs) (hu : reading u = .other)
    (hx : reading x = .other) : extract (xs ++ [u, x] ++ ys) = extract (xs ++ ys) := by
  have e : lists ([u, x] ++ ys) = lists ys := by simp [lists, scan, hu, hx]
  unfold extract
  rw [List.append_assoc, lists_append xs _ hc, lists_append xs _ hc, e]

/-! ### attached and separate spelling -/

/-- **attached_eq_separate** — `-DX` and `-D X` (likewise `-I`, `-isystem`, `-include`) mean the same -/
theorem attached_eq_separate (xs ys : Argv) (f : Flag) (v : List Char) (hv : v ≠ []) (hc : Complete xs) :
    extract (xs ++ [f.text ++ v] ++ ys) = extract (xs ++ [f.text, v] ++ ys) := by
  have e : lists ([f.text ++ v] ++ ys) = lists ([f.text, v] ++ ys) := by
    simp [lists, scan, reading_att f v hv, reading_sep]
  unfold extract
  rw [List.append_assoc, List.append_assoc, lists_append xs _ hc, lists_append xs _ hc, e]

theorem attached_eq_separate_model (xs ys : Argv) (f : Flag) (v : List Char) (hv : v ≠ []) (hc : Complete xs)
    (h1 : Tame (xs ++ [f.text ++ v] ++ ys)) (h2 : Tame (xs ++ [f.text, v] ++ ys)) :
    argparseModel (xs ++ [f.text ++ v] ++ ys) = argparseModel (xs ++ [f.text, v] ++ ys) := by
  rw [main _ h1, main _ h2, attached_eq_separate xs ys f v hv hc]

example : Complete ["-O2".toList] ∧
    Tame (["-O2".toList] ++ [Flag.D.text ++ "N=\"a b\"".toList] ++ ["x.c".toList]) ∧
    Tame (["-O2".toList] ++ [Flag.D.text, "N=\"a b\"".toList] ++ ["x.c".toList]) := by decide

/-! ### `command` string ≙ `arguments` array -/

/-- **command_eq_arguments** — for every argument vector (any characters, including quotes, blanks,
backslashes, newlines, NUL, and empty arguments) splitting the shell-quoted command string with the model of
`CompileCommand.arguments` gives back the argument vector -/
theorem command_eq_arguments (argv : Argv) :
    Shlex.commandArguments (ShellQuote.shellJoin argv) = .ok argv := by
  unfold Shlex.commandArguments Shlex.shlexSplit
  rw [ShlexLemmas.split_ok]
  simpa using ShlexLemmas.go_join argv []

/-- hence the configuration extracted from the `command` form is the one extracted from the `arguments` form -/
theorem command_form_same_configuration (argv : Argv) (h : Tame argv) :
    (Shlex.commandArguments (ShellQuote.shellJoin argv)).toOption.map argparseModel
      = some (.ok (toModel (extract argv))) := by
  rw [command_eq_arguments, ← main argv h]; rfl

/-! ### witnesses: on each recorded class the model (= the code) really leaves the property -/

/-- D21: `-isystemDIR` / `-includeFILE` are not recognised -/
theorem witness_D21 : ∃ argv : Argv, Tag.D21 ∈ classes argv ∧ argparseModel argv ≠ .ok (toModel (extract argv)) :=
  ⟨["-isystem/usr/inc".toList], by decide, by decide⟩

/-- D22 (dash value): a separate-form value with a leading dash aborts -/
theorem witness_D22dash : ∃ argv : Argv, Tag.D22dash ∈ classes argv ∧ argparseModel argv = .error .argumentError :=
  ⟨["-D".toList, "-x".toList], by decide, by decide⟩

/-- D22 (abbreviation): `-i` exits, `-inc x` is taken for `-include x` -/
theorem witness_D22abbrev :
    (∃ argv : Argv, Tag.D22abbrev ∈ classes argv ∧ argparseModel argv = .error .systemExit) ∧
    (∃ argv : Argv, Tag.D22abbrev ∈ classes argv ∧ argparseModel argv ≠ .ok (toModel (extract argv))) :=
  ⟨⟨["-i".toList], by decide, by decide⟩, ⟨["-inc".toList, "x".toList], by decide, by decide⟩⟩

/-- D23: `--` swallows later options; an attached value `--` is stored as an empty list -/
theorem witness_D23 :
    (∃ argv : Argv, Tag.D23 ∈ classes argv ∧ argparseModel argv ≠ .ok (toModel (extract argv))) ∧
    argparseModel ["-D--".toList] = .ok ⟨[.emptyList], [], []⟩ :=
  ⟨⟨["--".toList, "-DA".toList], by decide, by decide⟩, by decide⟩

/-- D36: the leading `=` of an attached value is dropped -/
theorem witness_D36 : ∃ argv : Argv, Tag.D36 ∈ classes argv ∧ argparseModel argv ≠ .ok (toModel (extract argv)) :=
  ⟨["-I=sub".toList], by decide, by decide⟩

/-- a dangling flag is rejected by the model (as by every compiler) -/
theorem witness_dangling : ∃ argv : Argv, Tag.dangling ∈ classes argv ∧ argparseModel argv = .error .argumentError :=
  ⟨["-DA".toList, "-I".toList], by decide, by decide⟩

end CbiVerif.C11
