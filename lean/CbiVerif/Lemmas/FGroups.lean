import CbiVerif.Lemmas.FPaste
import CbiVerif.Spec.FortranNodes
/-!
The GROUPING of the counted lines of a Fortran file: `FileParser`'s nodes over `fortran_file_source` (`group ∘ fLoop`) against
`Spec/FortranNodes.lean` (`refNodesAux`), line by line along the reference run — `run_eq_ref` (`Lemmas/FCPass3.lean`) gives
the concatenation; here the simulation carries the open logical line (blanks only / non-blank) and the open code group.  Since
the repair of F-C17-2 a logical line assembled from statement lines is never a directive (`emitLL`), so no fact about the
first character of the joined buffer is needed.
-/
namespace CbiVerif.Fortran
open Tbl
set_option linter.unusedSimpArgs false

/-! ## shape of the cleaner state at a line start -/

/-- `cleaner.state[-1] == "CONTINUING_FROM_SOL"` iff the reference is inside a continued statement -/
theorem rlF_head_cfs (s : FSt) (m : RF) (h : RlF s m) (hm : isLineStart m = true) :
    s.stack.head? = some .cfs ↔ m ≠ .code := by
  have h2 := h.2
  unfold Tbl.Rl Tbl.proj at h2
  simp only [absF, Prod.mk.injEq] at h2
  obtain ⟨e1, _, _⟩ := h2
  rw [e1]
  cases m with
  | code => simp [Tbl.absSt]
  | start c => simp [Tbl.absSt]
  | _ => simp [isLineStart] at hm

/-! ## one line: the buffer is blanks only or non-blank -/

/-- outside F-C17-1: an uncounted line leaves only merged blanks in the buffer, a counted one a non-blank buffer -/
theorem line_sim_only (s : FSt) (m : RF) (l : List Char) (r : RLine) (hR : RlF s m) (h : rline m l = some r)
    (hk : r.k = false) :
    (r.counted = false → (procLine s l).2.OnlySp) ∧ (r.counted = true → (procLine s l).2.blank = false) := by
  have hls := (line_sim s m l r hR h).2 hk
  unfold rline at h
  cases hr : rchars ⟨m, false, false⟩ l with
  | none => simp [hr] at h
  | some a =>
    simp only [hr] at h
    cases he : rend a.mode with
    | none => simp [he] at h
    | some m2 =>
      simp only [he, Option.some.injEq] at h
      subst h
      obtain ⟨v', l', _, h2, h3, h4⟩ :=
        chars_sim l s m {} false false ⟨m, false, false⟩ a hR rfl binv_empty rfl rfl hr
      subst h3 h4
      refine ⟨fun hc => ?_, fun hc => ?_⟩
      · simp only [Bool.or_eq_false_iff] at hc
        exact h2.only hc.1 hc.2
      · simp only at hls hc
        rw [hc] at hls
        simpa using hls

/-! ## `fortran_file_source` and `FileParser` on one more logical line -/

theorem emitLL_onlySp (cur : OSL) (lines : List Nat) (h : cur.OnlySp) : emitLL cur lines = [] := by
  have hb := blank_of_onlySp cur h
  unfold emitLL
  simp only [OSL.blank, beq_iff_eq] at hb
  simp [hb]

theorem emitLL_nonblank (cur : OSL) (lines : List Nat) (h : cur.blank = false) :
    emitLL cur lines = [⟨lines, cur.parts, false⟩] := by
  unfold emitLL
  have : ¬ (category cur.parts = Cat.blank) := by
    intro hh; simp [OSL.blank, hh] at h
  simp [this]

theorem wf_of_onlySp (b : OSL) (h : b.OnlySp) : b.WF := by
  intro _
  rcases h with ⟨hp, ht⟩ | ⟨hp, _⟩
  · simp_all
  · simp [hp]

theorem onlySp_join_onlySp (a b : OSL) (ha : a.OnlySp) (hb : b.OnlySp) : (a.join b).OnlySp := by
  unfold OSL.join
  rcases hb with ⟨bp, bt⟩ | ⟨bp, bt⟩
  · rw [bp]; exact ha
  · rw [bp]
    rcases ha with ⟨ap, at'⟩ | ⟨ap, at'⟩
    · simp only [at', Bool.and_false, Bool.false_eq_true, if_false]
      right; simp [ap, bt]
    · simp only [at', beq_self_eq_true, Bool.and_self, if_true]
      right; simp [ap, bt]

theorem fLoop_dir (s : FSt) (cur : OSL) (lines : List Nat) (cl : CL) (rest : List CL) (lls : List LL)
    (hd : isDirText cl.text = true) (h : fLoop s cur lines (cl :: rest) = .ok lls) :
    ∃ out, fLoop s {} [] rest = .ok out ∧ lls = emitLL cur lines ++ ⟨cl.lines, cl.text, true⟩ :: out := by
  simp only [fLoop, hd, if_true] at h
  cases hr : fLoop s {} [] rest with
  | error e => simp [hr, Except.map] at h
  | ok out =>
    simp only [hr, Except.map, Except.ok.injEq] at h
    exact ⟨out, rfl, by rw [← h]; simp⟩

theorem fLoop_cont (s : FSt) (cur : OSL) (lines : List Nat) (cl : CL) (rest : List CL)
    (hd : isDirText cl.text = false) (hc : (procLine s cl.text).1.stack.head? = some .cfs) :
    fLoop s cur lines (cl :: rest) =
      fLoop (procLine s cl.text).1 (cur.join (procLine s cl.text).2)
        (if (procLine s cl.text).2.blank then lines else lines ++ cl.lines) rest := by
  simp only [fLoop, hd, Bool.false_eq_true, if_false, hc, beq_self_eq_true, if_true]

theorem fLoop_end (s : FSt) (cur : OSL) (lines : List Nat) (cl : CL) (rest : List CL) (lls : List LL)
    (hd : isDirText cl.text = false) (hc : (procLine s cl.text).1.stack.head? ≠ some .cfs)
    (h : fLoop s cur lines (cl :: rest) = .ok lls) :
    ∃ out, fLoop (procLine s cl.text).1 {} [] rest = .ok out ∧
      lls = emitLL (cur.join (procLine s cl.text).2)
        (if (procLine s cl.text).2.blank then lines else lines ++ cl.lines) ++ out := by
  have hc' : ((procLine s cl.text).1.stack.head? == some Mode.cfs) = false := by simpa using hc
  simp only [fLoop, hd, Bool.false_eq_true, if_false, hc'] at h
  cases hr : fLoop (procLine s cl.text).1 {} [] rest with
  | error e => simp [hr, Except.map] at h
  | ok out =>
    simp only [hr, Except.map, Except.ok.injEq] at h
    exact ⟨out, rfl, h.symm⟩

/-- what the property speaks about in a node: is it a directive, which physical lines -/
def nview (nd : Node) : Bool × List Nat := (nd.isDir, nd.lines)

theorem groupAux_code (gacc : List LL) (ll : LL) (out : List LL) (h : ll.isDir = false) :
    groupAux gacc (ll :: out) = groupAux (gacc ++ [ll]) out := by
  simp [groupAux, LL.isDirective, h]

/-- a `#` line whose first token is `##` is code for `FileParser.is_directive` -/
theorem groupAux_paste (gacc : List LL) (ll : LL) (out : List LL) (h : startsPaste ll.text = true) :
    groupAux gacc (ll :: out) = groupAux (gacc ++ [ll]) out := by
  unfold startsPaste at h
  simp [groupAux, LL.isDirective, h]

theorem flush_view (gacc : List LL) (h : ∀ ll ∈ gacc, ll.lines ≠ []) :
    (if gacc.isEmpty then [] else [mkCode gacc]).map nview = flushGroup (countedOf gacc) := by
  cases gacc with
  | nil => rfl
  | cons ll g =>
    have hne : countedOf (ll :: g) ≠ [] := by
      have := h ll (by simp)
      simp [countedOf, this]
    have hne' : (countedOf (ll :: g)).isEmpty = false := by
      cases hx : countedOf (ll :: g) with
      | nil => exact absurd hx hne
      | cons _ _ => rfl
    simp only [List.isEmpty_cons, Bool.false_eq_true, if_false, List.map_cons, List.map_nil, flushGroup, hne']
    rfl

theorem groupAux_dir (gacc : List LL) (ls : List Nat) (t : List Char) (out : List LL)
    (h : ∀ ll ∈ gacc, ll.lines ≠ []) (hp : startsPaste t = false) :
    (groupAux gacc (⟨ls, t, true⟩ :: out)).map nview =
      flushGroup (countedOf gacc) ++ (true, ls) :: (groupAux [] out).map nview := by
  unfold startsPaste at hp
  simp only [groupAux, LL.isDirective, hp, Bool.not_false, Bool.and_self, if_true, List.map_append, List.map_cons]
  rw [flush_view gacc h]
  rfl

/-! ## the run -/

/-- what is known about the open logical line (`curr_line`, its `lines`) in front of a physical line -/
def CurInv (m : RF) (cur : OSL) (lines : List Nat) : Prop :=
  (cur.OnlySp ∧ lines = []) ∨ (cur.blank = false ∧ lines ≠ [] ∧ m ≠ .code)

theorem curInv_init (m : RF) : CurInv m {} [] := Or.inl ⟨onlySp_empty, rfl⟩

/-- **main run lemma for the grouping**: physical lines `n+1 …` scanned by the reference from mode `m`; the Fortran pass over
    what the C pass makes of them, started in a related cleaner state with the open logical line `cur` / `lines`, followed by
    `FileParser`'s grouping with the open code group `gacc`, yields the groups of `refNodesAux` -/
theorem run_groups (ls : List (List Char)) : ∀ (n : Nat) (s : FSt) (m : RF) (r : List (Bool × Bool))
    (cur : OSL) (lines : List Nat) (gacc lls : List LL),
    RlF s m → isLineStart m = true → (∀ l ∈ ls, LineOK l) → refLines m ls = some r → (∀ x ∈ r, x.2 = false) →
    CurInv m cur lines → (∀ ll ∈ gacc, ll.lines ≠ []) →
    fLoop s cur lines (cpass n ls) = .ok lls →
    (groupAux gacc lls).map nview = refNodesAux n (countedOf gacc ++ lines) ls r := by
  induction ls with
  | nil =>
    intro n s m r cur lines gacc lls hR _ _ h _ hci hg hf
    simp only [refLines] at h
    split at h
    · rename_i hm
      simp only [Option.some.injEq] at h; subst h
      simp only [beq_iff_eq] at hm; subst hm
      rcases hci with ⟨ho, hl⟩ | ⟨_, _, hne⟩
      · subst hl
        simp only [cpass, fLoop] at hf
        split at hf
        · simp only [Except.ok.injEq] at hf
          subst hf
          rw [emitLL_onlySp cur [] ho]
          simp only [groupAux, refNodesAux, List.append_nil]
          exact flush_view gacc hg
        · cases hf
      · exact absurd rfl hne
    · cases h
  | cons l ls ih =>
    intro n s m r cur lines gacc lls hR hm hok h hk hci hg hf
    have hl : LineOK l := hok l (by simp)
    have hok' : ∀ l' ∈ ls, LineOK l' := fun l' h' => hok l' (by simp [h'])
    simp only [refLines] at h
    simp only [cpass] at hf
    by_cases hd : isDirectiveLine l = true
    · -- `#` line
      simp only [hd, if_true] at h
      split at h
      · rename_i hmc
        simp only [beq_iff_eq] at hmc; subst hmc
        cases hr : refLines .code ls with
        | none => simp [hr] at h
        | some r' =>
          simp only [hr, Option.map_some, Option.some.injEq] at h; subst h
          obtain ⟨ob, e1, e2⟩ := dLine_dir l hd hl
          have hnb : ob.blank = false := by
            unfold isDirText at e2
            simp only [beq_iff_eq] at e2
            simp [OSL.blank, e2]
          simp only [e1, hnb, Bool.false_eq_true, if_false, List.singleton_append] at hf
          obtain ⟨out, ho, hlls⟩ := fLoop_dir s cur lines ⟨[n + 1], ob.parts⟩ _ lls e2 hf
          have hpaste := dLine_dir_paste l hd hl ob e1
          rcases hci with ⟨hcur, hlines⟩ | ⟨_, _, hne⟩
          · subst hlines
            rw [emitLL_onlySp cur [] hcur] at hlls
            simp only [List.nil_append] at hlls
            subst hlls
            cases hpl : isPasteLine l with
            | false =>
              rw [hpl] at hpaste
              have i1 := ih (n + 1) s .code r' {} [] [] out hR rfl hok' hr
                (fun x hx => hk x (by simp [hx])) (curInv_init _) (by simp) ho
              rw [groupAux_dir gacc _ _ out hg hpaste, i1]
              simp only [refNodesAux, hd, hpl, Bool.not_false, Bool.and_self, if_true, List.append_nil, countedOf,
                List.flatMap_nil]
            | true =>
              -- first token `##`: the line is counted text of the surrounding run
              rw [hpl] at hpaste
              rw [groupAux_paste gacc _ out hpaste]
              refine (ih (n + 1) s .code r' {} [] _ out hR rfl hok' hr
                (fun x hx => hk x (by simp [hx])) (curInv_init _) ?_ ho).trans ?_
              · intro ll hll
                simp only [List.mem_append, List.mem_singleton] at hll
                rcases hll with hll | hll
                · exact hg ll hll
                · subst hll; simp
              · simp [refNodesAux, hd, hpl, countedOf]
          · exact absurd rfl hne
      · cases h
    · -- code / blank / comment line
      have hd' : isDirectiveLine l = false := by simpa using hd
      simp only [hd', Bool.false_eq_true, if_false] at h
      cases hrl : rline m l with
      | none => simp [hrl] at h
      | some rl =>
        simp only [hrl] at h
        cases hr : refLines rl.next ls with
        | none => simp [hr] at h
        | some r' =>
          simp only [hr, Option.map_some, Option.some.injEq] at h; subst h
          have hk' : ∀ x ∈ r', x.2 = false := fun x hx => hk x (by simp [hx])
          have hk0 : rl.k = false := hk (rl.counted, rl.k) (by simp)
          have e1 := dLine_code l hd' hl
          have hbl := code_blank_iff l {} onlySp_empty
          have hparts := collapse_eq l
          simp only [e1] at hf
          simp only [refNodesAux, hd', Bool.false_and, Bool.false_eq_true, if_false]
          cases hb : (({} : OSL).addAll (l.map emitChar)).blank with
          | true =>
            -- blank physical line: dropped by the C pass, not counted by the reference
            rw [hb] at hbl
            have hrl' := rline_blank m l rl hm hbl.symm hrl
            subst hrl'
            simp only [hb, if_true, List.nil_append] at hf
            simpa using ih (n + 1) s m r' cur lines gacc lls hR hm hok' hr hk' hci hg hf
          | false =>
            have hnd : isDirText (collapse l) = false := collapse_notdir l hd'
            have hrc := rline_collapse m l rl hrl
            obtain ⟨l1, l2⟩ := line_sim s m (collapse l) rl hR hrc
            have l2 := l2 hk0
            have hns := rline_lineStart m l rl hrl
            obtain ⟨g1, g2⟩ := line_sim_only s m (collapse l) rl hR hrc hk0
            simp only [hb, Bool.false_eq_true, if_false, List.singleton_append, hparts] at hf
            -- the open logical line after this physical line
            have hpost :
                ((cur.join (procLine s (collapse l)).2).OnlySp ∧
                  (if (procLine s (collapse l)).2.blank then lines else lines ++ [n + 1]) = []) ∨
                ((cur.join (procLine s (collapse l)).2).blank = false ∧
                  (if (procLine s (collapse l)).2.blank then lines else lines ++ [n + 1]) ≠ []) := by
              rcases hci with ⟨hcur, hlines⟩ | ⟨hcur, hlines, hne⟩
              · subst hlines
                cases hcnt : rl.counted with
                | false =>
                  have hbo := g1 hcnt
                  left
                  refine ⟨onlySp_join_onlySp cur _ hcur hbo, ?_⟩
                  simp [blank_of_onlySp _ hbo]
                | true =>
                  have hbo := g2 hcnt
                  right
                  refine ⟨join_nonblank_right cur _ (wf_of_onlySp cur hcur) hbo, ?_⟩
                  simp [hbo]
              · right
                refine ⟨join_nonblank_left cur _ hcur, ?_⟩
                split
                · exact hlines
                · simp
            have hacc : (if rl.counted = true then countedOf gacc ++ lines ++ [n + 1] else countedOf gacc ++ lines) =
                countedOf gacc ++ (if (procLine s (collapse l)).2.blank then lines else lines ++ [n + 1]) := by
              rw [← l2]; cases (procLine s (collapse l)).2.blank <;> simp
            rw [hacc]
            by_cases hnext : rl.next = .code
            · have hcfs : (procLine s (collapse l)).1.stack.head? ≠ some .cfs := by
                intro hc; exact ((rlF_head_cfs _ _ l1 hns).mp hc) hnext
              obtain ⟨out, ho, hlls⟩ := fLoop_end s cur lines ⟨[n + 1], collapse l⟩ _ lls hnd hcfs hf
              rw [hnext] at hr l1
              dsimp only at hlls ho
              rcases hpost with ⟨hcur2, hlines2⟩ | ⟨hcur2, hlines2⟩
              · rw [emitLL_onlySp _ _ hcur2] at hlls
                simp only [List.nil_append] at hlls; rw [hlls]
                rw [hlines2]
                exact ih (n + 1) _ .code r' {} [] gacc out l1 rfl hok' hr hk' (curInv_init _) hg ho
              · rw [emitLL_nonblank _ _ hcur2] at hlls
                rw [hlls]
                simp only [List.singleton_append]
                rw [groupAux_code _ _ _ rfl]
                refine (ih (n + 1) _ .code r' {} [] _ out l1 rfl hok' hr hk' (curInv_init _) ?_ ho).trans ?_
                · intro ll hll
                  simp only [List.mem_append, List.mem_singleton] at hll
                  rcases hll with hll | hll
                  · exact hg ll hll
                  · subst hll; exact hlines2
                · simp [countedOf]
            · have hcfs := (rlF_head_cfs _ _ l1 hns).mpr hnext
              rw [fLoop_cont s cur lines ⟨[n + 1], collapse l⟩ _ hnd hcfs] at hf
              dsimp only at hf
              refine ih (n + 1) _ rl.next r' _ _ gacc lls l1 hns hok' hr hk' ?_ hg hf
              rcases hpost with ⟨hcur2, hlines2⟩ | ⟨hcur2, hlines2⟩
              · exact Or.inl ⟨hcur2, hlines2⟩
              · exact Or.inr ⟨hcur2, hlines2, hnext⟩

/-! ## whole texts -/

/-- **grouping = reference (text level)**: for every text the reference accepts, with no line of finding class F-C17-1,
    the nodes `FileParser` builds over `fortran_file_source` are the groups of
    `Spec/FortranNodes.lean` -/
theorem groups_eq_ref (text : String) (r : List (Bool × Bool)) (h : refText text = some r)
    (hk : ∀ x ∈ r, x.2 = false) :
    ∃ lls, fortranSource text = .ok lls ∧ (group lls).map nview = refNodes text := by
  have h0 := h
  unfold refText at h
  simp only at h
  split at h
  · rename_i hok
    have hlok := lineOK_of_textOK _ hok
    have hphys : ∀ p ∈ splitLines text, LineOK p.1 := by
      intro p hp
      apply hlok
      rw [← splitLines_fst]
      exact List.mem_map_of_mem hp
    have hd := dLoop_ok (splitLines text) 0 hphys
    rw [splitLines_fst] at hd
    obtain ⟨bs, _, _, a3⟩ := run_eq_ref (textLines text) 0 {} .code r init_rlF rfl hlok h
    obtain ⟨lls, hl⟩ := fLoop_ok (cpass 0 (textLines text)) {} {} [] (stack_of_rlF_code _ a3)
    refine ⟨lls, ?_, ?_⟩
    · unfold fortranSource dPass; rw [hd]; exact hl
    · have := run_groups (textLines text) 0 {} .code r {} [] [] lls init_rlF rfl hlok h hk
        (curInv_init _) (by simp) hl
      unfold refNodes group
      rw [h0]
      simpa [countedOf] using this
  · cases h

theorem flushGroup_nonempty (acc : List Nat) : ∀ g ∈ flushGroup acc, g.2 ≠ [] := by
  intro g hg
  unfold flushGroup at hg
  split at hg
  · cases hg
  · rename_i hne
    simp only [List.mem_singleton] at hg
    subst hg
    intro hc
    simp only at hc
    subst hc
    exact hne rfl

/-- every group of the specification holds at least one line -/
theorem refNodesAux_nonempty (ls : List (List Char)) : ∀ (n : Nat) (acc : List Nat) (r : List (Bool × Bool)),
    ∀ g ∈ refNodesAux n acc ls r, g.2 ≠ [] := by
  induction ls with
  | nil => intro n acc r g hg; simp only [refNodesAux] at hg; exact flushGroup_nonempty acc g hg
  | cons l ls ih =>
    intro n acc r g hg
    cases r with
    | nil => simp only [refNodesAux] at hg; exact flushGroup_nonempty acc g hg
    | cons x r =>
      obtain ⟨c, k⟩ := x
      simp only [refNodesAux] at hg
      split at hg
      · simp only [List.mem_append, List.mem_cons] at hg
        rcases hg with hg | hg | hg
        · exact flushGroup_nonempty acc g hg
        · subst hg; simp
        · exact ih _ _ _ g hg
      · exact ih _ _ _ g hg

theorem refNodes_nonempty (text : String) : ∀ g ∈ refNodes text, g.2 ≠ [] := by
  intro g hg
  unfold refNodes at hg
  split at hg
  · exact refNodesAux_nonempty _ _ _ _ g hg
  · cases hg

end CbiVerif.Fortran
