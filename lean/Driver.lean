import Lean.Data.Json
import CbiVerif.Drv.PP
import CbiVerif.Drv.Metrics
import CbiVerif.Drv.C06
import CbiVerif.Drv.C06Compose
import CbiVerif.Drv.C14Compose
import CbiVerif.Drv.C14Metrics
import CbiVerif.Drv.Dups
import CbiVerif.Drv.DbPath
import CbiVerif.Drv.Exclude
import CbiVerif.Drv.C08
import CbiVerif.Drv.Argv
import CbiVerif.Drv.ArgvFull
import CbiVerif.Drv.C01
import CbiVerif.Drv.CLex
import CbiVerif.Drv.Compilers
import CbiVerif.Drv.Regex
import CbiVerif.Drv.RegexSpec
import CbiVerif.Drv.Eval
import CbiVerif.Drv.EvalLayout
import CbiVerif.Drv.CondFrag
import CbiVerif.Drv.CodeBase
import CbiVerif.Drv.Order
import CbiVerif.Drv.Fortran
import CbiVerif.Drv.C03
import CbiVerif.Drv.C03Frag
import CbiVerif.Drv.C03StrConf
import CbiVerif.Drv.Include
import CbiVerif.Drv.GitIgnore
import CbiVerif.Drv.Reach
import CbiVerif.Drv.WarnMsg
import CbiVerif.Drv.Engines
import CbiVerif.Drv.EnginesF
/-! Native JSON-lines driver: one request object per line, one reply per line.
Each area registers its ops in `CbiVerif/Drv/<Area>.lean`. -/
open Lean

def handlerTable : List (String × (Json → Json)) :=
  (ppOps.map fun o => (o, handlePP)) ++
  CbiVerif.Drv.Metrics.handlers ++
  CbiVerif.Drv.C06.handlers ++
  CbiVerif.Drv.C06Compose.handlers ++
  CbiVerif.Drv.C14Compose.handlers ++
  CbiVerif.Drv.C14Metrics.handlers ++
  CbiVerif.Drv.Dups.handlers ++
  CbiVerif.Drv.DbPath.handlers ++
  CbiVerif.Drv.Exclude.handlers ++
  CbiVerif.Drv.C08.handlers ++
  CbiVerif.Drv.Argv.handlers ++
  CbiVerif.Drv.ArgvFull.handlers ++
  CbiVerif.Drv.C01.handlers ++
  CbiVerif.Drv.CLex.handlers ++
  CbiVerif.Drv.Compilers.handlers ++
  CbiVerif.Drv.Regex.handlers ++
  CbiVerif.Drv.RegexSpec.handlers ++
  CbiVerif.Drv.Eval.handlers ++
  CbiVerif.Drv.EvalLayout.handlers ++
  CbiVerif.Drv.CondFrag.handlers ++
  CbiVerif.Drv.CodeBase.handlers ++
  CbiVerif.Drv.Order.handlers ++
  CbiVerif.Drv.Fortran.handlers ++
  CbiVerif.Drv.C03.handlers ++
  CbiVerif.Drv.C03Frag.handlers ++
  CbiVerif.Drv.C03StrConf.handlers ++
  CbiVerif.Drv.Include.handlers ++
  CbiVerif.Drv.GitIgnore.handlers ++
  CbiVerif.Drv.Reach.handlers ++
  CbiVerif.Drv.WarnMsg.handlers ++
  CbiVerif.Drv.Engines.handlers ++
  CbiVerif.Drv.EnginesF.handlers

def handle (j : Json) : Json :=
  match j.getObjValAs? String "op" with
  | .ok op =>
    match handlerTable.find? (·.1 == op) with
    | some (_, h) => h j
    | none => Json.mkObj [("unknown_op", op)]
  | _ => Json.null

partial def loopIO (h : IO.FS.Stream) : IO Unit := do
  let line ← h.getLine
  if line.isEmpty then return ()
  match Json.parse line with
  | .error e => IO.println (Json.compress (Json.mkObj [("bad", e)]))
  | .ok j => IO.println (Json.compress (handle j))
  (← IO.getStdout).flush
  loopIO h

def main : IO Unit := do loopIO (← IO.getStdin)
