import CbiVerif.Model.CText
/-! # Model of `file_source.one_space_line`, `c_cleaner`, `c_file_source` and the
`LineGroup` folding of `file_parser.FileParser.parse_file`  (property C05)

**One definition.**  The cleaner is defined on `(class, char)` pairs (`PChar`): the
lexical class alone decides the transition (`step1`, `step`, `logicalNewline` are
functions of the class), the character is only carried into the buffer.  The
driver executes exactly these definitions on `(classify c, c)`; the theorems in
`Props/C05.lean` are about the same definitions. -/
namespace CbiVerif.CClean
open CbiVerif.CText

/-! ## lexical classes -/

inductive Cls | slash | star | dq | sq | bslash | hash | space | ws | other
deriving DecidableEq, Repr, Inhabited

/-- Python's `str.isspace` (all code points; compared exhaustively with CPython by the harness) -/
def pyIsSpace (c : Char) : Bool :=
  let n := c.toNat
  (9 ≤ n && n ≤ 13) || (28 ≤ n && n ≤ 32) || n == 133 || n == 160 || n == 5760 ||
  (8192 ≤ n && n ≤ 8202) || n == 8232 || n == 8233 || n == 8239 || n == 8287 || n == 12288

def classify (c : Char) : Cls :=
  if c == '/' then .slash else if c == '*' then .star else if c == '"' then .dq
  else if c == '\'' then .sq else if c == '\\' then .bslash else if c == '#' then .hash
  else if c == ' ' then .space else if pyIsSpace c then .ws else .other

/-- a character together with its lexical class -/
abbrev PChar := Cls × Char
def pchar (c : Char) : PChar := (classify c, c)

/-! ## `c_cleaner` -/

/-- entries of `c_cleaner.state`; `err` stands for a raised `RuntimeError("Inconsistent parser state…")` -/
inductive Mode | top | dir | dq | sq | esc | slash | lineC | blockC | blockStar | err
deriving DecidableEq, Repr, Inhabited

abbrev Stack := List Mode   -- head = state[-1]

/-- what `process` does to the output buffer: `append_space()`, `append_nonspace(char)` (or
    `append_char(char)` of a non-space), `append_char("/")` -/
inductive Emit | sp | cur | slash
deriving DecidableEq, Repr

/-- one dispatch of the `for char in inbuffer` body of `c_cleaner.process`;
    `blank` = `obuf.category() == "BLANK"`; third component = `inbuffer.putback(char)` -/
def step1 (st : Stack) (blank : Bool) (c : Cls) : Stack × List Emit × Bool :=
  match st with
  | [] => ([.err], [], false)
  | .top :: r =>
    match c with
    | .bslash => (.esc :: .top :: r, [.cur], false)
    | .slash => (.slash :: .top :: r, [], false)
    | .dq => (.dq :: .top :: r, [.cur], false)
    | .sq => (.sq :: .top :: r, [.cur], false)
    | .hash => if blank then (.dir :: .top :: r, [.cur], false) else (.top :: r, [.cur], false)
    | .space => (.top :: r, [.sp], false)
    | .ws => (.top :: r, [.sp], false)
    | _ => (.top :: r, [.cur], false)
  | .dir :: r =>
    match c with
    | .bslash => (.esc :: .dir :: r, [.cur], false)
    | .slash => (.slash :: .dir :: r, [], false)
    | .dq => (.dq :: .dir :: r, [.cur], false)
    | .sq => (.sq :: .dir :: r, [.cur], false)
    | .space => (.dir :: r, [.sp], false)
    | .ws => (.dir :: r, [.sp], false)
    | _ => (.dir :: r, [.cur], false)
  | .dq :: r =>
    match c with
    | .bslash => (.esc :: .dq :: r, [.cur], false)
    | .dq => (r, [.cur], false)
    | _ => (.dq :: r, [.cur], false)
  | .sq :: r =>
    match c with
    | .bslash => (.esc :: .sq :: r, [.cur], false)
    | .slash => (.slash :: .sq :: r, [], false)
    | .sq => (r, [.cur], false)
    | _ => (.sq :: r, [.cur], false)
  | .slash :: r =>
    match c with
    | .slash => (.lineC :: r, [], false)
    | .star => (.blockC :: r, [], false)
    | _ => (r, [.slash], true)
  | .blockC :: r =>
    match c with
    | .star => (.blockStar :: .blockC :: r, [], false)
    | _ => (.blockC :: r, [], false)
  | .blockStar :: r =>
    match c with
    | .slash => match r with
      | .blockC :: r2 => (r2, [.sp], false)
      | _ => ([.err], [], false)
    | .star => (.blockStar :: r, [], false)
    | _ => match r with
      | .blockC :: _ => (r, [], false)
      | _ => ([.err], [], false)
  | .esc :: r => (r, [.cur], false)
  | .lineC :: r => (.lineC :: r, [], false)       -- `return`: the rest of the line is ignored
  | .err :: r => (.err :: r, [], false)

/-- one character of `process`, including the re-dispatch after `putback`
    (the buffer then ends in "/" and is not BLANK) -/
def step (st : Stack) (blank : Bool) (c : Cls) : Stack × List Emit :=
  match step1 st blank c with
  | (st1, e1, true) => match step1 st1 false c with | (st2, e2, _) => (st2, e1 ++ e2)
  | (st1, e1, false) => (st1, e1)

/-- `c_cleaner.logical_newline` -/
def logicalNewline (st : Stack) : Stack × List Emit :=
  match st with
  | .lineC :: _ => ([.top], [.sp])
  | .slash :: _ => ([.top], [.slash])
  | .sq :: _ => ([.top], [])
  | .dq :: _ => ([.top], [])
  | .blockStar :: r => match r with
    | .blockC :: _ => (r, [])
    | _ => ([.err], [])
  | .dir :: _ => ([.top], [])
  | st => (st, [])

/-! ## `one_space_line` -/

structure Buf where
  parts : List PChar := []
  trailing : Bool := false
deriving Repr, Inhabited

def spacePart : PChar := (.space, ' ')
def slashPart : PChar := (.slash, '/')

/-- apply one buffer action; `p` is the current character -/
def Buf.add (p : PChar) (b : Buf) : Emit → Buf
  | .sp => if b.trailing then b else { parts := b.parts ++ [spacePart], trailing := true }
  | .cur => { parts := b.parts ++ [p], trailing := false }
  | .slash => { parts := b.parts ++ [slashPart], trailing := false }

def Buf.addAll (p : PChar) (b : Buf) (es : List Emit) : Buf := es.foldl (Buf.add p) b

/-- `one_space_line.join` -/
def Buf.join (o other : Buf) : Buf :=
  match other.parts with
  | [] => o
  | p :: ps =>
    if p.1 == .space && o.trailing then { parts := o.parts ++ ps, trailing := other.trailing }
    else { parts := o.parts ++ other.parts, trailing := other.trailing }

inductive Cat | srcNonblank | blank | cppDirective
deriving DecidableEq, Repr, Inhabited

/-- `one_space_line.category` on the class components (`== " "` ⇔ class `space`, `== "#"` ⇔ class `hash`) -/
def catOf : List Cls → Cat
  | [] => .blank
  | [k] => if k == .space then .blank else if k == .hash then .cppDirective else .srcNonblank
  | a :: b :: _ => if (a == .space && b == .hash) || a == .hash then .cppDirective else .srcNonblank

def Buf.category (b : Buf) : Cat := catOf (b.parts.map (·.1))
def Buf.blank (b : Buf) : Bool := b.category == .blank
def Buf.text (b : Buf) : List Char := b.parts.map (·.2)

/-! ## `c_file_source` -/

structure PLine where
  chars : List PChar
  continued : Bool
deriving Repr, Inhabited

def procChars : Stack → Buf → List PChar → Stack × Buf
  | st, b, [] => (st, b)
  | st, b, p :: ps => procChars (step st b.blank p.1).1 (b.addAll p (step st b.blank p.1).2) ps

/-- the cleaner part of one iteration of the `for` loop of `c_file_source`: new cleaner state,
    the buffer of this physical line, and whether the logical line ends here -/
def procLine (st : Stack) (l : PLine) : Stack × Buf × Bool :=
  let r := procChars st {} l.chars
  if !l.continued && r.1.head? != some .blockC then
    let n := logicalNewline r.1
    (n.1, r.2.addAll spacePart n.2, n.1.head? != some .blockC)
  else (r.1, r.2, false)

/-- a logical line as produced by `line_info.logical_result` -/
structure LLine where
  start : Nat
  stop : Nat            -- current_physical_end (exclusive)
  lines : List Nat
  parts : List PChar    -- the joined buffer; `flushed_line` is its text
  cat : Cat
deriving Repr, Inhabited

/-- `flushed_line` -/
def LLine.text (l : LLine) : List Char := l.parts.map (·.2)

/-- `curr_line` between two physical lines -/
structure Acc where
  cur : Buf := {}
  start : Nat := 1
  lines : List Nat := []
deriving Repr, Inhabited

/-- the loop of `c_file_source` from physical line `n+1` on, followed by the end-of-file flush.
    Returns *every* logical line (also the BLANK ones, which are not yielded but whose
    `local_sloc` is added to the total) and the final cleaner state. -/
def srcLoop (st : Stack) (acc : Acc) (n : Nat) : List PLine → List LLine × Stack
  | [] => ([⟨acc.start, n + 1, acc.lines, acc.cur.parts, acc.cur.category⟩], st)
  | l :: ls =>
    let r := procLine st l
    let lines := if !r.2.1.blank then acc.lines ++ [n + 1] else acc.lines
    let cur := acc.cur.join r.2.1
    if r.2.2 then
      let rest := srcLoop r.1 { start := n + 2 } (n + 1) ls
      (⟨acc.start, n + 2, lines, cur.parts, cur.category⟩ :: rest.1, rest.2)
    else srcLoop r.1 { cur := cur, start := acc.start, lines := lines } (n + 1) ls

inductive Err | finalBackslash | notTopLevel | inconsistent
deriving DecidableEq, Repr, Inhabited

def endsBackslash (body : List Char) : Bool := body.getLast? == some '\\'

/-- `end`, `continued` and `it.islice(line, 0, end)` -/
def toPLine (r : RawLine) : PLine :=
  if endsBackslash r.body then ⟨r.body.dropLast.map pchar, true⟩ else ⟨r.body.map pchar, false⟩

/-- "file seems to end in \ with no newline!" -/
def badFinal (ls : List RawLine) : Bool := ls.any fun r => !r.nl && endsBackslash r.body

def hasErr (st : Stack) : Bool := st.any (· == .err)

structure SrcResult where
  all : List LLine          -- every logical line completed before the generator stopped, BLANK ones included
  err : Option Err          -- the exception that ended the generator, if any
  total : Nat               -- total_sloc
  phys : Nat                -- total_physical_lines
deriving Repr, Inhabited

def LLine.yielded (l : LLine) : Bool := l.cat != .blank

/-- `c_file_source(fp)` (relaxed = False, directives_only = False) run to completion.
    "file seems to end in \\ with no newline" is raised when the last physical line is reached
    (the logical lines completed before it have been yielded); "Parser must end at top level"
    is raised after the end-of-file flush. -/
def cFileSourceLines (ls : List RawLine) : SrcResult :=
  if badFinal ls then
    ⟨(srcLoop [.top] {} 0 (ls.dropLast.map toPLine)).1.dropLast, some .finalBackslash, 0, ls.length⟩
  else
    let r := srcLoop [.top] {} 0 (ls.map toPLine)
    ⟨r.1, if hasErr r.2 then some .inconsistent else if r.2 != [.top] then some .notTopLevel else none,
      (r.1.map (·.lines.length)).sum, ls.length⟩

def cFileSource (t : List Char) : SrcResult := cFileSourceLines (rawLines t)

/-- the physical lines counted as source lines, in the order they are reported -/
def countedLines (t : List Char) : Except Err (List Nat) :=
  match (cFileSource t).err with
  | some e => .error e
  | none => .ok ((cFileSource t).all.flatMap (·.lines))

/-- the first two parts of a CPP_DIRECTIVE buffer (text = optional " ", then "#") are "##".
    As in `catOf`, the test is on the class components (`== " "` ⇔ class `space`, `== "#"` ⇔ class `hash`). -/
def hashHash : List Cls → Bool
  | .space :: .hash :: .hash :: _ => true
  | .hash :: .hash :: _ => true
  | _ => false

/-- `flushed_line.lstrip(" ").startswith("##")` for a line of category CPP_DIRECTIVE -/
def LLine.startsHashHash (l : LLine) : Bool := hashHash (l.parts.map (·.1))

/-- `FileParser.is_directive(logical_line)`: the category is CPP_DIRECTIVE and the line does not start with
    the token `##` (which `Lexer` would read as one operator, so that `DirectiveParser.parse` would raise
    `ParseError("Not a directive.")`) -/
def LLine.isDirective (l : LLine) : Bool := l.cat == .cppDirective && !l.startsHashHash

/-- the logical lines `c_file_source` yields, as `parse_file` sees them:
    (`FileParser.is_directive`, counted physical lines) -/
def logical (t : List Char) : Except Err (List (Bool × List Nat)) :=
  match (cFileSource t).err with
  | some e => .error e
  | none => .ok (((cFileSource t).all.filter LLine.yielded).map fun l => (l.isDirective, l.lines))

/-! ## `FileParser.parse_file`: `LineGroup` folding into the node list -/

inductive NKind | code | directive
deriving DecidableEq, Repr, Inhabited

structure Node where
  kind : NKind
  lines : List Nat       -- node.lines
  numLines : Nat         -- node.num_lines  (LineGroup.line_count)
deriving Repr, DecidableEq, Inhabited

/-- `groups["code"]` = `some (lines, line_count)` when not `empty()` -/
def groupLoop (code : Option (List Nat × Nat)) : List LLine → Except Err (List Node)
  | [] => match code with
    | some (ls, c) => .ok [⟨.code, ls, c⟩]
    | none => .ok []
  | l :: rest =>
    if l.isDirective then
      match groupLoop none rest with
      | .error e => .error e
      | .ok ns =>
        let d : Node := ⟨.directive, l.lines, l.lines.length⟩
        match code with
        | some (ls, c) => .ok (⟨.code, ls, c⟩ :: d :: ns)
        | none => .ok (d :: ns)
    else
      match code with
      | some (ls, c) => groupLoop (some (ls ++ l.lines, c + l.lines.length)) rest
      | none => groupLoop (some (l.lines, l.lines.length)) rest

structure ParseResult where
  nodes : List Node
  totalSloc : Nat        -- tree.root.total_sloc  (groups["file"].line_count)
deriving Repr, Inhabited

/-- `FileParser(path).parse_file()` on the decoded text: node list in source order.
    (`groupLoop` keeps its `Except` type: no exception is left in the folding since the repair of F-C05-3,
    `groupLoop_ok`.) -/
def parseFile (t : List Char) : Except Err ParseResult :=
  let r := cFileSource t
  match groupLoop none (r.all.filter LLine.yielded) with
  | .error e => .error e
  | .ok ns =>
    match r.err with
    | some e => .error e
    | none => .ok ⟨ns, (ns.map (·.numLines)).sum⟩

end CbiVerif.CClean
