"""C18 — nothing is dropped silently: unhonoured input is always reported.

Implementation: config.load_database + finder.find in-process with a handler on the `codebasin` logger (and a real
                WarningAggregator attached to it), and the command line `codebasin -R summary analysis.toml`
                (closing meta-warning lines on stdout + cbi.log).
Model (Lean):   CbiVerif.Inc.find (`findinc`: include warnings, visits, unknown-directive warnings),
                CbiVerif.Warn (`dbevents`, `warnrender`, `warncount`: the aggregator with the regenerated regexes).
Spec oracle:    the multiset of events computed from the generator's description by an independent reference
                preprocessor (includes), from the file texts (directives) and from the entry descriptions (database).
"""
from __future__ import annotations

import collections
import json
import time
import logging
import os
import re

from harness import core
from harness.gen import codebase as CB
from harness.gen import inctree as IT
from harness.gen import warnbase as WB

PHRASES = ("user include", "system include")


class Cap(logging.Handler):
    def __init__(self):
        super().__init__(level=logging.DEBUG)
        self.recs = []

    def emit(self, r):
        self.recs.append((r.levelname, r.getMessage()))


def observe(root, platforms):
    """run the analysis in-process; returns dict(records [(level,msg)], closing [msg], counts [n,n,n], real {..})"""
    from codebasin import config
    from codebasin._detail.logging import WarningAggregator

    lg = logging.getLogger("codebasin")
    old = lg.level
    cap = Cap()
    agg = WarningAggregator()
    cap.addFilter(agg)
    lg.addHandler(cap)
    lg.setLevel(logging.DEBUG)
    out = {}
    try:
        dbs = {p: os.path.join(str(root), f"{p}.json") for p in platforms}
        real = IT.run_real(root, dbs)
        out["real"] = real
        n = len(cap.recs)
        out["records"] = list(cap.recs)
        out["counts"] = [mw._count for mw in agg.meta_warnings]
        agg.warn(lg)
        out["closing"] = [m for _, m in cap.recs[n:]]
    finally:
        lg.removeHandler(cap)
        lg.setLevel(old)
    return out


def d30_case(case):
    """narrow classifier of D30: some path, header name or directive text of the code base contains one of the
    category phrases the aggregator searches for"""
    desc = case["desc"]
    texts = list(desc["texts"]) + [l for b in desc["texts"].values() for l in b if l.lstrip().startswith("#")]
    texts.append(case.get("root_name", ""))
    return any(ph in t for ph in PHRASES for t in texts)


CLASSIFIERS = [("D30", d30_case)]


def tally(events):
    """(total, user, system) of a Counter of event keys"""
    return [sum(events.values()), sum(n for k, n in events.items() if k[0] == "user"), sum(n for k, n in events.items() if k[0] == "system")]


def parse_totals(text):
    out = [0, 0, 0]
    for i, pat in enumerate((r"(\d+) warnings generated during preprocessing", r"(\d+) user include files could not be found",
                             r"(\d+) system include files could not be found")):
        m = re.search(pat, text)
        if m:
            out[i] = int(m.group(1))
    return out


_SPELL_CACHE = {}


def spellings_of(drv, text):
    """{line: (col, spelling, warns)} of every directive line of a file's text (Lean model `directivesOfTextC`)"""
    if text not in _SPELL_CACHE:
        if len(_SPELL_CACHE) > 4000:
            _SPELL_CACHE.clear()
        _SPELL_CACHE[text] = {ln: (col, sp, w) for ln, col, sp, w in drv.ask({"op": "dirspell", "text": text})}
    return _SPELL_CACHE[text]


def events_of_expected(drv, desc, root, want):
    """the expected events (keys of `warnbase.expected`) as typed events for the message model: the spelling and the
    column of a source-level event are those of the directive at (file, line) of the generated text"""
    texts = {os.path.join(str(root), os.path.normpath(p)): "\n".join(b) + ("\n" if b else "") for p, b in desc["texts"].items()}
    evs = []
    for key, n in sorted(want.items(), key=str):
        if key[0] in ("user", "system") and key[2] == 0:
            ev = {"kind": "user", "forced": True, "file": key[1], "name": key[3]}
        elif key[0] in ("user", "system", "directive"):
            col, sp, _ = spellings_of(drv, texts.get(key[1], "")).get(key[2], (0, "", False))
            ev = {"kind": key[0], "file": key[1], "line": key[2], "col": col, "name": key[3], "spelling": sp}
        else:
            ev = {"kind": key[0], "name": key[1]}
        evs.extend([ev] * n)
    return evs


def exact_messages(ctx, drv, case, desc, root, want, warn_records, obs, out):
    """C18 message layer: (a) the text the Lean model renders for every expected event, from the templates regenerated
    out of the log.warning call sites, is byte for byte the `msg` of a record the code issued (multiset equality);
    (b) property oracle independent of the templates: every expected event is *named* by some issued message
    (`WarnMsg.namesEvent`: file:line[:col] first, the requested name in quotes, the category phrase of the form, the
    directive as written) - the predicate `C18Msg.message_names_event` proves of every rendered message;
    (c) `C18Msg.totals_eq_counts_rendered` on this very input."""
    evs = events_of_expected(drv, desc, root, want)
    r = drv.ask({"op": "warnmsg", "events": evs})
    if "events" not in r:
        ctx.corr_break("warnmsg", case, "reply", r)
        return None
    model = collections.Counter(x["message"] for x in r["events"])
    real = collections.Counter(m for _, m in warn_records)
    ctx.dist["messages_compared_exactly"] += sum(model.values())
    out["model_messages"] = sorted(model.elements())[:6]
    if model != real:
        # which expected events have no byte-identical record?
        left = real - model
        unnamed = []
        for ev, x in zip(evs, r["events"]):
            if x["message"] in real and real[x["message"]] >= model[x["message"]]:
                continue
            cand = sorted(left) if left else sorted(real)
            rr = drv.ask({"op": "warnmsg", "events": [dict(ev, observed=o) for o in cand]}) if cand else {"events": []}
            if not any(y.get("spec_names") for y in rr["events"]):
                unnamed.append((ev, cand[:2]))
        if unnamed:
            ev, cand = unnamed[0]
            ctx.classify(case, f"no issued warning names the event {json.dumps(ev)} (file:line first, the requested name in quotes, the "
                               f"category of its form, the directive as written); closest records: {cand!r}"[:900], CLASSIFIERS)
        ctx.corr_break("warnmsg.text", case, sorted((real - model).elements())[:3], sorted((model - real).elements())[:3])
    else:
        ctx.dist["codebases_messages_identical"] += 1
    if not all(x["model_names"] for x in r["events"]):
        ctx.corr_break("warnmsg: rendered message does not name its event (contradicts message_names_event)", case, "theorem",
                       [x["message"] for x in r["events"] if not x["model_names"]][:2])
    # totals over the rendered messages: theorem instance, and against the counters observed
    free = all(all(x["fields_free"]) for x in r["events"])
    if free and r["counts"] != r["expected_counts"]:
        ctx.corr_break("warnmsg: counts of rendered messages != per-category numbers (contradicts totals_eq_counts_rendered)", case,
                       r["expected_counts"], r["counts"])
    if model == real and r["counts"] != obs["counts"]:
        ctx.corr_break("warnmsg.counts", case, obs["counts"], r["counts"])
    if free and model == real and obs["counts"] != r["expected_counts"]:
        ctx.classify(case, f"aggregator counters {obs['counts']} != numbers of events per category {r['expected_counts']} although no field "
                           f"holds a category phrase", CLASSIFIERS)
    return model


def check_codebase(ctx, drv, desc, root, origin, cli, extra_expected=None):
    case = {"desc": desc, "origin": origin, "root_name": os.path.basename(str(root))}
    out = {"origin": origin}
    want = WB.expected(desc, root)
    if extra_expected:
        want.update(extra_expected)
    obs = observe(root, list(desc["platforms"]))
    real = obs["real"]
    if "exc" in real:
        out["implementation"] = real["exc"]
        ctx.classify(case, f"analysis raises {real['exc']}", CLASSIFIERS)
        return out
    got = collections.Counter()
    model_msgs = None
    details = {}
    unknown_msgs = []
    warn_records = [(l, m) for l, m in obs["records"] if l == "WARNING"]
    for _, msg in warn_records:
        c = WB.classify_message(msg)
        if c is None:
            unknown_msgs.append(msg)
        else:
            got[c[0]] += 1
            details[c[0]] = c[1]
    out["implementation"] = {"events": sorted(map(str, got.elements())), "closing_counts": obs["counts"]}
    out["expected"] = sorted(map(str, want.elements()))
    kinds = collections.Counter(k[0] for k in want.elements())
    ctx.count(key="platforms=%d" % len(desc["platforms"]))
    for k, n in kinds.items():
        ctx.dist["expected_" + k] += n
    ctx.dist["expected_forced_missing"] += sum(n for k, n in want.items() if k[0] == "user" and k[2] == 0)
    ctx.dist["quiet_codebases"] += 1 if not want else 0
    ctx.dist["multipass_commands"] += sum(1 for ms in desc.get("dbmeta", {}).values() for m in ms if m.get("passes"))
    ctx.dist["expected_per_pass_repeats"] += sum(n - 1 for k, n in want.items() if k[0] in ("user", "system") and "gone_pass" in str(k[3]))
    if sum(1 for k in kinds if kinds[k]) >= 2 and (kinds["user"] or kinds["system"]):
        ctx.nontrivial.add(json.dumps([desc["texts"], desc["platforms"]], sort_keys=True))
    ctx.sample({"files": sorted(desc["texts"]), "expected": sorted(map(str, want.elements()))[:12]}, cap=4)
    # ---- (1) one warning per occurrence, naming file / line / name / form   (implementation vs spec)
    if got != want:
        miss = want - got
        extra = got - want
        ctx.classify(case, f"warnings issued differ from the unhonoured input: not reported {sorted(map(str, miss.elements()))[:4]}, "
                           f"reported without cause or twice {sorted(map(str, extra.elements()))[:4]}", CLASSIFIERS)
    if unknown_msgs:
        ctx.classify(case, f"warning of no known kind although the generator produced nothing else: {unknown_msgs[0][:160]!r}", CLASSIFIERS)
    for key, d in details.items():
        if key[0] in ("user", "system"):
            delim_ok = d["delim"] in ('"', "<") and (d["delim"] == '"') == (key[0] == "user") or not d["spelling"].split("include")[-1].strip()[:1] in '"<'
            if d["line2"] != key[2] or not delim_ok:
                ctx.classify(case, f"include warning {key} does not name line/form consistently: {d}", CLASSIFIERS)
    # ---- (2) totals of the aggregator = numbers of warnings issued per category
    spec_tot = tally(got)
    if obs["counts"] != spec_tot:
        ctx.classify(case, f"aggregator counters {obs['counts']} != warnings issued (total, user include, system include) {spec_tot}", CLASSIFIERS)
    closing_tot = parse_totals("\n".join(obs["closing"]))
    if closing_tot != spec_tot:
        ctx.classify(case, f"closing meta-warnings print {closing_tot}, warnings issued {spec_tot}", CLASSIFIERS)
    if not want and (warn_records or obs["closing"]):
        ctx.classify(case, f"fully honoured input produced warnings: {[m for _, m in warn_records][:2]} {obs['closing'][:1]}", CLASSIFIERS)
    # ---- (3) correspondence with the Lean model
    if drv is not None:
        m = drv.ask(IT.model_request(root, real))
        if "ok" not in m:
            ctx.corr_break("findinc", case, "ok", m)
        else:
            mg = collections.Counter()
            for form, f, ln, name, _ in m["warns"]:
                mg[(form, f, ln, name)] += 1
            for f, ln, name, sp in m["dwarns"]:
                mg[("directive", f, ln, name)] += 1
            ig = collections.Counter({k: n for k, n in got.items() if k[0] in ("user", "system", "directive")})
            if mg != ig:
                ctx.corr_break("findinc.warnings", case, sorted(map(str, (ig - mg).elements()))[:5], sorted(map(str, (mg - ig).elements()))[:5])
            out["model"] = sorted(map(str, mg.elements()))
            # theorem one_warning_per_unresolved_visit on the model's own run
            unresolved = collections.Counter((form, f, ln, name) for form, f, ln, name, spec in m["visits"] if spec is None)
            if unresolved != collections.Counter({k: n for k, n in mg.items() if k[0] != "directive"}):
                ctx.corr_break("findinc: warnings != unresolved visits (contradicts the theorem)", case, "theorem", str(unresolved)[:300])
            # the include directives the real code evaluated = the model's visits
            if [[f, ln] for _, f, ln in real["visits"]] != [[f, ln] for _, f, ln, _, _ in m["visits"] if ln != 0]:
                ctx.corr_break("findinc.visits", case, real["visits"][:8], m["visits"][:8])
        # database events
        for pname, ents in desc["platforms"].items():
            req = {"op": "dbevents", "dbpath": os.path.join(str(root), f"{pname}.json"), "entries": [
                {"path": os.path.normpath(os.path.join(str(root), e.get("builddir", ""), e["file"])), "supported": True, "exists": not mt["missing"],
                 "compiler": mt["compiler"], "known": mt["known"], "unrecognised": mt["unrecognised"]}
                for e, mt in zip(ents, desc["dbmeta"][pname])]}
            r = drv.ask(req)
            # the events of the database model, rendered by the exact message model (regenerated templates)
            kmap = {"missingFile": "missing", "unknownCompiler": "compiler", "unknownArgs": "args", "noFiles": "nofiles"}
            rm = drv.ask({"op": "warnmsg", "events": [{"kind": kmap.get(k, k), "name": nm} for k, nm in r["events"]]})
            for x in rm["events"]:
                if not any(mm == x["message"] for _, mm in warn_records):
                    ctx.corr_break("dbevents", case, [mm for _, mm in warn_records if "include" not in mm and "directive" not in mm][:6],
                                   [y["message"] for y in rm["events"]])
                    break
        # (the rendering of the source-level events is compared exactly in `exact_messages` below)
        r = drv.ask({"op": "warncount", "records": [[l, mm] for l, mm in obs["records"]]})
        if r["counts"] != obs["counts"] or r["closing"] != obs["closing"]:
            ctx.corr_break("warncount", case, {"counts": obs["counts"], "closing": obs["closing"]}, r)
        out["model_aggregator"] = r["counts"]
        model_msgs = exact_messages(ctx, drv, case, desc, root, want, warn_records, obs, out)
    # ---- (4) the command line: closing lines and cbi.log
    # the totals do not depend on how much of the log is echoed to the terminal (-v, -v -v, --debug)
    for vflags in ([[]] + [ctx.rng.choice([["-v"], ["-v", "-v"], ["--debug"], ["-v", "--debug"]])] if cli else []):
        rc, so, se = core.run_cli("codebasin", vflags + ["-R", "summary", "analysis.toml"], cwd=root)
        ctx.dist["cli_runs" + ("" if not vflags else ":verbose")] += 1
        case = dict(case, cli_flags=vflags) if vflags else case
        log = ""
        lp = os.path.join(str(root), "cbi.log")
        if os.path.exists(lp):
            with open(lp) as fh:
                log = fh.read()
        if rc != 0:
            ctx.classify(case, f"codebasin exits {rc}: {(so + se)[-200:]}", CLASSIFIERS)
        else:
            cli_tot = parse_totals(so)
            nlog = len(re.findall(r"^warning: ", log, re.M)) - sum(1 for x in cli_tot if x)
            out["cli_totals"], out["cli_log_warnings"] = cli_tot, nlog
            want_tot = tally(want)
            if cli_tot != want_tot:
                ctx.classify(case, f"command line prints totals {cli_tot} (all, user include, system include); unhonoured input per category {want_tot}", CLASSIFIERS)
            if nlog != want_tot[0]:
                ctx.classify(case, f"cbi.log holds {nlog} warnings, {want_tot[0]} expected", CLASSIFIERS)
            exact_ok = model_msgs is not None and model_msgs == collections.Counter(m for _, m in warn_records)
            if exact_ok:
                # every message (as the model renders it = as the logger issued it in-process) stands in cbi.log, byte for
                # byte, as often as the event occurs
                for msg, k in model_msgs.items():
                    # the command line hands `load_database` the database path as written in analysis.toml (relative)
                    shown = msg if ("warning: " + msg + "\n") in log else msg.replace("'" + str(root) + os.sep, "'", 1)
                    if log.count("warning: " + shown + "\n") != k:
                        ctx.dist["cli_log_mismatch"] += 1
                        ctx.classify(case, f"cbi.log holds {log.count('warning: ' + shown + chr(10))} record(s) of the warning {shown[:200]!r}, {k} expected", CLASSIFIERS)
                        break
                else:
                    ctx.dist["cli_logs_identical"] += 1
            else:
                for key in want:
                    if key[0] in ("user", "system") and f"{key[1]}:{key[2]}: {key[0]} include '{key[3]}' not found" not in log:
                        ctx.classify(case, f"cbi.log lacks the warning for {key}", CLASSIFIERS)
                        break
    return out


def gen_and_check(ctx, drv, i, cli, quiet=False):
    with core.Scratch() as d:
        root = os.path.realpath(str(d))
        desc = WB.gen(ctx.rng, root, dangling=not quiet, unknown=not quiet, db_events=not quiet)
        return check_codebase(ctx, drv, desc, root, f"{'quiet' if quiet else 'random'}:{i}", cli)


def fixed_desc(texts, platforms, dbmeta=None):
    d = dict(texts=texts, headers=[], sources=[], dirs=[""], platforms=platforms, dangling=[], unknown=[], links=[])
    d["dbmeta"] = dbmeta or {p: [{"missing": False, "compiler": "gcc", "known": True, "unrecognised": []} for _ in es] for p, es in platforms.items()}
    return d


def memo_stream(ctx, drv):
    """the same missing header requested repeatedly and in both forms: every visit warns (memoised failure),
    and a resolvable quote include after a failed angle include of the same name does not warn"""
    texts = {
        "src/a.c": ["#include <y.h>", '#include "y.h"', "#include <y.h>", '#include "gone.h"', '#include "gone.h"', '#include "h.h"', '#include "h.h"', "int a;"],
        "src/y.h": ["int y;"],
        "src/h.h": ['#include "gone.h"', "#include <gone.h>", "int h;"],
        "src/b.c": ['#include "h.h"', "#line 7", "#warning w", "#error e", "#ident \"v\"", "int b;", "#include <sys/nope.h>", '#  include "../inc/nope.h"'],
    }
    plats = {"cpu": [{"file": "src/a.c", "directory": ".", "arguments": ["gcc", "-c", "src/a.c"]},
                     {"file": "src/b.c", "directory": ".", "arguments": ["gcc", "-c", "src/b.c"]}],
             "gpu": [{"file": "src/a.c", "directory": ".", "arguments": ["clang", "-DG", "-c", "src/a.c"]}]}
    desc = fixed_desc(texts, plats)
    with core.Scratch() as d:
        root = os.path.realpath(str(d))
        CB.write_codebase(root, desc)
        check_codebase(ctx, drv, desc, root, "memo-stream", cli=True)


def d30_stream(ctx, drv):
    """separate stream: a path containing a category phrase (re-confirms D30)"""
    for name, inc in (("system include", '#include "nope.h"'), ("user include", "#include <nope.h>")):
        texts = {f"{name}/a.c": [inc, "int a;"]}
        plats = {"cpu": [{"file": f"{name}/a.c", "directory": ".", "arguments": ["gcc", "-c", f"{name}/a.c"]}]}
        desc = fixed_desc(texts, plats)
        with core.Scratch() as d:
            root = os.path.realpath(str(d))
            CB.write_codebase(root, desc)
            check_codebase(ctx, drv, desc, root, "d30:" + name, cli=True)


def forced_stream(ctx, drv):
    """-include naming a file that cannot be found: one user-include warning, line 0; a once-header forced twice and a
    missing name forced twice (one warning per occurrence)"""
    texts = {"src/a.c": ["int a;", '#include "once.h"'], "src/once.h": ["#pragma once", '#include "gone.h"', "int o;"]}
    plats = {"cpu": [{"file": "src/a.c", "directory": ".", "arguments": ["gcc", "-include", "nothere.h", "-include", "once.h", "-include", "once.h",
                                                                        "-include", "nothere.h", "-c", "src/a.c"]}],
             "gpu": [{"file": "src/a.c", "directory": ".", "arguments": ["clang", "-include", "nothere.h", "-c", "src/a.c"]}]}
    desc = fixed_desc(texts, plats)
    with core.Scratch() as d:
        root = os.path.realpath(str(d))
        CB.write_codebase(root, desc)
        check_codebase(ctx, drv, desc, root, "forced-missing", cli=True)


def shapes_fixed_stream(ctx, drv):
    """one include directive evaluated several times with another outcome each time, one file content several times:
    (a) a selecting header `#include IMPL` reached by two translation units of one platform whose -DIMPL differ (first the
    existing file then a dangling name, and in the other platform the other way round) and twice in one unit with the macro
    redefined in between; (b) byte-identical copies, in two directories, of a header and of a source that hold directives
    the analysis does not implement; (c) a header that is guarded only in part (guard block, then an implementation
    section with dangling includes), included twice with the section's macro defined in between"""
    texts = {
        "src/sel.h": ["#include IMPL", "int after;"],
        "src/impl_a.h": ["int impl_a;"],
        "src/u1.c": ['#include "sel.h"', "int u1;"],
        "src/u2.c": ['#include "sel.h"', "int u2;"],
        "src/x.c": ['#define IMPL "impl_a.h"', '#include "sel.h"', "#undef IMPL", '#define IMPL "impl_gone.h"', '#include "sel.h"', "#undef IMPL",
                    "#define IMPL <impl_gone.h>", '#include "sel.h"', "#undef IMPL", '#define IMPL "impl_a.h"', '#include "sel.h"', "int x;"],
        "third/zlite/zcompat.h": ["#ifndef ZCOMPAT_H", "#define ZCOMPAT_H", '#ident "zlite 1.0"', "#line 9", "#include_next <stdio.h>", "int z;", "#endif"],
        "tools/third/zlite/zcompat.h": ["#ifndef ZCOMPAT_H", "#define ZCOMPAT_H", '#ident "zlite 1.0"', "#line 9", "#include_next <stdio.h>", "int z;", "#endif"],
        "gen/a/stub.c": ["#assert machine(x)", "int stub;"],
        "gen/b/stub.c": ["#assert machine(x)", "int stub;"],
        "src/list.h": ["// interface", "#ifndef LIST_H", "#define LIST_H", "int list;", "#endif", "#ifdef LIST_IMPLEMENTATION", '#include "list_impl.h"',
                       "#include <list_arch.h>", "#endif"],
        "src/util.h": ["#ifndef UTIL_H", "#define UTIL_H", '#include "util_gone.h"', "#endif"],
        "src/list.c": ['#include "list.h"', '#include "util.h"', "#define LIST_IMPLEMENTATION", '#include "list.h"', '#include "util.h"',
                       '#include "../third/zlite/zcompat.h"', '#include "../tools/third/zlite/zcompat.h"', "int l;"],
        "src/main.c": ['#include "list.h"', '#include "list.h"', "int main;"],
    }

    def ent(f, *a):
        return {"file": f, "directory": ".", "arguments": ["gcc"] + list(a) + ["-c", f]}

    plats = {"cpu": [ent("src/u1.c", '-DIMPL="impl_a.h"'), ent("src/u2.c", '-DIMPL="impl_gone.h"'), ent("src/u1.c", "-DIMPL=<impl_gone.h>"),
                     ent("src/x.c"), ent("src/list.c"), ent("src/main.c"), ent("gen/a/stub.c")],
             "gpu": [ent("src/u2.c", '-DIMPL="impl_gone.h"'), ent("src/u1.c", '-DIMPL="impl_a.h"'), ent("src/list.c"), ent("src/main.c", "-DLIST_IMPLEMENTATION"),
                     ent("gen/b/stub.c")]}
    desc = fixed_desc(texts, plats)
    with core.Scratch() as d:
        root = os.path.realpath(str(d))
        CB.write_codebase(root, desc)
        check_codebase(ctx, drv, desc, root, "shapes-fixed", cli=True)


def shape_stream(ctx, drv, budget_s=40.0):
    """random code bases of the shared generator with the shapes of `warnbase.add_shapes` grafted on: computed includes whose
    macro differs between the units of one platform and between two inclusions in one unit, byte-identical copies of files
    with unknown directives, partially guarded headers included twice"""
    n = ctx.n(32, 220)
    t0 = time.time()
    for i in range(n):
        if time.time() - t0 > budget_s:
            ctx.notes.append(f"shape stream: time budget reached after {i} code bases")
            break
        shapes = list(WB.SHAPES) if i % 4 == 3 else [WB.SHAPES[i % 4]]
        with core.Scratch() as d:
            root = os.path.realpath(str(d))
            desc = WB.gen(ctx.rng, root, shapes=shapes)
            ctx.dist["shape_codebases"] += 1
            for t in desc["shapes"]:
                ctx.dist["shape:" + t] += 1
            before = len(ctx.violations)
            check_codebase(ctx, drv, desc, root, f"shapes:{i}:{'+'.join(shapes)}", cli=(i < 4))
            ctx.dist["shape_violations"] += len(ctx.violations) - before


REPR_WORDS = ["x", "1", "'a'", '"s"', '"it\'s"', "a\\b", "`", "'\\n'", '"q\\"r"', "<y.h>", "@", "é", "a  b", "\t", "(", "##"]


def repr_stream(ctx, drv):
    """unknown directives whose spelling makes Python's list repr choose the other quote or escape characters, with leading
    white space / comments before `#` (the column): the messages of the real parser vs the model's, byte for byte, and the
    property's naming predicate on the real ones"""
    from codebasin import file_parser
    fixed = ["#foo", "  #foo x", "\t# foo  bar   baz", '/* c */ #foo "a\'b"', "#ident 'a'", '#ident "v"', "#foo a\\b", "#foo `x", "#foo 'a' \"b\"",
             "#foo \\", "  cont", "# ", "#", "#line 3", "#foo\ttab", "#fooé", "int x;", "#warning don't", "#sccs \"it's\""]
    for i in range(ctx.n(12, 60)):
        lines = list(fixed) if i == 0 else []
        for _ in range(0 if i == 0 else ctx.rng.randint(3, 10)):
            lead = ctx.rng.choice(["", "", " ", "   ", "\t", "/* c */ ", " /**/\t"])
            name = ctx.rng.choice(["foo", "ident", "sccs", "assert", "line", "error", "import", "Foo_1"])
            words = " ".join(ctx.rng.choice(REPR_WORDS) for _ in range(ctx.rng.randint(0, 3)))
            lines.append(f"{lead}#{ctx.rng.choice(['', ' ', '  '])}{name}{' ' if words else ''}{words}")
            if ctx.rng.random() < 0.3:
                lines.append("int v;")
        text = "\n".join(lines) + "\n"
        case = {"repr_text": text}
        with core.Scratch() as d:
            path = os.path.join(os.path.realpath(str(d)), "r.c")
            with open(path, "w") as fh:
                fh.write(text)
            lg = logging.getLogger("codebasin")
            cap, old = Cap(), lg.level
            lg.addHandler(cap)
            lg.setLevel(logging.DEBUG)
            try:
                file_parser.FileParser(path).parse_file()
                real = [m for l, m in cap.recs if l == "WARNING" and "unrecognized directive" in m]
            except Exception as ex:  # ill-formed text (unterminated constant ...): not a C18 input
                ctx.dist["repr_stream_rejected"] += 1
                continue
            finally:
                lg.removeHandler(cap)
                lg.setLevel(old)
        ctx.count(key="repr-stream")
        if drv is None:
            continue
        model = drv.ask({"op": "dirmsgs", "file": path, "text": text})
        ctx.dist["directive_messages_compared_exactly"] += len(real)
        if [m["message"] for m in model] != real:
            # property side: one message per reported directive that names file:line:col and the spelling as Python prints it
            rr = drv.ask({"op": "warnmsg", "events": [{"kind": "directive", "file": path, "line": m["line"], "col": m["col"], "name": m["name"],
                                                       "spelling": m["spelling"], "observed": o} for m, o in zip(model, real)]})
            if len(model) != len(real) or not all(x.get("spec_names") for x in rr["events"]):
                ctx.classify(case, f"unknown-directive warnings do not name their directives: issued {real[:3]!r}, expected {[m['message'] for m in model][:3]!r}", [])
            ctx.corr_break("dirmsgs", case, real[:4], [m["message"] for m in model][:4])
        elif any("\\" in m or '["' in m for m in real):
            ctx.dist["directive_messages_with_repr_escapes"] += 1


def run(ctx, drv, cap=None):
    core.import_codebasin()
    t_run = time.time()
    limit = cap if cap is not None else (520 if ctx.thorough() else 65)
    ctx.rule = ("inputs = generated code bases (shared generator, 1-3 platforms, 1-4 translation units each, headers included "
                "several times) with a known set of dangling quote/angle includes in reached and unreached branches, unknown "
                "directives mixed with #line/#warning/#error, database entries for missing files, unknown compilers and unknown "
                "options, computed dangling includes (the form is known only after expansion), build-directory entries whose file is missing there "
                "although a file of the same relative path exists under the root; plus fully honoured code bases; the command line is also run "
                "with -v / -v -v / --debug (the totals must not change); commands of multi-pass compilers (nvcc, icpx -fsycl) whose source has includes only the "
                "device passes, only the host pass and every pass reach; a stream of unknown directives with quotes, backslashes and leading white space "
                "(Python list repr, column); a stream of the same code bases with three shapes grafted on (and one fixed code base holding all three): "
                "a selecting header `#include MACRO` reached by several translation units of one platform whose -DMACRO differ and several times in one "
                "unit with the macro redefined in between (values that exist / do not exist, quote / angle), byte-identical copies of a header or source "
                "with unknown directives in several directories (included, compiled or just lying in the tree), a partially guarded header (guard block "
                "followed by a conditional section with dangling includes) included two or three times with the section's macro defined in between. "
                "Non-trivial = distinct code base whose expected events span at least two "
                "categories including an unresolved include.")
    ctx.assumptions += [
        "expected include events come from an independent reference preprocessor; for a macro redefined with a different body "
        "(ill-formed C) it keeps the first definition, as the implementation does",
        "generated directives carry no trailing tokens (the separate 'Additional tokens at end of directive' warning is not part of C18)",
        "multi-pass compilers (nvcc default / -gencode / --gpu-architecture, icpx -fsycl) are generated; 'one warning per occurrence' is read as: "
        "every pass is a preprocessing run of its own, so an unresolved include is reported once per pass that evaluates it (with that pass's "
        "macros), while the command-level events (unknown compiler, unrecognised arguments, missing file) are reported once per command and "
        "an unknown directive once per parsed file",
        "message layer: the text of every expected event is rendered by the Lean model from the templates regenerated out of the log.warning "
        "call sites and compared byte for byte with the logger's records and with cbi.log; Python's repr of str is modelled exactly for ASCII, "
        "characters >= U+0080 are assumed printable (generated: 'é' only)",
        "generated names contain no category phrase ('user include', 'system include'); such names are the separate D30 stream",
    ]
    if drv is not None:
        t = drv.ask({"op": "warntemplates"})
        ctx.dist["message_patterns_from_regenerated_templates"] += 1 if (isinstance(t, dict) and WB.use_templates(t)) else 0
    for f in sorted((core.VERIF / "corpus" / "C18").glob("*.json")):
        c = json.loads(f.read_text())
        with core.Scratch() as d:
            root = os.path.realpath(str(d))
            CB.write_codebase(root, c["desc"])
            check_codebase(ctx, drv, c["desc"], root, "corpus:" + f.name, cli=True)
    memo_stream(ctx, drv)
    forced_stream(ctx, drv)
    shapes_fixed_stream(ctx, drv)
    repr_stream(ctx, drv)
    n = ctx.n(260, 1200)
    ncli = min(ctx.n(22, 120), 120)
    for i in range(n):
        if time.time() - t_run > limit:
            ctx.notes.append(f"time budget reached after {i} code bases")
            break
        gen_and_check(ctx, drv, i, cli=(i % max(1, n // ncli) == 0), quiet=(i % 9 == 8))
    # after the random stream (whose inputs per VERIF_SEED stay what they were), with a wall-clock budget of its own
    shape_stream(ctx, drv, budget_s=(120.0 if ctx.thorough() and cap is None else 40.0))
    d30_stream(ctx, drv)


def search(ctx, drv):
    # failing-input search: same generators, 8x budget, hard wall-clock cap
    run(ctx, drv, cap=130)


def replay(ctx, drv, case):
    core.import_codebasin()
    c2 = core.Ctx(ctx.prop, "thorough", 0)
    with core.Scratch() as d:
        root = os.path.realpath(str(d))
        if "repr_text" in case:
            from codebasin import file_parser
            path = os.path.join(root, "r.c")
            with open(path, "w") as fh:
                fh.write(case["repr_text"])
            lg = logging.getLogger("codebasin")
            cap = Cap()
            lg.addHandler(cap)
            try:
                file_parser.FileParser(path).parse_file()
            finally:
                lg.removeHandler(cap)
            real = [m for l, m in cap.recs if l == "WARNING"]
            model = [m["message"] for m in drv.ask({"op": "dirmsgs", "file": path, "text": case["repr_text"]})] if drv else None
            return {"implementation": real, "model": model, "spec": "one warning per unknown directive naming file:line:col and the spelling"}
        if case.get("root_name", "").find("include") >= 0:
            root = os.path.join(root, case["root_name"])
            os.makedirs(root)
        CB.write_codebase(root, case["desc"])
        out = check_codebase(c2, drv, case["desc"], root, "replay", cli=True)
    out["violations"] = [w for w, _ in c2.violations]
    out["known_findings"] = sorted(c2.known_seen)
    out["correspondence_breaks"] = c2.corr_breaks[:2]
    return out
