import CbiVerif.Lemmas.LexRoundtrip
import CbiVerif.Model.EvalBridge
import CbiVerif.Lemmas.EvalChar
/-!
# C02: the source tokens of every parse tree are read back by the lexer

`lexable a` (integer constants syntactically valid; character constants plain, with a one-character
backslash escape, `\ooo` with one to three octal digits or `\xh…` with at least one hexadecimal digit — this
includes every character constant that has a C value, `chr_lexable_of_value`; identifiers made of letters,
digits, `_`) implies that every token of
`renderSrc a` is in the class `LexRT.lexOK`, so `LexRT.tokenize_text` applies to the text of `a`.
-/
namespace CbiVerif.LexSource
open CbiVerif.PP CbiVerif.CExpr CbiVerif.LexRT CbiVerif.Climb CbiVerif.EvalBridge

/-- the leaves of the tree can be written as single lexer tokens -/
def lexable : CExpr.Ast → Bool
  | .lit l => l.valid
  | .chr c => (match c with
      | .plain ch => isPrintable ch && ch != '\\' && ch != '\''
      | .simple ch => isPrintable ch
      | .octal ds => decide (1 ≤ ds.length) && decide (ds.length ≤ 3)
      | .hex ds => decide (1 ≤ ds.length))
  | .ident n => identOK n.toList
  | .defd n _ => identOK n.toList
  | .paren a => lexable a
  | .un _ a => lexable a
  | .bin _ l r => lexable l && lexable r
  | .tern c t e => lexable c && lexable t && lexable e

theorem digit_facts : ∀ (v : Fin 16) (u : Bool),
    wordChar (Digit.char ⟨v, u⟩) = true ∧ isWs (Digit.char ⟨v, u⟩) = false := by decide
theorem digit_dec : ∀ (v : Fin 16) (u : Bool), v.val < 10 → isDigit (Digit.char ⟨v, u⟩) = true := by decide
theorem suffix_word (s : Suffix) : s.chars.all wordChar = true := by
  obtain ⟨su, sl, f⟩ := s
  cases su <;> cases sl <;> cases f <;> decide
theorem digits_word (ds : List Digit) : (ds.map Digit.char).all wordChar = true := by
  induction ds with
  | nil => rfl
  | cons d ds ih => obtain ⟨v, u⟩ := d; simp [(digit_facts v u).1, ih]
theorem ops_ok (op : BinOp) : lexOK (opTok op.sym) = true := by cases op <;> decide
theorem uops_ok (op : UnOp) : lexOK (opTok op.sym) = true := by cases op <;> decide
theorem fixed_ok : lexOK (opTok "?") = true ∧ lexOK (opTok ":") = true ∧ lexOK lpTok = true ∧
    lexOK rpTok = true ∧ lexOK (identTok "defined") = true := by decide

theorem lit_ok (l : Lit) (h : l.valid = true) : lexOK (numTok l.spell) = true := by
  have hw : (l.digits.map Digit.char ++ l.suffix.chars).all wordChar = true := by
    rw [List.all_append, digits_word, suffix_word]; rfl
  show numOK (String.ofList l.chars).toList = true
  rw [String.toList_ofList]
  unfold Lit.valid at h
  unfold Lit.chars Lit.prefixChars
  obtain ⟨base, pu, digits, suffix⟩ := l
  cases base
  · -- decimal: the first digit is a decimal digit
    cases digits with
    | nil => simp at h
    | cons d ds =>
      obtain ⟨v, u⟩ := d
      simp only [Base.radix, List.all_cons, Bool.and_eq_true, decide_eq_true_eq] at h
      simp only [List.nil_append, List.map_cons, List.cons_append, numOK, Bool.and_eq_true,
        Bool.not_eq_eq_eq_not, Bool.not_true]
      refine ⟨⟨digit_dec v u (of_decide_eq_true h.1.1), (digit_facts v u).2⟩, ?_⟩
      rw [List.all_append, digits_word, suffix_word]; rfl
  · simp only [List.cons_append, List.nil_append, numOK, Bool.and_eq_true, Bool.not_eq_eq_eq_not, Bool.not_true]
    exact ⟨⟨by decide, by decide⟩, hw⟩
  · simp only [List.cons_append, List.nil_append, numOK, Bool.and_eq_true, Bool.not_eq_eq_eq_not, Bool.not_true,
      List.all_cons]
    refine ⟨⟨by decide, by decide⟩, ?_, hw⟩
    cases pu <;> simp only [Bool.false_eq_true, ↓reduceIte] <;> decide
  · simp only [List.cons_append, List.nil_append, numOK, Bool.and_eq_true, Bool.not_eq_eq_eq_not, Bool.not_true,
      List.all_cons]
    refine ⟨⟨by decide, by decide⟩, ?_, hw⟩
    cases pu <;> simp only [Bool.false_eq_true, ↓reduceIte] <;> decide

theorem chr_ok (c : CharLit) (h : lexable (.chr c) = true) : lexOK (chrTok (String.ofList c.chars)) = true := by
  show chrOK (String.ofList c.chars).toList = true
  rw [String.toList_ofList]
  cases c with
  | plain ch => simpa [lexable, CharLit.chars, chrOK] using h
  | simple ch =>
    have hp : isPrintable ch = true := h
    simp only [CharLit.chars, chrOK, List.isEmpty_nil, Bool.true_and, hp, Bool.true_or]
  | octal ds =>
    simp only [lexable, Bool.and_eq_true, decide_eq_true_eq] at h
    match ds, h with
    | d :: r, h =>
      have hl : (r.map EvalChar.octChar).length ≤ 2 := by simp at h ⊢; omega
      show chrOK ('\\' :: EvalChar.octChar d :: r.map EvalChar.octChar) = true
      have h2 : (isOctDigit (EvalChar.octChar d) && decide ((r.map EvalChar.octChar).length ≤ 2) &&
          (r.map EvalChar.octChar).all isOctDigit) = true := by
        rw [(EvalChar.oct_facts d).1, EvalChar.all_oct, decide_eq_true hl]; rfl
      simp only [chrOK, h2, Bool.or_true, Bool.true_or]
  | hex ds =>
    simp only [lexable, decide_eq_true_eq] at h
    have hne : (ds.map Digit.char).isEmpty = false := by
      cases ds with
      | nil => simp at h
      | cons _ _ => rfl
    have h3 : ((('x' : Char) == 'x') && !(ds.map Digit.char).isEmpty && (ds.map Digit.char).all isHexDigit) = true := by
      rw [hne, EvalChar.all_hex]; rfl
    simp only [CharLit.chars, chrOK, h3, Bool.or_true]

/-- every character constant that has a C value is written as one lexer token -/
theorem chr_lexable_of_value (c : CharLit) (h : (cChar c).isSome = true) : lexable (.chr c) = true := by
  simp only [cChar, Option.isSome_map, Option.isSome_iff_exists] at h
  obtain ⟨n, hn⟩ := h
  cases c with
  | plain ch =>
    simp only [CharLit.code] at hn
    split at hn
    · rename_i hr
      simp only [Bool.and_eq_true, decide_eq_true_eq, bne_iff_ne, ne_eq] at hr
      simp only [lexable, isPrintable, Bool.and_eq_true, decide_eq_true_eq, bne_iff_ne, ne_eq]
      exact ⟨⟨⟨hr.1.1.1, hr.1.1.2⟩, hr.2⟩, hr.1.2⟩
    · simp at hn
  | simple ch =>
    simp only [CharLit.code] at hn
    simp only [lexable]
    unfold simpleEscape at hn
    split at hn <;> first | decide | simp at hn
  | octal ds =>
    simp only [CharLit.code] at hn
    split at hn
    · rename_i hr
      simp only [Bool.and_eq_true, decide_eq_true_eq] at hr
      simp only [lexable, Bool.and_eq_true, decide_eq_true_eq]
      exact hr.1
    · simp at hn
  | hex ds =>
    simp only [CharLit.code] at hn
    split at hn
    · rename_i hr
      simp only [Bool.and_eq_true, decide_eq_true_eq] at hr
      simp only [lexable, decide_eq_true_eq]
      exact hr.1
    · simp at hn

theorem renderSrc_ok (a : CExpr.Ast) (h : lexable a = true) : ∀ t ∈ renderSrc a, lexOK t = true := by
  induction a with
  | lit l => intro t ht; simp only [renderSrc, List.mem_singleton] at ht; subst ht; exact lit_ok l h
  | chr c => intro t ht; simp only [renderSrc, List.mem_singleton] at ht; subst ht; exact chr_ok c h
  | ident n => intro t ht; simp only [renderSrc, List.mem_singleton] at ht; subst ht; exact h
  | defd n p =>
    intro t ht
    have hn : lexOK (identTok n) = true := h
    cases p <;> simp only [renderSrc, ↓reduceIte, Bool.false_eq_true, List.mem_cons, List.not_mem_nil, or_false] at ht
    · rcases ht with rfl | rfl
      · exact fixed_ok.2.2.2.2
      · exact hn
    · rcases ht with rfl | rfl | rfl | rfl
      · exact fixed_ok.2.2.2.2
      · exact fixed_ok.2.2.1
      · exact hn
      · exact fixed_ok.2.2.2.1
  | paren a ih =>
    intro t ht
    simp only [renderSrc, List.mem_cons, List.mem_append, List.not_mem_nil, or_false] at ht
    rcases ht with rfl | ht | rfl
    · exact fixed_ok.2.2.1
    · exact ih h t ht
    · exact fixed_ok.2.2.2.1
  | un op a ih =>
    intro t ht
    simp only [renderSrc, List.mem_cons] at ht
    rcases ht with rfl | ht
    · exact uops_ok op
    · exact ih h t ht
  | bin op l r ihl ihr =>
    intro t ht
    simp only [lexable, Bool.and_eq_true] at h
    simp only [renderSrc, List.mem_append, List.mem_cons] at ht
    rcases ht with ht | rfl | ht
    · exact ihl h.1 t ht
    · exact ops_ok op
    · exact ihr h.2 t ht
  | tern c t' e ihc iht ihe =>
    intro t ht
    simp only [lexable, Bool.and_eq_true] at h
    simp only [renderSrc, List.mem_append, List.mem_cons] at ht
    rcases ht with ht | rfl | ht | rfl | ht
    · exact ihc h.1.1 t ht
    · exact fixed_ok.1
    · exact iht h.1.2 t ht
    · exact fixed_ok.2.1
    · exact ihe h.2 t ht

end CbiVerif.LexSource
