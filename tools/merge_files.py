#!/venv/bin/python
"""merge_files.py <agent-name> <base-commit> FILE... : copy FILE from /tmp/ag_<name>/verif to /verif when /verif's copy has not
changed since <base-commit> (the commit the agent's workspace was copied from); otherwise report it for a manual merge."""
import subprocess, sys, shutil, os, filecmp
name, base = sys.argv[1], sys.argv[2]
src = f"/tmp/ag_{name}/verif"
for rel in sys.argv[3:]:
    s, d = os.path.join(src, rel), os.path.join("/verif", rel)
    if not os.path.exists(s):
        print("  ? missing in agent workspace:", rel); continue
    if not os.path.exists(d):
        os.makedirs(os.path.dirname(d), exist_ok=True); shutil.copy2(s, d); print("  + new", rel); continue
    if filecmp.cmp(s, d, shallow=False):
        print("  = same", rel); continue
    r = subprocess.run(["git", "-C", "/verif", "diff", "--quiet", base, "--", rel])
    if r.returncode == 0:
        shutil.copy2(s, d); print("  > copied", rel)
    else:
        print("  ! CONFLICT (changed in /verif since base):", rel)
