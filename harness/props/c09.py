"""C09 — code-base membership: extension, location and git-style exclude patterns.

Implementation: `p in CodeBase(*roots, exclude_patterns=pats)` and `list(CodeBase(...))` of the real package.
Model (Lean):   CbiVerif.CB.contains / iter over the file-system model (driver op "codebase"); the FS
                description and pathspec's `ignored` table are supplied by this harness.
Spec oracle:    independent Python: os.stat / os.path.realpath for "the file a spelling names", the extension
                lists of language.py, `git check-ignore --no-index` for the pattern language.
pathspec is additionally compared with git on every file of every tree (modelled, not verified).
"""
from __future__ import annotations

import contextlib
import json
import os
import re
import shutil
import signal
from pathlib import Path

from harness import core
from harness.gen import fstree, gipat
from harness.props import c09_hist

FUEL = 3000
GI_CLASSES = ["F-C09-GI-A", "F-C09-GI-B", "F-C09-GI-C", "F-C09-GI-D", "F-C09-GI-E", "F-C09-GI-F", "F-C09-GI-G", "F-C09-GI-H", "F-C09-GI-I"]


ITER_LIMIT = 5  # seconds allowed for enumerating a tree of a few dozen entries


class IterTimeout(Exception):
    pass


@contextlib.contextmanager
def time_limit(sec):
    def on_alarm(signum, frame):
        raise IterTimeout()

    old = signal.signal(signal.SIGPROF, on_alarm)   # CPU time of this process: a loaded machine must not look like a hang
    signal.setitimer(signal.ITIMER_PROF, sec)
    try:
        yield
    finally:
        signal.setitimer(signal.ITIMER_PROF, 0)
        signal.signal(signal.SIGPROF, old)


# --------------------------------------------------------------------------
# case description <-> scratch tree
# --------------------------------------------------------------------------
def sub_base(s, base):
    return s.replace("$BASE", base)


def unsub_base(s, base):
    return s.replace(base, "$BASE")


def rebuild(base, entries):
    for r, k, t in entries:
        full = os.path.join(base, r)
        if k == "d":
            os.makedirs(full, exist_ok=True)
        elif k == "f":
            os.makedirs(os.path.dirname(full), exist_ok=True)
            with open(full, "w") as f:
                f.write("int v;\n")
        else:
            os.makedirs(os.path.dirname(full), exist_ok=True)
            os.symlink(sub_base(t, base), full)


def overlaps(rels):
    return any(i != j and (b + "/").startswith(a + "/") for i, a in enumerate(rels) for j, b in enumerate(rels))


def overlapping_roots(rng, real_dirs, out_dirs):
    """2-4 code-base directories (base-relative canonical names) of which at least two are equal or nested: a directory
    and one of its parents in either order, a directory listed twice or three times, chains of three nested
    directories, and any of these next to unrelated directories (siblings, `out`)"""
    r = rng.random()
    inner = rng.choice(real_dirs)
    if r < 0.3:
        return list(rng.choice([["t", inner], [inner, "t"], ["t", "t"], [inner, inner]]))
    if r < 0.45:
        # a chain: every prefix directory of a deepest directory, shuffled
        deep = max(real_dirs, key=lambda d: (d.count("/"), rng.random()))
        parts = deep.split("/")
        chain = ["/".join(parts[:i]) for i in range(1, len(parts) + 1)]
        rng.shuffle(chain)
        return chain[:4] if len(chain) >= 2 else ["t", "t"]
    for _ in range(50):
        rels = [rng.choice(real_dirs + out_dirs) for _ in range(rng.randint(2, 4))]
        if overlaps(rels):
            return rels
    return [inner, "t", inner]


def gen_case(rng, base, stream):
    """Create a tree below base and choose cwd / roots / patterns / queries.  Returns the description."""
    tree_dirs = fstree.gen_tree(rng, base, loops=(stream == "loops"))
    prefix_sibling = None
    if stream == "nested" and rng.random() < 0.25:
        # a directory NEXT to a listed directory whose name continues that directory's name (`sub`, `sub-old`): inside
        # by characters, not by components - it is a code-base directory of its own and must be walked
        d = rng.choice(tree_dirs)
        sib = d + rng.choice(["2", "-old", "x", ".c"])
        if not os.path.lexists(os.path.join(base, sib)):
            os.makedirs(os.path.join(base, sib))
            for nm in rng.sample(["p.c", "q.h", "r s.cpp", "notes.txt"], rng.randint(1, 3)):
                with open(os.path.join(base, sib, nm), "w") as f:
                    f.write("int sibling;\n")
            prefix_sibling = [d, sib]
    entries = fstree.scan(base)
    real_dirs = ["t"] + [r for r, k, t in entries if k == "d" and r.startswith("t/")]
    aliases = fstree.dir_aliases(base, entries)
    subdirs = fstree.real_subdirs(base, entries)
    cwd_rel = rng.choice(["", "t", "out"] + real_dirs)
    cwd = os.path.join(base, cwd_rel) if cwd_rel else base
    # --- roots
    r = rng.random()
    linked_roots = None
    if stream == "nested" and prefix_sibling is not None:
        root_rels = list(prefix_sibling)
        if rng.random() < 0.5:
            root_rels.append(rng.choice(root_rels + ["t"]))
        rng.shuffle(root_rels)
    elif stream == "nested":
        root_rels = overlapping_roots(rng, real_dirs, [r for r, k, t in entries if k == "d" and (r == "out" or r.startswith("out/"))])
        # a directory listed through a symbolic link that resolves to it (or to a directory around / inside it)
        al = [(real, a) for real, links in sorted(aliases.items()) for a in links if real == base + "/t" or real.startswith(base + "/t/")]
        if al and rng.random() < 0.4:
            real, a = rng.choice(al)
            rel = real[len(base) + 1:]
            other = rng.choice([rel, rel, os.path.dirname(rel) or rel, "t"] + [d for d in real_dirs if d.startswith(rel + "/")])
            linked_roots = [os.path.join(base, other), a]
            if rng.random() < 0.5:
                linked_roots.reverse()
            if rng.random() < 0.3:
                linked_roots.append(rng.choice(linked_roots))
            root_rels = [os.path.realpath(x)[len(base) + 1:] for x in linked_roots]
    elif r < 0.55:
        root_rels = ["t"]
    elif r < 0.7 and len(real_dirs) > 1:
        root_rels = [rng.choice(real_dirs[1:])]
    elif r < 0.95:
        # two directories none of which lies inside the other
        cands = [(a, b) for a in real_dirs for b in real_dirs
                 if a != b and not (b + "/").startswith(a + "/") and not (a + "/").startswith(b + "/")]
        root_rels = list(rng.choice(cands)) if cands else ["t"]
    else:
        root_rels = ["t/does_not_exist"]
    roots = []
    for i, rr in enumerate(root_rels):
        ab = os.path.join(base, rr)
        if linked_roots is not None:
            # the link itself is the spelling (absolute, or relative to the working directory)
            sp = rng.choice([linked_roots[i], os.path.relpath(linked_roots[i], cwd)])
        else:
            sp = rng.choice(fstree.spellings(rng, base, ab, cwd, aliases, subdirs, n=2))
        roots.append(sp if sp else ".")
    # --- patterns: built from what lies below the first root
    relfiles, reldirs = [], []
    for rr in dict.fromkeys(root_rels):
        relfiles += [e[len(rr) + 1:] for e, k, t in entries if k == "f" and e.startswith(rr + "/")]
        reldirs += [e[len(rr) + 1:] for e, k, t in entries if k == "d" and e.startswith(rr + "/")]
    pats = fstree.gen_patterns(rng, relfiles, reldirs) if rng.random() < 0.85 else []
    extra_pats = [fstree.gen_patterns(rng, relfiles, reldirs, n=(1, 6)) for _ in range(2)] if stream == "main" else []
    # --- queries
    targets = [os.path.join(base, e) for e, k, t in entries]
    rng.shuffle(targets)
    targets = targets[:12]
    targets += [os.path.join(base, rng.choice(real_dirs), nm) for nm in rng.sample(["nope.c", "nope/x.c", "a.c", "k.h"], 2)]
    queries = []
    for tg in targets:
        for s in fstree.spellings(rng, base, tg, cwd, aliases, subdirs, n=rng.randint(1, 3)):
            queries.append(s)
    # spellings through file links are already among the targets (links are entries); add aliases of links' parents
    if stream == "escape":
        files = [os.path.join(base, e) for e, k, t in entries if k == "f"]
        extra = []
        for f in rng.sample(files, min(4, len(files))):
            others = [g for g in files if os.path.dirname(g) == os.path.dirname(f)] or [f]
            g = rng.choice(others)
            extra += [f + "/../" + os.path.basename(g), os.path.dirname(f) + "/missing/../" + os.path.basename(f), f + "/", f + "/."]
        queries += extra
        # a link whose text escapes
        if files:
            f = rng.choice([x for x in files if x.startswith(base + "/t/")] or files)
            ln = os.path.join(os.path.dirname(f), "esc_link.c")
            if not os.path.lexists(ln):
                os.symlink("nothing/../" + os.path.basename(f), ln)
                entries = fstree.scan(base)
    return {
        "entries": [[r_, k, unsub_base(t, base) if t else t] for r_, k, t in entries],
        "cwd": cwd_rel, "roots": [unsub_base(x, base) for x in roots], "patterns": pats,
        "queries": [unsub_base(q, base) for q in queries], "stream": stream, "extra_patterns": extra_pats,
    }


# --------------------------------------------------------------------------
# evaluation of one case (tree already present below `base`)
# --------------------------------------------------------------------------
class Env:
    def __init__(self, cbmod, scr):
        self.cbmod = cbmod
        self.scr = scr
        self.git = fstree.GitOracle(scr)
        from codebasin.language import FileLanguage

        self.FileLanguage = FileLanguage
        self.exts = sorted(set(e for l in FileLanguage._language_extensions.values() for e in l))
        self.catch_loop = self.probe_loop()

    def probe_loop(self):
        d = os.path.join(self.scr, "_probe")
        os.makedirs(d, exist_ok=True)
        lp = os.path.join(d, "lp.c")
        if not os.path.lexists(lp):
            os.symlink("lp.c", lp)
        try:
            return (lp in self.cbmod.CodeBase(d)) is False
        except RuntimeError:
            return False


def walk_blocks(raw, walk):
    """the walked directories in the order in which the enumeration visits them; None if a path lies below none of them
    or a directory is returned to after another one was started"""
    seq = []
    for x in raw:
        w = next((r for r in walk if x.startswith(r.rstrip("/") + "/")), None)
        if w is None:
            return None
        if not seq or seq[-1] != w:
            if w in seq:
                return None
            seq.append(w)
    return seq


def is_subsequence(a, b):
    it = iter(b)
    return all(any(x == y for y in it) for x in a)


def impl_contains(cb, q, as_path):
    try:
        return bool((Path(q) if as_path else q) in cb)
    except RuntimeError as e:
        return "EXC:RuntimeError" if "Symlink loop" in str(e) else "EXC:RuntimeError:" + str(e)[:60]
    except Exception as e:  # noqa
        return "EXC:" + type(e).__name__


def eval_case(ctx, drv, env, base, desc, origin):
    """Returns a dict with implementation / spec / model results; records outcomes in ctx."""
    entries = [(r, k, sub_base(t, base) if t else t) for r, k, t in desc["entries"]]
    cwd = os.path.join(base, desc["cwd"]) if desc["cwd"] else base
    roots = [sub_base(x, base) for x in desc["roots"]]
    pats = list(desc["patterns"])
    queries = [sub_base(q, base) for q in desc["queries"]]
    case = dict(desc, origin=origin)
    out = {"origin": origin}
    old = os.getcwd()
    os.chdir(cwd)
    try:
        # ---------- resolved roots (oracle side)
        rroots = []
        for r in roots:
            kind, real = fstree.os_resolve(r)
            rroots.append(os.path.realpath(r) if kind != "loop" else None)
        if any(r is None for r in rroots):
            return out  # looping root spellings are not generated
        nested = any(i != j and (b + "/").startswith(a + "/") for i, a in enumerate(rroots) for j, b in enumerate(rroots))
        # ---------- pattern language: pathspec against git on every regular file below every root
        phys_files = [os.path.join(base, r) for r, k, t in entries if k == "f"]
        pe = fstree.pathspec_ignored(pats, "x")
        if isinstance(pe, str):
            # pathspec rejects the list: recorded class E (or a violation); continue without the offending lines
            cls, info = fstree.classify_gitignore(env.git, rroots[0] if os.path.isdir(rroots[0]) else base, pats, "x")
            ctx.classify(dict(case, gitignore=info), f"pathspec rejects the pattern list {pats!r} ({pe}) which git accepts",
                         [(c, (lambda c_: (lambda _case: cls == c_))(c)) for c in GI_CLASSES])
            pats = [p for p in pats if not isinstance(fstree.pathspec_ignored([p], "x"), str)]
            case = dict(case, patterns=pats)
        git_ign, ps_ign, known_dis = {}, {}, set()
        phys_dirs = [os.path.join(base, r) for r, k, t in entries if k == "d"]
        for R in rroots:
            if R in git_ign or not os.path.isdir(R):
                continue
            rels = [f[len(R) + 1:] for f in phys_files if f.startswith(R + "/")]
            drels = [f[len(R) + 1:] for f in phys_dirs if f.startswith(R + "/")]
            g = env.git.ignored(R, pats, rels + drels)
            git_ign[R] = g
            # the Lean reference of the pattern language against git: files and directories below the root
            spec_vs_git(ctx, drv, case, R, pats, rels, drels, g, known_dis)
            for rel in rels:
                p = fstree.pathspec_ignored(pats, rel)
                ps_ign[rel] = p
                ctx.count(key="gitignore:" + ("ignored" if rel in g else "kept"))
                if p != (rel in g):
                    cls, info = fstree.classify_gitignore(env.git, R, pats, rel)
                    known_dis.add((R, rel))
                    ctx.classify(dict(case, gitignore=info),
                                 f"pathspec {'ignores' if p else 'keeps'} {rel!r} but git {'ignores' if rel in g else 'keeps'} it; minimal pattern list {info['core']!r}",
                                 [(c, (lambda c_: (lambda _case: cls == c_))(c)) for c in GI_CLASSES])
                elif pats and (rel in g):
                    ctx.nontrivial.add(("gi", origin, rel))
        out["pathspec_vs_git_disagreements"] = sorted(known_dis)
        # further pattern lists on the same tree: pathspec against git only
        for extra in desc.get("extra_patterns", []):
            R = next((r for r in rroots if os.path.isdir(r)), None)
            if R is None or isinstance(fstree.pathspec_ignored(extra, "x"), str):
                continue
            rels = [f[len(R) + 1:] for f in phys_files if f.startswith(R + "/")]
            drels = [f[len(R) + 1:] for f in phys_dirs if f.startswith(R + "/")]
            g = env.git.ignored(R, extra, rels + drels)
            spec_vs_git(ctx, drv, dict(case, patterns=extra, extra_patterns=[], queries=[]), R, extra, rels, drels, g, set())
            for rel in rels:
                p = fstree.pathspec_ignored(extra, rel)
                ctx.count(key="gitignore:" + ("ignored" if rel in g else "kept"))
                if p != (rel in g):
                    cls, info = fstree.classify_gitignore(env.git, R, extra, rel)
                    ctx.classify(dict(case, patterns=extra, extra_patterns=[], queries=[], gitignore=info),
                                 f"pathspec {'ignores' if p else 'keeps'} {rel!r} but git {'ignores' if rel in g else 'keeps'} it; minimal pattern list {info['core']!r}",
                                 [(c, (lambda c_: (lambda _case: cls == c_))(c)) for c in GI_CLASSES])
                elif rel in g:
                    ctx.nontrivial.add(("gi", origin, tuple(extra), rel))

        # ---------- oracle for membership of a physical file
        def member_real(real):
            """spec for a canonical path of a regular file; returns (bool, skip) — skip: recorded pathspec/git class"""
            if fstree.suffix_of(os.path.basename(real)) not in env.exts:
                return False, False
            for R in rroots:
                if real.startswith(R + "/"):
                    rel = real[len(R) + 1:]
                    return rel not in git_ign.get(R, set()), (R, rel) in known_dis
            return False, False

        def spec_contains(q):
            kind, real = fstree.os_resolve(q)
            if kind == "file":
                m, skip = member_real(real)
                return m, skip, kind
            return False, False, kind

        # ---------- implementation
        try:
            cb = env.cbmod.CodeBase(*roots, exclude_patterns=pats)
        except Exception as e:  # noqa
            ctx.violation(f"CodeBase({roots!r}) raises {type(e).__name__}: {e}", case)
            return out
        if sorted(cb.directories) != sorted(rroots):
            ctx.violation(f"CodeBase.directories {cb.directories} != resolved roots {rroots}", case)
        impl_q, spec_q = [], []
        for i, q in enumerate(queries):
            got = impl_contains(cb, q, as_path=(i % 3 == 0))
            want, skip, kind = spec_contains(q)
            impl_q.append(got)
            spec_q.append(want)
            ctx.count(key=f"contains:{kind}:{'member' if want else 'non-member'}")
            canon_sp = kind in ("file", "dir") and os.path.realpath(q) == q
            if kind in ("file", "dir") and not canon_sp:
                ctx.nontrivial.add(("q", origin, q))
            if skip:
                continue
            if got != want:
                what = f"{q!r} in CodeBase({roots!r}, exclude_patterns={pats!r}) [cwd {cwd}] is {got}, the property says {want} (the OS resolves the spelling to: {kind})"
                ctx.classify(dict(case, query=unsub_base(q, base)), what, [
                    ("D18", lambda c, got=got, kind=kind: got == "EXC:RuntimeError" and kind == "loop"),
                    ("F-C09-K", lambda c, got=got, kind=kind, q=q: got is True and kind in ("enoent", "enotdir")
                     and os.path.lexists(os.path.realpath(q))),
                ])
        out["queries"] = [{"q": q, "implementation": a, "spec": b} for q, a, b in zip(queries, impl_q, spec_q)]

        # ---------- enumeration
        try:
            impl_raw = None
            with time_limit(ITER_LIMIT):
                impl_raw = list(cb)
                impl_iter = sorted(impl_raw)
        except IterTimeout:
            impl_iter = f"EXC:no result within {ITER_LIMIT} s"
        except RuntimeError as e:
            impl_iter = "EXC:RuntimeError" if "Symlink loop" in str(e) else "EXC:" + str(e)[:60]
        except Exception as e:  # noqa
            impl_iter = "EXC:" + type(e).__name__
        spec_iter, has_loop, skip_iter, escaping = set(), False, False, False
        for R in rroots:
            if not os.path.isdir(R):
                continue
            for r, k, t in entries:
                full = os.path.join(base, r)
                if not full.startswith(R + "/"):
                    continue
                kind, real = fstree.os_resolve(full)
                if kind == "loop":
                    has_loop = True
                if k == "l" and kind in ("enoent", "enotdir") and os.path.lexists(os.path.realpath(full)):
                    escaping = True
                if k in ("f", "l") and kind == "file":
                    m, skip = member_real(real)
                    skip_iter = skip_iter or skip
                    if m:
                        spec_iter.add(full)
        spec_iter = sorted(spec_iter)
        out["iter"] = {"implementation": impl_iter, "spec": spec_iter}
        ctx.count(key="iter:" + ("loop" if has_loop else "nested" if nested else "plain"))
        if spec_iter:
            ctx.nontrivial.add(("iter", origin))
        # members that lie below two listed directories (equal or nested): the shape of F-C09-NEST
        twice = [x for x in spec_iter if sum(1 for R in rroots if os.path.realpath(x).startswith(R + "/") or x.startswith(R + "/")) >= 2]
        if twice:
            ctx.count(key="iter:member-below-several-listed-directories")
            ctx.nontrivial.add(("iter-overlap", origin))
        if not skip_iter and impl_iter != spec_iter:
            what = f"list(CodeBase({roots!r}, exclude_patterns={pats!r})) = {impl_iter}, the members are {spec_iter}"
            ctx.classify(case, what, [
                ("D18", lambda c: impl_iter == "EXC:RuntimeError" and has_loop),
                ("F-C09-K", lambda c: escaping and isinstance(impl_iter, list) and set(spec_iter) <= set(impl_iter)
                 and all(os.path.islink(x) and fstree.os_resolve(x)[0] in ("enoent", "enotdir") for x in set(impl_iter) - set(spec_iter))),
            ])
        # every member can be given a language (is_source_file and FileLanguage read the extension differently)
        if isinstance(impl_iter, list):
            for x in impl_iter:
                if env.FileLanguage(os.path.realpath(x)).get_language() is None:
                    ctx.classify(dict(case, member=unsub_base(x, base)),
                                 f"{x!r} is enumerated as a member but FileLanguage gives it no language (finder.find aborts on it)",
                                 [("F-C09-3", lambda c, x=x: re.fullmatch(r"\.+\.[^.]+", os.path.basename(os.path.realpath(x))) is not None)])

        # ---------- model
        if drv is not None:
            ign_tab = sorted(rel for rel, v in ps_ign.items() if v is True)
            rep = drv.ask({"op": "codebase", "fs": fstree.fs_description(base, entries), "cwd": cwd, "roots": roots,
                           "ignored": ign_tab, "catchLoop": env.catch_loop, "fuel": FUEL, "queries": queries})
            out["model"] = {"roots": rep.get("roots"), "iter": rep.get("iter")}
            if rep.get("roots") != cb.directories:
                ctx.corr_break("codebase.roots", case, cb.directories, rep.get("roots"))
            else:
                if not rep.get("wf"):
                    ctx.corr_break("codebase.wf", case, True, False)
                for q, got, mq in zip(queries, impl_q, rep["queries"]):
                    m = mq["contains"]
                    m = "EXC:RuntimeError" if m == "loop" else m
                    if m != got:
                        ctx.corr_break("codebase.contains", dict(case, query=unsub_base(q, base)), got, mq)
                    kind, real = fstree.os_resolve(q)
                    mk = mq["namei"] if mq["namei"] != "ok" else mq["kind"]
                    # spelled paths enter the model after pathlib's normalisation (empty and "." components dropped);
                    # a trailing "/" or "/." behind a regular file (ENOTDIR for the OS) is outside the model's namei
                    trailing = q.endswith("/") or q.endswith("/.")
                    if (mk != kind or (real is not None and mq["canon"] != real)) and not (trailing and kind == "enotdir"):
                        ctx.corr_break("codebase.namei", dict(case, query=unsub_base(q, base)), [kind, real], mq)
                    if os.path.realpath(q) != mq["realpath"] and kind != "loop":
                        ctx.corr_break("codebase.realpath", dict(case, query=unsub_base(q, base)), os.path.realpath(q), mq)
                mi = rep["iter"]
                mi = "EXC:RuntimeError" if mi == "loop" else sorted(mi)
                if mi != impl_iter:
                    ctx.corr_break("codebase.iter", case, impl_iter, mi)
                # the ORDER of the enumeration: one block per walked directory, the blocks in the order of `CB.walkRoots`
                # (first occurrence of a directory listed several times, nothing for a directory inside another one)
                if isinstance(impl_iter, list) and impl_raw is not None and isinstance(rep.get("walk"), list):
                    ctx.count(key=f"iter:walked={min(len(rep['walk']), 3)}of{min(len(roots), 4)}")
                    blocks = walk_blocks(impl_raw, rep["walk"])
                    if blocks is None or not is_subsequence(blocks, rep["walk"]):
                        ctx.corr_break("codebase.walk", case, {"enumeration": impl_raw, "blocks": blocks}, {"walk": rep["walk"]})
                out["model"]["walk"] = rep.get("walk")
                out["model"]["queries"] = rep["queries"]
            # the same model with the pattern semantics INSIDE (cfg.ignored := GitIgnore.ignoredStr patterns): what
            # `member_iff_gitignore` / `iter_exact_gitignore` are about.  Compared with the implementation wherever
            # pathspec and the reference agree about the file the spelling resolves to.
            if rep.get("roots") == cb.directories:
                rep2 = drv.ask({"op": "codebase_gi", "fs": fstree.fs_description(base, entries), "cwd": cwd, "roots": roots,
                                "patterns": pats, "catchLoop": env.catch_loop, "fuel": FUEL, "queries": queries})
                dis_abs = set(R + "/" + rel for R, rel in known_dis)
                for q, got, mq in zip(queries, impl_q, rep2["queries"]):
                    m = "EXC:RuntimeError" if mq["contains"] == "loop" else mq["contains"]
                    ctx.count(key="codebase_gi:contains")
                    if m != got and os.path.realpath(q) not in dis_abs:
                        ctx.corr_break("codebase_gi.contains", dict(case, query=unsub_base(q, base)), got, mq)
                mi = rep2["iter"]
                mi = "EXC:RuntimeError" if mi == "loop" else sorted(mi)
                if mi != impl_iter and not known_dis:
                    ctx.corr_break("codebase_gi.iter", case, impl_iter, mi)
                out["model_gitignore"] = {"iter": rep2["iter"], "queries": rep2["queries"]}
        ctx.sample({k: case[k] for k in ("roots", "patterns", "cwd", "stream")} | {"n_entries": len(entries), "n_queries": len(queries)})
    finally:
        os.chdir(old)
    return out


# --------------------------------------------------------------------------
# the Lean reference of the pattern language (Spec/GitIgnore.lean) against git and against pathspec-as-CBI-calls-it
# --------------------------------------------------------------------------
def spec_vs_git(ctx, drv, case, R, pats, rels, drels, g, known_dis):
    """git is the arbiter of the reference: a difference outside the documented limitation is a break of the machinery.
    Paths on which the reference is not git (limitation) join `known_dis` so that nothing downstream relies on them."""
    if drv is None or not (rels or drels):
        return
    rep = drv.ask({"op": "gitignore", "cases": [{"patterns": pats, "paths": [{"p": r, "d": False} for r in rels]
                                                 + [{"p": r, "d": True} for r in drels]}]})[0]
    quirk = gipat.git_prefix_quirk(pats)
    for rel, isdir, le in zip(rels + drels, [False] * len(rels) + [True] * len(drels), rep):
        ctx.count(key="spec-vs-git:" + ("dir" if isdir else "file"))
        if le != (rel in g):
            if quirk:
                ctx.count(key="spec-vs-git:documented-limitation")
                known_dis.add((R, rel))
            else:
                ctx.corr_break("gitignore.spec_vs_git", dict(case, gitignore={"patterns": pats, "path": rel, "isdir": isdir}),
                               {"git": rel in g}, {"lean": le})
        elif pats and le:
            ctx.nontrivial.add(("gi-spec", case.get("origin"), tuple(pats), rel))


def gi_classifiers(cls):
    return [(c, (lambda c_: (lambda _case: cls == c_))(c)) for c in GI_CLASSES]


def eval_pattern_lists(ctx, drv, env, work, lists, origin, realroot=None, sample_real=1.0):
    import warnings

    with warnings.catch_warnings():
        warnings.simplefilter("ignore")  # `re` warns about "[[" inside the regular expressions pathspec builds
        return _eval_pattern_lists(ctx, drv, env, work, lists, origin, realroot, sample_real)


def _eval_pattern_lists(ctx, drv, env, work, lists, origin, realroot=None, sample_real=1.0):
    """three-way comparison of small pattern lists on gipat.PATHS (files that need not exist) and, through the real
    `CodeBase.__contains__`, on the files of the tree below `realroot`"""
    gs = gipat.git_batch(env.git, work, lists, gipat.PATHS)
    le = gipat.lean_batch(drv, lists, gipat.PATHS)
    le_real = gipat.lean_batch(drv, lists, gipat.REAL_FILES) if realroot else None
    for i, l in enumerate(lists):
        case = {"gi_patterns": l, "origin": origin}
        spec = gipat.pathspec_spec(l)
        quirk = gipat.git_prefix_quirk(l)
        bad = set()
        nclass = 0
        for k, q in enumerate(gipat.PATHS):
            gi = (i, q) in gs
            ctx.count(key="patterns:" + ("ignored" if gi else "kept"))
            if le[i][k] != gi:
                if quirk:
                    ctx.count(key="spec-vs-git:documented-limitation")
                    bad.add(q)
                else:
                    ctx.corr_break("gitignore.spec_vs_git", dict(case, gi_path=q), {"git": gi}, {"lean": le[i][k]})
                continue
            if gi:
                ctx.nontrivial.add(("gip", tuple(l), q))
            if isinstance(spec, str):
                dis = nclass == 0
            else:
                dis = gipat.pathspec_as_cbi(spec, q) != gi and nclass < 2
            if dis:
                nclass += 1
                ps = spec if isinstance(spec, str) else (not gi)
                cls, info = gipat.classify(drv, l, q, gi, ps)
                if cls == "ILLFORMED":
                    ctx.count(key="patterns:rejected-ill-formed")
                    continue
                ctx.classify(dict(case, gi_path=q, gitignore=info),
                             f"pathspec (as CodeBase.__contains__ calls it) {'raises ' + ps if isinstance(ps, str) else 'ignores' if ps else 'keeps'} "
                             f"{q!r} under {l!r}; git and the reference {'ignore' if gi else 'keep'} it; minimal pattern list {info['core']!r}",
                             gi_classifiers(cls))
        # the real code on real files: `path in CodeBase(realroot, exclude_patterns=l)` must be `not ignored`
        if realroot and not isinstance(spec, str) and not quirk and ctx.rng.random() < sample_real:
            try:
                cb = env.cbmod.CodeBase(realroot, exclude_patterns=l)
            except Exception as e:  # noqa
                ctx.violation(f"CodeBase(exclude_patterns={l!r}) raises {type(e).__name__}: {e}", case)
                continue
            ndis = 0
            for k, rel in enumerate(gipat.REAL_FILES):
                got = impl_contains(cb, os.path.join(realroot, rel), as_path=(k % 2 == 0))
                want = not le_real[i][k]
                ctx.count(key="patterns:real-codebase")
                if got != want and ndis < 2:
                    ndis += 1
                    cls, info = gipat.classify(drv, l, rel, not want, gipat.pathspec_as_cbi(spec, rel))
                    # the recorded classes are about pathspec; they apply only if pathspec itself disagrees here
                    if gipat.pathspec_as_cbi(spec, rel) == (not want):
                        cls = None
                    ctx.classify(dict(case, gi_path=rel, real=True, gitignore=info),
                                 f"{rel!r} in CodeBase(root, exclude_patterns={l!r}) is {got}; git's semantics (reference) say {want}; "
                                 f"minimal pattern list {info['core']!r}", gi_classifiers(cls))
    ctx.sample({"gi_patterns": lists[0], "n_paths": len(gipat.PATHS)} if lists else {})


def check_patterns(ctx, drv, env, scr):
    if drv is None:
        return
    import shutil

    realroot = os.path.join(scr, "_gireal")
    for f in gipat.REAL_FILES:
        full = os.path.join(realroot, f)
        os.makedirs(os.path.dirname(full), exist_ok=True)
        with open(full, "w") as fh:
            fh.write("int v;\n")
    blocks = [("exhaustive", [[p] for p in gipat.exhaustive(ctx.n(2, 3) if ctx.budget_scale <= 1 else 3)], 0.25),
              ("random", gipat.random_lists(ctx.rng, ctx.n(900, 12000)), 1.0)]
    for j, (name, lists, frac) in enumerate(blocks):
        for o in range(0, len(lists), 4000):
            if len(ctx.violations) >= 20:
                break
            work = os.path.join(scr, f"_giwork{j}_{o}")
            os.makedirs(work)
            eval_pattern_lists(ctx, drv, env, work, lists[o:o + 4000], f"patterns:{name}", realroot, frac)
            shutil.rmtree(work, ignore_errors=True)


# --------------------------------------------------------------------------
# lexical path functions: model against os.path / pathlib (exhaustive over a small alphabet)
# --------------------------------------------------------------------------
def check_pathops(ctx, drv, env, rng):
    import itertools
    import posixpath
    from codebasin import source

    names = ["a", "..", ".", "", "b.c"]
    paths = []
    for n in range(1, 5):
        for combo in itertools.product(names, repeat=n):
            for lead in ("", "/"):
                paths.append(lead + "/".join(combo))
    paths = [p for p in paths if p and not p.startswith("//")]
    fnames = ["".join(c) for n in range(1, 6) for c in itertools.product(".ac", repeat=n)]
    fnames += [s + e for s in ["x", ".x", "x.y", "..", "x."] for e in env.exts + [".C", ".H", ".txt", ""]]
    cwd = "/w/d"
    if drv is None:
        return
    rep = drv.ask({"op": "pathops", "cwd": cwd, "paths": paths})
    for p, m in zip(paths, rep):
        ctx.count(key="pathops:normpath")
        want_norm = posixpath.normpath(p)
        want_abs = posixpath.normpath(posixpath.join(cwd, p))
        if m["normpath"] != want_norm or m["abspath"] != want_abs:
            ctx.corr_break("pathops.normpath", {"path": p}, [want_norm, want_abs], m)
    rep = drv.ask({"op": "pathops", "cwd": cwd, "paths": fnames})
    for nm, m in zip(fnames, rep):
        ctx.count(key="pathops:suffix")
        want = {"suffix": Path(nm).suffix, "splitext": os.path.splitext(nm)[1], "recognised": source.is_source_file(nm)}
        got = {k: m[k] for k in want}
        if got != want:
            ctx.corr_break("pathops.suffix", {"name": nm}, want, got)
        # the property's reading of "recognised source extension"
        if source.is_source_file(nm) != (fstree.suffix_of(nm) in env.exts):
            ctx.violation(f"is_source_file({nm!r}) = {source.is_source_file(nm)} but its extension {fstree.suffix_of(nm)!r} "
                          f"{'is' if fstree.suffix_of(nm) in env.exts else 'is not'} in language.py's lists", {"name": nm})


def repeat_lines(rng, pats):
    """a pattern list in which lines occur more than once: a line said again at the end after its own negation
    (`..., x, ..., !x, x`), a line said again after the rest of the list, the whole list twice with one line toggled"""
    lines = [p for p in pats if p.strip() and not p.startswith("#")]
    if not lines:
        return list(pats)

    def toggle(p):
        return p[1:] if p.startswith("!") else "!" + p

    out = list(pats)
    for _ in range(rng.randint(1, 2)):
        x = rng.choice(lines)
        r = rng.random()
        if r < 0.5:
            out = out + [toggle(x), x]
        elif r < 0.8:
            i = rng.randrange(len(out) + 1)
            out = out[:i] + [x] + out[i:] + [x]
        else:
            out = out + [toggle(x)] + out
    return out


# --------------------------------------------------------------------------
def streams(ctx):
    n = ctx.n(380, 4500)
    return [("main", n), ("loops", max(6, n // 8)), ("nested", max(6, n // 7)), ("escape", max(6, n // 10))]


def run(ctx, drv):
    cbmod = core.import_codebasin()
    ctx.rule = ("case = random tree (nested directories, source / non-source / case-variant extensions, names with blanks and glob "
                "metacharacters, file and directory symlinks, chains, dangling links; separate streams with link loops, OVERLAPPING roots "
                "(a directory listed two or three times, under its name and through a symbolic link, with a parent before or after it, "
                "chains of nested directories, mixed with unrelated ones, a sibling whose name continues a listed directory's name; the "
                "order of the enumeration is compared with the model's walk order), '..' over non-directories) x random gitignore list x working directory x root spellings; every entry queried under "
                "several spellings. Non-trivial = distinct (case, spelling) whose spelling is not the canonical path of an existing "
                "object, plus distinct (case, file) that git ignores under a non-empty list, plus cases with a non-empty enumeration.")
    ctx.rule += (" Pattern-focused part: every list of 1-3 patterns built from the atoms of harness/gen/gipat.py (exhaustive up to 2 (quick) / 3 "
                 "(thorough) atoms of the 14 basic ones, random up to 5 atoms of 31 incl. negation/re-inclusion shapes) x all 155 relative paths of "
                 "depth <= 3 over {a, b, ab, a.c, b.c}, read three ways (Lean reference / pathspec as CodeBase.__contains__ calls it / one batched "
                 "`git check-ignore`), and through the real `path in CodeBase(root, exclude_patterns=list)` on a 25-file tree. Non-trivial = "
                 "distinct (list, path) that git ignores.")
    ctx.rule += (" History stream (harness/props/c09_hist.py): ONE CodeBase object per generated tree lives through a random history of "
                 "membership questions (all spelling kinds, earlier spellings asked again), os.chdir, symbolic links re-pointed (to members, "
                 "non-members, files outside, directories, nothing), regular files created / files and links removed, and enumerations that are "
                 "complete, abandoned after the first element, left by break, nested inside themselves or run as two interleaved generators; "
                 "after every step the answer is judged against the property evaluated on the file system and working directory of that "
                 "moment (os.stat / realpath / extension lists / git check-ignore) and compared with the stateless Lean model (op codebase_gi). "
                 "Non-trivial = distinct (case, step) at which a spelling asked before names something with a different specified answer, plus "
                 "distinct (case, enumeration) of >= 2 members that follows an unfinished / nested enumeration or a change of the member set.")
    ctx.assumptions += [
        "history stream: directories are never removed or replaced by links, so the code-base directories resolved when the object was made "
        "stay canonical; the exclude-pattern list of an object is not edited after construction; the file system does not change WHILE an "
        "enumeration is running (only between steps); code-base directories of a history case are never nested",
        "the pattern language is INSIDE the model: Spec/GitIgnore.lean (`GitIgnore.ignoredStr`), compared with `git check-ignore --no-index` "
        "(the arbiter) on every regular file and every real directory below every root of every generated tree and on the pattern-focused "
        "space; pathspec.GitIgnoreSpec (what the code calls) is compared with both; the model `CB.contains`/`CB.iter` runs with this matcher "
        "(driver op codebase_gi) next to the run with pathspec's table (op codebase)",
        "documented limitation of the reference (git departs from gitignore(5)): a run of two or more asterisks that directly follows a literal "
        "prefix and precedes a '/' (`a**/b`) is taken by git for a leading `**/` (it ignores `ab` and `a/x/y/b`); the reference and pathspec "
        "follow the documentation ('other consecutive asterisks are regular asterisks'); such lists (predicate gipat.git_prefix_quirk) are "
        "counted as spec-vs-git:documented-limitation and not compared further",
        "not generated: a backslash-quoted '/', a '/' inside a bracket expression, pattern lines containing a line break, file names that are "
        "not valid UTF-8; pattern lines that are no well-formed patterns (unclosed '[', unknown class name, lone trailing backslash, a bare '!') "
        "match nothing for git and the reference and are rejected by pathspec with an exception (counted as patterns:rejected-ill-formed)",
        "file systems contain regular files, directories and symbolic links only; link chains stay below the kernel's 40-link limit",
        "code-base directories are directories or do not exist (a regular file given as a directory is not generated)",
        "with several directories, 'that directory' is read as the first listed directory that contains the file; the listed directories "
        "may be equal (also: one listed under its name and through a symbolic link), nested in either order, chains of three, and "
        "mixed with unrelated ones (stream `nested`): every member must be enumerated exactly once (F-C09-NEST repaired)",
        "the model sees a spelling after pathlib's normalisation (empty and '.' components dropped): the OS's ENOTDIR for a "
        "trailing '/' or '/.' behind a regular file is checked on the implementation (recorded class F-C09-K) but not modelled",
        "recognised extension = extension after the last dot of the final component (the dot neither first nor last character) "
        "is in one of language.py's per-language lists",
    ]
    with core.Scratch() as d:
        scr = os.path.realpath(str(d))
        env = Env(cbmod, scr)
        ctx.extra["d18_repaired"] = env.catch_loop
        check_pathops(ctx, drv, env, ctx.rng)
        check_patterns(ctx, drv, env, scr)
        k = 0
        for f in sorted((core.VERIF / "corpus" / "C09").glob("*.json")):
            desc = json.loads(f.read_text())
            base = os.path.join(scr, f"k{k}")
            k += 1
            os.makedirs(base)
            rebuild(base, desc["entries"])
            if "history" in desc:
                c09_hist.eval_history(ctx, drv, env, base, desc, "corpus:" + f.name)
                continue
            eval_case(ctx, drv, env, base, desc, "corpus:" + f.name)
        i = 0
        for stream, n in streams(ctx):
            for _ in range(n):
                if len(ctx.violations) >= 20:
                    break  # enough concrete failing inputs; a non-terminating enumeration would otherwise cost 10 s per case
                base = os.path.join(scr, f"c{i}")
                os.makedirs(base)
                desc = gen_case(ctx.rng, base, stream)
                eval_case(ctx, drv, env, base, desc, f"{stream}#{i}")
                i += 1
                shutil.rmtree(base, ignore_errors=True)
        # pattern lists with REPEATED lines (lists assembled from the command line and the analysis file repeat entries):
        # in gitignore semantics the last matching line decides, so `x, !x, x` is not `x, !x`
        for j in range(ctx.n(60, 400)):
            if len(ctx.violations) >= 20:
                break
            base = os.path.join(scr, f"p{j}")
            os.makedirs(base)
            desc = gen_case(ctx.rng, base, "main")
            desc.update(stream="repeat", extra_patterns=[], patterns=repeat_lines(ctx.rng, desc["patterns"]))
            ctx.count(key="repeat:pattern-list-with-repeated-lines")
            eval_case(ctx, drv, env, base, desc, f"repeat#{j}")
            shutil.rmtree(base, ignore_errors=True)
        # one CodeBase object per tree, observed over a history (chdir, re-pointed links, files created / removed,
        # abandoned / nested / repeated enumerations); drawn after the other streams, whose random sequence is unchanged
        c09_hist.run_stream(ctx, drv, env, scr, ctx.n(110, 800))
        ctx.extra["git_check_ignore_calls"] = env.git.calls


def search(ctx, drv):
    run(ctx, drv)


def replay(ctx, drv, case):
    cbmod = core.import_codebasin()
    if "name" in case or "path" in case:  # a lexical-function case
        from codebasin import source
        from codebasin.language import FileLanguage

        nm = case.get("name", case.get("path"))
        exts = sorted(set(e for l in FileLanguage._language_extensions.values() for e in l))
        out = {"implementation": {"is_source_file": source.is_source_file(nm), "suffix": Path(nm).suffix, "splitext": os.path.splitext(nm)[1]},
               "spec": {"recognised": fstree.suffix_of(os.path.basename(nm)) in exts}}
        if drv is not None:
            out["model"] = drv.ask({"op": "pathops", "cwd": "/w/d", "paths": [nm]})[0]
        return out
    if "gi_patterns" in case:
        with core.Scratch() as d:
            scr = os.path.realpath(str(d))
            env = Env(cbmod, scr)
            l, q = case["gi_patterns"], case.get("gi_path")
            paths = [q] if q else gipat.PATHS
            work = os.path.join(scr, "w")
            os.makedirs(work)
            root = os.path.join(scr, "root")
            for f in paths:
                os.makedirs(os.path.dirname(os.path.join(root, f)), exist_ok=True)
                open(os.path.join(root, f), "w").close()
            gs = gipat.git_batch(env.git, work, [l], paths)
            spec = gipat.pathspec_spec(l)
            cb = env.cbmod.CodeBase(root, exclude_patterns=l)
            out = {"patterns": l, "paths": {}}
            for f in paths:
                out["paths"][f] = {
                    "git_ignores": (0, f) in gs,
                    "spec_lean_ignores": gipat.lean_ign(drv, l, f) if drv is not None else None,
                    "pathspec_as_cbi": spec if isinstance(spec, str) else gipat.pathspec_as_cbi(spec, f),
                    "implementation_contains": impl_contains(cb, os.path.join(root, f), False) if not isinstance(spec, str) else spec}
            return out
    with core.Scratch() as d:
        scr = os.path.realpath(str(d))
        env = Env(cbmod, scr)
        base = os.path.join(scr, case.get("base_name", "r"))
        os.makedirs(base)
        rebuild(base, case["entries"])
        desc = dict(case)
        if "history" in case:
            res = c09_hist.eval_history(ctx, drv, env, base, desc, "replay")
            if "step" in case:
                res["reported_step"] = case["step"]
            res["violations"] = [w for w, _ in ctx.violations]
            res["known_findings"] = sorted(ctx.known_seen)
            return json.loads(json.dumps(res, default=str).replace(base, "$BASE"))
        if "query" in case:
            desc["queries"] = [case["query"]]
        res = eval_case(ctx, drv, env, base, desc, "replay")
        res["violations"] = [w for w, _ in ctx.violations]
        res["known_findings"] = sorted(ctx.known_seen)
        return json.loads(json.dumps(res, default=str).replace(base, "$BASE"))
