import CbiVerif.Lemmas.FCleanRegen
/-!
# C17 — the `fortran_cleaner` and directives-only `c_cleaner` models are the machines tabulated from the running code

`Generated/FCleanTable.lean` / `Generated/CCleanTable.lean` are rewritten on every run by executing the
checkout's `fortran_cleaner.process`, `c_cleaner(directives_only=True).process` and `logical_newline`
(`tools/gen/cleaner.py`).  The theorems below are re-checked against those files on every run; a change of the
code's behaviour in any tabulated cell makes one of them fail to build.
-/
namespace CbiVerif.C17
open CbiVerif.Fortran CbiVerif.Fortran.Regen

/-- **C17.step_table_agrees.**  `fortran_cleaner.process(line)` — the unit the code executes; `dir_check` reads
    on from the same iterator — from every configuration (stack, `verify_continue`) reachable at a line start
    (9 of them, closed under `process`), on every line of length ≤ 2 over the nine behaviour-class
    representatives and every line of length 3 that starts with `!` or `&` (the two characters that open a mode
    not visible in the buffer), i.e. every inner configuration (stack top × scan mode × `verify_continue`
    holds blanks) followed by every class: the model's `procLine` yields exactly the configuration and the line
    buffer (`parts`, `trailing_space`) the real code produced. -/
theorem step_table_agrees : ∀ row ∈ Gen.FCleanTable.lines, ∀ p ∈ row.2,
    p.2 = lineObs (startSt row.1) (chars p.1) := by
  intro row hrow p hp
  have h := List.all_eq_true.mp lineRows_ok row hrow
  simp only [lineRowOK, Bool.and_eq_true, beq_iff_eq, List.all_eq_true] at h
  exact h.2 p hp

/-- **C17.table_closed.**  The table starts at the initial configuration, lists for every start configuration
    exactly the announced lines, and every configuration `process` leaves behind is again a start configuration. -/
theorem table_closed :
    Gen.FCleanTable.lines.head?.map (·.1) = some ([0], []) ∧
    (∀ row ∈ Gen.FCleanTable.lines, row.2.map (·.1) = linesOver Gen.FCleanTable.classReps Gen.FCleanTable.silentReps) ∧
    (∀ row ∈ Gen.FCleanTable.lines, ∀ p ∈ row.2,
      p.2.1 = true ∨ (p.2.2.1, p.2.2.2.1) ∈ Gen.FCleanTable.lines.map (·.1)) := by
  have hs := shape_ok
  have hc := closed_ok
  simp only [shapeOK, Bool.and_eq_true, beq_iff_eq, List.all_eq_true] at hs
  simp only [closedOK, List.all_eq_true, Bool.or_eq_true, List.contains_iff_mem] at hc
  exact ⟨hs.1, hs.2, hc⟩

/-- **C17.classes_agree.**  The character partition is the regenerated one: all 128 ASCII characters are listed
    (plus NEL, NBSP and some non-ASCII letters/blanks), and for ASCII, NEL and NBSP the model's `cls` is the class
    the running code's behaviour puts the character in; the code has five states at line starts, nine behaviour
    classes with smallest members NUL, TAB, `!`, `"`, `$`, `&`, `'`, `A`, `\`.  (Python's `str.isalpha` on other
    letters is outside the model: non-ASCII texts are outside the reference's `WF`.) -/
theorem classes_agree :
    (∀ p ∈ Gen.FCleanTable.charClass, (p.1 < 128 ∨ p.1 = 133 ∨ p.1 = 160) → clsIdx (cls (Char.ofNat p.1)) = p.2) ∧
    (Gen.FCleanTable.charClass.take 128).map (·.1) = List.range 128 ∧
    Gen.FCleanTable.stateNames.length = 5 ∧ Gen.FCleanTable.classReps = [0, 9, 33, 34, 36, 38, 39, 65, 92] ∧
    Gen.FCleanTable.silentReps = [33, 38] := by
  refine ⟨?_, ascii_listed, reps_ok⟩
  intro p hp hr
  have h := List.all_eq_true.mp classes_ok p hp
  have hb : (decide (p.1 < 128) || p.1 == 133 || p.1 == 160) = true := by
    rcases hr with h1 | h1 | h1 <;> simp [h1]
  simpa only [classOK, hb, Bool.not_true, Bool.false_or, beq_iff_eq] using h

/-- **C17.cpass_table_agrees.**  The C pass in front (`c_cleaner(directives_only=True)`): for every stack it
    can reach (16), both buffer categories and EVERY ASCII character, one character through the model's
    `dProcess` gives the successor stack and buffer effects recorded for the character's class when the real
    `process()` was executed; `dNewline` likewise equals the recorded `logical_newline`; the table is closed. -/
theorem cpass_table_agrees :
    (∀ row ∈ Gen.CCleanTable.stepD, ∀ (b : Bool) (n : Nat), n < 128 →
      (classOfChar n).bind (fun i => (row.2[b.toNat]?).bind (·[i]?)) = some (dCell (row.1.map dModeOfId) b (Char.ofNat n))) ∧
    (∀ row ∈ Gen.CCleanTable.newlineD, row.2 = dNewlineCell (row.1.map dModeOfId)) ∧
    dClosedOK = true := by
  refine ⟨?_, ?_, dClosed_ok⟩
  · intro row hrow b n hn
    have h := List.all_eq_true.mp dRows_ok row hrow
    simp only [dRowOK, Bool.and_eq_true, beq_iff_eq, List.all_eq_true] at h
    exact h.2 b (by cases b <;> simp) n (List.mem_range.mpr hn)
  · intro row hrow
    have h := List.all_eq_true.mp dNlRows_ok row hrow
    simpa only [dNlRowOK, beq_iff_eq] using h

/-! non-vacuity: 9 start configurations × 253 lines; e.g. `&\t!` from the initial configuration -/
example : Gen.FCleanTable.lines.length = 9 ∧
    lineObs (startSt ([0], [])) (chars [38, 9, 33]) = (false, [2, 0], [], [], false) := by decide
set_option maxRecDepth 100000 in
example : Gen.FCleanTable.lines.map (·.2.length) = List.replicate 9 253 := by decide

end CbiVerif.C17
