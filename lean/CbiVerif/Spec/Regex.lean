import CbiVerif.Model.Regex
/-!
# Declarative meaning of the regular expressions of `Model/Regex.lean`

`Match r s s'`: starting at the beginning of the text `s`, the expression `r` can match and leave `s'`
(a suffix of `s`) unread.  This is the language of `r` — no priorities, no back-tracking order, no groups.
`$` depends on what follows, which is why the relation is on (text, rest) and not on the matched word.
-/
namespace CbiVerif.Regex

inductive Match : Re → List Char → List Char → Prop
  | empty (s) : Match .empty s s
  | chr (c s) : Match (.chr c) (c :: s) s
  | any (c s) : c ≠ '\n' → Match .any (c :: s) s
  | cls (neg items c s) : classTest neg items c = true → Match (.cls neg items) (c :: s) s
  | seq {a b s s1 s2} : Match a s s1 → Match b s1 s2 → Match (.seq a b) s s2
  | altL {a b s s1} : Match a s s1 → Match (.alt a b) s s1
  | altR {a b s s1} : Match b s s1 → Match (.alt a b) s s1
  | star0 (r s) : Match (.star r) s s
  | starS {r s s1 s2} : Match r s s1 → Match (.star r) s1 s2 → Match (.star r) s s2
  | plus {r s s1 s2} : Match r s s1 → Match (.star r) s1 s2 → Match (.plus r) s s2
  | opt0 (r s) : Match (.opt r) s s
  | optS {r s s1} : Match r s s1 → Match (.opt r) s s1
  | group {i r s s1} : Match r s s1 → Match (.group i r) s s1
  | eol (s) : s = [] ∨ s = ['\n'] → Match .eol s s

end CbiVerif.Regex
