import Lean.Data.Json
import CbiVerif.Model.Exclude
/-! driver ops for C10: `c10find` (cache/language-aware `find`, setmaps, reference run) and `c10pats`. -/
open Lean CbiVerif.PP
namespace CbiVerif.Drv.Exclude
open CbiVerif.Exclude

def clsName : LClass → String
  | .c => "c" | .fortran => "fortran" | .asm => "asm"

def strs (e : Json) (k : String) : List String := ((e.getObjValAs? (Array String) k).toOption.getD #[]).toList

def kindName (k : NKind) : String := (toString (repr k)).splitOn "." |>.getLast!

def setmapJson (rows : String → List (List String × Nat)) (members : List String) : Json :=
  Json.arr ((setmapKeys rows members).map fun k =>
    Json.arr #[Json.arr (k.map Json.str).toArray, (setmapOf rows members k : Nat)]).toArray

def handleFind (j : Json) : Json :=
  let files : FSMap := match j.getObjVal? "files" with
    | .ok (Json.obj kvs) => kvs.toList.map fun (k, v) => (k, v.getStr?.toOption.getD "")
    | _ => []
  let codebase := strs j "codebase"
  let excluded := strs j "excluded"
  let fuel := (j.getObjValAs? Nat "fuel").toOption.getD defaultFuel
  let cfgArr := (j.getObjValAs? (Array Json) "config").toOption.getD #[]
  let config : List (String × List Entry) := cfgArr.toList.map fun pj =>
    ((pj.getObjValAs? String "name").toOption.getD "",
     ((pj.getObjValAs? (Array Json) "entries").toOption.getD #[]).toList.map fun e =>
       ({ file := (e.getObjValAs? String "file").toOption.getD "", defines := strs e "defines",
          includePaths := strs e "include_paths", includeFiles := strs e "include_files" } : Entry))
  let S := sem files
  let w := find S fuel codebase config
  let ref := findRef S fuel config
  let mixed := Json.arr (w.mixed.map fun m =>
    Json.arr #[Json.str m.file, Json.str (clsName m.used), match m.ref with | some r => Json.str (clsName r) | none => Json.null]).toArray
  -- the theorem's conclusion, evaluated: association state of the run = reference
  let refAgrees : Bool := w.loc.assoc == ref.assoc && w.loc.warns == ref.warns && w.loc.err == ref.err
  match w.loc.err with
  | some e => Json.mkObj [("exc", toString (repr e)), ("mixed", mixed), ("ref_agrees", refAgrees),
      ("ref_exc", match ref.err with | some e2 => Json.str (toString (repr e2)) | none => Json.null)]
  | none =>
    let filesOut := w.cache.map fun (f, _, (nodes, _)) =>
      (f, Json.arr (nodes.toList.zipIdx.map fun (n, i) =>
        Json.arr #[Json.str (kindName n.kind), Json.arr (n.lines.map fun (x : Nat) => (x : Json)).toArray,
                   Json.arr ((platformsOf w.loc.assoc f i).map Json.str).toArray]).toArray)
    let classes := w.cache.map fun (f, cl, _) => (f, Json.str (clsName cl))
    let warns := w.loc.warns.map fun x => match x with
      | .userInclude f l n => Json.arr #[Json.str "user", Json.str f, (l : Nat), Json.str n]
      | .sysInclude f l n => Json.arr #[Json.str "system", Json.str f, (l : Nat), Json.str n]
    Json.mkObj [("ok", Json.mkObj filesOut), ("classes", Json.mkObj classes), ("warns", Json.arr warns.toArray),
      ("mixed", mixed), ("ref_agrees", refAgrees),
      ("ref_exc", match ref.err with | some e2 => Json.str (toString (repr e2)) | none => Json.null),
      ("setmap", setmapJson w.rows codebase), ("setmap_excluded", setmapJson w.rows excluded)]

def handlePats (j : Json) : Json :=
  let cli := strs j "cli"
  let toml : Option (List String) := match j.getObjVal? "toml" with
    | .ok (Json.arr a) => some (a.toList.map fun x => x.getStr?.toOption.getD "")
    | _ => none
  Json.mkObj [("patterns", Json.arr ((effectivePatterns cli toml).map Json.str).toArray)]

def handleExt (j : Json) : Json :=
  let f := (j.getObjValAs? String "file").toOption.getD ""
  Json.mkObj [("ext", splitext f), ("language", match extLanguage f with | some l => Json.str l | none => Json.null),
    ("class", match extClass f with | some k => Json.str (clsName k) | none => Json.null)]

def handlers : List (String × (Json → Json)) :=
  [("c10find", handleFind), ("c10pats", handlePats), ("c10ext", handleExt)]

end CbiVerif.Drv.Exclude
