#!/venv/bin/python
"""seed_matrix.py [PROP ...] : run ./check <PROP> quick against every seeded change of the property
(applied to /repo, undone straight afterwards), record the outcome in seeded/<id>/meta.json and
print a table.  Extra properties to try per seed: --also C02 (e.g. a C01 seed also caught by C02)."""
import json, re, subprocess, sys
from pathlib import Path
V = Path("/verif")
props = [a for a in sys.argv[1:] if not a.startswith("--")]
seeds = sorted(p for p in (V / "seeded").iterdir() if p.is_dir() and (p / "meta.json").exists())
rows = []
for sd in seeds:
    meta = json.loads((sd / "meta.json").read_text())
    pid = meta["property"]
    if props and pid not in props:
        continue
    only = [a.split("=")[1].split(",") for a in sys.argv if a.startswith("--only=")]
    if only and sd.name.split("-")[1] not in only[0]:
        continue
    if "--worktree" in sys.argv:
        # leave /repo alone (e.g. while a long run uses it): scratch worktree + CBI_REPO
        import os, tempfile
        wt = tempfile.mkdtemp(prefix="seedwt_")
        os.rmdir(wt)
        subprocess.run(["git", "-C", "/repo", "worktree", "add", "-q", "--detach", wt, "HEAD"], check=True)
        try:
            subprocess.run(["git", "-C", wt, "apply", str(sd / "patch.diff")], check=True)
            try:
                r = subprocess.run(["./check", pid, "quick"], cwd=V, capture_output=True, text=True, timeout=1800,
                                   env=dict(os.environ, CBI_REPO=wt))
            except subprocess.TimeoutExpired:
                r = subprocess.CompletedProcess([], 2, "  check timed out after 1800 s\n", "")
        finally:
            subprocess.run(["git", "-C", "/repo", "worktree", "remove", "--force", wt])
    else:
        assert subprocess.run(["git", "-C", "/repo", "status", "--porcelain", "--untracked-files=no"], capture_output=True, text=True).stdout.strip() == "", "/repo not clean"
        subprocess.run(["git", "-C", "/repo", "apply", str(sd / "patch.diff")], check=True)
        try:
            r = subprocess.run(["./check", pid, "quick"], cwd=V, capture_output=True, text=True, timeout=1800)
        finally:
            subprocess.run(["git", "-C", "/repo", "checkout", "--", "."], check=True)
    vio = [l for l in r.stdout.splitlines() if l.startswith("VIOLATION")]
    caught = r.returncode == 1 and bool(vio)
    how = "not caught"
    if caught:
        how = "no-failing-input-found" if vio[0].rstrip().endswith("no-failing-input-found") else "violation with concrete replay"
    detail = [l.strip() for l in r.stdout.splitlines() if l.startswith("  ")][:2]
    entry = {"check": f"./check {pid} quick", "exit": r.returncode, "caught": caught, "how": how, "first_lines": detail}
    meta["checks_run"] = [e for e in meta.get("checks_run", []) if e.get("check") != entry["check"]] + [entry]
    (sd / "meta.json").write_text(json.dumps(meta, indent=1))
    rows.append((sd.name, pid, how))
    print(f"{sd.name:10s} {pid} {how}   {detail[:1]}")
subprocess.run([sys.executable, str(V / "tools" / "gen_tables.py")])  # restore the generated tables for the unchanged tree
