import CbiVerif.Model.FChar
/-!
Model of `codebasin/file_source.py`: `one_space_line` and `fortran_cleaner`.

* `OSL` = `one_space_line` (`parts`, `trailing_space`), `OSL.category`.
* `FSt` = the cleaner's state between two characters: `state` (a stack, head =
  `state[-1]`), the `verify_continue` buffer, and — because `dir_check` consumes
  the rest of the line from the same iterator — a line-local *scan mode*:
  `run` (normal dispatch), `bang` (inside `dir_check`, only letters seen after
  the `!` so far, collected in `found`), `sentinel` (`dir_check` found `$`: the
  rest of the line is copied), `done` (`dir_check` returned / `break`: the rest
  of the line is ignored).
* `step1` = one dispatch of the `while True` loop of `process` on one character;
  the transition is chosen by the character's class only, the character is
  carried into the emissions.  Third component = `inbuffer.putback(char)`.
* `endLine` = the code after the loop (`VERIFY_CONTINUE` → `CONTINUING_FROM_SOL`)
  plus the start of the next call (scan mode is line-local).

Core Lean only.
-/
namespace CbiVerif.Fortran

/-! ## one_space_line -/

structure OSL where
  parts : List Char := []
  trailing : Bool := false
deriving Repr, Inhabited, DecidableEq

/-- what the cleaner does to the buffer: `append_space` / `append_nonspace c`.
(`append_char c` is `sp` for white space and `ns c` otherwise.) -/
inductive Emit | sp | ns (c : Char)
deriving DecidableEq, Repr, Inhabited

def OSL.add (o : OSL) : Emit → OSL
  | .sp => if o.trailing then o else { parts := o.parts ++ [' '], trailing := true }
  | .ns c => { parts := o.parts ++ [c], trailing := false }

def OSL.addAll (o : OSL) (es : List Emit) : OSL := es.foldl OSL.add o

/-- `one_space_line.join` -/
def OSL.join (o other : OSL) : OSL :=
  match other.parts with
  | [] => o
  | p :: ps =>
    if p == ' ' && o.trailing then { parts := o.parts ++ ps, trailing := other.trailing }
    else { parts := o.parts ++ other.parts, trailing := other.trailing }

inductive Cat | srcNonblank | blank | cppDirective
deriving DecidableEq, Repr, Inhabited

/-- `one_space_line.category` as a function of the parts -/
def category (parts : List Char) : Cat :=
  match parts with
  | [] => .blank
  | [c] => if c == ' ' then .blank else if c == '#' then .cppDirective else .srcNonblank
  | a :: b :: _ => if (a == ' ' && b == '#') || a == '#' then .cppDirective else .srcNonblank

def OSL.blank (o : OSL) : Bool := category o.parts == .blank

/-! ## fortran_cleaner -/

inductive Mode | top | dq | sq | esc | verify | cfs
deriving DecidableEq, Repr, Inhabited

inductive Scan | run | bang | sentinel | done
deriving DecidableEq, Repr, Inhabited

structure FSt where
  stack : List Mode := [.top]
  scan : Scan := .run
  vc : List Char := []       -- verify_continue
  found : List Char := []    -- dir_check's `found`
deriving DecidableEq, Repr, Inhabited

/-- one dispatch of `fortran_cleaner.process` (or one iteration inside `dir_check`);
last component = putback -/
def step1 (s : FSt) (c : Char) : FSt × List Emit × Bool :=
  match s.scan with
  | .done => (s, [], false)
  | .sentinel => (s, [.ns c], false)
  | .bang =>
    match cls c with
    | .dollar => ({ s with scan := .sentinel, found := [] }, (s.found ++ [c]).map .ns, false)
    | .alpha => ({ s with found := s.found ++ [c] }, [], false)
    | _ => ({ s with scan := .done, found := [] }, [], false)
  | .run =>
    match s.stack with
    | [] => (s, [], false)
    | .top :: r =>
      match cls c with
      | .bslash => ({ s with stack := .esc :: .top :: r }, [.ns c], false)
      | .bang => ({ s with stack := [.top], scan := .bang, found := [c] }, [], false)
      | .amp => ({ s with stack := .verify :: .top :: r, vc := s.vc ++ [c] }, [], false)
      | .dq => ({ s with stack := .dq :: .top :: r }, [.ns c], false)
      | .sq => ({ s with stack := .sq :: .top :: r }, [.ns c], false)
      | .ws => (s, [.sp], false)
      | _ => (s, [.ns c], false)
    | .cfs :: r =>
      match cls c with
      | .ws => (s, [.sp], false)
      | .amp => ({ s with stack := r }, [], false)
      | .bang => ({ s with scan := .bang, found := [c] }, [], false)
      | _ => ({ s with stack := r }, [], true)
    | .dq :: r =>
      match cls c with
      | .bslash => ({ s with stack := .esc :: .dq :: r }, [.ns c], false)
      | .dq => ({ s with stack := r }, [.ns c], false)
      | .amp => ({ s with stack := .verify :: .dq :: r, vc := s.vc ++ [c] }, [], false)
      | _ => (s, [.ns c], false)
    | .sq :: r =>
      match cls c with
      | .bslash => ({ s with stack := .esc :: .sq :: r }, [.ns c], false)
      | .sq => ({ s with stack := r }, [.ns c], false)
      | .amp => ({ s with stack := .verify :: .sq :: r, vc := s.vc ++ [c] }, [], false)
      | _ => (s, [.ns c], false)
    | .esc :: r => ({ s with stack := r }, [.ns c], false)
    | .verify :: r =>
      if cls c == .bang && r.head? == some .top then ({ s with scan := .bang, found := [c] }, [], false)
      else if cls c != .ws then ({ s with stack := r, vc := [] }, s.vc.map .ns, true)
      else ({ s with vc := s.vc ++ [c] }, [], false)

/-- one input character: dispatch, and dispatch again if it was put back -/
def step (s : FSt) (c : Char) : FSt × List Emit :=
  match step1 s c with
  | (s1, e1, true) => match step1 s1 c with | (s2, e2, _) => (s2, e1 ++ e2)
  | (s1, e1, false) => (s1, e1)

/-- after the loop of `process`, and reset of the line-local scan mode -/
def endLine (s : FSt) : FSt :=
  match s.stack with
  | .verify :: r => { stack := .cfs :: r, scan := .run, vc := [], found := [] }
  | st => { stack := st, scan := .run, vc := s.vc, found := [] }

def procChars : FSt → OSL → List Char → FSt × OSL
  | s, b, [] => (s, b)
  | s, b, c :: cs => procChars (step s c).1 (b.addAll (step s c).2) cs

/-- `cleaner.process(line)` into a fresh `current_physical_line`:
the cleaner state for the next line and the buffer -/
def procLine (s : FSt) (l : List Char) : FSt × OSL :=
  (endLine (procChars s {} l).1, (procChars s {} l).2)

/-- a line can start with the cleaner at top level or at the start of a continuation line -/
def AtCode (s : FSt) : Prop := s.scan = .run ∧ (s.stack.head? = some .top ∨ s.stack.head? = some .cfs)
/-- … or inside an (ill-formed: unterminated) character context -/
def AtLit (s : FSt) : Prop := s.scan = .run ∧ (s.stack.head? = some .dq ∨ s.stack.head? = some .sq)


end CbiVerif.Fortran
