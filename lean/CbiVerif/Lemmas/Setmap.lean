import CbiVerif.Model.Setmap
import CbiVerif.Model.Coverage
/-! helper lemmas for C06: the setmap operations (`add`, `get`, `has`, `total`, `merge`) and the folds that fill a setmap -/
namespace CbiVerif.SM

theorem get_add (sm : Setmap) (k : Key) (n : Nat) (k' : Key) :
    get (add sm k n) k' = get sm k' + (if k = k' then n else 0) := by
  induction sm with
  | nil => simp [add, get]
  | cons e rest ih =>
    simp only [add]
    by_cases h : e.1 = k
    · simp only [h, if_true, get]
      by_cases h2 : k = k'
      · simp only [h2, if_true]; omega
      · simp only [h2, if_false]; omega
    · simp only [h, if_false, get, ih]; omega

theorem has_add (sm : Setmap) (k : Key) (n : Nat) (k' : Key) :
    has (add sm k n) k' = (has sm k' || decide (k = k')) := by
  induction sm with
  | nil => simp [add, has]
  | cons e rest ih =>
    simp only [add]
    by_cases h : e.1 = k
    · simp only [h, if_true, has]
      by_cases h2 : k = k' <;> simp [h2]
    · simp only [h, if_false, has, ih, Bool.or_assoc]

theorem total_cons (e : Key × Nat) (rest : Setmap) : total (e :: rest) = e.2 + total rest := by
  simp [total, CbiVerif.Metrics.total]

theorem total_add (sm : Setmap) (k : Key) (n : Nat) : total (add sm k n) = total sm + n := by
  induction sm with
  | nil => simp [add, total, CbiVerif.Metrics.total]
  | cons e rest ih =>
    simp only [add]
    by_cases h : e.1 = k
    · simp only [h, if_true, total_cons]; omega
    · simp only [h, if_false, total_cons, ih]; omega

theorem keys_add (sm : Setmap) (k : Key) (n : Nat) :
    keys (add sm k n) = if k ∈ keys sm then keys sm else keys sm ++ [k] := by
  induction sm with
  | nil => simp [add, keys]
  | cons e rest ih =>
    simp only [add]
    by_cases h : e.1 = k
    · simp [h, keys]
    · have ih' : List.map (·.1) (add rest k n) = if k ∈ List.map (·.1) rest then List.map (·.1) rest else List.map (·.1) rest ++ [k] := ih
      have hne : ¬ k = e.1 := fun h' => h h'.symm
      simp only [h, if_false, keys, List.map_cons, ih', List.mem_cons, hne, false_or]
      split <;> simp

theorem nodup_add (sm : Setmap) (k : Key) (n : Nat) (h : (keys sm).Nodup) : (keys (add sm k n)).Nodup := by
  rw [keys_add]
  split
  · exact h
  · rename_i hk
    rw [List.nodup_append]
    exact ⟨h, by simp, by intro a ha b hb; simp at hb; subst hb; intro hab; exact hk (hab ▸ ha)⟩

theorem has_iff_mem_keys (sm : Setmap) (k : Key) : has sm k = true ↔ k ∈ keys sm := by
  induction sm with
  | nil => simp [has, keys]
  | cons e rest ih =>
    have ih' : has rest k = true ↔ k ∈ List.map (·.1) rest := ih
    simp only [has, keys, List.map_cons, List.mem_cons, Bool.or_eq_true, decide_eq_true_eq, ih']
    constructor
    · rintro (h | h)
      · exact Or.inl h.symm
      · exact Or.inr h
    · rintro (h | h)
      · exact Or.inl h.symm
      · exact Or.inr h

/-- a generic fold of `add` -/
theorem get_foldl_add {α : Type} (key : α → Key) (val : α → Nat) (xs : List α) (s : Setmap) (k : Key) :
    get (xs.foldl (fun s x => add s (key x) (val x)) s) k
      = get s k + (xs.map fun x => if key x = k then val x else 0).sum := by
  induction xs generalizing s with
  | nil => simp
  | cons x xs ih => simp only [List.foldl_cons, ih, get_add, List.map_cons, List.sum_cons]; omega

theorem has_foldl_add {α : Type} (key : α → Key) (val : α → Nat) (xs : List α) (s : Setmap) (k : Key) :
    has (xs.foldl (fun s x => add s (key x) (val x)) s) k = (has s k || xs.any fun x => decide (key x = k)) := by
  induction xs generalizing s with
  | nil => simp
  | cons x xs ih => simp only [List.foldl_cons, ih, has_add, List.any_cons, Bool.or_assoc]

theorem total_foldl_add {α : Type} (key : α → Key) (val : α → Nat) (xs : List α) (s : Setmap) :
    total (xs.foldl (fun s x => add s (key x) (val x)) s) = total s + (xs.map val).sum := by
  induction xs generalizing s with
  | nil => simp
  | cons x xs ih => simp only [List.foldl_cons, ih, total_add, List.map_cons, List.sum_cons]; omega

theorem nodup_foldl_add {α : Type} (key : α → Key) (val : α → Nat) (xs : List α) (s : Setmap)
    (h : (keys s).Nodup) : (keys (xs.foldl (fun s x => add s (key x) (val x)) s)).Nodup := by
  induction xs generalizing s with
  | nil => exact h
  | cons x xs ih => exact ih _ (nodup_add s _ _ h)

/-- with distinct keys `get` reads the single item carrying the key -/
theorem sum_if_key (sm : Setmap) (k : Key) : (sm.map fun e => if e.1 = k then e.2 else 0).sum = get sm k := by
  induction sm with
  | nil => rfl
  | cons e rest ih => simp only [List.map_cons, List.sum_cons, ih, get]

/-! ### merge -/
theorem get_merge (d s : Setmap) (k : Key) : get (merge d s) k = get d k + get s k := by
  unfold merge
  rw [get_foldl_add (fun e : Key × Nat => e.1) (fun e => e.2), sum_if_key]

theorem has_merge (d s : Setmap) (k : Key) : has (merge d s) k = (has d k || has s k) := by
  unfold merge
  rw [has_foldl_add (fun e : Key × Nat => e.1) (fun e => e.2)]
  congr 1
  induction s with
  | nil => rfl
  | cons e rest ih => simp only [List.any_cons, has, ih]

theorem total_merge (d s : Setmap) : total (merge d s) = total d + total s := by
  unfold merge
  rw [total_foldl_add (fun e : Key × Nat => e.1) (fun e => e.2)]
  rfl

theorem nodup_merge (d s : Setmap) (h : (keys d).Nodup) : (keys (merge d s)).Nodup :=
  nodup_foldl_add (fun e : Key × Nat => e.1) (fun e => e.2) s d h

/-! ### addNodes / fileSetmap / getSetmap -/
def nodeSum (ns : List NodeRec) (k : Key) : Nat := (ns.map fun n => if n.plats = k then n.numLines else 0).sum

theorem get_addNodes (s : Setmap) (ns : List NodeRec) (k : Key) : get (addNodes s ns) k = get s k + nodeSum ns k :=
  get_foldl_add (fun n : NodeRec => n.plats) (fun n => n.numLines) ns s k

theorem has_addNodes (s : Setmap) (ns : List NodeRec) (k : Key) :
    has (addNodes s ns) k = (has s k || ns.any fun n => decide (n.plats = k)) :=
  has_foldl_add (fun n : NodeRec => n.plats) (fun n => n.numLines) ns s k

theorem total_addNodes (s : Setmap) (ns : List NodeRec) :
    total (addNodes s ns) = total s + (ns.map (·.numLines)).sum :=
  total_foldl_add (fun n : NodeRec => n.plats) (fun n => n.numLines) ns s

theorem nodup_addNodes (s : Setmap) (ns : List NodeRec) (h : (keys s).Nodup) : (keys (addNodes s ns)).Nodup :=
  nodup_foldl_add (fun n : NodeRec => n.plats) (fun n => n.numLines) ns s h

theorem getSetmap_fold (fs : List FileRec) (s : Setmap) (k : Key) :
    get (fs.foldl (fun s f => if f.link then s else addNodes s f.nodes) s) k
      = get s k + ((fs.filter fun f => !f.link).map fun f => nodeSum f.nodes k).sum := by
  induction fs generalizing s with
  | nil => simp
  | cons f fs ih =>
    simp only [List.foldl_cons, ih]
    cases hl : f.link
    · simp [hl, get_addNodes]; omega
    · simp [hl]

theorem getSetmap_has_fold (fs : List FileRec) (s : Setmap) (k : Key) :
    has (fs.foldl (fun s f => if f.link then s else addNodes s f.nodes) s) k
      = (has s k || (fs.filter fun f => !f.link).any fun f => f.nodes.any fun n => decide (n.plats = k)) := by
  induction fs generalizing s with
  | nil => simp
  | cons f fs ih =>
    simp only [List.foldl_cons, ih]
    cases hl : f.link
    · simp [hl, has_addNodes, Bool.or_assoc]
    · simp [hl]

theorem getSetmap_total_fold (fs : List FileRec) (s : Setmap) :
    total (fs.foldl (fun s f => if f.link then s else addNodes s f.nodes) s)
      = total s + ((fs.filter fun f => !f.link).map fun f => (f.nodes.map (·.numLines)).sum).sum := by
  induction fs generalizing s with
  | nil => simp
  | cons f fs ih =>
    simp only [List.foldl_cons, ih]
    cases hl : f.link
    · simp [hl, total_addNodes]; omega
    · simp [hl]

theorem getSetmap_nodup_fold (fs : List FileRec) (s : Setmap) (h : (keys s).Nodup) :
    (keys (fs.foldl (fun s f => if f.link then s else addNodes s f.nodes) s)).Nodup := by
  induction fs generalizing s with
  | nil => exact h
  | cons f fs ih =>
    simp only [List.foldl_cons]
    apply ih
    split
    · exact h
    · exact nodup_addNodes _ _ h

/-- counting lines: under `num_lines = len(lines)` the node sum is the number of attributed lines -/
theorem nodeSum_eq_countP (ns : List NodeRec) (k : Key) (h : ∀ n ∈ ns, n.numLines = n.lines.length) :
    nodeSum ns k = ((ns.flatMap fun n => n.lines.map fun l => (l, n.plats)).countP fun p => p.2 = k) := by
  induction ns with
  | nil => rfl
  | cons n ns ih =>
    have ih' := ih (fun m hm => h m (List.mem_cons_of_mem _ hm))
    unfold nodeSum at ih' ⊢
    simp only [List.map_cons, List.sum_cons, List.flatMap_cons, List.countP_append, ih']
    congr 1
    by_cases hk : n.plats = k
    · simp [hk, List.countP_map, h n (List.mem_cons_self ..)]
      rw [List.countP_eq_length.mpr]
      intro a _; simp [hk]
    · simp [hk, List.countP_map]
      rw [List.countP_eq_zero.mpr]
      intro a _; simp [hk]

theorem numLines_sum_eq_length (ns : List NodeRec) (h : ∀ n ∈ ns, n.numLines = n.lines.length) :
    (ns.map (·.numLines)).sum = (ns.flatMap fun n => n.lines.map fun l => (l, n.plats)).length := by
  induction ns with
  | nil => rfl
  | cons n ns ih =>
    simp only [List.map_cons, List.sum_cons, List.flatMap_cons, List.length_append, List.length_map,
      ih (fun m hm => h m (List.mem_cons_of_mem _ hm)), h n (List.mem_cons_self ..)]

/-- the sum of the rows over the (distinct) keys is the total: every line is in exactly one row -/
theorem total_eq_sum_get (sm : Setmap) (h : (keys sm).Nodup) : total sm = ((keys sm).map (get sm)).sum := by
  induction sm with
  | nil => rfl
  | cons e rest ih =>
    have hn : (e.1 :: keys rest).Nodup := h
    rw [List.nodup_cons] at hn
    rw [total_cons, ih hn.2]
    have h0 : get rest e.1 = 0 := by
      have : ∀ (r : Setmap), e.1 ∉ keys r → get r e.1 = 0 := by
        intro r hr
        induction r with
        | nil => rfl
        | cons a r ihr =>
          have hr' : e.1 ∉ a.1 :: keys r := hr
          simp only [List.mem_cons, not_or] at hr'
          have hne : ¬ a.1 = e.1 := fun h' => hr'.1 h'.symm
          simp only [get, hne, if_false, Nat.zero_add]
          exact ihr hr'.2
      exact this rest hn.1
    have hmap : List.map (get (e :: rest)) (keys rest) = List.map (get rest) (keys rest) := by
      apply List.map_congr_left
      intro k hk
      have hne : ¬ e.1 = k := fun h' => hn.1 (h' ▸ hk)
      simp [get, hne]
    have hhead : get (e :: rest) e.1 = e.2 + get rest e.1 := by simp [get]
    show e.2 + _ = (List.map (get (e :: rest)) (e.1 :: keys rest)).sum
    rw [List.map_cons, List.sum_cons, hmap, hhead, h0]; omega

end CbiVerif.SM

namespace CbiVerif.Cov
open CbiVerif.SM

theorem split_fold (ns : List NodeRec) (s : Split) :
    ns.foldl (fun s n => if n.plats.isEmpty then { s with unused := s.unused ++ n.lines }
                         else { s with used := s.used ++ n.lines }) s
      = ⟨s.used ++ (ns.filter fun n => !n.plats.isEmpty).flatMap (·.lines),
         s.unused ++ (ns.filter fun n => n.plats.isEmpty).flatMap (·.lines)⟩ := by
  induction ns generalizing s with
  | nil => simp
  | cons n ns ih =>
    simp only [List.foldl_cons, ih]
    cases h : n.plats.isEmpty <;> simp [h, List.filter_cons]

theorem split_eq (ns : List NodeRec) :
    split ns = ⟨(ns.filter fun n => !n.plats.isEmpty).flatMap (·.lines),
                (ns.filter fun n => n.plats.isEmpty).flatMap (·.lines)⟩ := by
  unfold split; rw [split_fold]; simp

end CbiVerif.Cov
