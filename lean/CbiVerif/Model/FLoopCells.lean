import CbiVerif.Model.FCleanCells
/-!
# The loop of `fortran_file_source` as a one-step machine, in the vocabulary of the regenerated loop table

`Model/FSource.lean` models the `while True` loop of `fortran_file_source` as the recursive function `fLoop`
(cleaner state, pending logical line, its counted physical lines; one C-pass logical line per iteration).
This file names one iteration (`fStep`), the code after the loop (`fEndOut`, `fEndOk`) and their iteration
(`fRun`); `Lemmas/FLoopRegen.lean` proves that `fLoop` / `fPass` ARE that machine (`fLoop_eq_run`), and compares
`fStep` with the table `Generated/FLoopTable.lean` that `tools/gen/cleaner.py` produces by executing the real
`fortran_file_source` from every reachable loop configuration on every physical-line kind.  The same functions
serve the driver op `floop_cells` (failing-input search).  Core Lean only.
-/
namespace CbiVerif.Fortran

/-- what the loop carries from one iteration to the next: the cleaner (`state`, `verify_continue`), the pending
    logical line (`curr_line.current_logical_line`) and the physical lines counted for it (`curr_line.lines`) -/
structure LCfg where
  s : FSt := {}
  cur : OSL := {}
  lines : List Nat := []
deriving Repr, Inhabited, DecidableEq

/-- one iteration of the `while True` loop on the C-pass logical line `cl`: the next configuration and the
    logical lines yielded -/
def fStep (k : LCfg) (cl : CL) : LCfg × List LL :=
  if isDirText cl.text then
    (⟨k.s, {}, []⟩, emitLL k.cur k.lines ++ [⟨cl.lines, cl.text, true⟩])
  else
    let r := procLine k.s cl.text
    let lines2 := if r.2.blank then k.lines else k.lines ++ cl.lines
    let cur2 := k.cur.join r.2
    if r.1.stack.head? == some .cfs then (⟨r.1, cur2, lines2⟩, [])
    else (⟨r.1, {}, []⟩, emitLL cur2 lines2)

/-- the iterations on a list of C-pass logical lines -/
def fRun (k : LCfg) : List CL → LCfg × List LL
  | [] => (k, [])
  | cl :: rest => ((fRun (fStep k cl).1 rest).1, (fStep k cl).2 ++ (fRun (fStep k cl).1 rest).2)

/-- after the loop: the pending logical line is flushed (yielded if it is not BLANK) … -/
def fEndOut (k : LCfg) : List LL := emitLL k.cur k.lines
/-- … and then "Parser must end at top level" is raised unless the cleaner is at `["TOPLEVEL"]` -/
def fEndOk (k : LCfg) : Bool := k.s.stack == [.top]

namespace Regen

/-- a logical line as the table has it: (`lines`, text as code points, category is CPP_DIRECTIVE) -/
abbrev Y := List Nat × List Nat × Bool
/-- (cleaner configuration: stack ids top first, `verify_continue`), category of the pending line, it is empty, `trailing_space` -/
abbrev LKey := (List Nat × List Nat) × Nat × Bool × Bool
/-- (raises, yielded during the probe, cleaner configuration afterwards, yielded at the end of the file, the end of
    the file raises, yielded after the probe when the line `A` follows, the same for blank `A`) -/
abbrev LEntry := Bool × List Y × (List Nat × List Nat) × List Y × Bool × List Y × List Y

def yOf (l : LL) : Y := (l.lines, l.text.map Char.toNat, l.isDir)
/-- a logical line yielded by the real C pass, as input of the loop -/
def clOf (c : Y) : CL := ⟨c.1, chars c.2.1⟩

def catCode : Cat → Nat | .blank => 0 | .srcNonblank => 1 | .cppDirective => 2

def cfgIds (s : FSt) : List Nat × List Nat := (s.stack.map modeId, s.vc.map Char.toNat)

/-- the loop configuration after the C-pass logical lines `pre` from the start of the file -/
def cfgAfter (pre : List Y) : LCfg := (fRun {} (pre.map clOf)).1

def absCfg (k : LCfg) : LKey := (cfgIds k.s, catCode (category k.cur.parts), k.cur.parts.isEmpty, k.cur.trailing)

/-- everything yielded when one more logical line (physical line `n`, text `t`) follows and the file ends -/
def reveal (k : LCfg) (n : Nat) (t : List Char) : List Y :=
  ((fRun k [⟨[n], t⟩]).2 ++ fEndOut (fRun k [⟨[n], t⟩]).1).map yOf

/-- what the model says about a probe: the C-pass logical lines `probe` (physical lines up to number `n`) read in
    configuration `k` -/
def loopObs (k : LCfg) (n : Nat) (probe : List Y) : LEntry :=
  let r := fRun k (probe.map clOf)
  (false, r.2.map yOf, cfgIds r.1.s, (fEndOut r.1).map yOf, !fEndOk r.1,
   reveal r.1 (n + 1) ['A'], reveal r.1 (n + 1) [' ', 'A'])

/-- what the loop can see of the result of `process(line)` (an entry of the step table): raises, configuration
    afterwards, buffer empty, its category, first part is a blank, `trailing_space` -/
def loopShape (e : Entry) : Bool × List Nat × List Nat × Bool × Nat × Bool × Bool :=
  (e.1, e.2.1, e.2.2.1, e.2.2.2.1.isEmpty, catCode (category (chars e.2.2.2.1)), e.2.2.2.1.head? == some 32, e.2.2.2.2)

end Regen
end CbiVerif.Fortran
