"""C02 — #if expressions are evaluated with C integer-constant-expression semantics.

Implementation : codebasin.preprocessor.{Lexer, MacroExpander, ExpressionEvaluator, IfNode,
                 DirectiveParser} in-process; codebasin.finder.find for the #elif clause.
                 Observed: truth value (`evaluate()`, `IfNode.evaluate_for_platform`), value and
                 signedness (`expression()` and generated `(E) == k` / type-probe comparisons),
                 exception class.
Model (Lean)   : CbiVerif.Eval.cbiExpr / cbiEval (driver op `evalx`), executed on the tokens of the
                 Lean lexer + expander models with the GENERATED operator tables; `analyse` for #elif.
Spec (Lean)    : CbiVerif.CExpr.cEval on the parse tree the generator built (same op), WF flags.
External oracle: gcc -E (thorough tier) validating the Lean spec.

A case is a parse tree (Python dict = the driver's JSON) rendered to text; the driver checks that the
text lexes + expands to exactly the token list the theorems speak about (`render_match`).
"""
from __future__ import annotations

import itertools
import json
import random
import subprocess

from harness import core

M = 1 << 64
IMAX = M // 2 - 1
UMAX = M - 1

C_PREC = {  # C11 6.5.5 .. 6.5.14 (the harness' own copy of the C table, used for rendering only)
    "*": 11, "/": 11, "%": 11, "+": 10, "-": 10, "<<": 9, ">>": 9, "<": 8, ">": 8, "<=": 8, ">=": 8,
    "==": 7, "!=": 7, "&": 6, "^": 5, "|": 4, "&&": 3, "||": 2,
}
BINOPS = list(C_PREC)
UNOPS = ["-", "+", "!", "~"]
SUFFIXES = [("", "", False)] + [(u, "", True) for u in "uU"] + [("", l, False) for l in ("l", "L", "ll", "LL")] + [
    (u, l, uf) for u in "uU" for l in ("l", "L", "ll", "LL") for uf in (True, False)]
SIMPLE_ESC = {"'": 39, '"': 34, "?": 63, "\\": 92, "a": 7, "b": 8, "f": 12, "n": 10, "r": 13, "t": 9, "v": 11}
RADIX = {"dec": 10, "oct": 8, "hex": 16, "bin": 2}


# ---------------------------------------------------------------------------
# parse trees
# ---------------------------------------------------------------------------
def mk_lit(n, base="dec", suf=("", "", False), pu=False, upper=False, pad=0):
    """integer constant with value n (n >= 0) in the given base; `pad` leading zeros (not for dec)"""
    r = RADIX[base]
    ds = []
    m = n
    while m:
        ds.append(m % r)
        m //= r
    ds.reverse()
    if base == "dec" and not ds:
        base = "oct"  # `0` is an octal constant
    if base in ("hex", "bin") and not ds:
        ds = [0]
    if base != "dec":
        ds = [0] * pad + ds
    return {"k": "lit", "base": base, "pu": bool(pu), "digits": [[d, bool(upper)] for d in ds], "suf": [suf[0], suf[1], bool(suf[2])]}


def lit_text(a):
    pre = {"dec": "", "oct": "0", "hex": "0X" if a["pu"] else "0x", "bin": "0B" if a["pu"] else "0b"}[a["base"]]
    body = "".join(("0123456789ABCDEF" if up else "0123456789abcdef")[d] for d, up in a["digits"])
    u, l, uf = a["suf"]
    return pre + body + (u + l if uf else l + u)


def lit_info(a):
    """(value, unsigned) by the C rules or None if the constant has no value (harness-side twin, steering only)"""
    n = 0
    for d, _ in a["digits"]:
        n = n * RADIX[a["base"]] + d
    if a["suf"][0]:
        return (n, True) if n <= UMAX else None
    if n <= IMAX:
        return (n, False)
    if a["base"] != "dec" and n <= UMAX:
        return (n, True)
    return None


def mk_chr(kind, payload):
    if kind in ("plain", "simple"):
        return {"k": "chr", "c": kind, "ch": payload}
    if kind == "octal":
        return {"k": "chr", "c": "octal", "ds": list(payload)}
    return {"k": "chr", "c": "hex", "ds": [[d, bool(u)] for d, u in payload]}


def chr_text(a):
    c = a["c"]
    if c == "plain":
        return "'" + a["ch"] + "'"
    if c == "simple":
        return "'\\" + a["ch"] + "'"
    if c == "octal":
        return "'\\" + "".join(str(d) for d in a["ds"]) + "'"
    return "'\\x" + "".join(("0123456789ABCDEF" if u else "0123456789abcdef")[d] for d, u in a["ds"]) + "'"


def ident(n):
    return {"k": "ident", "n": n}


def defd(n, p):
    return {"k": "defd", "n": n, "p": bool(p)}


def macro(n, body):
    """Python-only leaf: object-like macro `n` whose replacement is the tree `body` (a constant or a
    parenthesised expression); the spec tree contains the body."""
    return {"k": "macro", "n": n, "body": body}


def par(a):
    return {"k": "paren", "a": a}


def un(op, a):
    return {"k": "un", "op": op, "a": a}


def bin_(op, l, r):
    return {"k": "bin", "op": op, "l": l, "r": r}


def tern(c, t, e):
    return {"k": "tern", "c": c, "t": t, "e": e}


def level(a):
    k = a["k"]
    if k == "un":
        return 12
    if k == "bin":
        return C_PREC[a["op"]]
    if k == "tern":
        return 1
    return 13


def parenthesize(a, rng=None, extra=0.0):
    """make the semantic tree a parse tree of the C grammar by inserting the necessary parentheses,
    plus redundant ones with probability `extra`"""
    k = a["k"]

    def wrap(x, need):
        y = parenthesize(x, rng, extra)
        if level(y) < need or (rng is not None and extra and rng.random() < extra):
            y = par(y)
        return y

    if k == "paren":
        return par(parenthesize(a["a"], rng, extra))
    if k == "un":
        return un(a["op"], wrap(a["a"], 12))
    if k == "bin":
        p = C_PREC[a["op"]]
        return bin_(a["op"], wrap(a["l"], p), wrap(a["r"], p + 1))
    if k == "tern":
        return tern(wrap(a["c"], 2), wrap(a["t"], 0), wrap(a["e"], 1))
    return a


def spec_tree(a):
    """the tree after macro replacement (what the evaluator sees)"""
    k = a["k"]
    if k == "macro":
        return spec_tree(a["body"])
    if k == "paren":
        return par(spec_tree(a["a"]))
    if k == "un":
        return un(a["op"], spec_tree(a["a"]))
    if k == "bin":
        return bin_(a["op"], spec_tree(a["l"]), spec_tree(a["r"]))
    if k == "tern":
        return tern(spec_tree(a["c"]), spec_tree(a["t"]), spec_tree(a["e"]))
    return a


def src_tokens(a, out):
    k = a["k"]
    if k == "lit":
        out.append(lit_text(a))
    elif k == "chr":
        out.append(chr_text(a))
    elif k == "ident":
        out.append(a["n"])
    elif k == "macro":
        out.append(a["n"])
    elif k == "defd":
        out.extend(["defined", "(", a["n"], ")"] if a["p"] else ["defined", a["n"]])
    elif k == "paren":
        out.append("(")
        src_tokens(a["a"], out)
        out.append(")")
    elif k == "un":
        out.append(a["op"])
        src_tokens(a["a"], out)
    elif k == "bin":
        src_tokens(a["l"], out)
        out.append(a["op"])
        src_tokens(a["r"], out)
    else:
        src_tokens(a["c"], out)
        out.append("?")
        src_tokens(a["t"], out)
        out.append(":")
        src_tokens(a["e"], out)
    return out


def _wordy(ch):
    return ch.isalnum() or ch == "_" or ch == "'"


def needs_space(x, y):
    if _wordy(x[-1]) and _wordy(y[0]):
        return True
    if x in ("+", "-") and y[0] == x:        # `--`, `++` are single tokens for a C lexer
        return True
    if x[0].isdigit() and x[-1] in "eEpP" and y[0] in "+-":   # pp-number exponent `0x1e+2`
        return True
    if x == "/" and y[0] in "/*":
        return True
    return False


def join_tokens(toks, rng=None, ws=0.0):
    out = []
    for i, t in enumerate(toks):
        if i:
            if needs_space(toks[i - 1], t):
                out.append(" " if rng is None or rng.random() < 0.8 else rng.choice(["  ", "\t", " \t "]))
            elif rng is not None and rng.random() < ws:
                out.append(rng.choice([" ", " ", "  ", "\t"]))
        out.append(t)
    s = "".join(out)
    if rng is not None and rng.random() < ws / 2:
        s = rng.choice([" ", "\t", "  "]) + s + rng.choice(["", " ", "\t"])
    return s


def count_ops(a):
    k = a["k"]
    if k == "paren":
        return count_ops(a["a"])
    if k == "un":
        return 1 + count_ops(a["a"])
    if k == "bin":
        return 1 + count_ops(a["l"]) + count_ops(a["r"])
    if k == "tern":
        return 1 + count_ops(a["c"]) + count_ops(a["t"]) + count_ops(a["e"])
    if k == "macro":
        return count_ops(a["body"])
    return 0


def ops_of(a, acc):
    k = a["k"]
    if k == "paren":
        ops_of(a["a"], acc)
    elif k == "un":
        acc.append("u" + a["op"])
        ops_of(a["a"], acc)
    elif k == "bin":
        acc.append(a["op"])
        ops_of(a["l"], acc)
        ops_of(a["r"], acc)
    elif k == "tern":
        acc.append("?:")
        for x in ("c", "t", "e"):
            ops_of(a[x], acc)
    elif k == "macro":
        ops_of(a["body"], acc)
    return acc


# ---------------------------------------------------------------------------
# harness-side twin of the C semantics: ONLY used to steer the random generator towards
# well-defined expressions (the oracle is the Lean spec)
# ---------------------------------------------------------------------------
class UB(Exception):
    pass


def wrap(v, u):
    v %= M
    if not u and v >= M // 2:
        v -= M
    return v


def twin(a, env):
    k = a["k"]
    if k == "lit":
        r = lit_info(a)
        if r is None:
            raise UB
        return r
    if k == "chr":
        c = a["c"]
        if c == "plain":
            n = ord(a["ch"])
        elif c == "simple":
            n = SIMPLE_ESC[a["ch"]]
        elif c == "octal":
            n = int("".join(map(str, a["ds"])), 8)
        else:
            n = 0
            for d, _ in a["ds"]:
                n = n * 16 + d
        if n > 255:
            raise UB
        return (n - 256 if n >= 128 else n, False)
    if k == "ident":
        return (0, False)
    if k == "defd":
        return (1 if a["n"] in env else 0, False)
    if k == "macro":
        return twin(a["body"], env)
    if k == "paren":
        return twin(a["a"], env)
    if k == "un":
        v, u = twin(a["a"], env)
        op = a["op"]
        if op == "-":
            if not u and v == -(M // 2):
                raise UB
            return (wrap(-v, u), u)
        if op == "+":
            return (v, u)
        if op == "!":
            return (int(v == 0), False)
        return (wrap(~v, u), u)
    if k == "tern":
        c, _ = twin(a["c"], env)
        ut = utype(a["t"]) or utype(a["e"])
        v, _u = twin(a["t"] if c != 0 else a["e"], env)
        return (wrap(v, ut), ut)
    op = a["op"]
    if op == "&&":
        l, _ = twin(a["l"], env)
        if l == 0:
            return (0, False)
        return (int(twin(a["r"], env)[0] != 0), False)
    if op == "||":
        l, _ = twin(a["l"], env)
        if l != 0:
            return (1, False)
        return (int(twin(a["r"], env)[0] != 0), False)
    (l, lu), (r, ru) = twin(a["l"], env), twin(a["r"], env)
    if op in ("<<", ">>"):
        if not 0 <= r < 64:
            raise UB
        if op == "<<":
            if not lu and (l < 0 or (l << r) >= M // 2):
                raise UB
            return (wrap(l << r, lu), lu)
        return (wrap(l >> r, lu), lu)
    u = lu or ru
    x, y = wrap(l, u), wrap(r, u)
    if op in ("==", "!=", "<", "<=", ">", ">="):
        return (int({"==": x == y, "!=": x != y, "<": x < y, "<=": x <= y, ">": x > y, ">=": x >= y}[op]), False)
    if op in ("+", "-", "*"):
        res = {"+": x + y, "-": x - y, "*": x * y}[op]
        if not u and not -(M // 2) <= res < M // 2:
            raise UB
        return (wrap(res, u), u)
    if op in ("/", "%"):
        if y == 0 or (not u and x == -(M // 2) and y == -1):
            raise UB
        q = abs(x) // abs(y)
        if (x < 0) != (y < 0):
            q = -q
        return (wrap(q if op == "/" else x - q * y, u), u)
    return (wrap({"&": x & y, "|": x | y, "^": x ^ y}[op], u), u)


def utype(a):
    k = a["k"]
    if k == "lit":
        r = lit_info(a)
        return bool(r and r[1])
    if k in ("chr", "ident", "defd"):
        return False
    if k == "macro":
        return utype(a["body"])
    if k == "paren":
        return utype(a["a"])
    if k == "un":
        return False if a["op"] == "!" else utype(a["a"])
    if k == "tern":
        return utype(a["t"]) or utype(a["e"])
    op = a["op"]
    if op in ("&&", "||", "==", "!=", "<", "<=", ">", ">="):
        return False
    if op in ("<<", ">>"):
        return utype(a["l"])
    return utype(a["l"]) or utype(a["r"])


# ---------------------------------------------------------------------------
# the implementation
# ---------------------------------------------------------------------------
class Impl:
    def __init__(self):
        core.import_codebasin()
        import numpy as np
        from codebasin import platform as platform_mod
        from codebasin import preprocessor as pp

        self.pp, self.np, self.platform_mod = pp, np, platform_mod
        self._plat = {}

    def exc_name(self, e):
        if isinstance(e, self.pp.ParseError):
            return "ParseError"
        return type(e).__name__

    def platform(self, defs):
        key = tuple(defs)
        if key not in self._plat:
            p = self.platform_mod.Platform("p", "/")
            for d in defs:
                m = self.pp.macro_from_definition_string(d)
                p.define(m.name, m)
            self._plat[key] = p
        return self._plat[key]

    def run(self, text, defs, full=False):
        pp = self.pp
        out = {}
        try:
            p = self.platform(defs)
            toks = pp.Lexer(text).tokenize()
            ex = pp.MacroExpander(p).expand(toks)
        except BaseException as e:  # noqa
            # the expander model reports "TypeError" for both TypeError and AttributeError (attribute of None)
            n = self.exc_name(e)
            n = "TypeError" if n == "AttributeError" else n
            return {"stage": "expand", "value": {"exc": n}, "truth": {"exc": n}}
        try:
            ev = pp.ExpressionEvaluator(ex)
            v = ev.expression()
            out["value"] = {"v": str(int(v)), "u": isinstance(v, self.np.uint64), "rest": len(ex) - ev.pos,
                            "np": type(v).__name__}
        except BaseException as e:  # noqa
            out["value"] = {"exc": self.exc_name(e)}
        try:
            out["truth"] = bool(pp.ExpressionEvaluator(ex).evaluate())
        except BaseException as e:  # noqa
            out["truth"] = {"exc": self.exc_name(e)}
        if full:
            # the path the analysis takes: directive parser -> IfNode -> evaluate_for_platform
            try:
                node = pp.DirectiveParser(pp.Lexer("#if " + text).tokenize()).parse()
                out["ifnode"] = bool(node.evaluate_for_platform(platform=p))
            except BaseException as e:  # noqa
                out["ifnode"] = {"exc": self.exc_name(e)}
        return out

    def truth(self, text, defs):
        pp = self.pp
        try:
            p = self.platform(defs)
            ex = pp.MacroExpander(p).expand(pp.Lexer(text).tokenize())
            return bool(pp.ExpressionEvaluator(ex).evaluate())
        except BaseException as e:  # noqa
            return {"exc": self.exc_name(e)}


def c_const(v, u):
    """C spelling of the value v of type (u ? uintmax_t : intmax_t)"""
    if u:
        return f"{v}u"
    if v == -(M // 2):
        return f"(-{IMAX}-1)"
    return f"(-{-v})" if v < 0 else str(v)


# ---------------------------------------------------------------------------
# one case
# ---------------------------------------------------------------------------
def make_case(tree, defs, env, rng=None, ws=0.0, origin=""):
    text = join_tokens(src_tokens(tree, []), rng, ws)
    return {"text": text, "defs": list(defs), "env": sorted(env), "ast": spec_tree(tree), "origin": origin,
            "nops": count_ops(tree)}


def request(case):
    r = {"op": "evalx", "text": case["text"], "defs": case["defs"], "env": case.get("env", [])}
    if case.get("ast") is not None:
        r["ast"] = case["ast"]
    return r


def model_view(m):
    """normalise the driver's model result to the implementation's shape"""
    mm = m["model"]
    if "ok" in mm:
        value = {"v": mm["ok"]["v"], "u": mm["ok"]["u"], "rest": mm["ok"]["rest"]}
        truth = m["truth"]
    else:
        e = mm["exc"]
        value = {"exc": e}
        truth = {"exc": "ParseError" if e == "ValueError" else e}
    return {"value": value, "truth": truth, "stage": mm.get("stage")}


def impl_view(r):
    v = dict(r["value"])
    v.pop("np", None)
    return {"value": v, "truth": r["truth"], "stage": r.get("stage")}


D8 = "D8"


def _is_bin(a):
    return a["k"] == "bin" or (a["k"] == "paren" and a["a"]["k"] == "bin")


def judge(ctx, impl, case, m, r, probe=False):
    """compare implementation / model / spec for one evaluated case"""
    iv, mv = impl_view(r), model_view(m)
    origin = case.get("origin", "")
    has_ast = "spec" in m
    wf = has_ast and m["spec"] is not None and m["grammatical"] and m["consts_ok"]
    key = origin.replace("corpus:", "corpus/") + (":wf" if wf else ":glue" if not has_ast else ":undef")
    if wf and case.get("pair"):
        ctx.extra.setdefault("_pairs", set()).add(tuple(case["pair"]))
    nt = None
    if wf and case.get("nops", 0) >= 2:
        nt = case["text"] + "|" + ",".join(case["defs"])
    ctx.count(key=key, nontrivial_key=nt)
    tv = r["truth"]
    ctx.dist["impl:" + (tv["exc"] if isinstance(tv, dict) else "true" if tv else "false")] += 1
    ctx.sample({k: case[k] for k in ("text", "defs", "origin")})
    rec = {k: case.get(k) for k in ("text", "defs", "env", "ast", "origin")}
    # ---- correspondence: implementation vs model (every input)
    if iv["stage"] == "expand" or mv["stage"] == "expand":
        same = iv["stage"] == mv["stage"] and iv["truth"] == mv["truth"]
    else:
        same = iv["value"] == mv["value"] and iv["truth"] == mv["truth"]
    if not same:
        ctx.corr_break("evalx", rec, iv, mv)
    if "ifnode" in r and r["ifnode"] != r["truth"]:
        ctx.violation(f"IfNode.evaluate_for_platform ({r['ifnode']}) differs from ExpressionEvaluator.evaluate ({r['truth']}) on `{case['text']}`", rec)
    if not has_ast:
        return
    # ---- the generator's tree must be the tokens that were evaluated (else the case says nothing)
    if not m["render_match"]:
        # never skip silently: the theorems would not apply to what was executed
        ctx.dist["render_mismatch"] += 1
        ctx.corr_break("render", rec, "tokens of the text (Lean lexer + expander models)", "EvalBridge.render of the generated tree")
        # The theorems do not apply to what the model executed, but the property still speaks about the implementation:
        # the text is the generator's rendering of the tree, and `gcc -E` is asked to confirm that reading before the
        # implementation is judged against the tree's C value (bounded number of gcc runs).
        if wf and ctx.dist["render_mismatch:gcc_arbiter"] < 60 and not m.get("big_unsuffixed"):
            ctx.dist["render_mismatch:gcc_arbiter"] += 1
            want = int(m["spec"]["v"]) != 0
            res, diag, _ = gcc_truths([(case["defs"], case["text"])])
            if 0 in res and 0 not in diag and res[0] == want and (isinstance(tv, dict) or tv != want):
                got = f"raises {tv['exc']}" if isinstance(tv, dict) else f"evaluates to {tv}"
                ctx.violation(f"`{case['text']}` {('with -D ' + ' '.join(case['defs'])) if case['defs'] else ''}: C value {m['spec']['v']} "
                              f"(truth {want}, confirmed by gcc -E); implementation {got}", rec)
        return
    if not wf:
        return
    if m["escaped_char"]:
        ctx.dist["wf:with_escaped_character_constant"] += 1
    # ---- property oracle: implementation vs C semantics
    sv = m["spec"]
    want_truth = int(sv["v"]) != 0
    classifiers = [
        (D8, lambda c: m["big_unsuffixed"] and isinstance(tv, dict) and tv["exc"] == "OverflowError"),
    ]
    bad = None
    if isinstance(tv, dict):
        bad = f"`{case['text']}` {('with -D ' + ' '.join(case['defs'])) if case['defs'] else ''}: C value {sv['v']}{'u' if sv['u'] else ''} (truth {want_truth}); implementation raises {tv['exc']}"
    elif tv != want_truth:
        bad = f"`{case['text']}` {('with -D ' + ' '.join(case['defs'])) if case['defs'] else ''}: C value {sv['v']}{'u' if sv['u'] else ''} (truth {want_truth}); implementation evaluates to {tv}"
    elif "v" in r["value"] and (r["value"]["v"] != sv["v"] or r["value"]["u"] != sv["u"] or r["value"]["rest"] != 0):
        bad = (f"`{case['text']}`: C value {sv['v']} ({'unsigned' if sv['u'] else 'signed'}); implementation computes "
               f"{r['value']['v']} ({'unsigned' if r['value']['u'] else 'signed'}, {r['value']['rest']} tokens left) — truth agrees, value does not")
    if bad and bad.endswith("truth agrees, value does not"):
        # the value / signedness was read from the evaluator's internal result; confirm the difference through the
        # public truth-valued API before calling it a violation of the property (an internal change of
        # representation that no #if can observe is only a broken correspondence)
        k = c_const(int(sv["v"]), sv["u"])
        t1 = impl.truth(f"({case['text']}) == {k}", case["defs"])
        t3 = impl.truth(f"(({case['text']}) * 0 - 1) < 0", case["defs"])
        if t1 is True and t3 is (not sv["u"]):
            ctx.corr_break("value-representation", rec, r["value"], sv)
            return
        bad += f"; confirmed through #if truth values: `({case['text']}) == {k}` is {t1} (C: True), `(({case['text']}) * 0 - 1) < 0` is {t3} (C: {not sv['u']})"
    if bad:
        ctx.classify(rec, bad, classifiers)
        return
    # ---- values through the public truth-valued API only: (E) == k, and a signedness probe
    if probe and not isinstance(tv, dict):
        k = c_const(int(sv["v"]), sv["u"])
        t1 = impl.truth(f"({case['text']}) == {k}", case["defs"])
        t2 = impl.truth(f"({case['text']}) != {k}", case["defs"])
        # ((E)*0 - 1) < 0  holds iff E is signed
        t3 = impl.truth(f"(({case['text']}) * 0 - 1) < 0", case["defs"])
        ctx.count(key="probe:(E)==k")
        if t1 is not True or t2 is not False:
            ctx.classify(rec, f"`({case['text']}) == {k}` is {t1} and `!= {k}` is {t2}; C: true / false", classifiers)
        elif t3 is not (not sv["u"]):
            ctx.classify(rec, f"`(({case['text']}) * 0 - 1) < 0` is {t3}; C: {not sv['u']} (the expression is {'unsigned' if sv['u'] else 'signed'})", classifiers)


def run_cases(ctx, drv, impl, cases, probe_every=7, full_every=5, cross_every=4):
    cases = list(cases)
    CH = 4000
    for i in range(0, len(cases), CH):
        chunk = cases[i:i + CH]
        ms = drv.batch([request(c) for c in chunk]) if drv is not None else [None] * len(chunk)
        if drv is not None and cross_every:
            # the design-phase evaluator port PP.evaluate (op `eval`, used by the end-to-end models of other
            # properties) must agree with the proved evaluator on truth value / failure
            sub = chunk[::cross_every]
            olds = drv.batch([{"op": "eval", "text": c["text"], "defs": c["defs"]} for c in sub])
            for c, o, m in zip(sub, olds, ms[::cross_every]):
                a = o.get("ok") if isinstance(o, dict) and "ok" in o else "exc"
                b = m["truth"] if m["truth"] is not None else "exc"
                ctx.dist["cross:PP.evaluate"] += 1
                if a != b and len(ctx.notes) < 20:
                    ctx.notes.append(f"PP.evaluate differs from Eval.cbiEval on `{c['text']}` defs={c['defs']}: {o} vs {m['model']}")
        for j, (c, m) in enumerate(zip(chunk, ms)):
            r = impl.run(c["text"], c["defs"], full=(j % full_every == 0))
            if m is None:
                ctx.count(key="no-model")
                continue
            judge(ctx, impl, c, m, r, probe=(j % probe_every == 0))


# ---------------------------------------------------------------------------
# generators
# ---------------------------------------------------------------------------
def boundary_literals():
    """the boundary literal set of the design, as (label, tree)"""
    U = ("u", "", True)
    return [
        ("0", mk_lit(0)), ("1", mk_lit(1)), ("2", mk_lit(2)), ("-1", par(un("-", mk_lit(1)))), ("7", mk_lit(7)),
        ("IMAX", mk_lit(IMAX)), ("IMIN", par(bin_("-", un("-", mk_lit(IMAX)), mk_lit(1)))),
        ("0u", mk_lit(0, "oct", U)), ("1u", mk_lit(1, "dec", U)), ("UMAX", mk_lit(UMAX, "dec", U)),
        ("010", mk_lit(8, "oct")), ("0x10", mk_lit(16, "hex")), ("0b11", mk_lit(3, "bin")),
        ("'a'", mk_chr("plain", "a")), ("'\\0'", mk_chr("octal", [0])),
        ("63", mk_lit(63)), ("64", mk_lit(64)),
    ]


def core_literals():
    """the sub-set used for the 2-operator enumeration"""
    b = dict(boundary_literals())
    return [b[k] for k in ("0", "1", "2", "-1", "IMAX", "IMIN", "1u", "UMAX")]


def bare(a):
    """compound boundary values are used without their own parentheses where the shape adds them"""
    return a


def two_op_shapes(op1, op2, a, b, c):
    """`a op1 b op2 c` parsed by the C grammar, and both explicit groupings"""
    p1, p2 = C_PREC[op1], C_PREC[op2]
    natural = bin_(op2, bin_(op1, a, b), c) if p1 >= p2 else bin_(op1, a, bin_(op2, b, c))
    return [("flat", natural), ("L", bin_(op2, par(bin_(op1, a, b)), c)), ("R", bin_(op1, a, par(bin_(op2, b, c))))]


def exhaustive_small(ctx, full):
    """every expression with <= 2 operators over the boundary literal set (full) or a seeded sample
    of the literal triples for every ordered operator pair (quick)"""
    rng = ctx.rng
    B = [t for _, t in boundary_literals()]
    C = core_literals()
    out = []
    # 0 and 1 operator: complete over the boundary set in both tiers
    for a in B:
        out.append((a, "lit"))
        for u in UNOPS:
            out.append((un(u, a), "un"))
    for op in BINOPS:
        for a in B:
            for b in B:
                out.append((bin_(op, a, b), "bin1"))
    tern_pool = C if not full else B
    for a in tern_pool:
        for b in C:
            for c in C:
                out.append((tern(a, b, c), "tern1"))
    # 2 operators: every ordered pair of binary operators x {flat, (..)op, op(..)}
    triples = list(itertools.product(C, repeat=3))
    per_pair = len(triples) if full else max(4, int(9 * ctx.budget_scale))
    for op1 in BINOPS:
        for op2 in BINOPS:
            # three fixed small triples keep every ordered pair represented by a well-defined instance
            ts = triples if full else [(C[2], C[1], C[2]), (C[1], C[2], C[1]), (C[1], C[1], C[2])] + rng.sample(triples, per_pair)
            for (a, b, c) in ts:
                for name, t in two_op_shapes(op1, op2, a, b, c):
                    out.append((t, "bin2" + name + " " + op1 + " " + op2))
    # unary with binary, unary with unary, ternary with binary / ternary
    pairs = list(itertools.product(C, repeat=2))
    for u in UNOPS:
        for op in BINOPS:
            ps = pairs if full else rng.sample(pairs, 6)
            for a, b in ps:
                out.append((bin_(op, un(u, a), b), "un-bin"))
                out.append((bin_(op, a, un(u, b)), "bin-un"))
                out.append((un(u, par(bin_(op, a, b))), "un(bin)"))
        for u2 in UNOPS:
            for a in C:
                out.append((un(u, un(u2, a)), "un-un"))
    quads = list(itertools.product(C, repeat=4))
    for op in BINOPS:
        qs = rng.sample(quads, 200 if full else 10)
        for a, b, c, d in qs:
            out.append((tern(bin_(op, a, b), c, d), "bin?:"))          # a op b ? c : d
            out.append((tern(a, b, bin_(op, c, d)), "?:bin"))          # a ? b : c op d  (op binds tighter)
            out.append((tern(a, bin_(op, b, c), d), "?bin:"))
            out.append((bin_(op, a, par(tern(b, c, d))), "bin(?:)"))
    quints = list(itertools.product(C[:6], repeat=5))
    for a, b, c, d, e in rng.sample(quints, 2000 if full else 150):
        out.append((tern(a, b, tern(c, d, e)), "?:?:"))                # right associative
        out.append((tern(a, tern(b, c, d), e), "?(?:):"))
        out.append((tern(par(tern(a, b, c)), d, e), "(?:)?:"))
    return out


def all_literal_spellings(ctx, full):
    """integer constants in every base x every suffix spelling x boundary values, character constants"""
    rng = ctx.rng
    out = []
    values = [0, 1, 7, 8, 9, 10, 15, 16, 63, 64, 255, 256, 0x7FFFFFFF, 0x80000000, 0xFFFFFFFF, IMAX - 1, IMAX, IMAX + 1,
              UMAX - 1, UMAX, UMAX + 1, 10 ** 37, 12345678901234567, 0xDEADBEEFCAFE]
    for base in RADIX:
        for suf in SUFFIXES:
            for n in values:
                pad = rng.choice([0, 0, 1, 3]) if base != "dec" else 0
                out.append((mk_lit(n, base, suf, pu=rng.random() < 0.5, upper=rng.random() < 0.5, pad=pad), "literal"))
    if full:
        for _ in range(4000):
            n = rng.choice([rng.getrandbits(rng.randint(1, 66)), rng.choice(values)])
            out.append((mk_lit(n, rng.choice(list(RADIX)), rng.choice(SUFFIXES), rng.random() < 0.5, rng.random() < 0.5,
                               rng.choice([0, 0, 2])), "literal"))
    for code in range(32, 127):
        ch = chr(code)
        if ch not in "'\\":
            out.append((mk_chr("plain", ch), "char"))
    for e in SIMPLE_ESC:
        out.append((mk_chr("simple", e), "char-esc"))
    # every octal escape \o, \oo, \ooo (those above \377 have no C value: model vs implementation only)
    for n in (1, 2, 3):
        for ds in itertools.product(range(8), repeat=n):
            out.append((mk_chr("octal", ds), "char-esc"))
    # every hex escape with one or two digits in both letter cases, leading zeros, and codes above 255
    for v in range(256):
        hi, lo = divmod(v, 16)
        for up in (False, True):
            if up and hi < 10 and lo < 10:
                continue
            out.append((mk_chr("hex", [(hi, up), (lo, up)]), "char-esc"))
            if hi == 0:
                out.append((mk_chr("hex", [(lo, up)]), "char-esc"))
        if rng.random() < (1.0 if full else 0.2):
            out.append((mk_chr("hex", [(0, False)] * rng.randint(1, 6) + [(hi, rng.random() < 0.5), (lo, rng.random() < 0.5)]), "char-esc"))
    for ds in ([(1, False), (0, False), (0, False)], [(15, False), (15, True), (15, False)], [(1, False), (0, False), (0, False), (0, False), (0, False)],
               [(0, False), (1, False), (0, False), (0, False)]):
        out.append((mk_chr("hex", ds), "char-esc"))
    # a constant inside a comparison with its own value spelled in decimal (value observed through truth only)
    more = []
    for t, o in out:
        if t["k"] == "lit":
            inf = lit_info(t)
            if inf and rng.random() < (1.0 if full else 0.25):
                more.append((bin_("==", t, mk_lit(inf[0], "dec", ("u", "", True) if inf[1] else ("", "", False))), "literal=="))
        elif o == "char-esc" and rng.random() < (1.0 if full else 0.25):
            try:
                v = twin(t, set())[0]
            except UB:
                continue
            k = par(un("-", mk_lit(-v))) if v < 0 else mk_lit(v)
            more.append((bin_("==", t, k), "char-esc=="))
            if rng.random() < 0.3:     # signed char: promoted to a negative intmax_t, not to a large unsigned value
                more.append((bin_("<", t, mk_lit(128)), "char-esc<"))
                more.append((bin_("+", t, mk_lit(1, "dec", ("u", "", True))), "char-esc+u"))
    return out + more


MACROS = {  # name -> (definition string, replacement tree)
    "A": ("A=3", mk_lit(3)),
    "B": ("B", mk_lit(1)),                      # -DB means 1
    "Z": ("Z=0", mk_lit(0)),
    "N": ("N=(-5)", par(un("-", mk_lit(5)))),
    "U": ("U=4u", mk_lit(4, "dec", ("u", "", True))),
    "X": ("X=(1+2)", par(bin_("+", mk_lit(1), mk_lit(2)))),
    "H": ("H=0x7fffffffffffffff", mk_lit(IMAX, "hex")),
    "NL": ("NL='\\n'", mk_chr("simple", "n")),
    "E": ("E='\\377'", mk_chr("octal", [3, 7, 7])),
}
UNKNOWN = ["UNDEF", "foo_bar", "_x9", "defined_", "true", "__STDC__x"]


def random_escaped_char(rng):
    """a character constant written with an escape sequence, all three kinds; mostly with a C value (code <= 255)"""
    k = rng.random()
    if k < 0.3:
        return mk_chr("simple", rng.choice(list(SIMPLE_ESC)))
    code = rng.choice([0, 1, 7, 8, 10, 63, 64, 65, 127, 128, 129, 200, 254, 255, rng.randrange(256), rng.randrange(256)])
    if k < 0.65:
        ds = [int(c) for c in oct(code)[2:]]
        ds = [0] * rng.randint(0, 3 - len(ds)) + ds
        if rng.random() < 0.04:
            ds = [rng.randint(4, 7), rng.randint(0, 7), rng.randint(0, 7)]        # above \\377: no C value
        return mk_chr("octal", ds)
    ds = [(int(c, 16), rng.random() < 0.5) for c in hex(code)[2:]]
    ds = [(0, False)] * rng.choice([0, 0, 1, 2, 5]) + ds
    if rng.random() < 0.04:
        ds = [(1, False)] + ds[-2:] if len(ds) >= 2 else [(1, False), (0, False)] + ds      # above 255: no C value
    return mk_chr("hex", ds)


def random_leaf(rng, defs_on):
    r = rng.random()
    if r < 0.45:
        n = rng.choice([0, 1, 2, 3, 5, 7, 8, 31, 63, 64, 100, 255, 65535, IMAX, IMAX - 1, rng.getrandbits(rng.randint(1, 62))])
        return mk_lit(n, rng.choice(["dec", "dec", "dec", "oct", "hex", "bin"]), rng.choice(SUFFIXES) if rng.random() < 0.4 else ("", "", False),
                      rng.random() < 0.3, rng.random() < 0.3, rng.choice([0, 0, 0, 1]))
    if r < 0.55:
        n = rng.choice([0, 1, UMAX, UMAX - 1, IMAX + 1, rng.getrandbits(64)])
        return mk_lit(n, rng.choice(["dec", "hex", "oct"]), rng.choice([s for s in SUFFIXES if s[0]]), False, rng.random() < 0.5)
    if r < 0.60:
        return mk_chr("plain", rng.choice("aZ09 ~!@#(){}+-*/\"?x"))
    if r < 0.64:
        return random_escaped_char(rng)
    if r < 0.74:
        return defd(rng.choice(list(MACROS) + UNKNOWN[:2]), rng.random() < 0.5)
    if r < 0.84 and defs_on:
        n = rng.choice(defs_on)
        return macro(n, MACROS[n][1])
    if r < 0.86:
        return mk_lit(rng.choice([IMAX + 1, UMAX, rng.getrandbits(64) | (1 << 63)]), rng.choice(["hex", "oct", "bin"]))   # D8 class
    return ident(rng.choice(UNKNOWN + [m for m in MACROS if m not in defs_on]))


def random_tree(rng, size, defs_on, env):
    """semantic tree with about `size` operators, steered towards defined behaviour"""
    if size <= 0:
        return random_leaf(rng, defs_on)
    for _attempt in range(6):
        r = rng.random()
        if r < 0.14:
            t = un(rng.choice(UNOPS), random_tree(rng, size - 1, defs_on, env))
        elif r < 0.24:
            s = size - 1
            a = rng.randint(0, s)
            b = rng.randint(0, s - a)
            t = tern(random_tree(rng, a, defs_on, env), random_tree(rng, b, defs_on, env), random_tree(rng, s - a - b, defs_on, env))
        else:
            s = size - 1
            a = rng.randint(0, s)
            op = rng.choice(BINOPS)
            l = random_tree(rng, a, defs_on, env)
            rr = random_tree(rng, s - a, defs_on, env)
            if op in ("<<", ">>") and rng.random() < 0.8:
                rr = mk_lit(rng.choice([0, 1, 2, 7, 31, 32, 62, 63]))
            t = bin_(op, l, rr)
        try:
            twin(t, env)
            return t
        except UB:
            if rng.random() < 0.12:
                return t          # keep some undefined ones (model-vs-implementation only)
    return random_leaf(rng, defs_on)


def random_cases(ctx, n, origin="random"):
    rng = ctx.rng
    out = []
    for _ in range(n):
        defs_on = [m for m in MACROS if rng.random() < 0.5]
        env = set(defs_on)
        size = rng.choice([1, 2, 2, 3, 3, 4, 5, 6, 8, 10, 12])
        t = random_tree(rng, size, defs_on, env)
        t = parenthesize(t, rng, extra=rng.choice([0.0, 0.0, 0.15, 0.4]))
        out.append(make_case(t, [MACROS[m][0] for m in defs_on], env, rng, ws=rng.choice([0.0, 0.5, 1.0]), origin=origin))
    return out


# ---------------------------------------------------------------------------
# text level: random ADMISSIBLE LAYOUTS of the source tokens (Props/C02Text.lean)
# ---------------------------------------------------------------------------
WS_RUNS = [" ", " ", " ", "  ", "\t", " \t", "\t ", "   ", "\t\t", " \t "]
TOKEN_KIND = {"NumericalConstant": "num", "CharacterConstant": "chr", "StringConstant": "str", "Identifier": "ident",
              "Operator": "op", "Punctuator": "punct", "Unknown": "unknown"}


def idents_of(a, acc):
    k = a["k"]
    if k == "ident":
        acc.add(a["n"])
    for f in ("a", "l", "r", "c", "t", "e", "body"):
        if isinstance(a.get(f), dict):
            idents_of(a[f], acc)
    return acc


def layout_trees(ctx, n):
    """parse trees whose source tokens are their own tokens (no macro leaf; `defined`, unknown identifiers, every constant kind)"""
    rng = ctx.rng
    out = []
    for _ in range(n):
        defs_on = [m for m in MACROS if rng.random() < 0.3]
        env = set(defs_on)
        size = rng.choice([1, 2, 2, 3, 3, 4, 5, 6, 8])
        for _try in range(20):
            t = random_tree(rng, size, [], env)
            if rng.random() < 0.06:
                # a pair the code's lexer keeps apart but ISO C joins: `a - -b`, `a + +b`
                o = rng.choice("+-")
                t = bin_(o, random_tree(rng, size // 2, [], env), un(o, random_tree(rng, size // 2, [], env)))
            if not (idents_of(t, set()) & env):
                break
        else:
            continue
        t = parenthesize(t, rng, extra=rng.choice([0.0, 0.0, 0.2]))
        out.append((t, defs_on, env))
    return out


def choose_gaps(rng, sep, cglue, c_faithful):
    """one white-space run per token; an empty run only where the Lean predicate `separable` allows it (and, for the
    property oracle, where ISO C would not join the two tokens either: `cGlue`)"""
    p_tight = rng.choice([0.3, 0.6, 0.9, 1.0])
    gaps = []
    forced = None
    if not c_faithful:
        cand = [i for i, (s_, g_) in enumerate(zip(sep, cglue)) if s_ and g_]
        forced = rng.choice(cand) if cand else None
    for i, (s_, g_) in enumerate(zip(sep, cglue)):
        may = s_ and (not g_ or not c_faithful)
        if i == forced or (may and rng.random() < p_tight):
            gaps.append("")
        else:
            gaps.append(rng.choice(WS_RUNS))
    gaps.append(rng.choice(["", "", " ", "\t", "  "]))          # trailing
    lead = rng.choice(["", "", " ", "\t", " \t"])
    return lead, gaps


def layout_cases(ctx, drv, impl, n, origin="layout"):
    """generated expressions written in random admissible layouts (tabs, several blanks, NO blank between separable
    tokens); the layout, its text and the tokens the lexer must return are computed by the Lean definitions the theorems
    `lexer_reads_layout` / `text_main_partial` are about (driver ops `layoutsep`, `layoutx`)"""
    if drv is None:
        return []
    rng = ctx.rng
    trees = layout_trees(ctx, n)
    asts = [spec_tree(t) for t, _, _ in trees]
    seps = drv.batch([{"op": "layoutsep", "ast": a} for a in asts])
    reqs, meta = [], []
    for (t, defs_on, env), a, sp in zip(trees, asts, seps):
        want = src_tokens(t, [])
        if sp["toks"] != want:
            ctx.corr_break("layout-source-tokens", {"ast": a}, want, sp["toks"])
            continue
        modes = [True, True] if rng.random() < 0.8 else [True, False]
        for c_faithful in modes:
            if not c_faithful and not any(s_ and g_ for s_, g_ in zip(sp["sep"], sp["cglue"])):
                continue
            lead, gaps = choose_gaps(rng, sp["sep"], sp["cglue"], c_faithful)
            reqs.append({"op": "layoutx", "ast": a, "lead": lead, "gaps": gaps})
            meta.append((t, defs_on, env, a, c_faithful, lead, gaps, sp))
    outs = drv.batch(reqs)
    cases = []
    for (t, defs_on, env, a, c_faithful, lead, gaps, sp), o in zip(meta, outs):
        text = o["text"]
        rec = {"text": text, "defs": [MACROS[m][0] for m in defs_on], "env": sorted(env), "ast": a, "origin": origin,
               "lead": lead, "gaps": gaps}
        ctx.dist["layout:texts"] += 1
        ctx.dist["layout:gaps_written_empty"] += sum(1 for g in gaps[:-1] if g == "")
        ctx.dist["layout:gaps_with_tab"] += sum(1 for g in gaps if "\t" in g)
        if "".join(text.split()) == text and len(sp["toks"]) > 1:
            ctx.dist["layout:texts_without_any_white_space"] += 1
        if not o["admissible"] or o["c_admissible"] != c_faithful or text != lead + "".join(x + g for x, g in zip(sp["toks"], gaps)):
            # the generator misread `separable` / `cGlue`: an error of the harness, never of the code
            ctx.notes.append(f"layout generator: admissible={o['admissible']} c_admissible={o['c_admissible']} (wanted {c_faithful}) for {text!r}")
            continue
        if o["lexok_all"] and not o["lex_match"]:
            # an instance of the theorem `lexer_reads_layout` evaluated to false: the executed model is not the proved one
            ctx.corr_break("layout-theorem-instance", rec, "PP.tokenize text", "LexLayout.flagged")
        # ---- the real Lexer must return the tokens the theorem predicts, `prev_white` included
        try:
            real = [[TOKEN_KIND.get(type(k).__name__, type(k).__name__), k.token, bool(k.prev_white)] for k in impl.pp.Lexer(text).tokenize()]
        except BaseException as e:  # noqa
            real = {"exc": impl.exc_name(e)}
        ctx.dist["layout:lexer_tokens_and_prev_white_compared"] += 1
        if real != o["flagged"]:
            ctx.corr_break("layout-lexer", rec, real, o["flagged"])
        case = {"text": text, "defs": rec["defs"], "env": rec["env"], "origin": origin if c_faithful else origin + "-lexer-only",
                "nops": count_ops(t), "lead": lead, "gaps": gaps}
        if c_faithful:
            case["ast"] = a          # the property oracle applies: ISO C reads the text as these tokens too
            if o["no_defined"] and o["lexok_all"]:
                ctx.dist["layout:inside_text_main_partial_lexical_hypotheses"] += 1
        cases.append(case)
    return cases


# ---------------------------------------------------------------------------
# `defined` in any position + object-like macros (Props/C02Defined.lean): trees with many `defined` leaves whose operands
# are macro names, macro leaves incl. chains / self- / mutually recursive definitions, in random admissible layouts; the
# driver (op `condfrag`) decides every hypothesis of `cond_defined_partial` / `cond_objmacro_partial` with the Lean
# definitions and evaluates the instance of the theorem; the share of cases inside the proved fragment is measured
# ---------------------------------------------------------------------------
COND_EXTRA = {  # name -> (definition string, lambda defs_on: replacement tree after FULL expansion)
    "C": ("C=A", lambda on: MACROS["A"][1] if "A" in on else ident("A")),                 # chain
    "S": ("S=S", lambda on: ident("S")),                                                    # self-reference: painted, value 0
    "R1": ("R1=R2", lambda on: ident("R1") if "R2" in on else ident("R2")),                # mutual recursion
    "R2": ("R2=R1", lambda on: ident("R2") if "R1" in on else ident("R1")),
    "P": ("P=(C+1)", lambda on: par(bin_("+", MACROS["A"][1] if ("C" in on and "A" in on) else ident("A") if "C" in on else ident("C"), mk_lit(1)))),
}
COND_FUNLIKE = ["F(x)=x", "G()=1"]


def cond_pool(on):
    """name -> (definition, full-expansion tree) for the macros switched on"""
    out = {m: MACROS[m] for m in on if m in MACROS}
    for m in on:
        if m in COND_EXTRA:
            out[m] = (COND_EXTRA[m][0], COND_EXTRA[m][1](on))
    return out


def src_tree(a):
    """the SOURCE parse tree (what `renderSrc` renders): a macro leaf is the identifier leaf of its name"""
    k = a["k"]
    if k == "macro":
        return ident(a["n"])
    out = dict(a)
    for f in ("a", "l", "r", "c", "t", "e"):
        if isinstance(a.get(f), dict):
            out[f] = src_tree(a[f])
    return out


def macro_leaves(a, acc):
    if a["k"] == "macro":
        acc[a["n"]] = spec_tree(a["body"])
        return acc
    for f in ("a", "l", "r", "c", "t", "e"):
        if isinstance(a.get(f), dict):
            macro_leaves(a[f], acc)
    return acc


def sprinkle_defined(a, rng, names, p):
    """replace leaves by `defined X` / `defined(X)` with probability p"""
    k = a["k"]
    if k in ("lit", "chr", "ident", "macro", "defd"):
        if rng.random() < p:
            return defd(rng.choice(names), rng.random() < 0.5)
        if k == "lit" and not a["suf"][0] and (lit_info(a) or (0, False))[0] > IMAX and rng.random() < 0.85:
            return mk_lit(rng.choice([0, 1, 2, 7]))           # most D8 constants (recorded finding, outside the theorem) are replaced
        return a
    out = dict(a)
    for f in ("a", "l", "r", "c", "t", "e"):
        if isinstance(a.get(f), dict):
            out[f] = sprinkle_defined(a[f], rng, names, p)
    return out


def conddef_trees(ctx, n):
    rng = ctx.rng
    names = list(MACROS) + list(COND_EXTRA)
    out = []
    for _ in range(n):
        on = [m for m in names if rng.random() < 0.45]
        pool = cond_pool(on)
        env = set(on)
        funlike = [d for d in COND_FUNLIKE if rng.random() < 0.06]
        size = rng.choice([1, 2, 2, 3, 3, 4, 5, 6, 8])
        t = None
        for _try in range(8):
            t0 = random_tree(rng, size, [], env)
            # macro leaves: replace identifier leaves that name a macro of the pool (random_tree only makes leaves of MACROS)
            def put_macros(a):
                k = a["k"]
                if k == "ident" and a["n"] in pool:
                    return macro(a["n"], pool[a["n"]][1])       # an identifier that names a macro IS a macro leaf
                if k == "ident" and pool and rng.random() < 0.6:
                    m = rng.choice(sorted(pool))
                    return macro(m, pool[m][1])
                if k in ("lit", "chr") and pool and rng.random() < 0.2:
                    m = rng.choice(sorted(pool))
                    return macro(m, pool[m][1])
                o = dict(a)
                for f in ("a", "l", "r", "c", "t", "e"):
                    if isinstance(a.get(f), dict):
                        o[f] = put_macros(a[f])
                return o
            t1 = put_macros(t0)
            t1 = sprinkle_defined(t1, rng, names + UNKNOWN[:3] + ["defined_", "F"], rng.choice([0.15, 0.3, 0.5, 0.8]))
            try:
                twin(t1, env)
                t = t1
                break
            except UB:
                if rng.random() < 0.05:
                    t = t1
                    break
        if t is None:
            continue
        t = parenthesize(t, rng, extra=rng.choice([0.0, 0.0, 0.2]))
        defs = [pool[m][0] for m in on] + funlike
        rng.shuffle(defs)
        out.append((t, defs, env | {d.split("(")[0] for d in funlike}))
    return out


def _same_outcome(model_cond, impl_truth):
    if isinstance(model_cond, dict) or isinstance(impl_truth, dict):
        if not (isinstance(model_cond, dict) and isinstance(impl_truth, dict)):
            return False
        norm = lambda e: "TypeError" if e == "AttributeError" else e
        return norm(model_cond["exc"]) == norm(impl_truth["exc"])
    return model_cond == impl_truth


def conddef_cases(ctx, drv, impl, n, origin="conddef"):
    if drv is None:
        return []
    rng = ctx.rng
    trees = conddef_trees(ctx, n)
    srcs = [src_tree(t) for t, _, _ in trees]
    seps = drv.batch([{"op": "layoutsep", "ast": a} for a in srcs])
    reqs, meta = [], []
    for (t, defs, env), a, sp in zip(trees, srcs, seps):
        if sp["toks"] != src_tokens(t, []):
            ctx.corr_break("conddef-source-tokens", {"ast": a}, src_tokens(t, []), sp["toks"])
            continue
        lead, gaps = choose_gaps(rng, sp["sep"], sp["cglue"], True)
        sub = [[k, v] for k, v in sorted(macro_leaves(t, {}).items())]
        reqs.append({"op": "condfrag", "ast": a, "sub": sub, "defs": defs, "lead": lead, "gaps": gaps})
        meta.append((t, defs, env, a, sub, lead, gaps))
    outs = drv.batch(reqs)
    cases = []
    share = ctx.extra.setdefault("conddef_fragment_share", {"cases": 0, "inside_cond_objmacro_partial": 0, "inside_cond_defined_partial": 0,
                                                            "with_defined": 0, "with_defined_of_a_macro_name": 0, "with_macro_leaf": 0,
                                                            "outside_because": {}})
    for (t, defs, env, a, sub, lead, gaps), o in zip(meta, outs):
        rec = {"text": o.get("text"), "defs": defs, "env": sorted(env), "ast": spec_tree(t), "origin": origin, "lead": lead, "gaps": gaps,
               "src_ast": a, "sub": sub}
        if not o.get("table_ok"):
            ctx.notes.append(f"conddef: definitions rejected by the model: {defs} ({o.get('exc')})")
            continue
        share["cases"] += 1
        ctx.dist["conddef:cases"] += 1
        if o["n_defined"]:
            share["with_defined"] += 1
        if any(x in env for x in _defined_operands(t, [])):
            share["with_defined_of_a_macro_name"] += 1
        if o["n_macro_leaves"]:
            share["with_macro_leaf"] += 1
        inside = o["in_objmacro"] or o["in_defined"]
        if o["in_objmacro"]:
            share["inside_cond_objmacro_partial"] += 1
            ctx.dist["conddef:inside_cond_objmacro_partial"] += 1
        if o["in_defined"]:
            share["inside_cond_defined_partial"] += 1
            ctx.dist["conddef:inside_cond_defined_partial"] += 1
            if not o["obj_ok"]:
                share["inside_cond_defined_partial_with_function_like_table"] = share.get("inside_cond_defined_partial_with_function_like_table", 0) + 1
        if inside:
            share["inside_either"] = share.get("inside_either", 0) + 1
            ctx.dist["conddef:inside_proved_fragment"] += 1
        else:
            why = ("macro leaf under a table that is not object-like" if not o["obj_ok"] else "D8 constant" if o["big_unsuffixed"] else
                   "no C value (undefined behaviour / illegal constant)" if o["spec"] is None or not o["consts_ok"] else
                   "substituted tree not grammatical" if not o["grammatical"] else
                   "identifier leaf outside (macro without tree / `defined` as identifier)" if not o["leaves_ok"] else
                   "not lexable" if not o["lexable"] else "layout" if not o["admissible"] else "other")
            share["outside_because"][why] = share["outside_because"].get(why, 0) + 1
        if not o["instance_ok"]:
            # an instance of `cond_objmacro_partial` evaluated to false: the executed model is not the proved one
            ctx.corr_break("conddef-theorem-instance", rec, o["cond"], o["spec"])
        if not o["admissible"] or not o["c_admissible"]:
            ctx.notes.append(f"conddef layout generator: admissible={o['admissible']} c_admissible={o['c_admissible']} for {o['text']!r}")
            continue
        # ---- model (PP.condValue on the Lean lexer's tokens) vs implementation, every case
        it = impl.truth(o["text"], defs)
        ctx.dist["conddef:condValue_vs_implementation"] += 1
        if not _same_outcome(o["cond"], it):
            ctx.corr_break("condfrag", rec, it, o["cond"])
        # ---- inside the proved fragment the theorem gives the C truth value: the implementation is judged against it here
        #      (and once more, like every case, by the evalx path below)
        if inside:
            want = int(o["spec"]["v"]) != 0
            if it != want:
                got = f"raises {it['exc']}" if isinstance(it, dict) else f"evaluates to {it}"
                ctx.classify({k: rec[k] for k in ("text", "defs", "env", "ast", "origin", "lead", "gaps", "src_ast", "sub")},
                             f"`{o['text']}` {('with -D ' + ' '.join(defs)) if defs else ''}: C value {o['spec']['v']} (truth {want}; `defined` decided "
                             f"from the table, object-like macros replaced); implementation {got}", [])
                continue
        cases.append({"text": o["text"], "defs": defs, "env": sorted(env), "ast": spec_tree(t), "origin": origin, "nops": count_ops(t),
                      "lead": lead, "gaps": gaps})
    return cases


def _defined_operands(a, acc):
    if a["k"] == "defd":
        acc.append(a["n"])
    for f in ("a", "l", "r", "c", "t", "e", "body"):
        if isinstance(a.get(f), dict):
            _defined_operands(a[f], acc)
    return acc



GLUE_ATOMS = ["0", "1", "2", "08", "1.5", "0x", "1uu", "1lul", "0b2", "1e+3", "0x1e+2", "'a'", "'\\n'", "''", "'\\101'", "'\\x41'", "'\\377'", "'\\xFf'", "'\\400'", "'\\x100'", "'\\x'", "'\\q'", "'\\8'", "'\\1234'", "'\\18'",
              "'\\xg'", "'\\'", "'\\\\'", "'\\''", "'ab'", "'\\0", "\"s\"", "\"+\"", "A", "F", "G",
              "defined", "defined(A)", "defined A", "defined(", "defined()", "defined(1)", "f(1)", "f()", "f(1,2)", "f(1,)", "f((2))", "f(A,'a')",
              "f(1 2)", "f(08)", "f(0xFFFFFFFFFFFFFFFF)", "f(g(1),2)", "0xFFFFFFFFFFFFFFFF", "18446744073709551616u", "9223372036854775808",
              "(", ")", "+", "-", "*", "/", "?", ":", "&&", "||", "==", "<", "<<", "~", "!", ",", "#", "=", "@", "$", "(1", "1)", "()"]


def glue_cases(ctx, n):
    """malformed or CBI-specific inputs (residual calls, invalid constants, token soups): model vs implementation only"""
    rng = ctx.rng
    out = []
    for a in GLUE_ATOMS:
        out.append({"text": a, "defs": [], "origin": "glue"})
    for _ in range(n):
        k = rng.randint(1, 6)
        toks = [rng.choice(GLUE_ATOMS) for _ in range(k)]
        defs = [d for d in ["A=3", "B", "F(x)=x*2", "G=(1"] if rng.random() < 0.4]
        out.append({"text": " ".join(toks), "defs": defs, "origin": "glue"})
    # well-formed expressions damaged by one token edit
    for c in random_cases(ctx, n // 2, origin="glue"):
        toks = c["text"].split()
        if not toks:
            continue
        r = rng.random()
        if r < 0.5:
            toks.pop(rng.randrange(len(toks)))
        else:
            toks.insert(rng.randrange(len(toks) + 1), rng.choice(["(", ")", "+", "?", ":", "\"s\"", ",", "1", "A", "&&", "#", "@"]))
        out.append({"text": " ".join(toks), "defs": c["defs"], "origin": "glue"})
    return out


# ---------------------------------------------------------------------------
# `#elif` of a chain that has already selected a branch is not evaluated
# ---------------------------------------------------------------------------
BAD_EXPRS = ["1 +", "(", ")", "1 1 +", "'\\n'", "'\\q'", "'\\400'", "'\\x'", "0xFFFFFFFFFFFFFFFF", "99999999999999999999999", "08", "\"s\"", "? :", "defined", "defined(",
             "1 / 0", "f(", "@", "", "1 ? 2", "0x", "-", "'ab'", "1 << 64", "A B"]


def elif_programs(ctx, n):
    rng = ctx.rng
    progs = []
    firsts = [("#if 1", []), ("#if 2 > 1", []), ("#ifdef T", ["T"]), ("#ifndef NOPE", []), ("#if defined(T) && T == 5", ["T=5"]), ("#if T", ["T=7"])]
    for bad in BAD_EXPRS:
        for head, defs in firsts[: (len(firsts) if ctx.thorough() else 3)]:
            lines = [head, "int first;", f"#elif {bad}", "int second;"]
            if rng.random() < 0.5:
                lines += [f"#elif {rng.choice(BAD_EXPRS)}", "int third;"]
            if rng.random() < 0.5:
                lines += ["#else", "int other;"]
            lines += ["#endif", "int after;"]
            want = {"int first;": True, "int second;": False, "int third;": False, "int other;": False, "int after;": True}
            progs.append(("\n".join(lines) + "\n", defs, want))
    for _ in range(n):
        bad = rng.choice(BAD_EXPRS)
        # taken branch later in the chain, bad #elif after it; nested inside a taken group
        lines = ["#if 0", "int zero;", "#elif 1", "int first;", f"#elif {bad}", "int second;", "#else", "int other;", "#endif", "int after;"]
        want = {"int zero;": False, "int first;": True, "int second;": False, "int other;": False, "int after;": True}
        if rng.random() < 0.5:
            lines = ["#if 1", "int outer;"] + lines + ["#elif " + rng.choice(BAD_EXPRS), "int second;", "#endif"]
            want["int outer;"] = True
        progs.append(("\n".join(lines) + "\n", [], want))
    return progs


def run_elif(ctx, drv, progs):
    import os

    from codebasin import CodeBase, finder
    from codebasin import preprocessor as pp

    KIND = {"CodeNode": "code", "IfNode": "ifk", "ElIfNode": "elifk", "ElseNode": "elsek", "EndIfNode": "endk", "DefineNode": "define",
            "UndefNode": "undef", "IncludeNode": "include", "PragmaNode": "pragma", "UnrecognizedDirectiveNode": "unrecognized"}
    with core.Scratch() as d:
        root = str(d)
        for i, (text, defs, want) in enumerate(progs):
            path = os.path.join(root, f"e{i}.c")
            with open(path, "w") as f:
                f.write(text)
            case = {"program": text, "defs": defs, "origin": "elif"}
            rows = None
            try:
                st = finder.find(root, CodeBase(root), {"P": [{"file": path, "defines": defs, "include_paths": [], "include_files": []}]},
                                 summarize_only=False)
                tree, amap = st.get_tree(path), st.get_map(path)
                lines = text.split("\n")
                got = {}
                rows = []
                for nd in tree.walk():
                    if isinstance(nd, pp.CodeNode):
                        rows.append([KIND.get(type(nd).__name__, type(nd).__name__), list(nd.lines), bool(amap[nd])])
                        if type(nd).__name__ == "CodeNode":
                            for ln in nd.lines:
                                got[lines[ln - 1].strip()] = bool(amap[nd])
                res = {"ok": got}
            except BaseException as e:  # noqa
                res = {"exc": type(e).__name__}
            finally:
                os.remove(path)
            ctx.count(key="elif-program", nontrivial_key="elif|" + text + "|" + ",".join(defs))
            ctx.sample(case)
            if "exc" in res:
                ctx.violation(f"analysis fails with {res['exc']} although the failing #elif belongs to a chain that already selected a branch:\n{text}", case)
            else:
                wrong = {k: (res["ok"].get(k), v) for k, v in want.items() if k in res["ok"] and res["ok"][k] != v}
                if wrong:
                    ctx.violation(f"wrong branch attributed {wrong} (line: (got, want)) in\n{text}", case)
            if drv is not None:
                m = drv.ask({"op": "analyse", "text": text, "defs": defs})
                mine = {"ok": rows} if rows is not None else {"exc": True}
                mod = {"ok": m["ok"]} if "ok" in m else {"exc": True}
                if mine != mod:
                    ctx.corr_break("analyse", case, res if rows is None else rows, m)



# ---------------------------------------------------------------------------
# re-evaluation histories: the value of a directive is a function of the macro table in force, however
# often and under whatever tables the same (shared) directive node was evaluated before
# ---------------------------------------------------------------------------
IND_VALUES = {"J1": [0, 1, 2, 3, 5], "J2": [0, 1, 4], "K": [0, 3, 7]}


def history_tree(rng, vals):
    """an expression over macros that reach their value through one or two levels of indirection"""
    def j(n):
        return macro(n, mk_lit(vals[n]))

    leaves = [lambda: macro("I1", j("J1")),                                    # I1 -> J1 -> value
              lambda: macro("I2", par(bin_("+", j("J1"), j("J2")))),           # I2 -> (J1+J2)
              lambda: macro("I3", macro("I3b", j("K"))),                       # I3 -> I3b -> K -> value
              lambda: j(rng.choice(["J1", "J2", "K"])),
              lambda: mk_lit(rng.choice([0, 1, 2, 3, 4, 7]))]

    def leaf():
        return rng.choice(leaves[:3] if rng.random() < 0.7 else leaves)()

    r = rng.random()
    if r < 0.45:
        t = bin_(rng.choice(["==", ">=", "<", "!=", ">"]), leaf(), mk_lit(rng.choice([0, 1, 2, 3, 4, 5, 7])))
    elif r < 0.6:
        t = bin_(rng.choice(["&&", "||"]), leaf(), un("!", leaf()))
    elif r < 0.8:
        t = bin_(rng.choice(["==", "<", ">="]), bin_(rng.choice(["+", "*", "-", "&", "|"]), leaf(), leaf()), leaf())
    else:
        t = tern(leaf(), leaf(), bin_("-", leaf(), mk_lit(1)))
    return parenthesize(t)


HISTORY_DEFS = ["I1=J1", "I2=(J1+J2)", "I3=I3b", "I3b=K"]


def run_history(ctx, drv, impl, n, corpus=()):
    pp = impl.pp
    rng = ctx.rng
    jobs = []
    for c in corpus:
        jobs.append(c)
    for _ in range(n):
        tabs = []
        for _k in range(rng.randint(2, 4)):
            tabs.append({m: rng.choice(v) for m, v in IND_VALUES.items()})
        seed = rng.getrandbits(32)
        jobs.append({"origin": "history", "tables": tabs, "tree_seed": seed, "kind": rng.choice(["if", "elif"])})
    for job in jobs:
        trees = [history_tree(random.Random(job["tree_seed"]), vals) for vals in job["tables"]]
        text = join_tokens(src_tokens(trees[0], []))
        steps = []
        for vals, t in zip(job["tables"], trees):
            assert join_tokens(src_tokens(t, [])) == text
            defs = HISTORY_DEFS + [f"{m}={v}" for m, v in vals.items()]
            steps.append({"defs": defs, "ast": spec_tree(t)})
        case = dict(job, text=text, steps=[{"defs": st["defs"]} for st in steps])
        try:
            if job["kind"] == "if":
                node = pp.DirectiveParser(pp.Lexer("#if " + text).tokenize()).parse()
            else:
                node = pp.DirectiveParser(pp.Lexer("#elif " + text).tokenize()).parse()
        except BaseException as e:  # noqa
            ctx.violation(f"`#{job['kind']} {text}` is not parsed: {impl.exc_name(e)}", case)
            continue
        got, want, fresh = [], [], []
        for st in steps:
            p = impl.platform_mod.Platform("p", "/")
            for d in st["defs"]:
                m = pp.macro_from_definition_string(d)
                p.define(m.name, m)
            try:
                got.append(bool(node.evaluate_for_platform(platform=p)))
            except BaseException as e:  # noqa
                got.append({"exc": impl.exc_name(e)})
            fresh.append(impl.truth(text, st["defs"]))
            if drv is not None:
                m = drv.ask({"op": "evalx", "text": text, "defs": st["defs"], "env": sorted(set(d.split("=")[0] for d in st["defs"])), "ast": st["ast"]})
                ok = m.get("spec") is not None and "v" in (m.get("spec") or {}) and m.get("grammatical") and m.get("consts_ok", True) is not None
                want.append((int(m["spec"]["v"]) != 0) if (m.get("spec") and "v" in m["spec"]) else None)
                mt = m.get("truth")
                if mt != fresh[-1] and not isinstance(fresh[-1], dict):
                    ctx.corr_break("evalx(history)", dict(case, step=len(got) - 1), fresh[-1], mt)
            else:
                want.append(None)
        ctx.count(key="history", nontrivial_key=("hist|" + text + "|" + json.dumps(job["tables"])) if len({json.dumps(w) for w in want}) > 1 else None)
        ctx.dist[f"history:evaluations={len(steps)}"] += 1
        if sum(1 for x in ctx.samples if x.get("origin") == "history") < 2:
            ctx.sample({"origin": "history", "text": f"#{job['kind']} {text}", "tables": job["tables"], "truths": got})
        for i, (g, w, f) in enumerate(zip(got, want, fresh)):
            ref = w if w is not None else (f if not isinstance(f, dict) else None)
            if ref is not None and g != ref:
                ctx.violation(f"`#{job['kind']} {text}` evaluated for the macro tables {job['tables'][:i + 1]} in this order on one directive node: "
                              f"evaluation {i + 1} gives {g}, ISO C value under table {job['tables'][i]} is {ref} "
                              f"(a fresh evaluation of the same text gives {f})", dict(case, failing_step=i))
                break


# ---------------------------------------------------------------------------
# gcc oracle (thorough): validates the SPEC
# ---------------------------------------------------------------------------
def gcc_truths(items):
    """items: list of (defs, expr text). Returns ({index: bool}, set(diagnosed indices))"""
    res, diag, unattributed = {}, set(), set()
    # one gcc process per distinct macro set
    groups = {}
    for i, (defs, e) in enumerate(items):
        groups.setdefault(tuple(defs), []).append((i, e))
    for defs, lst in groups.items():
        head = []
        for dd in defs:
            name, _, val = dd.partition("=")
            head.append(f"#define {name} {val if '=' in dd else '1'}")
        src = "\n".join(head) + ("\n" if head else "")
        base = len(head)
        for _, e in lst:
            src += f"#if {e}\nT\n#else\nF\n#endif\n"
        p = subprocess.run(["gcc", "-E", "-P", "-undef", "-x", "c", "-"], input=src, capture_output=True, text=True, timeout=600)
        # a diagnostic raised inside a macro expansion is located at the #define line and followed by
        # "note: in expansion of macro" lines that point at the use site
        pending = False
        for line in p.stderr.splitlines():
            if line.startswith("<stdin>:"):
                try:
                    ln = int(line.split(":")[1])
                except ValueError:
                    continue
                k = (ln - 1 - base) // 5
                if ln > base and 0 <= k < len(lst):
                    diag.add(lst[k][0])
                    pending = False
                else:
                    pending = True
        if pending:      # could not attribute a diagnostic: trust nothing of this group
            unattributed.update(i for i, _ in lst)
        toks = [t for t in p.stdout.split() if t in ("T", "F")]
        if len(toks) == len(lst):
            for (i, _), t in zip(lst, toks):
                res[i] = t == "T"
        else:   # a hard error swallowed groups: fall back to one by one for this group
            for i, e in lst:
                q = subprocess.run(["gcc", "-E", "-P", "-undef", "-x", "c", "-"], input="\n".join(head) + f"\n#if {e}\nT\n#else\nF\n#endif\n",
                                   capture_output=True, text=True)
                if q.stderr.strip():
                    diag.add(i)
                tt = [t for t in q.stdout.split() if t in ("T", "F")]
                if len(tt) == 1:
                    res[i] = tt[0] == "T"
    for i in unattributed:
        res.pop(i, None)
        diag.discard(i)
    return res, diag, unattributed


def gcc_dead_div_quirk(a, env):
    """gcc quirk (not ISO C): an UNEVALUATED `l / 0` or `l % 0` gets the type of `l` alone instead of the
    common type (cpplib's num_div_op returns lhs unchanged), so `1 ? 1 : (1 % 0u)` is signed for gcc but
    unsigned by 6.5.5p3/6.5.15p5.  Trees containing such a node (signed dividend, unsigned zero divisor)
    are not compared with gcc."""
    k = a["k"]
    if k == "paren":
        return gcc_dead_div_quirk(a["a"], env)
    if k == "un":
        return gcc_dead_div_quirk(a["a"], env)
    if k == "tern":
        return any(gcc_dead_div_quirk(a[x], env) for x in ("c", "t", "e"))
    if k == "bin":
        if a["op"] in ("/", "%") and not utype(a["l"]) and utype(a["r"]):
            try:
                if twin(a["r"], env)[0] == 0:
                    return True
            except UB:
                return True
        return gcc_dead_div_quirk(a["l"], env) or gcc_dead_div_quirk(a["r"], env)
    return False


def gcc_validate_spec(ctx, drv, cases):
    """spec (Lean) vs gcc -E on generated cases: truth, value through `(E) == k`, signedness probe"""
    cases = [c for c in cases if c.get("ast") is not None]
    ms = drv.batch([request(c) for c in cases])
    items, meta = [], []
    quirk = 0
    for c, m in zip(cases, ms):
        if not m.get("src_match", False) and not m.get("render_match", False):
            continue
        if gcc_dead_div_quirk(c["ast"], set(c.get("env", []))):
            quirk += 1
            continue
        wf = m["spec"] is not None and m["grammatical"] and m["consts_ok"]
        items.append((c["defs"], c["text"]))
        meta.append((c, m, wf, "truth"))
        if wf:
            sv = m["spec"]
            items.append((c["defs"], f"({c['text']}) == {c_const(int(sv['v']), sv['u'])}"))
            meta.append((c, m, wf, "value"))
            items.append((c["defs"], f"(({c['text']}) * 0 - 1) < 0"))
            meta.append((c, m, wf, "signed"))
    res, diag, unattributed = gcc_truths(items)
    bad = []
    stats = {"compared": 0, "gcc_diagnosed": 0, "spec_undefined_gcc_silent": 0, "gcc_diagnostic_not_attributable": len(unattributed),
             "skipped_gcc_dead_division_type_quirk": quirk}
    for i, (c, m, wf, kind) in enumerate(meta):
        if i in unattributed:
            continue
        if i in diag:
            stats["gcc_diagnosed"] += 1
            if wf and kind == "truth":
                bad.append(f"spec calls `{c['text']}` (defs {c['defs']}) well-formed but gcc diagnoses it")
            continue
        if not wf:
            stats["spec_undefined_gcc_silent"] += 1
            continue
        if i not in res:
            continue
        sv = m["spec"]
        want = {"truth": int(sv["v"]) != 0, "value": True, "signed": not sv["u"]}[kind]
        stats["compared"] += 1
        if res[i] != want:
            bad.append(f"spec vs gcc ({kind}) on `{items[i][1]}` defs {c['defs']}: spec {sv}, gcc says {res[i]}")
    ctx.extra["gcc_oracle"] = stats
    ctx.dist["gcc:compared"] += stats["compared"]
    if bad:
        raise RuntimeError("the Lean specification disagrees with gcc -E (spec defect, not an implementation finding): " + "; ".join(bad[:5]))


# ---------------------------------------------------------------------------
# entry points
# ---------------------------------------------------------------------------
def corpus_cases():
    out = []
    for f in sorted((core.VERIF / "corpus" / "C02").glob("*.json")):
        for c in json.loads(f.read_text()):
            c = dict(c)
            c["origin"] = "corpus:" + f.name
            out.append(c)
    return out


def tree_cases(ctx, trees, origin_prefix, ws=0.3):
    out = []
    for t, o in trees:
        t = parenthesize(t)
        o, _, pair = o.partition(" ")
        c = make_case(t, [], set(), ctx.rng, ws=ws if ctx.rng.random() < 0.5 else 0.0, origin=origin_prefix + ":" + o)
        if pair:
            c["pair"] = [o[4:]] + pair.split(" ")
        out.append(c)
    return out


def run(ctx, drv):
    impl = Impl()
    full = ctx.thorough()
    ctx.rule = (
        "input = parse tree of the C #if grammar (unary + - ! ~, the 18 binary operators, ?:, parentheses; integer constants in "
        "4 bases x 23 suffix spellings, character constants (plain, the 11 simple escapes, EVERY octal escape \\o \\oo \\ooo, every hex "
        "escape of one or two digits in both letter cases plus zero-padded and out-of-range ones), defined X / defined(X), object-like macros, unknown identifiers) rendered "
        "to text with minimal or redundant parentheses and random white space, evaluated by the real Lexer + MacroExpander + "
        "ExpressionEvaluator (truth by evaluate() / IfNode.evaluate_for_platform, value+signedness by expression() and by generated "
        "`(E) == k` / `((E)*0-1) < 0` probes). Exhaustive: all expressions with <= 1 operator over the 17-element boundary literal set; "
        "all 18x18 ordered pairs of binary operators in the three groupings `a o b o c`, `(a o b) o c`, `a o (b o c)` over "
        + ("ALL 512 triples" if full else "a seeded sample of triples") + " of the 8 core boundary values {0,1,2,(-1),INT64_MAX,(-INT64_MAX-1),1u,UINT64_MAX}; "
        "unary/binary, ?:/binary and nested ?: shapes; random trees with up to 12 operators beyond. WF (property oracle applies) = the Lean "
        "spec defines a value (no UB in evaluated positions, nothing gcc diagnoses), the tree is grammatical, every constant is legal. "
        "Text level: further random trees (no macro leaf) are written in random ADMISSIBLE LAYOUTS computed by the Lean definitions of "
        "Model/LexLayout.lean (runs of blanks/tabs of length 0-3 before, between and after the tokens; NO white space wherever `separable` "
        "holds and ISO C would not join the pair either): the real Lexer's tokens incl. prev_white are compared with `flagged` (what theorem "
        "lexer_reads_layout predicts), then the text goes through expander + evaluator and is judged like every other case (origin `layout`); "
        "layouts the code's lexer accepts but ISO C reads differently (`1--1`) are compared model-vs-implementation only (`layout-lexer-only`). "
        "`defined` / object-like macros (origin `conddef`, Props/C02Defined.lean): trees in which 15-80 % of the leaves are `defined X` / `defined(X)` "
        "(X drawn from the macro names, unknown identifiers, a function-like macro name) and identifier leaves name object-like macros incl. a chain "
        "(C=A), a self-reference (S=S), mutual recursion (R1=R2, R2=R1) and a parenthesised body over a chain (P=(C+1)), under tables that in ~11 % of "
        "the cases also hold function-like macros, written in random admissible layouts; driver op `condfrag` decides every hypothesis of "
        "cond_defined_partial / cond_objmacro_partial with the Lean definitions (share inside the proved fragment: extra.conddef_fragment_share), "
        "evaluates the instance of the theorem, and PP.condValue on the text is compared with the implementation on every case. "
        "Non-trivial = distinct WF (text, macro set) with >= 2 operators, plus distinct #elif programs. Malformed inputs and "
        "residual calls f(..) are compared model-vs-implementation only ('glue').")
    ctx.assumptions += [
        "ASCII input; plain char signed 8-bit, >> of negative values arithmetic, 0b literals accepted (gcc x86-64 choices, stated in Spec/CExpr.lean)",
        "left shift of a negative value and shift counts <0 or >=64 are treated as undefined (C11 6.5.7) even where gcc is silent",
        "the Lean lexer/expander models (PP/Lexer, PP/Expand) supply the token list; the driver checks it equals the rendering the theorems use",
        "residual calls f(args): model exact only when each argument parses completely or fails at its first token (generator stays inside)",
        "expression() is called directly to observe value and signedness (the public API exposes truth only); the same values are also observed through truth-only probes",
    ]
    # ---- corpus first
    run_cases(ctx, drv, impl, [c for c in corpus_cases() if "tables" not in c], probe_every=1, full_every=1)
    # ---- exhaustive small expressions + every literal spelling
    run_cases(ctx, drv, impl, tree_cases(ctx, exhaustive_small(ctx, full), "exh"))
    run_cases(ctx, drv, impl, tree_cases(ctx, all_literal_spellings(ctx, full), "lit", ws=0.0))
    ctx.exhaustive = True
    # ---- random beyond
    rnd = random_cases(ctx, ctx.n(9000, 60000))
    run_cases(ctx, drv, impl, rnd)
    # ---- text level: random admissible layouts (Lean `layout` / `separable`), real Lexer tokens + prev_white, then the evaluator
    run_cases(ctx, drv, impl, layout_cases(ctx, drv, impl, ctx.n(4000, 30000)))
    # ---- `defined` anywhere + object-like macros: hypotheses of cond_defined_partial / cond_objmacro_partial decided by the driver
    run_cases(ctx, drv, impl, conddef_cases(ctx, drv, impl, ctx.n(3000, 15000)))
    # ---- glue
    run_cases(ctx, drv, impl, glue_cases(ctx, ctx.n(1500, 10000)), probe_every=10 ** 9)
    # ---- #elif clause
    run_elif(ctx, drv, elif_programs(ctx, ctx.n(40, 600)))
    # ---- re-evaluation histories on one directive node
    run_history(ctx, drv, impl, ctx.n(300, 3000), corpus=[dict(c, origin="history") for c in corpus_cases() if "tables" in c])
    pairs = ctx.extra.pop("_pairs", set())
    ctx.extra["wf_operator_nestings_seen"] = {
        "flat (a o b o c)": len({p for p in pairs if p[0] == "flat"}),
        "(a o b) o c": len({p for p in pairs if p[0] == "L"}),
        "a o (b o c)": len({p for p in pairs if p[0] == "R"}),
        "of_possible_each": 18 * 18,
    }
    # ---- gcc validates the spec (thorough)
    if full and drv is not None:
        sample = tree_cases(ctx, exhaustive_small(ctx, False), "gcc") + tree_cases(ctx, all_literal_spellings(ctx, False), "gcc", ws=0.0) + rnd[:40000]
        gcc_validate_spec(ctx, drv, sample)


def search(ctx, drv):
    """failing-input search (a proof obligation, the translator or the correspondence broke): the same
    generators with the larger budget; shapes already cover every operator pair"""
    impl = Impl()
    run_cases(ctx, drv, impl, [c for c in corpus_cases() if "tables" not in c], probe_every=1, full_every=1)
    if ctx.violations:
        return
    run_cases(ctx, drv, impl, tree_cases(ctx, exhaustive_small(ctx, False), "search"))
    if ctx.violations:
        return
    run_cases(ctx, drv, impl, tree_cases(ctx, all_literal_spellings(ctx, False), "search", ws=0.0))
    if ctx.violations:
        return
    run_cases(ctx, drv, impl, random_cases(ctx, ctx.n(4000, 20000), origin="search"))
    if not ctx.violations:
        run_cases(ctx, drv, impl, layout_cases(ctx, drv, impl, ctx.n(3000, 10000), origin="search-layout"))
    if not ctx.violations:
        run_cases(ctx, drv, impl, conddef_cases(ctx, drv, impl, ctx.n(3000, 10000), origin="search-conddef"))
    if not ctx.violations:
        run_elif(ctx, drv, elif_programs(ctx, ctx.n(20, 100)))
    if not ctx.violations:
        run_history(ctx, drv, impl, ctx.n(300, 1000))


def replay(ctx, drv, case):
    impl = Impl()
    if case.get("origin") == "history":
        c2 = core.Ctx(ctx.prop, "quick", 0)
        run_history(c2, drv, impl, 0, corpus=[{k: case[k] for k in ("origin", "tables", "tree_seed", "kind")}])
        return {"text": case["text"], "tables": case["tables"], "violations": [w for w, _ in c2.violations],
                "correspondence_breaks": c2.corr_breaks, "samples": c2.samples}
    if "program" in case:
        c2 = core.Ctx(ctx.prop, "quick", 0)
        run_elif(c2, drv, [(case["program"], case.get("defs", []), {})])
        return {"program": case["program"], "violations": [w for w, _ in c2.violations], "correspondence_breaks": c2.corr_breaks}
    out = {"text": case["text"], "defs": case.get("defs", []), "implementation": impl.run(case["text"], case.get("defs", []), full=True)}
    if drv is not None and case.get("src_ast") is not None:
        # a `defined` / object-like macro case: the hypotheses of cond_objmacro_partial as the Lean definitions decide them
        out["condfrag"] = drv.ask({"op": "condfrag", "ast": case["src_ast"], "sub": case.get("sub", []), "defs": case.get("defs", []),
                                   "lead": case.get("lead", ""), "gaps": case.get("gaps", [])})
    elif drv is not None and case.get("gaps") is not None and case.get("ast") is not None:
        # a text-level case: the layout as the Lean definitions see it, and the real Lexer's tokens with prev_white
        o = drv.ask({"op": "layoutx", "ast": case["ast"], "lead": case.get("lead", ""), "gaps": case["gaps"]})
        out["layout"] = {k: o[k] for k in ("text", "admissible", "c_admissible", "lexok_all", "no_defined", "lex_match", "flagged")}
        try:
            out["lexer_tokens"] = [[TOKEN_KIND.get(type(k).__name__, type(k).__name__), k.token, bool(k.prev_white)]
                                   for k in impl.pp.Lexer(case["text"]).tokenize()]
        except BaseException as e:  # noqa
            out["lexer_tokens"] = {"exc": impl.exc_name(e)}
    if drv is not None:
        m = drv.ask(request(case))
        out["model"] = model_view(m)
        if "spec" in m:
            out["spec"] = {k: m[k] for k in ("spec", "grammatical", "consts_ok", "escaped_char", "big_unsuffixed", "render_match")}
    return out
