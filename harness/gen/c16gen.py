"""Generators owned by C16 (duplicates report): ordered gitignore-style exclude lists and edit histories.

* `gen_patterns`  — an ORDERED list of exclude patterns derived from the files of a plan: broad patterns,
  narrower patterns, negations (`!p`) before and after the pattern they amend, re-exclusions after a negation,
  and exact repeats of an earlier pattern at a later position.  The meaning of such a list is the one of a
  `.gitignore` file (last matching pattern decides); the reference is `git check-ignore` (see c16.py).
* `gen_edits` / `apply_edits` / `apply_on_disk` — a stage of a history: files added (to existing and to new
  directories), deleted, overwritten (same size / other size), renamed (also into excluded places or to an
  unrecognised extension), regular files replaced by symbolic links to a twin and the converse.  The plan is
  transformed by the pure function `apply_edits`; the tree by `apply_on_disk`; the oracle is evaluated on the
  transformed plan, the implementation on the SAME CodeBase object as before the edits.

All randomness comes from `rng`.
"""
from __future__ import annotations

import copy
import os

MTIME = 1_600_000_000
NEW_DIRS = ["new", "gen2", "sub/new", "a/new", "excl", "vendor", "x_tmp", "z", "new/deep"]
NEW_STEMS = ["n1", "n2", "copy", "twin", "e1", "e2", "keep", "x_n", "late"]
BROAD = ["*", "*.*", "/*", "**", "*/*"]


# ---------------------------------------------------------------------------
# exclude lists
# ---------------------------------------------------------------------------
def _ok_name(s: str) -> bool:
    """the generator writes names into patterns literally: they must not contain gitignore syntax"""
    return not any(ch in s for ch in "*?[]\\!#") and s == s.strip()


def file_forms(rel: str):
    """patterns that match the FILE `rel` without matching any of its parent directories
    (so that a later negation can take the file back, in git as well)"""
    parts = rel.split("/")
    name = parts[-1]
    stem, ext = os.path.splitext(name)
    out = [name, "/" + rel, "**/" + name]
    if ext:
        out += ["*" + ext, stem + ".*"]
    if len(parts) > 1:
        out += [rel, "/".join(parts[:-1]) + "/*", parts[0] + "/**/" + name]
        if ext:
            out += ["/".join(parts[:-1]) + "/*" + ext, "**/" + parts[-2] + "/*" + ext]
    else:
        out += ["/*" + ext] if ext else []
    return out


def dir_forms(rel: str):
    """patterns that match a parent directory of `rel` (everything below is excluded for good)"""
    parts = rel.split("/")
    if len(parts) < 2:
        return []
    return [parts[0] + "/", parts[-2] + "/", "/".join(parts[:-1]) + "/", parts[0] + "/**", parts[-2], "**/" + parts[-2] + "/"]


def gen_patterns(rng, rels, twins=()):
    """rels: root-relative paths of the regular files; twins: those of them that have an identical twin"""
    rels = [r for r in rels if all(_ok_name(c) for c in r.split("/"))]
    if not rels:
        return [rng.choice(["*.c", "excl/", "!*.h", "*"])]
    twins = [t for t in twins if t in rels]

    def pick():
        return rng.choice(twins) if twins and rng.random() < 0.7 else rng.choice(rels)

    def noise():
        f = rng.choice(rels)
        p = rng.choice(file_forms(f) + dir_forms(f) + BROAD[:2])
        return ("!" + p) if rng.random() < 0.3 else p

    r = rng.random()
    if r < 0.4:  # a broad pattern amended by a later negation (optionally re-excluded again)
        f = pick()
        forms = file_forms(f)
        pos = rng.choice(forms)
        neg = rng.choice([x for x in forms if x != pos] or forms)
        pats = [noise() for _ in range(rng.randint(0, 1))] + [pos] + [noise() for _ in range(rng.choice([0, 0, 1]))] + ["!" + neg]
        if rng.random() < 0.25:
            pats.append(rng.choice(forms))
        if rng.random() < 0.3:
            pats += [noise()]
    elif r < 0.55:  # the negation comes first: it has no effect on what follows
        f = pick()
        forms = file_forms(f)
        pats = ["!" + rng.choice(forms), rng.choice(forms)] + [noise() for _ in range(rng.choice([0, 0, 1]))]
    elif r < 0.7:  # a directory-level exclusion and patterns about files inside / beside it
        f = pick()
        df = dir_forms(f) or file_forms(f)
        pats = [rng.choice(df)] + [noise() for _ in range(rng.randint(0, 2))]
        rng.shuffle(pats)
    else:
        pats = [noise() for _ in range(rng.randint(1, 5))]
        if rng.random() < 0.15:
            pats.insert(rng.randrange(len(pats) + 1), rng.choice(BROAD))
    if len(pats) >= 2 and rng.random() < 0.3:  # an exact repeat of one pattern at another position
        i = rng.randrange(len(pats))
        pats.insert(rng.randrange(len(pats) + 1), pats[i])
    return pats


# ---------------------------------------------------------------------------
# histories
# ---------------------------------------------------------------------------
def _conflict(p, used):
    return p in used or any(u.startswith(p + "/") or p.startswith(u + "/") for u in used)


def plan_bytes(plan):
    out = {}
    for e in plan["entries"]:
        if e["k"] == "file":
            out[e["p"]] = bytes.fromhex(e["hex"])
    for e in plan["entries"]:
        if e["k"] == "hardlink":
            out[e["p"]] = out[e["to"]]
    return out


def near(rng, b: bytes, textual=False):
    """a different byte string close to b (same size when possible)"""
    if not b:
        return rng.choice([b"\n", b" ", b"a"])
    r = rng.random()
    if r < 0.4:
        return b[:-1] + ((b"}" if b[-1:] != b"}" else b")") if textual else bytes([b[-1] ^ 1]))
    if r < 0.6:
        return ((b"Q" if b[:1] != b"Q" else b"R") if textual else bytes([b[0] ^ 1])) + b[1:]
    if r < 0.8:
        return b[:-1]
    return b + b"\n"


def gen_edits(rng, plan, exts, nonsrc_exts, textual=False):
    """one stage: 1-4 primitive edits (`add` entry / `del` path / `write` path bytes / `move` path to) valid for `plan`"""
    cur = copy.deepcopy(plan)
    edits = []

    def state():
        used = {e["p"] for e in cur["entries"]}
        linked = {e["to"] for e in cur["entries"] if e["k"] == "hardlink"}
        free = [e["p"] for e in cur["entries"] if e["k"] == "file" and e["p"] not in linked]
        inroot = [p for p in free if any(p.startswith(d + "/") for d in cur["dirs"])]
        return used, free, inroot

    def emit(ed):
        nonlocal cur
        edits.append(ed)
        cur = apply_edits(cur, [ed])

    def some_content(data, twin_bias=0.7):
        vals = list(data.values())
        r = rng.random()
        if vals and r < twin_bias:
            return rng.choice(vals)
        if vals and r < twin_bias + 0.2:
            return near(rng, rng.choice(vals), textual)
        return rng.choice([b"", b"int late;\n", b"// new\n"] + ([] if textual else [b"\x00"]))

    def fresh_path(used, dirs_of, ext_list, stem=None):
        for _ in range(40):
            d = rng.choice(dirs_of)
            p = d + "/" + (stem or rng.choice(NEW_STEMS)) + rng.choice(ext_list)
            if not _conflict(p, used):
                return p
        return None

    for _ in range(rng.randint(1, 4)):
        used, free, inroot = state()
        data = plan_bytes(cur)
        existing_dirs = sorted({os.path.dirname(p) for p in used if os.path.dirname(p)} | set(cur["dirs"]))
        existing_dirs = [d for d in existing_dirs if any(d == r or d.startswith(r + "/") for r in cur["dirs"])] or list(cur["dirs"])
        kind = rng.choices(["add", "add_dir", "del", "write", "move", "to_symlink", "from_symlink", "add_link"],
                           [5, 3, 2, 2, 2, 1, 1, 1])[0]
        if kind == "add":
            where = existing_dirs if rng.random() < 0.9 else ["outside"]
            p = fresh_path(used, where, exts if rng.random() < 0.9 else nonsrc_exts)
            if p:
                emit({"op": "add", "e": {"p": p, "k": "file", "hex": some_content(data).hex()}})
        elif kind == "add_dir":
            root = rng.choice(cur["dirs"])
            d = root + "/" + rng.choice(NEW_DIRS)
            shared = some_content(data, twin_bias=0.5)
            for _k in range(rng.randint(1, 3)):
                used, _, _ = state()
                p = fresh_path(used, [d], exts)
                if p:
                    emit({"op": "add", "e": {"p": p, "k": "file", "hex": (shared if rng.random() < 0.75 else some_content(data)).hex()}})
        elif kind == "del" and inroot:
            emit({"op": "del", "p": rng.choice(inroot)})
        elif kind == "write" and inroot:
            p = rng.choice(inroot)
            others = [b for q, b in data.items() if b != data[p]]
            nb = rng.choice(others) if others and rng.random() < 0.5 else near(rng, data[p], textual)
            emit({"op": "write", "p": p, "hex": nb.hex()})
        elif kind == "move" and inroot:
            p = rng.choice(inroot)
            r = rng.random()
            stem = os.path.splitext(os.path.basename(p))[0]
            if r < 0.5:
                to = fresh_path(used, existing_dirs, exts)
            elif r < 0.7:
                to = fresh_path(used, [rng.choice(cur["dirs"]) + "/" + rng.choice(["excl", "vendor", "a/b", "new"])], exts)
            elif r < 0.85:
                to = fresh_path(used, [os.path.dirname(p)], nonsrc_exts, stem=stem)
            else:
                to = fresh_path(used, ["outside"], exts)
            if to:
                emit({"op": "move", "p": p, "to": to})
        elif kind == "to_symlink" and inroot:
            p = rng.choice(inroot)
            tw = [q for q in data if q != p and data[q] == data[p]] or [q for q in data if q != p]
            if tw:
                emit({"op": "del", "p": p})
                emit({"op": "add", "e": {"p": p, "k": "symlink", "to": rng.choice(tw), "abs": rng.random() < 0.5}})
        elif kind == "from_symlink":
            syms = [e for e in cur["entries"] if e["k"] == "symlink" and e["to"] in data]
            if syms:
                s = rng.choice(syms)
                emit({"op": "del", "p": s["p"]})
                emit({"op": "add", "e": {"p": s["p"], "k": "file", "hex": data[s["to"]].hex()}})
        elif kind == "add_link" and free:
            t = rng.choice(free)
            p = fresh_path(used, existing_dirs, exts)
            if p:
                if rng.random() < 0.5:
                    emit({"op": "add", "e": {"p": p, "k": "hardlink", "to": t}})
                else:
                    emit({"op": "add", "e": {"p": p, "k": "symlink", "to": t, "abs": rng.random() < 0.5}})
    return edits


def apply_edits(plan, edits):
    """the plan after the edits (pure)"""
    out = copy.deepcopy(plan)
    out.pop("history", None)
    ents = out["entries"]
    for ed in edits:
        if ed["op"] == "add":
            ents.append(copy.deepcopy(ed["e"]))
        elif ed["op"] == "del":
            ents[:] = [e for e in ents if e["p"] != ed["p"]]
        elif ed["op"] == "write":
            for e in ents:
                if e["p"] == ed["p"] and e["k"] == "file":
                    e["hex"] = ed["hex"]
        elif ed["op"] == "move":
            for e in ents:
                if e["p"] == ed["p"] and e["k"] == "file":
                    e["p"] = ed["to"]
        else:
            raise ValueError("unknown edit " + repr(ed))
    return out


def put_entry(base, e):
    q = base / e["p"]
    q.parent.mkdir(parents=True, exist_ok=True)
    if e["k"] == "file":
        q.write_bytes(bytes.fromhex(e["hex"]))
        os.utime(q, (MTIME, MTIME))
    elif e["k"] == "hardlink":
        os.link(base / e["to"], q)
    elif e["k"] == "symlink":
        tgt = base / e["to"]
        os.symlink(str(tgt) if e.get("abs") else os.path.relpath(tgt, q.parent), q)


def apply_on_disk(base, edits):
    for ed in edits:
        if ed["op"] == "add":
            put_entry(base, ed["e"])
        elif ed["op"] == "del":
            os.unlink(base / ed["p"])
        elif ed["op"] == "write":
            q = base / ed["p"]
            q.write_bytes(bytes.fromhex(ed["hex"]))
            os.utime(q, (MTIME, MTIME))
        elif ed["op"] == "move":
            to = base / ed["to"]
            to.parent.mkdir(parents=True, exist_ok=True)
            os.rename(base / ed["p"], to)
