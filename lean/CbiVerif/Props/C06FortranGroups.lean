import CbiVerif.Props.C06Fortran
import CbiVerif.Props.C17Nodes
/-!
# C06 about SOURCE TEXT — the per-line attribution of mixed code bases, Fortran files included

`Props/C06Fortran.lean` left `FortranGroupsAreReference` open (only the concatenation of the counted lines of a Fortran file was
proved) and hence `line_attribution_is_reference_mixed_partial`.  `C17.nodes_eq_ref` closes it (after the repair of the defect
F-C17-2 of the code, which had made the statement false):

* `fortran_groups_are_reference` / `fortranGroupsAreReference` — inside C17's guard the nodes of a Fortran file are the groups
  of `Spec/FortranNodes.lean`;
* `line_attribution_is_reference_mixed` / `lineAttributionIsReferenceMixed` — the per-line attribution of every file inside the
  guard of its language is the one written from the specifications alone (C-family: as before; Fortran: new);
* `setmap_rows_are_reference_counts_mixed` — hence every row of `get_setmap` of a mixed code base counts the (file, counted
  line) pairs whose reference attribution is exactly that platform set;
* `fortran_nodes_nonempty` — every node of a Fortran file inside the guard holds at least one line (`1 ≤ num_lines`).
-/
namespace CbiVerif.C06
open CbiVerif.SM CbiVerif.C06C CbiVerif.C06L

/-- **fortran_groups_are_reference.**  A free-form Fortran text inside C17's guard (the reference scanner accepts it, no
    F-C17-1 line) is cut into nodes exactly as `Spec/FortranNodes.lean`
    groups the lines the reference counts — one node per directive line, one per maximal run of counted lines between directive
    lines — and every node holds at least one line with `num_lines = len(lines)`. -/
theorem fortran_groups_are_reference (t : List Char) (p : Parsed) (hg : fguard t = true) (h : fParseSrc t = .ok p) :
    p.nodes.map (fun nd => (nd.kind == CClean.NKind.directive, nd.lines)) = Fortran.refNodes (String.ofList t) ∧
    ∀ nd ∈ p.nodes, nd.numLines = nd.lines.length ∧ 1 ≤ nd.numLines := by
  obtain ⟨r, hr, hk⟩ := (fguard_iff t).mp hg
  obtain ⟨lls, hs, hn, _, _, _⟩ := fParseSrc_ok t p h
  obtain ⟨lls', hs', hgr, hnum⟩ := CbiVerif.C17.nodes_eq_ref _ r hr hk
  rw [hs] at hs'
  simp only [Except.ok.injEq] at hs'
  subst hs'
  rw [hn]
  refine ⟨?_, ?_⟩
  · rw [← hgr, List.map_map]
    apply List.map_congr_left
    intro nd _
    cases hd : nd.isDir <;> simp [fNode, hd]
  · intro nd hnd
    obtain ⟨n0, hn0, rfl⟩ := List.mem_map.mp hnd
    exact hnum n0 hn0

/-- **fortranGroupsAreReference.**  The statement left open in `Props/C06Fortran.lean`, as stated there. -/
theorem fortranGroupsAreReference : FortranGroupsAreReference :=
  fun t p hg h => (fortran_groups_are_reference t p hg h).1

/-- **fortran_nodes_nonempty.**  Every node `FileParser` builds for a free-form Fortran text inside C17's guard counts at
    least one physical line. -/
theorem fortran_nodes_nonempty (t : List Char) (p : Parsed) (hg : fguard t = true) (h : fParseSrc t = .ok p) :
    ∀ nd ∈ p.nodes, 1 ≤ nd.numLines := fun nd hnd => ((fortran_groups_are_reference t p hg h).2 nd hnd).2

/-- inside the guard of its language the nodes of a file hold the lines the specification of its language groups together -/
theorem nodes_are_spec_groups (f : SrcFile) (p : Parsed) (hparse : parseSrcL f = .ok p) (hgl : guardL f = true) :
    p.nodes.map (·.lines) = (specNodesL f).map (·.2) ∧ ∀ nd ∈ p.nodes, 1 ≤ nd.numLines := by
  cases hlang : langOf f.path with
  | cFamily =>
    have hgc : C06C.guard f.text = true := by unfold guardL at hgl; rw [hlang] at hgl; exact hgl
    rw [parseSrcL_c f hlang] at hparse
    obtain ⟨hwf, hk1, hk2⟩ := (guard_iff f.text).mp hgc
    obtain ⟨r0, hpf, hn, _, _⟩ := parseSrc_ok f.text p hparse
    obtain ⟨hnodes, _, hpos⟩ := CbiVerif.C05.nodes_of_ok f.text hwf hk1 hk2 r0 hpf
    rw [hn] at hnodes hpos
    refine ⟨?_, fun nd hnd => (hpos nd hnd).2⟩
    unfold specNodesL
    rw [hlang]
    show _ = (CLexRef.nodes f.text).map (·.2)
    rw [← hnodes, List.map_map]; rfl
  | fortranFree =>
    have hgf : fguard f.text = true := by
      unfold guardL at hgl; rw [hlang] at hgl; exact hgl
    rw [parseSrcL_f f hlang] at hparse
    obtain ⟨hnodes, hpos⟩ := fortran_groups_are_reference f.text p hgf hparse
    refine ⟨?_, fun nd hnd => (hpos nd hnd).2⟩
    unfold specNodesL
    rw [hlang]
    show _ = (Fortran.refNodes (String.ofList f.text)).map (·.2)
    rw [← hnodes, List.map_map]; rfl
  | asm => unfold guardL at hgl; rw [hlang] at hgl; cases hgl
  | unsupported => unfold guardL at hgl; rw [hlang] at hgl; cases hgl

/-- **line_attribution_is_reference_mixed.**  For distinct file names and a configuration whose units the reference accepts: for
    EVERY file — C-family or free-form Fortran — whose text is inside the guard of its language (C05's; C17's),
    the per-line attribution of the record (`SM.lineAttr`, the list `setmap_lines` / `specCount` count over) is
    EXACTLY the attribution written from the specifications alone (`specLineAttrL`): every line the language's specification
    counts, once, with the platforms whose ISO C reference run keeps the specification's group it belongs to; and every node
    of such a file counts at least one line. -/
theorem line_attribution_is_reference_mixed (files : List SrcFile) (plats : List Plat) (fs : List FileRec)
    (h : analyseL files plats = .ok fs) (hnd : (files.map (·.path)).Nodup) (hacc : RefAcceptsAllL files plats) :
    List.Forall₂ (fun (f : SrcFile) (r : FileRec) => ∃ p, parseSrcL f = .ok p ∧
        (guardL f = true → lineAttr r = specLineAttrL plats f p.pnodes ∧ ∀ n ∈ r.nodes, 1 ≤ n.numLines)) files fs := by
  obtain ⟨ps, pr, hpr, hp⟩ := analyseG_pairs parseSrcL files plats fs h
  refine hp.imp ?_
  rintro f r ⟨p, hm, hparse, rfl⟩
  have hf : f ∈ files := (List.of_mem_zip hm).1
  have hl := lookup_of_mem files ps f p hnd hm
  refine ⟨p, hparse, fun hg => ?_⟩
  obtain ⟨hgrp, hpos⟩ := nodes_are_spec_groups f p hparse hg
  refine ⟨?_, ?_⟩
  · have hplats : ∀ j, platsOf pr f.path j = specPlats plats f.path p.pnodes j := fun j =>
      platsOf_ref files ps f.path p hl j plats pr hpr (fun pl hpl e he hef => hacc f hf p hparse pl hpl e he hef)
    have hspec : specLineAttrL plats f p.pnodes =
        ((specNodesL f).map (·.2)).zipIdx.flatMap fun y => y.1.map fun l => (l, specPlats plats f.path p.pnodes y.2) := by
      unfold specLineAttrL
      rw [List.zipIdx_map, List.flatMap_map]
      rfl
    rw [hspec, ← hgrp, List.zipIdx_map, List.flatMap_map]
    show (nodeRecs pr f.path p.nodes).flatMap (fun n => n.lines.map fun l => (l, n.plats)) = _
    unfold nodeRecs
    rw [List.flatMap_map]
    simp only [Prod.map, id, hplats]
  · intro n hn'
    have hmem : n.numLines ∈ (nodeRecs pr f.path p.nodes).map (·.numLines) := List.mem_map_of_mem hn'
    rw [nodeRecs_numLines] at hmem
    obtain ⟨nd, hnd', he⟩ := List.mem_map.mp hmem
    rw [← he]; exact hpos nd hnd'

/-- **lineAttributionIsReferenceMixed.**  The full statement kept visible in `Props/C06Fortran.lean`, as stated there. -/
theorem lineAttributionIsReferenceMixed : LineAttributionIsReferenceMixed := by
  intro files plats fs h hnd hacc
  refine (line_attribution_is_reference_mixed files plats fs h hnd hacc).imp ?_
  rintro f r ⟨p, hp, hattr⟩
  exact ⟨p, hp, fun hg => (hattr hg).1⟩

/-- **setmap_rows_are_reference_counts_mixed.**  … and when every text of a mixed code base is inside the guard of its
    language, the row of platform set `k` in `get_setmap` is the number of (file, counted line) pairs — counted by C05's
    specification in the C-family files, by C17's in the Fortran files — whose reference attribution is exactly `k`. -/
theorem setmap_rows_are_reference_counts_mixed (files : List SrcFile) (plats : List Plat) (fs : List FileRec)
    (h : analyseL files plats = .ok fs) (hnd : (files.map (·.path)).Nodup) (hacc : RefAcceptsAllL files plats)
    (hg : ∀ f ∈ files, guardL f = true) (k : Key) :
    ∃ ps, List.Forall₂ (fun (f : SrcFile) (p : Parsed) => parseSrcL f = .ok p) files ps ∧
      get (getSetmap fs) k =
        ((files.zip ps).map fun x => (specLineAttrL plats x.1 x.2.pnodes).countP fun y => y.2 = k).sum := by
  have hrow := (setmap_total_is_sloc_of_text_mixed files plats fs h).2.1
  have hff := file_lines_counted_once_mixed files plats fs h
  have hla := line_attribution_is_reference_mixed files plats fs h hnd hacc
  have hl : fs.filter (fun r => !r.link) = fs := by
    apply List.filter_eq_self.mpr
    intro r hr
    obtain ⟨f, _, hf⟩ := forall₂_right hff r hr
    simp [hf.2.1]
  rw [hrow k]
  unfold specCount allLines
  rw [hl, countP_flatMap_sum]
  clear hrow hff hl h hnd hacc
  induction hla with
  | nil => exact ⟨[], .nil, rfl⟩
  | @cons f r files fs hfr _ ih =>
    obtain ⟨p, hp, hattr⟩ := hfr
    obtain ⟨ps, hps, hsum⟩ := ih (fun f' hf' => hg f' (List.mem_cons_of_mem _ hf'))
    refine ⟨p :: ps, .cons hp hps, ?_⟩
    simp only [List.map_cons, List.sum_cons, List.zip_cons_cons]
    rw [hsum, (hattr (hg f List.mem_cons_self)).1]

/-! ## non-vacuity (kernel-checked) -/

/-- the code base `exSrcL` / `exPlatsL` of `Props/C06Fortran.lean` (a C file and a Fortran file with a statement continued over
    a comment line inside `#ifdef A`, a sentinel in the `#else` branch; two platforms, four compile commands) satisfies the
    hypotheses of the three theorems: both files are inside the guard of their language; and the attribution is not trivial (the Fortran
    file has six groups carrying three different platform sets) -/
example :
    (exSrcL.all guardL) = true ∧ (exSrcL.map (·.path)).Nodup ∧ refAcceptsAllLb exSrcL exPlatsL = true ∧
    (exSrcL.map fun f => (specNodesL f).map (·.2)) =
      [[[1], [2], [3], [4], [5, 6], [7]], [[1], [2], [3, 5], [6], [7], [8], [10]]] ∧
    ((analyseL exSrcL exPlatsL).toOption.map fun fs => fs.map fun r => (r.nodes.map (·.plats))) =
      some [[["cpu", "gpu"], ["cpu", "gpu"], ["cpu", "gpu"], ["cpu", "gpu"], [], ["cpu", "gpu"]],
            [["cpu", "gpu"], ["cpu", "gpu"], ["cpu"], ["cpu", "gpu"], ["gpu"], ["cpu", "gpu"], ["cpu", "gpu"]]] := by
  decide +kernel

/-- the former witness of F-C17-2 is inside C17's guard and, since the repair, grouped as the specification groups it -/
example :
    fguard CbiVerif.C17.witnessF2.toList = true ∧
    (fParseSrc CbiVerif.C17.witnessF2.toList).toOption.map
        (fun p => p.nodes.map fun nd => (nd.kind == CClean.NKind.directive, nd.lines))
      = some (Fortran.refNodes CbiVerif.C17.witnessF2) := by decide

end CbiVerif.C06
