import CbiVerif.Lemmas.FCPass3
import CbiVerif.Spec.FortranHash
/-!
The FIRST character of the cleaner's buffer (what `one_space_line.category()` looks at): a Fortran logical line reads as a
preprocessor directive iff its buffer starts with `#` (or ` #`).  On a line that starts a statement and is not itself a
directive line, and on a continuation line whose statement text does not start with `#`, the buffer of `fortran_cleaner` is
either blanks only or starts with a character that is neither a blank nor `#` (`HeadOK`); `HeadOK` is kept by everything that
is appended or joined later.
-/
namespace CbiVerif.Fortran
open Tbl
set_option linter.unusedSimpArgs false

/-- a list of characters that starts with neither a blank nor `#` -/
def GH (l : List Char) : Prop := ∃ c r, l = c :: r ∧ c ≠ ' ' ∧ c ≠ '#'

/-- the buffer's first character other than ONE merged blank is neither a blank nor `#` -/
def HeadOK (b : OSL) : Prop := ∃ c r, (b.parts = c :: r ∨ b.parts = ' ' :: c :: r) ∧ c ≠ ' ' ∧ c ≠ '#'

theorem headOK_ext {a b : OSL} (h : HeadOK a) (e : Ext a b) : HeadOK b := by
  obtain ⟨c, r, hp, h1, h2⟩ := h
  obtain ⟨q, hq⟩ := e
  rcases hp with hp | hp
  · exact ⟨c, r ++ q, Or.inl (by rw [hq, hp]; rfl), h1, h2⟩
  · exact ⟨c, r ++ q, Or.inr (by rw [hq, hp]; rfl), h1, h2⟩

theorem ext_addAll (a : OSL) (es : List Emit) : Ext a (a.addAll es) := by
  induction es generalizing a with
  | nil => exact ext_refl a
  | cons e es ih =>
    simp only [OSL.addAll, List.foldl_cons]
    exact ext_trans (ext_add a e) (ih (a.add e))

theorem addAll_append (b : OSL) (e1 e2 : List Emit) : b.addAll (e1 ++ e2) = (b.addAll e1).addAll e2 := by
  simp [OSL.addAll, List.foldl_append]

theorem headOK_addAll {b : OSL} (h : HeadOK b) (es : List Emit) : HeadOK (b.addAll es) :=
  headOK_ext h (ext_addAll b es)

theorem onlySp_add_ns (b : OSL) (c : Char) (h : b.OnlySp) (h1 : c ≠ ' ') (h2 : c ≠ '#') : HeadOK (b.add (.ns c)) := by
  rcases h with ⟨hp, _⟩ | ⟨hp, _⟩
  · exact ⟨c, [], Or.inl (by simp [OSL.add, hp]), h1, h2⟩
  · exact ⟨c, [], Or.inr (by simp [OSL.add, hp]), h1, h2⟩

theorem onlySp_addAll_ns (b : OSL) (l : List Char) (h : b.OnlySp) (hg : GH l) : HeadOK (b.addAll (l.map .ns)) := by
  obtain ⟨c, r, rfl, h1, h2⟩ := hg
  simp only [List.map_cons, OSL.addAll, List.foldl_cons]
  exact headOK_addAll (onlySp_add_ns b c h h1 h2) _

theorem headOK_cat (b : OSL) (h : HeadOK b) : category b.parts = .srcNonblank := by
  obtain ⟨c, r, hp, h1, h2⟩ := h
  rcases hp with hp | hp
  · rw [hp]
    cases r with
    | nil => simp [category, h1, h2]
    | cons y ys => simp [category, h1, h2]
  · rw [hp]
    simp [category, h2]

theorem headOK_nonblank (b : OSL) (h : HeadOK b) : b.blank = false := by
  simp [OSL.blank, headOK_cat b h]

theorem headOK_notdir (b : OSL) (h : HeadOK b) : isDirText b.parts = false := by
  simp [isDirText, headOK_cat b h]

theorem ext_join (a b : OSL) : Ext a (a.join b) := by
  unfold OSL.join
  rcases hp : b.parts with _ | ⟨p, ps⟩
  · exact ext_refl a
  · simp only
    split
    · exact ⟨ps, rfl⟩
    · exact ⟨p :: ps, rfl⟩

theorem headOK_join_left (a b : OSL) (h : HeadOK a) : HeadOK (a.join b) := headOK_ext h (ext_join a b)

theorem onlySp_join_headOK (a b : OSL) (ha : a.OnlySp) (hb : HeadOK b) : HeadOK (a.join b) := by
  obtain ⟨c, r, hp, h1, h2⟩ := hb
  unfold OSL.join
  rcases ha with ⟨ap, at'⟩ | ⟨ap, at'⟩ <;> rcases hp with hp | hp
  · rw [hp]; simp only [at', Bool.and_false, Bool.false_eq_true, if_false]
    exact ⟨c, r, Or.inl (by simp [ap]), h1, h2⟩
  · rw [hp]; simp only [at', Bool.and_false, Bool.false_eq_true, if_false]
    exact ⟨c, r, Or.inr (by simp [ap]), h1, h2⟩
  · rw [hp]
    have : (c == ' ') = false := by simpa using h1
    simp only [this, Bool.false_and, Bool.false_eq_true, if_false]
    exact ⟨c, r, Or.inr (by simp [ap]), h1, h2⟩
  · rw [hp]
    simp only [at', beq_self_eq_true, Bool.and_self, if_true]
    exact ⟨c, r, Or.inr (by simp [ap]), h1, h2⟩

theorem onlySp_join_onlySp (a b : OSL) (ha : a.OnlySp) (hb : b.OnlySp) : (a.join b).OnlySp := by
  unfold OSL.join
  rcases hb with ⟨bp, bt⟩ | ⟨bp, bt⟩
  · rw [bp]; exact ha
  · rw [bp]
    rcases ha with ⟨ap, at'⟩ | ⟨ap, at'⟩
    · simp only [at', Bool.and_false, Bool.false_eq_true, if_false]
      right; simp [ap, bt]
    · simp only [at', beq_self_eq_true, Bool.and_self, if_true]
      right; simp [ap, bt]

/-! ## characters -/

theorem ne_space_of_cls {c : Char} (h : cls c ≠ .ws) : c ≠ ' ' := by
  intro hc; subst hc; exact h (by decide)

theorem cls_hash : cls '#' = .other := by decide

theorem pyIsSpace_of_ws {c : Char} (h : cls c = .ws) : pyIsSpace c = true := by
  have := isWs_eq_pyIsSpace c
  simpa [isWs, h] using this.symm

theorem pyIsSpace_of_not_ws {c : Char} (h : cls c ≠ .ws) : pyIsSpace c = false := by
  have := isWs_eq_pyIsSpace c
  cases hp : pyIsSpace c with
  | false => rfl
  | true => rw [hp] at this; simp [isWs] at this; exact absurd this h

/-! ## once something pends or the head is fixed, the rest of the line cannot spoil it -/

/-- the cleaner is in a state in which the next thing it appends (if anything) starts with a good character -/
def Pend (s : FSt) : Prop :=
  s.scan = .done ∨ (s.scan = .bang ∧ GH s.found) ∨ (s.scan = .run ∧ ∃ r, s.stack = .verify :: r ∧ GH s.vc)

def PB (s : FSt) (b : OSL) : Prop := HeadOK b ∨ (b.OnlySp ∧ Pend s)

theorem gh_append {l : List Char} (h : GH l) (q : List Char) : GH (l ++ q) := by
  obtain ⟨c, r, rfl, h1, h2⟩ := h
  exact ⟨c, r ++ q, rfl, h1, h2⟩

theorem gh_single {c : Char} (h1 : c ≠ ' ') (h2 : c ≠ '#') : GH [c] := ⟨c, [], rfl, h1, h2⟩

theorem ne_hash_of_cls {c : Char} (h : cls c ≠ .other) : c ≠ '#' := by
  intro hc; subst hc; exact h cls_hash

theorem step_emits_prefix (s : FSt) (c : Char) : ∃ e2, (step s c).2 = (step1 s c).2.1 ++ e2 := by
  unfold step
  rcases hs : step1 s c with ⟨s1, e1, pb⟩
  cases pb with
  | false => exact ⟨[], by simp⟩
  | true =>
    rcases hs2 : step1 s1 c with ⟨s2, e2, pb2⟩
    exact ⟨e2, by simp [hs2]⟩

theorem pb_step (s : FSt) (c : Char) (b : OSL) (h : PB s b) : PB (step s c).1 (b.addAll (step s c).2) := by
  rcases h with h | ⟨ho, hp⟩
  · exact Or.inl (headOK_addAll h _)
  · obtain ⟨st, sc, vc, fd⟩ := s
    rcases hp with hd | ⟨hb, hg⟩ | ⟨hr, r, hst, hg⟩
    · simp only at hd; subst hd
      have h1 : step ⟨st, .done, vc, fd⟩ c = (⟨st, .done, vc, fd⟩, []) := by
        rw [step_nopb] <;> simp [step1]
      rw [h1]
      exact Or.inr ⟨by simpa [OSL.addAll] using ho, Or.inl rfl⟩
    · simp only at hb hg; subst hb
      generalize hk : cls c = k
      cases k
      case alpha =>
        have h1 : step ⟨st, .bang, vc, fd⟩ c = (⟨st, .bang, vc, fd ++ [c]⟩, []) := by
          rw [step_nopb] <;> simp [step1, hk]
        rw [h1]
        exact Or.inr ⟨by simpa [OSL.addAll] using ho, Or.inr (Or.inl ⟨rfl, gh_append hg _⟩)⟩
      case dollar =>
        have h1 : step ⟨st, .bang, vc, fd⟩ c = (⟨st, .sentinel, vc, []⟩, (fd ++ [c]).map .ns) := by
          rw [step_nopb] <;> simp [step1, hk]
        rw [h1]
        exact Or.inl (onlySp_addAll_ns b _ ho (gh_append hg _))
      all_goals
        have h1 : step ⟨st, .bang, vc, fd⟩ c = (⟨st, .done, vc, []⟩, []) := by
          rw [step_nopb] <;> simp [step1, hk]
        rw [h1]
        exact Or.inr ⟨by simpa [OSL.addAll] using ho, Or.inl rfl⟩
    · simp only at hr hst hg; subst hr; subst hst
      by_cases hbang : cls c = .bang ∧ r.head? = some .top
      · have h1 : step ⟨.verify :: r, .run, vc, fd⟩ c = (⟨.verify :: r, .bang, vc, [c]⟩, []) := by
          rw [step_nopb] <;> simp [step1, hbang.1, hbang.2]
        rw [h1]
        refine Or.inr ⟨by simpa [OSL.addAll] using ho, Or.inr (Or.inl ⟨rfl, gh_single ?_ ?_⟩)⟩
        · exact ne_space_of_cls (by rw [hbang.1]; simp)
        · exact ne_hash_of_cls (by rw [hbang.1]; simp)
      · by_cases hws : cls c = .ws
        · have h1 : step ⟨.verify :: r, .run, vc, fd⟩ c = (⟨.verify :: r, .run, vc ++ [c], fd⟩, []) := by
            rw [step_nopb] <;> simp [step1, hws]
          rw [h1]
          exact Or.inr ⟨by simpa [OSL.addAll] using ho, Or.inr (Or.inr ⟨rfl, r, rfl, gh_append hg _⟩)⟩
        · have h1 : (step1 ⟨.verify :: r, .run, vc, fd⟩ c).2.1 = vc.map .ns := by
            have hb' : (cls c == Cls.bang && r.head? == some Mode.top) = false := by
              rw [Bool.and_eq_false_iff]
              by_cases hb1 : cls c = .bang
              · right
                have : r.head? ≠ some Mode.top := fun hh => hbang ⟨hb1, hh⟩
                simpa using this
              · left; simpa using hb1
            simp [step1, hb', hws]
          obtain ⟨e2, he⟩ := step_emits_prefix ⟨.verify :: r, .run, vc, fd⟩ c
          rw [he, h1, addAll_append]
          exact Or.inl (headOK_addAll (onlySp_addAll_ns b vc ho hg) _)

theorem pb_final (s : FSt) (b : OSL) (h : PB s b) : b.OnlySp ∨ HeadOK b := by
  rcases h with h | ⟨h, _⟩
  · exact Or.inr h
  · exact Or.inl h

theorem pb_procChars (l : List Char) : ∀ (s : FSt) (b : OSL), PB s b →
    (procChars s b l).2.OnlySp ∨ HeadOK (procChars s b l).2 := by
  induction l with
  | nil => intro s b h; exact pb_final s b h
  | cons c cs ih => intro s b h; simp only [procChars]; exact ih _ _ (pb_step s c b h)

/-! ## the first character of a statement (cleaner at TOPLEVEL) -/

/-- first non-blank character of a line, cleaner at top level, buffer still blanks only -/
theorem pb_first_top (r : List Mode) (fd : List Char) (c : Char) (b : OSL) (ho : b.OnlySp)
    (hws : cls c ≠ .ws) (hh : c ≠ '#') :
    PB (step ⟨.top :: r, .run, [], fd⟩ c).1 (b.addAll (step ⟨.top :: r, .run, [], fd⟩ c).2) := by
  have hsp := ne_space_of_cls hws
  generalize hk : cls c = k at hws
  cases k
  case ws => exact absurd rfl hws
  case bang =>
    have h1 : step ⟨.top :: r, .run, [], fd⟩ c = (⟨[.top], .bang, [], [c]⟩, []) := by
      rw [step_nopb] <;> simp [step1, hk]
    rw [h1]
    exact Or.inr ⟨by simpa [OSL.addAll] using ho, Or.inr (Or.inl ⟨rfl, gh_single hsp hh⟩)⟩
  case amp =>
    have h1 : step ⟨.top :: r, .run, [], fd⟩ c = (⟨.verify :: .top :: r, .run, [c], fd⟩, []) := by
      rw [step_nopb] <;> simp [step1, hk]
    rw [h1]
    exact Or.inr ⟨by simpa [OSL.addAll] using ho, Or.inr (Or.inr ⟨rfl, _, rfl, gh_single hsp hh⟩)⟩
  all_goals
    have h1 : (step ⟨.top :: r, .run, [], fd⟩ c).2 = [.ns c] := by
      rw [step_nopb] <;> simp [step1, hk]
    rw [h1]
    exact Or.inl (by simpa [OSL.addAll] using onlySp_add_ns b c ho hsp hh)

/-- **Lemma A**: a line that is not a directive line, scanned with the cleaner at top level -/
theorem head_from_top (l : List Char) : ∀ (r : List Mode) (fd : List Char) (b : OSL), b.OnlySp →
    isDirectiveLine l = false →
    (procChars ⟨.top :: r, .run, [], fd⟩ b l).2.OnlySp ∨ HeadOK (procChars ⟨.top :: r, .run, [], fd⟩ b l).2 := by
  induction l with
  | nil => intro r fd b ho _; exact Or.inl (by simpa [procChars] using ho)
  | cons c cs ih =>
    intro r fd b ho hd
    simp only [procChars]
    by_cases hc : cls c = .ws
    · rw [step_ws_atCode _ c ⟨rfl, Or.inl rfl⟩ hc]
      refine ih r fd _ (onlySp_addAll b _ ho (by simp) (by simp)) ?_
      simpa [isDirectiveLine, pyIsSpace_of_ws hc] using hd
    · have hh : c ≠ '#' := by
        simp only [isDirectiveLine, pyIsSpace_of_not_ws hc, Bool.false_eq_true, if_false] at hd
        simpa using hd
      exact pb_procChars cs _ _ (pb_first_top r fd c b ho hc hh)

theorem isDirectiveLine_head (l : List Char) : isDirectiveLine l = ((dropWs l).head? == some '#') := by
  induction l with
  | nil => rfl
  | cons c cs ih =>
    by_cases hc : cls c = .ws
    · simp [isDirectiveLine, dropWs, hc, pyIsSpace_of_ws hc, ih]
    · simp [isDirectiveLine, dropWs, hc, pyIsSpace_of_not_ws hc]

/-- **Lemma B**: a continuation line (cleaner in `CONTINUING_FROM_SOL` over top level) whose statement text does not start
    with `#` -/
theorem head_from_cfs (l : List Char) : ∀ (r : List Mode) (fd : List Char) (b : OSL), b.OnlySp →
    contHead l ≠ some '#' →
    (procChars ⟨.cfs :: .top :: r, .run, [], fd⟩ b l).2.OnlySp ∨
      HeadOK (procChars ⟨.cfs :: .top :: r, .run, [], fd⟩ b l).2 := by
  induction l with
  | nil => intro r fd b ho _; exact Or.inl (by simpa [procChars] using ho)
  | cons c cs ih =>
    intro r fd b ho hd
    simp only [procChars]
    by_cases hc : cls c = .ws
    · rw [step_ws_atCode _ c ⟨rfl, Or.inr rfl⟩ hc]
      refine ih r fd _ (onlySp_addAll b _ ho (by simp) (by simp)) ?_
      simpa [contHead, dropWs, hc] using hd
    · by_cases ha : cls c = .amp
      · have h1 : step ⟨.cfs :: .top :: r, .run, [], fd⟩ c = (⟨.top :: r, .run, [], fd⟩, []) := by
          rw [step_nopb] <;> simp [step1, ha]
        rw [h1]
        have hd2 : isDirectiveLine cs = false := by
          rw [isDirectiveLine_head]
          simpa [contHead, dropWs, hc, ha] using hd
        exact head_from_top cs r fd _ (by simpa [OSL.addAll] using ho) hd2
      · have hh : c ≠ '#' := by
          simpa [contHead, dropWs, hc, ha] using hd
        by_cases hb : cls c = .bang
        · have h1 : step ⟨.cfs :: .top :: r, .run, [], fd⟩ c = (⟨.cfs :: .top :: r, .bang, [], [c]⟩, []) := by
            rw [step_nopb] <;> simp [step1, hb]
          rw [h1]
          exact pb_procChars cs _ _ (Or.inr ⟨by simpa [OSL.addAll] using ho,
            Or.inr (Or.inl ⟨rfl, gh_single (ne_space_of_cls hc) hh⟩)⟩)
        · have h1 : step ⟨.cfs :: .top :: r, .run, [], fd⟩ c = step ⟨.top :: r, .run, [], fd⟩ c := by
            generalize hk : cls c = k at hc ha hb
            cases k <;> first | exact absurd rfl hc | exact absurd rfl ha | exact absurd rfl hb | simp [step, step1, hk]
          rw [h1]
          exact pb_procChars cs _ _ (pb_first_top r fd c b ho hc hh)

end CbiVerif.Fortran
