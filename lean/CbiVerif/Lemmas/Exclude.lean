import CbiVerif.Model.Exclude
/-! Helper lemmas for C10: the tree cache of `find` is transparent as long as no language-mixing event occurs. -/
namespace CbiVerif.Exclude
open CbiVerif.PP

/-- every cached tree is what parsing the file under the recorded class yields -/
def Inv (S : Sem) (c : Cache) : Prop := ∀ g cl t, (g, cl, t) ∈ c → S.parseAs cl g = .ok t

/-- entries are never replaced -/
def CacheLe (c c' : Cache) : Prop := ∀ g x, c.look g = some x → c'.look g = some x

theorem CacheLe.refl (c : Cache) : CacheLe c c := fun _ _ h => h
theorem CacheLe.trans {a b c : Cache} (h1 : CacheLe a b) (h2 : CacheLe b c) : CacheLe a c :=
  fun g x h => h2 g x (h1 g x h)

theorem look_mem {c : Cache} {g : String} {cl : LClass} {t : Parsed} (h : c.look g = some (cl, t)) :
    (g, cl, t) ∈ c := by
  unfold Cache.look at h
  cases hf : List.find? (fun e => e.1 == g) c with
  | none => simp [hf] at h
  | some e =>
    have hm := List.mem_of_find?_eq_some hf
    have hp := List.find?_some hf
    obtain ⟨a, b, d⟩ := e
    simp [hf] at h
    simp at hp
    obtain ⟨h1, h2⟩ := h
    subst hp; subst h1; subst h2
    exact hm

theorem look_append_left {c l : Cache} {g : String} {x : LClass × Parsed} (h : c.look g = some x) :
    Cache.look (c ++ l) g = some x := by
  unfold Cache.look at h ⊢
  cases hf : List.find? (fun e => e.1 == g) c with
  | none => simp [hf] at h
  | some e =>
    simp [hf] at h
    simp [List.find?_append, hf, h]

theorem look_append_new {c : Cache} {g : String} {cl : LClass} {t : Parsed} (h : c.look g = none) :
    Cache.look (c ++ [(g, cl, t)]) g = some (cl, t) := by
  unfold Cache.look at h ⊢
  cases hf : List.find? (fun e => e.1 == g) c with
  | some e => simp [hf] at h
  | none => simp [List.find?_append, hf]

theorem Inv.nil (S : Sem) : Inv S [] := by
  intro g cl t h; cases h

theorem Inv.snoc {S : Sem} {c : Cache} {g : String} {cl : LClass} {t : Parsed}
    (h : Inv S c) (hp : S.parseAs cl g = .ok t) : Inv S (c ++ [(g, cl, t)]) := by
  intro g' cl' t' hm
  rcases List.mem_append.mp hm with hm | hm
  · exact h _ _ _ hm
  · simp at hm
    obtain ⟨rfl, rfl, rfl⟩ := hm
    exact hp

/-- `w'` is reached from `w`, and, when no mixing event is logged, the cache-free reference reaches `lref` -/
def Sim (S : Sem) (w w' : XW) (lref : Local) : Prop :=
  Inv S w'.cache ∧ CacheLe w.cache w'.cache ∧ (w'.mixed = [] → w.mixed = [] ∧ w'.loc = lref)

theorem Sim.refl {S : Sem} {w : XW} (h : Inv S w.cache) : Sim S w w w.loc :=
  ⟨h, CacheLe.refl _, fun hm => ⟨hm, rfl⟩⟩

theorem Sim.of_eq {S : Sem} {w v w' : XW} {l : Local} (hc : v.cache = w.cache) (hm : v.mixed = w.mixed)
    (h : Sim S v w' l) : Sim S w w' l := by
  obtain ⟨h1, h2, h3⟩ := h
  exact ⟨h1, hc ▸ h2, fun hx => by have := h3 hx; rw [hm] at this; exact this⟩

theorem Sim.trans {S : Sem} {w w1 w2 : XW} {l1 : Local} (F : Local → Local)
    (h1 : Sim S w w1 l1) (h2 : Sim S w1 w2 (F w1.loc)) : Sim S w w2 (F l1) := by
  refine ⟨h2.1, h1.2.1.trans h2.2.1, fun hm => ?_⟩
  obtain ⟨hm1, hl2⟩ := h2.2.2 hm
  obtain ⟨hm0, hl1⟩ := h1.2.2 hm1
  exact ⟨hm0, by rw [hl2, hl1]⟩

theorem enter_cached {S : Sem} {w : XW} {g : String} {inh : Option LClass} {cl : LClass} {t : Parsed}
    (hl : w.cache.look g = some (cl, t)) :
    S.enter w g inh = ({ w with mixed := w.mixed ++ S.mixOf g cl inh }, some (cl, t)) := by
  simp only [Sem.enter, hl]

theorem enter_nolang {S : Sem} {w : XW} {g : String} {inh : Option LClass}
    (hl : w.cache.look g = none) (hc : S.inhOrExt g inh = none) :
    S.enter w g inh = (w.fail langErr, none) := by
  simp only [Sem.enter, hl, hc]

theorem enter_err {S : Sem} {w : XW} {g : String} {inh : Option LClass} {cl : LClass} {e : Err}
    (hl : w.cache.look g = none) (hc : S.inhOrExt g inh = some cl) (hp : S.parseAs cl g = .error e) :
    S.enter w g inh = ({ w with mixed := w.mixed ++ S.mixOf g cl inh, loc := w.loc.fail e }, none) := by
  simp only [Sem.enter, hl, hc, hp]

theorem enter_ok {S : Sem} {w : XW} {g : String} {inh : Option LClass} {cl : LClass} {t : Parsed}
    (hl : w.cache.look g = none) (hc : S.inhOrExt g inh = some cl) (hp : S.parseAs cl g = .ok t) :
    S.enter w g inh =
      ({ w with mixed := w.mixed ++ S.mixOf g cl inh, cache := w.cache ++ [(g, cl, t)] }, some (cl, t)) := by
  simp only [Sem.enter, hl, hc, hp]

theorem mixOf_nil {S : Sem} {g : String} {cl : LClass} {inh : Option LClass} (h : S.mixOf g cl inh = []) :
    S.refClass g inh = some cl := by
  unfold Sem.mixOf at h
  split at h
  · rename_i hrc; exact hrc.symm
  · simp at h

theorem refClass_none {S : Sem} {g : String} {inh : Option LClass} (hc : S.inhOrExt g inh = none) :
    S.refClass g inh = none := by
  unfold Sem.inhOrExt at hc
  cases inh with
  | some l => simp at hc
  | none => simp at hc; simp [Sem.refClass, hc]

/-- the specification of `enter` against `enterRef` -/
theorem enter_spec (S : Sem) (w : XW) (g : String) (inh : Option LClass) (hI : Inv S w.cache) :
    Inv S (S.enter w g inh).1.cache ∧ CacheLe w.cache (S.enter w g inh).1.cache ∧
    ((S.enter w g inh).1.mixed = [] →
      w.mixed = [] ∧ ((S.enter w g inh).1.loc, (S.enter w g inh).2) = S.enterRef w.loc g inh) := by
  cases hl : w.cache.look g with
  | some x =>
    obtain ⟨cl, t⟩ := x
    rw [enter_cached hl]
    refine ⟨hI, CacheLe.refl _, fun hm => ?_⟩
    simp only [List.append_eq_nil_iff] at hm
    obtain ⟨hm0, hmix⟩ := hm
    refine ⟨hm0, ?_⟩
    have hp := hI _ _ _ (look_mem hl)
    simp only [Sem.enterRef, mixOf_nil hmix, hp]
  | none =>
    cases hc : S.inhOrExt g inh with
    | none =>
      rw [enter_nolang hl hc]
      refine ⟨hI, CacheLe.refl _, fun hm => ⟨hm, ?_⟩⟩
      simp [Sem.enterRef, refClass_none hc, XW.fail]
    | some cl =>
      cases hp : S.parseAs cl g with
      | error e =>
        rw [enter_err hl hc hp]
        refine ⟨hI, CacheLe.refl _, fun hm => ?_⟩
        simp only [List.append_eq_nil_iff] at hm
        obtain ⟨hm0, hmix⟩ := hm
        refine ⟨hm0, ?_⟩
        simp only [Sem.enterRef, mixOf_nil hmix, hp]
      | ok t =>
        rw [enter_ok hl hc hp]
        refine ⟨hI.snoc hp, fun g' x h => look_append_left h, fun hm => ?_⟩
        simp only [List.append_eq_nil_iff] at hm
        obtain ⟨hm0, hmix⟩ := hm
        refine ⟨hm0, ?_⟩
        simp only [Sem.enterRef, mixOf_nil hmix, hp]

/-- `enter` packaged as a `Sim` step: the pair (loc, result) is the reference's when nothing is mixed -/
theorem enter_sim (S : Sem) (w : XW) (g : String) (inh : Option LClass) (hI : Inv S w.cache) :
    Sim S w (S.enter w g inh).1 (S.enterRef w.loc g inh).1 ∧
    ((S.enter w g inh).1.mixed = [] → (S.enter w g inh).2 = (S.enterRef w.loc g inh).2) := by
  obtain ⟨h1, h2, h3⟩ := enter_spec S w g inh hI
  refine ⟨⟨h1, h2, fun hm => ?_⟩, fun hm => ?_⟩
  · obtain ⟨hm0, he⟩ := h3 hm
    exact ⟨hm0, by rw [← he]⟩
  · obtain ⟨_, he⟩ := h3 hm
    rw [← he]

def SimAssoc (S : Sem) (n : Nat) : Prop :=
  ∀ file cl t w, Inv S w.cache → Sim S w (assocTree S n file cl t w) (assocTreeRef S n file cl t w.loc)
def SimVisit (S : Sem) (n : Nat) : Prop :=
  ∀ file cl nodes w tr, Inv S w.cache → Sim S w (visit S n file cl nodes w tr) (visitRef S n file cl nodes w.loc tr)
def SimList (S : Sem) (n : Nat) : Prop :=
  ∀ file cl nodes w ts, Inv S w.cache →
    Sim S w (visitList S n file cl nodes w ts) (visitListRef S n file cl nodes w.loc ts)

theorem sim_fail {S : Sem} {w : XW} (e : Err) (h : Inv S w.cache) : Sim S w (w.fail e) (w.loc.fail e) :=
  ⟨h, CacheLe.refl _, fun hm => ⟨hm, rfl⟩⟩

theorem sim_all (S : Sem) : ∀ n, SimAssoc S n ∧ SimVisit S n ∧ SimList S n := by
  intro n
  induction n with
  | zero =>
    refine ⟨?_, ?_, ?_⟩
    · intro file cl t w hI
      simp only [assocTree, assocTreeRef]
      exact sim_fail _ hI
    · intro file cl nodes w tr hI
      simp only [visit, visitRef]
      exact sim_fail _ hI
    · intro file cl nodes w ts hI
      cases ts with
      | nil => simp only [visitList, visitListRef]; exact Sim.refl hI
      | cons t ts => simp only [visitList, visitListRef]; exact sim_fail _ hI
  | succ n ih =>
    obtain ⟨ihA, ihV, ihL⟩ := ih
    refine ⟨?_, ?_, ?_⟩
    · intro file cl t w hI
      obtain ⟨nodes, trees⟩ := t
      simp only [assocTree, assocTreeRef]
      have h := ihL file cl nodes { w with loc := { w.loc with taken := [] } } trees hI
      obtain ⟨h1, h2, h3⟩ := h
      refine ⟨h1, h2, fun hm => ?_⟩
      obtain ⟨hm0, hl⟩ := h3 hm
      exact ⟨hm0, by simp only [hl]⟩
    · intro file cl nodes w tr hI
      obtain ⟨idx, kids⟩ := tr
      simp only [visit, visitRef]
      cases herr : w.loc.err with
      | some e => simp only []; exact Sim.refl hI
      | none =>
        simp only []
        cases hstep : S.step file idx (nodes[idx]!) w.loc with
        | mk loc act =>
          cases act with
          | stay =>
            simp only []
            exact ⟨hI, CacheLe.refl _, fun hm => ⟨hm, rfl⟩⟩
          | descend =>
            simp only []
            exact ihL file cl nodes { w with loc := loc } kids hI
          | incl g =>
            simp only []
            have hE := enter_sim S { w with loc := loc } g (some cl) hI
            obtain ⟨hS, hR⟩ := hE
            cases hr : (S.enter { w with loc := loc } g (some cl)) with
            | mk w1 r =>
              rw [hr] at hS hR
              simp only [] at hS hR
              cases r with
              | none =>
                simp only []
                refine ⟨hS.1, hS.2.1, fun hm => ?_⟩
                obtain ⟨hm0, hl⟩ := hS.2.2 hm
                have hr2 := hR hm
                refine ⟨hm0, ?_⟩
                cases hq : S.enterRef loc g (some cl) with
                | mk l1 r1 =>
                  rw [hq] at hl hr2
                  simp only [] at hl hr2
                  subst hr2
                  simp only [hl]
              | some ct =>
                obtain ⟨cl2, t⟩ := ct
                simp only []
                have hA := ihA g cl2 t w1 hS.1
                refine ⟨hA.1, hS.2.1.trans hA.2.1, fun hm => ?_⟩
                obtain ⟨hm1, hl2⟩ := hA.2.2 hm
                obtain ⟨hm0, hl⟩ := hS.2.2 hm1
                have hr2 := hR hm1
                refine ⟨hm0, ?_⟩
                cases hq : S.enterRef loc g (some cl) with
                | mk l1 r1 =>
                  rw [hq] at hl hr2
                  simp only [] at hl hr2
                  subst hr2
                  simp only [hl2, hl]
    · intro file cl nodes w ts hI
      cases ts with
      | nil => simp only [visitList, visitListRef]; exact Sim.refl hI
      | cons t ts =>
        simp only [visitList, visitListRef]
        have hV := ihV file cl nodes w t hI
        have hL := ihL file cl nodes (visit S n file cl nodes w t) ts hV.1
        exact Sim.trans (fun l => visitListRef S n file cl nodes l ts) hV hL

theorem sim_assoc (S : Sem) (n : Nat) : SimAssoc S n := (sim_all S n).1

theorem sim_forced (S : Sem) (n : Nat) (dir : String) : ∀ (incs : List String) (w : XW), Inv S w.cache →
    Sim S w (runForced S n dir incs w) (runForcedRef S n dir incs w.loc) := by
  intro incs
  induction incs with
  | nil => intro w hI; simp only [runForced, runForcedRef]; exact Sim.refl hI
  | cons inc rest ih =>
    intro w hI
    obtain ⟨c, m, a, ws, er, pl, tk⟩ := w
    simp only [runForced, runForcedRef]
    cases er with
    | some e => simp only []; exact Sim.refl hI
    | none =>
      simp only []
      cases hf : S.findInc pl inc dir with
      | mk found p2 =>
        cases found with
        | none =>
          simp only []
          exact Sim.of_eq (v := ⟨c, m, ⟨a, ws, none, p2, tk⟩⟩) rfl rfl (ih _ hI)
        | some f =>
          simp only []
          obtain ⟨hS, hR⟩ := enter_sim S ⟨c, m, ⟨a, ws, none, p2, tk⟩⟩ f none hI
          cases hr : (S.enter ⟨c, m, ⟨a, ws, none, p2, tk⟩⟩ f none) with
          | mk w1 r =>
            rw [hr] at hS hR
            simp only [] at hS hR
            cases r with
            | none =>
              simp only []
              refine ⟨hS.1, hS.2.1, fun hm => ?_⟩
              obtain ⟨hm0, hl⟩ := hS.2.2 hm
              have hr2 := hR hm
              refine ⟨hm0, ?_⟩
              cases hq : S.enterRef ⟨a, ws, none, p2, tk⟩ f none with
              | mk l1 r1 =>
                rw [hq] at hl hr2
                simp only [] at hl hr2
                subst hr2
                simp only [hl]
            | some ct =>
              obtain ⟨cl2, t⟩ := ct
              simp only []
              have hA := sim_assoc S n f cl2 t w1 hS.1
              have hF := ih (assocTree S n f cl2 t w1) hA.1
              refine ⟨hF.1, (hS.2.1.trans hA.2.1).trans hF.2.1, fun hm => ?_⟩
              obtain ⟨hm2, hl3⟩ := hF.2.2 hm
              obtain ⟨hm1, hl2⟩ := hA.2.2 hm2
              obtain ⟨hm0, hl⟩ := hS.2.2 hm1
              have hr2 := hR hm1
              refine ⟨hm0, ?_⟩
              cases hq : S.enterRef ⟨a, ws, none, p2, tk⟩ f none with
              | mk l1 r1 =>
                rw [hq] at hl hr2
                simp only [] at hl hr2
                subst hr2
                simp only [hl3, hl2, hl]

theorem sim_entry (S : Sem) (n : Nat) (pname : String) (e : Entry) (w : XW) (hI : Inv S w.cache) :
    Sim S w (runEntry S n pname e w) (runEntryRef S n pname e w.loc) := by
  obtain ⟨c, m, a, ws, er, pl, tk⟩ := w
  simp only [runEntry, runEntryRef]
  cases er with
  | some e => simp only []; exact Sim.refl hI
  | none =>
    simp only []
    cases hp : S.mkPlat pname e with
    | error er => simp only []; exact sim_fail _ hI
    | ok plat =>
      simp only []
      have hF : Sim S ⟨c, m, ⟨a, ws, none, pl, tk⟩⟩ _ _ := Sim.of_eq (v := ⟨c, m, ⟨a, ws, none, plat, []⟩⟩) rfl rfl
        (sim_forced S n (dirname e.file) e.includeFiles ⟨c, m, ⟨a, ws, none, plat, []⟩⟩ hI)
      generalize hwf : runForced S n (dirname e.file) e.includeFiles
        ⟨c, m, ⟨a, ws, none, plat, []⟩⟩ = wf at hF ⊢
      generalize hlf : runForcedRef S n (dirname e.file) e.includeFiles
        ⟨a, ws, none, plat, []⟩ = lf at hF ⊢
      -- the second half is a function of the state after the forced includes
      have key : Sim S wf
          (match wf.loc.err with
            | some _ => wf
            | none =>
              match S.enter wf e.file none with
              | (w1, none) => w1
              | (w1, some (cl, t)) => assocTree S n e.file cl t w1)
          (match wf.loc.err with
            | some _ => wf.loc
            | none =>
              match S.enterRef wf.loc e.file none with
              | (l1, none) => l1
              | (l1, some (cl, t)) => assocTreeRef S n e.file cl t l1) := by
        cases herr2 : wf.loc.err with
        | some e2 => simp only []; exact Sim.refl hF.1
        | none =>
          simp only []
          obtain ⟨hS, hR⟩ := enter_sim S wf e.file none hF.1
          cases hr : (S.enter wf e.file none) with
          | mk w1 r =>
            rw [hr] at hS hR
            simp only [] at hS hR
            cases r with
            | none =>
              simp only []
              refine ⟨hS.1, hS.2.1, fun hm => ?_⟩
              obtain ⟨hm0, hl⟩ := hS.2.2 hm
              have hr2 := hR hm
              refine ⟨hm0, ?_⟩
              cases hq : S.enterRef wf.loc e.file none with
              | mk l1 r1 =>
                rw [hq] at hl hr2
                simp only [] at hl hr2
                subst hr2
                simp only [hl]
            | some ct =>
              obtain ⟨cl2, t⟩ := ct
              simp only []
              have hA := sim_assoc S n e.file cl2 t w1 hS.1
              refine ⟨hA.1, hS.2.1.trans hA.2.1, fun hm => ?_⟩
              obtain ⟨hm1, hl2⟩ := hA.2.2 hm
              obtain ⟨hm0, hl⟩ := hS.2.2 hm1
              have hr2 := hR hm1
              refine ⟨hm0, ?_⟩
              cases hq : S.enterRef wf.loc e.file none with
              | mk l1 r1 =>
                rw [hq] at hl hr2
                simp only [] at hl hr2
                subst hr2
                simp only [hl2, hl]
      exact Sim.trans
        (fun l => match l.err with
          | some _ => l
          | none =>
            match S.enterRef l e.file none with
            | (l1, none) => l1
            | (l1, some (cl, t)) => assocTreeRef S n e.file cl t l1) hF key

theorem sim_entries (S : Sem) (n : Nat) (pname : String) : ∀ (es : List Entry) (w : XW), Inv S w.cache →
    Sim S w (runEntries S n pname es w) (runEntriesRef S n pname es w.loc) := by
  intro es
  induction es with
  | nil => intro w hI; simp only [runEntries, runEntriesRef]; exact Sim.refl hI
  | cons e es ih =>
    intro w hI
    simp only [runEntries, runEntriesRef]
    have h1 := sim_entry S n pname e w hI
    exact Sim.trans (fun l => runEntriesRef S n pname es l) h1 (ih _ h1.1)

theorem sim_config (S : Sem) (n : Nat) : ∀ (cfg : List (String × List Entry)) (w : XW), Inv S w.cache →
    Sim S w (runConfig S n cfg w) (runConfigRef S n cfg w.loc) := by
  intro cfg
  induction cfg with
  | nil => intro w hI; simp only [runConfig, runConfigRef]; exact Sim.refl hI
  | cons pe rest ih =>
    intro w hI
    obtain ⟨p, es⟩ := pe
    simp only [runConfig, runConfigRef]
    have h1 := sim_entries S n p es w hI
    exact Sim.trans (fun l => runConfigRef S n rest l) h1 (ih _ h1.1)

/-! pre-parsing: by extension only -/

/-- every cached file with an extension class is cached under that class -/
def ByExt (S : Sem) (c : Cache) : Prop := ∀ g cl t, (g, cl, t) ∈ c → S.extClass g = some cl

theorem enter_loc {S : Sem} {w : XW} {g : String} {inh : Option LClass}
    (h : (S.enter w g inh).1.loc.err = none) : (S.enter w g inh).1.loc = w.loc := by
  cases hl : w.cache.look g with
  | some x =>
    obtain ⟨cl, t⟩ := x
    rw [enter_cached hl]
  | none =>
    cases hc : S.inhOrExt g inh with
    | none => rw [enter_nolang hl hc] at h; simp [XW.fail, Local.fail] at h
    | some cl =>
      cases hp : S.parseAs cl g with
      | error e => rw [enter_err hl hc hp] at h; simp [Local.fail] at h
      | ok t => rw [enter_ok hl hc hp]

/-- after a successful `enter … none` the file is cached, under its extension class if the cache is `ByExt` -/
theorem enter_none_cached {S : Sem} {w : XW} {g : String} (hB : ByExt S w.cache)
    (h : (S.enter w g none).1.loc.err = none) (h0 : w.loc.err = none) :
    ByExt S (S.enter w g none).1.cache ∧
    ∃ cl t, S.extClass g = some cl ∧ (S.enter w g none).1.cache.look g = some (cl, t) := by
  cases hl : w.cache.look g with
  | some x =>
    obtain ⟨cl, t⟩ := x
    rw [enter_cached hl]
    exact ⟨hB, cl, t, hB _ _ _ (look_mem hl), hl⟩
  | none =>
    cases hc : S.inhOrExt g none with
    | none => rw [enter_nolang hl hc] at h; simp [XW.fail, Local.fail] at h
    | some cl =>
      cases hp : S.parseAs cl g with
      | error e => rw [enter_err hl hc hp] at h; simp [Local.fail] at h
      | ok t =>
        rw [enter_ok hl hc hp]
        have hx : S.extClass g = some cl := by simpa [Sem.inhOrExt] using hc
        refine ⟨?_, cl, t, hx, look_append_new hl⟩
        intro g' cl' t' hm
        rcases List.mem_append.mp hm with hm | hm
        · exact hB _ _ _ hm
        · simp at hm
          obtain ⟨rfl, rfl, rfl⟩ := hm
          exact hx

theorem preparse_spec (S : Sem) : ∀ (fs : List String) (w : XW), Inv S w.cache → ByExt S w.cache →
    (preparse S fs w).loc.err = none →
    Inv S (preparse S fs w).cache ∧ ByExt S (preparse S fs w).cache ∧ CacheLe w.cache (preparse S fs w).cache ∧
    (preparse S fs w).loc = w.loc ∧ (preparse S fs w).mixed = w.mixed ∧
    ∀ f ∈ fs, ∃ cl t, S.extClass f = some cl ∧ (preparse S fs w).cache.look f = some (cl, t) := by
  intro fs
  induction fs with
  | nil =>
    intro w hI hB _
    simp only [preparse]
    exact ⟨hI, hB, CacheLe.refl _, trivial, trivial, fun f hf => by cases hf⟩
  | cons f fs ih =>
    intro w hI hB herr
    simp only [preparse] at herr ⊢
    cases h0 : w.loc.err with
    | some e => simp only [h0] at herr; cases herr
    | none =>
      simp only [h0] at herr ⊢
      obtain ⟨hI1, hLe1, _⟩ := enter_spec S w f none hI
      have hmix1 : (S.enter w f none).1.mixed = w.mixed := by
        cases hl : w.cache.look f with
        | some x =>
          obtain ⟨cl, t⟩ := x
          have hx := hB _ _ _ (look_mem hl)
          rw [enter_cached hl]
          simp [Sem.mixOf, Sem.refClass, hx]
        | none =>
          cases hc : S.inhOrExt f none with
          | none => rw [enter_nolang hl hc]; rfl
          | some cl =>
            have hx : S.extClass f = some cl := by simpa [Sem.inhOrExt] using hc
            cases hp : S.parseAs cl f with
            | error e => rw [enter_err hl hc hp]; simp [Sem.mixOf, Sem.refClass, hx]
            | ok t => rw [enter_ok hl hc hp]; simp [Sem.mixOf, Sem.refClass, hx]
      -- the rest of the list starts from the state after `enter`
      have hB1err : (S.enter w f none).1.loc.err = none := by
        cases h1 : (S.enter w f none).1.loc.err with
        | none => rfl
        | some e =>
          have : preparse S fs (S.enter w f none).1 = (S.enter w f none).1 := by
            cases fs with
            | nil => simp only [preparse]
            | cons f2 fs2 => simp only [preparse, h1]
          rw [this, h1] at herr; cases herr
      obtain ⟨hB1, cl, t, hx, hlook⟩ := enter_none_cached hB hB1err h0
      obtain ⟨hI2, hB2, hLe2, hloc2, hmix2, hall⟩ := ih (S.enter w f none).1 hI1 hB1 herr
      refine ⟨hI2, hB2, hLe1.trans hLe2, ?_, ?_, ?_⟩
      · rw [hloc2, enter_loc hB1err]
      · rw [hmix2, hmix1]
      · intro f' hf'
        rcases List.mem_cons.mp hf' with rfl | hf'
        · exact ⟨cl, t, hx, hLe2 _ _ hlook⟩
        · exact hall f' hf'

/-! the finished analysis -/

theorem find_spec (S : Sem) (n : Nat) (cb : List String) (cfg : List (String × List Entry))
    (hpre : (preparse S (cb ++ entryFiles cfg) {}).loc.err = none) :
    Inv S (find S n cb cfg).cache ∧
    ((find S n cb cfg).mixed = [] → (find S n cb cfg).loc = findRef S n cfg) ∧
    ∀ f ∈ cb ++ entryFiles cfg, ∃ cl t, S.extClass f = some cl ∧ S.parseAs cl f = .ok t ∧
      (find S n cb cfg).cache.look f = some (cl, t) := by
  obtain ⟨hI0, _, _, hloc0, _, hall⟩ :=
    preparse_spec S (cb ++ entryFiles cfg) {} (Inv.nil S) (fun g cl t h => by cases h) hpre
  have hS := sim_config S n cfg (preparse S (cb ++ entryFiles cfg) {}) hI0
  refine ⟨hS.1, fun hm => ?_, fun f hf => ?_⟩
  · obtain ⟨_, hl⟩ := hS.2.2 hm
    rw [find, hl, hloc0]; rfl
  · obtain ⟨cl, t, hx, hlook⟩ := hall f hf
    have h2 := hS.2.1 _ _ hlook
    exact ⟨cl, t, hx, hS.1 _ _ _ (look_mem h2), h2⟩

/-! setmap sums -/

theorem setmapOf_split (rows : String → List (List String × Nat)) (X : String → Bool) (key : List String) :
    ∀ members : List String, setmapOf rows members key =
      setmapOf rows (members.filter fun f => !X f) key + setmapOf rows (members.filter X) key := by
  intro members
  induction members with
  | nil => simp [setmapOf]
  | cons f ms ih =>
    unfold setmapOf at ih ⊢
    cases hx : X f <;> simp [List.filter_cons, hx, ih] <;> omega

theorem setmapOf_congr {rows1 rows2 : String → List (List String × Nat)} {members : List String}
    (h : ∀ f ∈ members, rows1 f = rows2 f) (key : List String) :
    setmapOf rows1 members key = setmapOf rows2 members key := by
  unfold setmapOf
  congr 1
  apply List.map_congr_left
  intro f hf
  rw [h f hf]

end CbiVerif.Exclude
