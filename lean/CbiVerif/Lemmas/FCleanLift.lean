import CbiVerif.Lemmas.FCleanSim
/-!
Lift of the per-dispatch simulation to characters (`step`), lines (`procLine`)
and the buffer (`OSL`): for every line the reference accepts, the cleaner ends in
the state that abstracts the reference's next mode, and — outside finding class
F-C17-1 — its buffer is non-blank exactly when the reference counts the line.
-/
namespace CbiVerif.Fortran
open Tbl

/-! ## one input character (with putback) and end of line -/

theorem step_abs (s : FSt) (c : Char) (h : Inv s) :
    absF (step s c).1 = (Tbl.step (absF s) (cls c)).1 ∧
    anyVis (step s c).2 = anyVisible (Tbl.step (absF s) (cls c)).2 ∧
    anyLit (step s c).2 = anyLitWs (Tbl.step (absF s) (cls c)).2 ∧
    Inv (step s c).1 := by
  obtain ⟨a1, a2, a3, a4, a5⟩ := step1_sim s c h
  unfold step Tbl.step
  rcases hs : step1 s c with ⟨s1, e1, pb⟩
  rcases hs' : Tbl.step1 (absF s) (cls c) with ⟨s1', e1', pb'⟩
  rw [hs, hs'] at a1 a2 a3 a4
  rw [hs] at a5
  simp only at a1 a2 a3 a4 a5
  subst a2
  cases pb with
  | false => exact ⟨a1, a3, a4, a5⟩
  | true =>
    obtain ⟨b1, _, b3, b4, b5⟩ := step1_sim s1 c a5
    rw [a1] at b1 b3 b4
    rcases hs2 : step1 s1 c with ⟨s2, e2, pb2⟩
    rcases hs2' : Tbl.step1 s1' (cls c) with ⟨s2', e2', pb2'⟩
    rw [hs2, hs2'] at b1 b3 b4
    rw [hs2] at b5
    simp only [hs2, hs2'] at b1 b3 b4 b5 ⊢
    refine ⟨b1, ?_, ?_, b5⟩
    · rw [anyVis_append, a3, b3]; simp [anyVisible]
    · rw [anyLit_append, a4, b4]; simp [anyLitWs]

theorem endLine_abs (s : FSt) (h : Inv s) :
    absF (endLine s) = Tbl.endLine (absF s) ∧ Inv (endLine s) := by
  obtain ⟨st, sc, vc, found⟩ := s
  obtain ⟨h1, h2, h3, h4⟩ := h
  simp only at h1 h2 h3 h4
  cases st with
  | nil => refine ⟨?_, ⟨?_, ?_, ?_, ?_⟩⟩ <;> simp_all [endLine, Tbl.endLine, absF]
  | cons m r =>
    cases m <;> (refine ⟨?_, ⟨?_, ?_, ?_, ?_⟩⟩ <;> simp_all [endLine, Tbl.endLine, absF])

/-- simulation relation between the executed cleaner state and a reference mode -/
def RlF (s : FSt) (m : RF) : Prop := Inv s ∧ Rl (absF s) m

theorem init_rlF : RlF {} .code := ⟨init_inv, rfl⟩

theorem stepF_sim (s : FSt) (m : RF) (c : Char) (o : ROut) (h : RlF s m) (ho : rstep m (cls c) = some o) :
    RlF (step s c).1 o.mode ∧ anyVis (step s c).2 = o.vis ∧ anyLit (step s c).2 = o.lit := by
  obtain ⟨a1, a2, a3, a4⟩ := step_abs s c h.1
  obtain ⟨b1, b2, b3⟩ := Tbl.step_sim (absF s) m (cls c) o h.2 ho
  exact ⟨⟨a4, a1 ▸ b1⟩, a2.trans b2, a3.trans b3⟩

theorem endF_sim (s : FSt) (m m' : RF) (h : RlF s m) (he : rend m = some m') : RlF (endLine s) m' := by
  obtain ⟨a1, a2⟩ := endLine_abs s h.1
  exact ⟨a2, a1 ▸ Tbl.end_sim (absF s) m m' h.2 he⟩

/-! ## buffer lemmas -/

def OSL.hasVis (b : OSL) : Bool := hasNonWs b.parts
def OSL.OnlySp (b : OSL) : Prop :=
  (b.parts = [] ∧ b.trailing = false) ∨ (b.parts = [' '] ∧ b.trailing = true)

theorem isWs_space : isWs ' ' = true := by decide

theorem hasVis_add (b : OSL) (e : Emit) : (b.add e).hasVis = (b.hasVis || e.visible) := by
  cases e with
  | sp =>
    simp only [OSL.add, vis_sp, Bool.or_false]
    split
    · rfl
    · simp [OSL.hasVis, isWs_space]
  | ns c => simp [OSL.add, OSL.hasVis, vis_ns]

theorem hasVis_addAll (b : OSL) (es : List Emit) : (b.addAll es).hasVis = (b.hasVis || anyVis es) := by
  induction es generalizing b with
  | nil => simp [OSL.addAll]
  | cons e es ih =>
    simp only [OSL.addAll, List.foldl_cons] at ih ⊢
    rw [ih, hasVis_add]; simp [Bool.or_assoc]

theorem onlySp_add (b : OSL) (e : Emit) (h : b.OnlySp) (hv : e.visible = false) (hl : e.litWs = false) :
    (b.add e).OnlySp := by
  cases e with
  | sp =>
    rcases h with ⟨hp, ht⟩ | ⟨hp, ht⟩
    · right; simp [OSL.add, hp, ht]
    · right; simp [OSL.add, hp, ht]
  | ns c =>
    rw [vis_ns] at hv; rw [lit_ns] at hl
    simp [hl] at hv

theorem onlySp_addAll (b : OSL) (es : List Emit) (h : b.OnlySp) (hv : anyVis es = false)
    (hl : anyLit es = false) : (b.addAll es).OnlySp := by
  induction es generalizing b with
  | nil => simpa [OSL.addAll] using h
  | cons e es ih =>
    simp only [anyVis_cons, anyLit_cons, Bool.or_eq_false_iff] at hv hl
    simp only [OSL.addAll, List.foldl_cons]
    exact ih _ (onlySp_add b e h hv.1 hl.1) hv.2 hl.2

theorem blank_of_onlySp (b : OSL) (h : b.OnlySp) : b.blank = true := by
  rcases h with ⟨hp, _⟩ | ⟨hp, _⟩ <;> simp [OSL.blank, category, hp]

theorem blank_of_hasVis (b : OSL) (h : b.hasVis = true) : b.blank = false := by
  unfold OSL.blank OSL.hasVis at *
  cases hp : b.parts with
  | nil => simp [hp] at h
  | cons x xs =>
    cases xs with
    | nil =>
      simp only [hp, hasNonWs_single, Bool.not_eq_true'] at h
      have hx : x ≠ ' ' := fun hx => by rw [hx, isWs_space] at h; exact absurd h (by simp)
      simp only [category]
      split
      · simp_all
      · split <;> simp
    | cons y ys =>
      simp only [category]
      split <;> simp

/-- buffer invariant on a line: `v`/`l` = some visible / literal-blank emission so far -/
structure BInv (b : OSL) (v l : Bool) : Prop where
  vis : b.hasVis = v
  only : v = false → l = false → b.OnlySp

theorem BInv.addAll {b : OSL} {v l : Bool} (h : BInv b v l) (es : List Emit) :
    BInv (b.addAll es) (v || anyVis es) (l || anyLit es) := by
  refine ⟨by rw [hasVis_addAll, h.vis], ?_⟩
  intro hv hl
  simp only [Bool.or_eq_false_iff] at hv hl
  exact onlySp_addAll b es (h.only hv.1 hl.1) hv.2 hl.2

theorem BInv.counted {b : OSL} {v l : Bool} (h : BInv b v l) (hk : l = true → v = true) : (!b.blank) = v := by
  cases v with
  | true => simp [blank_of_hasVis b h.vis]
  | false =>
    have hl : l = false := by cases l <;> simp_all
    simp [blank_of_onlySp b (h.only rfl hl)]

theorem binv_empty : BInv ({} : OSL) false false :=
  ⟨rfl, fun _ _ => Or.inl ⟨rfl, rfl⟩⟩

/-! ## lines -/

theorem chars_sim (chars : List Char) : ∀ (s : FSt) (m : RF) (buf : OSL) (v l : Bool) (a0 a : RAcc),
    RlF s m → a0.mode = m → BInv buf v l → v = a0.vis → l = a0.lit → rchars a0 chars = some a →
    ∃ v' l', RlF (procChars s buf chars).1 a.mode ∧ BInv (procChars s buf chars).2 v' l' ∧
      v' = a.vis ∧ l' = a.lit := by
  induction chars with
  | nil =>
    intro s m buf v l a0 a hR hm hb hv hl hr
    simp only [rchars, Option.some.injEq] at hr
    subst hr
    exact ⟨v, l, by simpa [procChars, hm] using hR, by simpa [procChars] using hb, hv, hl⟩
  | cons c cs ih =>
    intro s m buf v l a0 a hR hm hb hv hl hr
    simp only [rchars] at hr
    split at hr
    · simp at hr
    · cases ho : rstep a0.mode (cls c) with
      | none => simp [ho] at hr
      | some o =>
        simp only [ho] at hr
        obtain ⟨hs1, hs2, hs3⟩ := stepF_sim s m c o hR (hm ▸ ho)
        simp only [procChars]
        exact ih _ o.mode _ (v || anyVis (step s c).2) (l || anyLit (step s c).2)
          ⟨o.mode, a0.vis || o.vis, a0.lit || o.lit⟩ a hs1 rfl (hb.addAll _) (by rw [hs2, hv]) (by rw [hs3, hl]) hr

/-- one line: the next cleaner state abstracts the reference's next mode, and outside
F-C17-1 the buffer is non-blank iff the reference counts the line -/
theorem line_sim (s : FSt) (m : RF) (l : List Char) (r : RLine) (hR : RlF s m) (h : rline m l = some r) :
    RlF (procLine s l).1 r.next ∧ (r.k = false → (!(procLine s l).2.blank) = r.counted) := by
  unfold rline at h
  cases hr : rchars ⟨m, false, false⟩ l with
  | none => simp [hr] at h
  | some a =>
    simp only [hr] at h
    cases he : rend a.mode with
    | none => simp [he] at h
    | some m2 =>
      simp only [he, Option.some.injEq] at h
      subst h
      obtain ⟨v', l', h1, h2, h3, h4⟩ :=
        chars_sim l s m {} false false ⟨m, false, false⟩ a hR rfl binv_empty rfl rfl hr
      refine ⟨endF_sim _ _ _ h1 he, ?_⟩
      intro hk
      simp only [procLine]
      subst h3 h4
      simp only [Bool.and_eq_false_iff, Bool.not_eq_false'] at hk
      rw [h2.counted (by intro hl; rcases hk with hk | hk <;> simp_all)]
      rcases hk with hk | hk <;> simp_all


end CbiVerif.Fortran
