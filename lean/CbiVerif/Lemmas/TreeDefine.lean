import CbiVerif.Model.Assoc
/-! Lemmas for `C01.define_order`: the flat machine run with CBI's keep-first `#define`
(`semCBI`) and with C's overwrite `#define` (`semC`) stay *equal* as long as the reference
has not raised its redefinition diagnostic; the diagnostic is sticky. -/
namespace CbiVerif.Cond
variable {B E : Type} [DecidableEq B]

theorem defineC_diag_mono (w : MWorld B E) (n : String) (b : B) (h : w.diag = true) :
    (w.defineC n b).diag = true := by
  unfold MWorld.defineC
  cases lookup w.tbl n with
  | none => simpa using h
  | some b' => by_cases hb : b' = b <;> simp [hb, h]

theorem execC_diag_mono (L : Lang B E) (w : MWorld B E) (p : Nat) (h : w.diag = true) :
    (MWorld.execC L w p).diag = true := by
  unfold MWorld.execC
  cases w.err with
  | some e => simpa using h
  | none =>
    cases L.act p with
    | define n b => exact defineC_diag_mono w n b h
    | undef n => simpa [MWorld.undef] using h
    | fail e => simpa using h
    | nop => simpa using h

theorem evalIf_diag (L : Lang B E) (w : MWorld B E) (p : Nat) :
    (MWorld.evalIf L w p).2.diag = w.diag := by
  unfold MWorld.evalIf
  cases w.err with
  | some e => rfl
  | none => cases L.cond w.tbl p <;> rfl

theorem refStep_diag_mono (L : Lang B E) (r : RState (MWorld B E)) (l : Lbl) (h : r.σ.diag = true) :
    (refStep (semC L) r l).σ.diag = true := by
  obtain ⟨id, k, p⟩ := l
  cases k with
  | code => simp only [refStep]; split <;> exact h
  | other =>
    simp only [refStep]
    split
    · exact execC_diag_mono L _ _ h
    · exact h
  | ifk =>
    simp only [refStep]
    split
    · simp only [semC, evalIf_diag]; exact h
    · exact h
  | elifk =>
    simp only [refStep]
    cases r.stack with
    | nil => exact h
    | cons f fs =>
      simp only
      split
      · exact h
      · split
        · exact h
        · split
          · exact h
          · simp only [semC, evalIf_diag]; exact h
  | elsek =>
    simp only [refStep]
    cases r.stack with
    | nil => exact h
    | cons f fs =>
      simp only
      split
      · exact h
      · split <;> exact h
  | endk =>
    simp only [refStep]
    cases r.stack with
    | nil => exact h
    | cons f fs => simp only; split <;> exact h

theorem refRun_diag_mono (L : Lang B E) (ls : List Lbl) (r : RState (MWorld B E)) (h : r.σ.diag = true) :
    (refRun (semC L) r ls).σ.diag = true := by
  induction ls generalizing r with
  | nil => exact h
  | cons l ls ih => exact ih _ (refStep_diag_mono L r l h)

/-- one `#define`: keep-first and overwrite coincide unless the diagnostic is raised -/
theorem define_agree (w : MWorld B E) (n : String) (b : B) :
    (w.defineC n b).diag = true ∨ w.defineCBI n b = w.defineC n b := by
  unfold MWorld.defineC MWorld.defineCBI
  cases lookup w.tbl n with
  | none => exact Or.inr rfl
  | some b' => by_cases hb : b' = b <;> simp [hb]

theorem exec_agree (L : Lang B E) (w : MWorld B E) (p : Nat) :
    (MWorld.execC L w p).diag = true ∨ MWorld.execCBI L w p = MWorld.execC L w p := by
  unfold MWorld.execC MWorld.execCBI
  cases w.err with
  | some e => exact Or.inr rfl
  | none =>
    cases L.act p with
    | define n b => exact define_agree w n b
    | undef n => exact Or.inr rfl
    | fail e => exact Or.inr rfl
    | nop => exact Or.inr rfl

/-- the two runs are in step: either the reference has diagnosed a redefinition, or the states are equal -/
def Sync (r1 r2 : RState (MWorld B E)) : Prop := r2.σ.diag = true ∨ r1 = r2

theorem refStep_sync (L : Lang B E) (r1 r2 : RState (MWorld B E)) (l : Lbl) (h : Sync r1 r2) :
    Sync (refStep (semCBI L) r1 l) (refStep (semC L) r2 l) := by
  rcases h with h | h
  · exact Or.inl (refStep_diag_mono L r2 l h)
  · subst h
    obtain ⟨id, k, p⟩ := l
    cases k with
    | code => exact Or.inr rfl
    | ifk => exact Or.inr rfl
    | elifk => exact Or.inr rfl
    | elsek => exact Or.inr rfl
    | endk => exact Or.inr rfl
    | other =>
      simp only [refStep, semCBI, semC]
      cases r1.active with
      | false => exact Or.inr rfl
      | true =>
        simp only [if_true]
        rcases exec_agree L r1.σ p with h | h
        · exact Or.inl h
        · exact Or.inr (by rw [h])

theorem refRun_sync (L : Lang B E) (ls : List Lbl) (r1 r2 : RState (MWorld B E)) (h : Sync r1 r2) :
    Sync (refRun (semCBI L) r1 ls) (refRun (semC L) r2 ls) := by
  induction ls generalizing r1 r2 with
  | nil => exact h
  | cons l ls ih => exact ih _ _ (refStep_sync L r1 r2 l h)

end CbiVerif.Cond
