/-! Prototype: fortran_cleaner line counting vs free-form reference — class level, decide-table technique. -/
namespace CbiVerif.FLex

inductive Cls | bang | amp | dq | sq | dollar | alpha | ws | bslash | other
deriving DecidableEq, Repr

inductive Mode | top | dq | sq | esc | verify | cfs
deriving DecidableEq, Repr

/-- progress of `dir_check` within the current line -/
inductive Scan | run | bang | sentinel | done
deriving DecidableEq, Repr

inductive Emit | sp | ns (c : Cls)
deriving DecidableEq, Repr

structure CSt where
  stack : List Mode      -- head = state[-1]
  scan : Scan
  vws : Bool             -- verify_continue holds white space after the '&'
deriving DecidableEq, Repr

/-- one dispatch of `fortran_cleaner.process`; last component = putback -/
def step1 (s : CSt) (c : Cls) : CSt × List Emit × Bool :=
  match s.scan with
  | .done => (s, [], false)
  | .sentinel => (s, [.ns c], false)
  | .bang =>
    match c with
    | .dollar => ({ s with scan := .sentinel }, [.ns .bang, .ns .dollar], false)
    | .alpha => (s, [], false)
    | _ => ({ s with scan := .done }, [], false)
  | .run =>
    match s.stack with
    | [] => (s, [], false)
    | .top :: r =>
      match c with
      | .bslash => ({ s with stack := .esc :: .top :: r }, [.ns c], false)
      | .bang => ({ s with stack := [.top], scan := .bang }, [], false)
      | .amp => ({ s with stack := .verify :: .top :: r, vws := false }, [], false)
      | .dq => ({ s with stack := .dq :: .top :: r }, [.ns c], false)
      | .sq => ({ s with stack := .sq :: .top :: r }, [.ns c], false)
      | .ws => (s, [.sp], false)
      | _ => (s, [.ns c], false)
    | .cfs :: r =>
      match c with
      | .ws => (s, [.sp], false)
      | .amp => ({ s with stack := r }, [], false)
      | .bang => ({ s with scan := .bang }, [], false)
      | _ => ({ s with stack := r }, [], true)
    | .dq :: r =>
      match c with
      | .bslash => ({ s with stack := .esc :: .dq :: r }, [.ns c], false)
      | .dq => ({ s with stack := r }, [.ns c], false)
      | .amp => ({ s with stack := .verify :: .dq :: r, vws := false }, [], false)
      | _ => (s, [.ns c], false)
    | .sq :: r =>
      match c with
      | .bslash => ({ s with stack := .esc :: .sq :: r }, [.ns c], false)
      | .sq => ({ s with stack := r }, [.ns c], false)
      | .amp => ({ s with stack := .verify :: .sq :: r, vws := false }, [], false)
      | _ => (s, [.ns c], false)
    | .esc :: r => ({ s with stack := r }, [.ns c], false)
    | .verify :: r =>
      if c == .bang && r.head? == some .top then ({ s with scan := .bang }, [], false)
      else if c != .ws then
        ({ s with stack := r, vws := false }, (.ns .amp) :: (if s.vws then [.ns .ws] else []), true)
      else ({ s with vws := true }, [], false)

def step (s : CSt) (c : Cls) : CSt × List Emit :=
  match step1 s c with
  | (s1, e1, true) => match step1 s1 c with | (s2, e2, _) => (s2, e1 ++ e2)
  | (s1, e1, false) => (s1, e1)

/-- end of `process` (per line) and start of the next line: `scan` is line-local -/
def endLine (s : CSt) : CSt :=
  match s.stack with
  | .verify :: r => { stack := .cfs :: r, scan := .run, vws := false }
  | st => { stack := st, scan := .run, vws := false }

def Emit.visible : Emit → Bool | .ns .ws => false | .ns _ => true | .sp => false
def Emit.litWs : Emit → Bool | .ns .ws => true | _ => false
def anyVisible (es : List Emit) : Bool := es.any Emit.visible
def anyLitWs (es : List Emit) : Bool := es.any Emit.litWs

/-! ## Reference: free-form Fortran source form -/
inductive Ctx | top | dq | sq deriving DecidableEq, Repr
inductive Site | code | cont | amp deriving DecidableEq, Repr

inductive RF
  | start (c : Ctx)            -- beginning of a continuation line
  | code
  | inDq | inSq
  | ampTop (w : Bool)
  | ampDq (w : Bool) | ampSq (w : Bool)
  | bang (s : Site) | sent (s : Site) | comm (s : Site)
deriving DecidableEq, Repr

structure ROut where
  mode : RF
  vis : Bool     -- something visible (statement text / sentinel) becomes known on this line
  lit : Bool     -- a blank inside a character context (or sentinel text)

def inLit (ctx : Ctx) (c : Cls) (pend : Bool) (w : Bool) : Option ROut :=
  -- process `c` inside a character context `ctx` (after a pending '&' turned out to be text if `pend`)
  match ctx, c with
  | _, .bslash => none
  | .dq, .dq => some ⟨.code, true, w⟩
  | .sq, .sq => some ⟨.code, true, w⟩
  | .dq, .amp => some ⟨.ampDq false, pend, w⟩
  | .sq, .amp => some ⟨.ampSq false, pend, w⟩
  | .dq, .ws => some ⟨.inDq, pend, true⟩
  | .sq, .ws => some ⟨.inSq, pend, true⟩
  | .dq, _ => some ⟨.inDq, true, w⟩
  | .sq, _ => some ⟨.inSq, true, w⟩
  | .top, _ => none

def codeStep (c : Cls) : Option ROut :=
  match c with
  | .bslash => none
  | .bang => some ⟨.bang .code, false, false⟩
  | .amp => some ⟨.ampTop false, false, false⟩
  | .dq => some ⟨.inDq, true, false⟩
  | .sq => some ⟨.inSq, true, false⟩
  | .ws => some ⟨.code, false, false⟩
  | _ => some ⟨.code, true, false⟩

/-- `none` = not a well-formed free-form line -/
def rstep (m : RF) (c : Cls) : Option ROut :=
  match m with
  | .code => codeStep c
  | .inDq => inLit .dq c false false
  | .inSq => inLit .sq c false false
  | .ampTop _ =>
    match c with
    | .ws => some ⟨.ampTop true, false, false⟩
    | .bang => some ⟨.bang .amp, false, false⟩
    | _ => none
  | .ampDq w => if c == .ws then some ⟨.ampDq true, false, false⟩ else inLit .dq c true w
  | .ampSq w => if c == .ws then some ⟨.ampSq true, false, false⟩ else inLit .sq c true w
  | .start .top =>
    match c with
    | .ws => some ⟨.start .top, false, false⟩
    | .amp => some ⟨.code, false, false⟩
    | .bang => some ⟨.bang .cont, false, false⟩
    | _ => codeStep c
  | .start .dq =>
    match c with
    | .ws => some ⟨.start .dq, false, false⟩
    | .amp => some ⟨.inDq, false, false⟩
    | _ => none
  | .start .sq =>
    match c with
    | .ws => some ⟨.start .sq, false, false⟩
    | .amp => some ⟨.inSq, false, false⟩
    | _ => none
  | .bang s =>
    match c with
    | .alpha => some ⟨.bang s, false, false⟩
    | .dollar => some ⟨.sent s, true, false⟩
    | _ => some ⟨.comm s, false, false⟩
  | .sent s => some ⟨.sent s, c != .ws, c == .ws⟩
  | .comm s => some ⟨.comm s, false, false⟩

/-- reference at end of line: the mode in which the next line starts -/
def rend : RF → Option RF
  | .code => some .code
  | .ampTop _ => some (.start .top)
  | .ampDq _ => some (.start .dq)
  | .ampSq _ => some (.start .sq)
  | .bang .code | .sent .code | .comm .code => some .code
  | .bang _ | .sent _ | .comm _ => some (.start .top)
  | .start c => some (.start c)
  | .inDq | .inSq => none

/-! ## Abstraction -/
def ctxStack : Ctx → List Mode | .top => [.top] | .dq => [.dq, .top] | .sq => [.sq, .top]
def siteStack : Site → List Mode | .code => [.top] | .cont => [.cfs, .top] | .amp => [.verify, .top]

def absSt : RF → CSt
  | .code => ⟨[.top], .run, false⟩
  | .inDq => ⟨[.dq, .top], .run, false⟩
  | .inSq => ⟨[.sq, .top], .run, false⟩
  | .ampTop w => ⟨[.verify, .top], .run, w⟩
  | .ampDq w => ⟨[.verify, .dq, .top], .run, w⟩
  | .ampSq w => ⟨[.verify, .sq, .top], .run, w⟩
  | .start c => ⟨.cfs :: ctxStack c, .run, false⟩
  | .bang s => ⟨siteStack s, .bang, false⟩
  | .sent s => ⟨siteStack s, .sentinel, false⟩
  | .comm s => ⟨siteStack s, .done, false⟩

/-- `vws` only matters while a '&' is being verified -/
def relevant (s : CSt) : Bool := s.scan == .run && s.stack.head? == some .verify
def proj (s : CSt) : List Mode × Scan × Bool := (s.stack, s.scan, relevant s && s.vws)

def allRF : List RF :=
  [.start .top, .start .dq, .start .sq, .code, .inDq, .inSq, .ampTop false, .ampTop true, .ampDq false, .ampDq true, .ampSq false, .ampSq true,
   .bang .code, .bang .cont, .bang .amp, .sent .code, .sent .cont, .sent .amp, .comm .code, .comm .cont, .comm .amp]
def allC : List Cls := [.bang, .amp, .dq, .sq, .dollar, .alpha, .ws, .bslash, .other]

/-- representative cleaner state for reference mode `m` with an arbitrary irrelevant `vws` -/
def repSt (m : RF) (v : Bool) : CSt := if relevant (absSt m) then absSt m else { absSt m with vws := v }

def stepOK (m : RF) (v : Bool) (c : Cls) : Bool :=
  match rstep m c with
  | none => true
  | some o =>
    let r := step (repSt m v) c
    (proj r.1 == proj (absSt o.mode)) && (anyVisible r.2 == o.vis) && (anyLitWs r.2 == o.lit)

theorem stepOK_all : (allRF.all fun m => [false, true].all fun v => allC.all fun c => stepOK m v c) = true := by decide

def endOK (m : RF) (v : Bool) : Bool :=
  match rend m with
  | none => true
  | some m' => proj (endLine (repSt m v)) == proj (absSt m')

theorem endOK_all : (allRF.all fun m => [false, true].all fun v => endOK m v) = true := by decide


/-! ## Buffers (same as for the C cleaner) -/
structure Buf where
  parts : List Bool := []      -- for each part: is it the string " "?
  trailing : Bool := false

def Buf.add (b : Buf) : Emit → Buf
  | .sp => if b.trailing then b else { parts := b.parts ++ [true], trailing := true }
  | .ns c => { parts := b.parts ++ [c == .ws], trailing := false }
def Buf.addAll (b : Buf) (es : List Emit) : Buf := es.foldl Buf.add b
def Buf.blank (b : Buf) : Bool := b.parts == [] || b.parts == [true]


/-! ## Buffer lemmas -/
def Buf.hasVis (b : Buf) : Bool := b.parts.any (fun x => !x)
def Buf.OnlySp (b : Buf) : Prop := (b.parts = [] ∧ b.trailing = false) ∨ (b.parts = [true] ∧ b.trailing = true)

theorem hasVis_add (b : Buf) (e : Emit) : (b.add e).hasVis = (b.hasVis || e.visible) := by
  cases e with
  | sp => simp only [Buf.add, Emit.visible, Bool.or_false]; split <;> simp [Buf.hasVis]
  | ns c => cases c <;> simp [Buf.add, Buf.hasVis, Emit.visible]

theorem hasVis_addAll (b : Buf) (es : List Emit) : (b.addAll es).hasVis = (b.hasVis || anyVisible es) := by
  induction es generalizing b with
  | nil => simp [Buf.addAll, anyVisible]
  | cons e es ih =>
    simp only [Buf.addAll, List.foldl_cons] at ih ⊢
    rw [ih, hasVis_add]; simp [anyVisible, Bool.or_assoc]

theorem onlySp_add (b : Buf) (e : Emit) (h : b.OnlySp) (hv : e.visible = false) (hl : e.litWs = false) :
    (b.add e).OnlySp := by
  cases e with
  | sp =>
    rcases h with ⟨hp, ht⟩ | ⟨hp, ht⟩
    · right; simp [Buf.add, hp, ht]
    · right; simp [Buf.add, hp, ht]
  | ns c => cases c <;> simp [Emit.visible, Emit.litWs] at hv hl

theorem onlySp_addAll (b : Buf) (es : List Emit) (h : b.OnlySp) (hv : anyVisible es = false) (hl : anyLitWs es = false) :
    (b.addAll es).OnlySp := by
  induction es generalizing b with
  | nil => simpa [Buf.addAll] using h
  | cons e es ih =>
    simp only [anyVisible, anyLitWs, List.any_cons, Bool.or_eq_false_iff] at hv hl
    simp only [Buf.addAll, List.foldl_cons]
    exact ih _ (onlySp_add b e h hv.1 hl.1) (by simpa [anyVisible] using hv.2) (by simpa [anyLitWs] using hl.2)

theorem blank_of_onlySp (b : Buf) (h : b.OnlySp) : b.blank = true := by
  rcases h with ⟨hp, _⟩ | ⟨hp, _⟩ <;> simp [Buf.blank, hp]

theorem blank_of_hasVis (b : Buf) (h : b.hasVis = true) : b.blank = false := by
  unfold Buf.blank Buf.hasVis at *
  cases hp : b.parts with
  | nil => simp [hp] at h
  | cons x xs =>
    cases xs with
    | nil => cases x <;> simp_all
    | cons y ys => simp

/-- buffer invariant on a physical line: `v`/`l` = some visible / literal-white-space emission so far -/
structure BInv (b : Buf) (v l : Bool) : Prop where
  vis : b.hasVis = v
  only : v = false → l = false → b.OnlySp

theorem BInv.addAll {b : Buf} {v l : Bool} (h : BInv b v l) (es : List Emit) :
    BInv (b.addAll es) (v || anyVisible es) (l || anyLitWs es) := by
  refine ⟨by rw [hasVis_addAll, h.vis], ?_⟩
  intro hv hl
  simp only [Bool.or_eq_false_iff] at hv hl
  exact onlySp_addAll b es (h.only hv.1 hl.1) hv.2 hl.2

theorem BInv.counted {b : Buf} {v l : Bool} (h : BInv b v l) (hk : l = true → v = true) : (!b.blank) = v := by
  cases v with
  | true => simp [blank_of_hasVis b h.vis]
  | false =>
    have hl : l = false := by cases l <;> simp_all
    simp [blank_of_onlySp b (h.only rfl hl)]



theorem binv_empty : BInv ({} : Buf) false false :=
  ⟨by simp [Buf.hasVis], fun _ _ => Or.inl ⟨rfl, rfl⟩⟩

/-! ## Lines and texts -/

def procChars : CSt → Buf → List Cls → CSt × Buf
  | s, b, [] => (s, b)
  | s, b, c :: cs => procChars (step s c).1 (b.addAll (step s c).2) cs

/-- one logical C line handed to `fortran_cleaner.process` by `fortran_file_source` -/
def procLine (s : CSt) (l : List Cls) : CSt × Bool :=
  (endLine (procChars s {} l).1, !(procChars s {} l).2.blank)

def cbiCounted : CSt → List (List Cls) → List Bool
  | _, [] => []
  | s, l :: ls => (procLine s l).2 :: cbiCounted (procLine s l).1 ls

structure RAcc where
  mode : RF
  vis : Bool
  lit : Bool

def rchars : RAcc → List Cls → Option RAcc
  | a, [] => some a
  | a, c :: cs =>
    match rstep a.mode c with
    | none => none
    | some o => rchars ⟨o.mode, a.vis || o.vis, a.lit || o.lit⟩ cs

/-- `none`: ill-formed, or finding class F-C17-1 (blanks inside a literal on a line with nothing visible) -/
def rline (m : RF) (l : List Cls) : Option (RF × Bool) :=
  match rchars ⟨m, false, false⟩ l with
  | none => none
  | some a =>
    if a.lit && !a.vis then none
    else match rend a.mode with
      | none => none
      | some m' => some (m', a.vis)

def refCounted : RF → List (List Cls) → Option (List Bool)
  | m, [] => if m == .code then some [] else none
  | m, l :: ls =>
    match rline m l with
    | none => none
    | some (m', b) => match refCounted m' ls with | none => none | some bs => some (b :: bs)

/-- the simulation relation -/
def Rl (s : CSt) (m : RF) : Prop := proj s = proj (absSt m)

theorem rel_rep (s : CSt) (m : RF) (h : Rl s m) : s = repSt m s.vws := by
  obtain ⟨st, sc, v⟩ := s
  unfold Rl proj at h
  simp only [Prod.mk.injEq] at h
  obtain ⟨h1, h2, h3⟩ := h
  unfold repSt
  by_cases hr : relevant (absSt m) = true
  · have hr' : relevant (⟨st, sc, v⟩ : CSt) = true := by
      simp only [relevant] at hr ⊢; simp only [h1, h2]; exact hr
    simp only [hr, hr', Bool.true_and, if_true] at h3 ⊢
    cases hm : absSt m
    simp only [hm] at h1 h2 h3
    simp [h1, h2, h3]
  · simp only [hr, Bool.false_eq_true, if_false]
    cases hm : absSt m
    simp only [hm] at h1 h2
    simp [h1, h2]

theorem mem_allRF (m : RF) : m ∈ allRF := by
  cases m with
  | start c => cases c <;> simp [allRF]
  | ampTop w => cases w <;> simp [allRF]
  | ampDq w => cases w <;> simp [allRF]
  | ampSq w => cases w <;> simp [allRF]
  | bang s => cases s <;> simp [allRF]
  | sent s => cases s <;> simp [allRF]
  | comm s => cases s <;> simp [allRF]
  | _ => simp [allRF]

theorem step_sim (s : CSt) (m : RF) (c : Cls) (o : ROut) (h : Rl s m) (ho : rstep m c = some o) :
    Rl (step s c).1 o.mode ∧ anyVisible (step s c).2 = o.vis ∧ anyLitWs (step s c).2 = o.lit := by
  have hall := stepOK_all
  simp only [List.all_eq_true] at hall
  have h1 := hall m (mem_allRF m) s.vws (by cases s.vws <;> simp) c (by cases c <;> simp [allC])
  simp only [stepOK, ho, Bool.and_eq_true, beq_iff_eq] at h1
  rw [rel_rep s m h]
  exact ⟨h1.1.1, h1.1.2, h1.2⟩

theorem end_sim (s : CSt) (m m' : RF) (h : Rl s m) (he : rend m = some m') : Rl (endLine s) m' := by
  have hall := endOK_all
  simp only [List.all_eq_true] at hall
  have h1 := hall m (mem_allRF m) s.vws (by cases s.vws <;> simp)
  simp only [endOK, he, beq_iff_eq] at h1
  rw [rel_rep s m h]
  exact h1

theorem chars_sim (chars : List Cls) : ∀ (s : CSt) (m : RF) (buf : Buf) (v l : Bool) (a0 a : RAcc),
    Rl s m → a0.mode = m → BInv buf v l → v = a0.vis → l = a0.lit → rchars a0 chars = some a →
    ∃ v' l', Rl (procChars s buf chars).1 a.mode ∧ BInv (procChars s buf chars).2 v' l' ∧ v' = a.vis ∧ l' = a.lit := by
  induction chars with
  | nil =>
    intro s m buf v l a0 a hR hm hb hv hl hr
    simp only [rchars, Option.some.injEq] at hr
    subst hr
    exact ⟨v, l, by simpa [procChars, hm] using hR, by simpa [procChars] using hb, hv, hl⟩
  | cons c cs ih =>
    intro s m buf v l a0 a hR hm hb hv hl hr
    simp only [rchars] at hr
    cases ho : rstep a0.mode c with
    | none => simp [ho] at hr
    | some o =>
      simp only [ho] at hr
      obtain ⟨hs1, hs2, hs3⟩ := step_sim s m c o hR (hm ▸ ho)
      simp only [procChars]
      exact ih _ o.mode _ (v || anyVisible (step s c).2) (l || anyLitWs (step s c).2)
        ⟨o.mode, a0.vis || o.vis, a0.lit || o.lit⟩ a hs1 rfl (hb.addAll _) (by rw [hs2, hv]) (by rw [hs3, hl]) hr

theorem line_sim (s : CSt) (m m' : RF) (l : List Cls) (b : Bool) (hR : Rl s m) (h : rline m l = some (m', b)) :
    Rl (procLine s l).1 m' ∧ (procLine s l).2 = b := by
  unfold rline at h
  cases hr : rchars ⟨m, false, false⟩ l with
  | none => simp [hr] at h
  | some a =>
    simp only [hr] at h
    split at h
    · simp at h
    · rename_i hk
      cases he : rend a.mode with
      | none => simp [he] at h
      | some m2 =>
        simp only [he, Option.some.injEq, Prod.mk.injEq] at h
        obtain ⟨rfl, rfl⟩ := h
        obtain ⟨v', l', h1, h2, h3, h4⟩ := chars_sim l s m {} false false ⟨m, false, false⟩ a hR rfl binv_empty rfl rfl hr
        refine ⟨end_sim _ _ _ h1 he, ?_⟩
        simp only [procLine]
        rw [h2.counted (by
          intro hl; rw [h4] at hl; rw [h3]
          cases hav : a.vis with
          | true => rfl
          | false => simp [hl, hav] at hk), h3]

/-- **C17 (class level): for every well-formed free-form text outside F-C17-1 the lines counted by the
    Fortran cleaner are exactly the lines holding statement text or a directive sentinel.** -/
theorem counted_eq_ref (t : List (List Cls)) : ∀ (s : CSt) (m : RF) (bs : List Bool),
    Rl s m → refCounted m t = some bs → cbiCounted s t = bs := by
  induction t with
  | nil =>
    intro s m bs _ h
    simp only [refCounted] at h
    split at h <;> simp at h
    simp [cbiCounted, h]
  | cons l ls ih =>
    intro s m bs hR h
    simp only [refCounted] at h
    cases hl : rline m l with
    | none => simp [hl] at h
    | some r =>
      obtain ⟨m', b⟩ := r
      simp only [hl] at h
      cases hrest : refCounted m' ls with
      | none => simp [hrest] at h
      | some bs' =>
        simp only [hrest, Option.some.injEq] at h
        subst h
        obtain ⟨h1, h2⟩ := line_sim s m m' l b hR hl
        simp only [cbiCounted, h2]
        rw [ih _ m' bs' h1 hrest]

theorem counted_eq_ref_top (t : List (List Cls)) (bs : List Bool) (h : refCounted .code t = some bs) :
    cbiCounted ⟨[.top], .run, false⟩ t = bs := counted_eq_ref t _ .code bs rfl h

end CbiVerif.FLex
#print axioms CbiVerif.FLex.counted_eq_ref_top
