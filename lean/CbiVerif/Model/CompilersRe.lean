import CbiVerif.Model.Compilers
import CbiVerif.Model.Regex
/-!
# C12 — `re.findall` of `_ExtendMatchAction` computed inside the model

`Model/Compilers.lean` takes the regex results as a parameter (`Matches`).  Here the parameter is instantiated
with the matcher of `Model/Regex.lean`: for an `extend_match` rule whose pattern lies in the supported fragment
and has at most one group, the model computes `re.findall(pattern, value)` itself; for any other pattern
`compute` answers `none` and the harness-supplied table is used (the harness counts those).

A pattern with two or more groups makes `findall` return tuples, which `string.Template.substitute` then
renders with `str(tuple)` (Python `repr` of strings): outside the model, kept on the table path.
-/
namespace CbiVerif.Compilers
open CbiVerif

/-- `re.findall(pattern, value)` as the list of strings `_ExtendMatchAction` goes on with -/
def findallFor (pattern value : String) : Option (List String) :=
  match Regex.parse pattern with
  | .error _ => none
  | .ok (r, ng) =>
    if ng ≤ 1 then some ((Regex.findall r ng value.toList).map fun m => String.ofList (m.headD [])) else none

/-- the pattern of the `extend_match` rule whose first flag is `flag0` (`self.flag_name`) -/
def patternOf (rules : List Rule) (flag0 : String) : Option String :=
  match rules with
  | [] => none
  | r :: rs =>
    if r.action == "extend_match" && r.flags.headD "" == flag0 then r.pattern else patternOf rs flag0

/-- the regex oracle of one compiler definition -/
def computeFor (rules : List Rule) (flag0 value : String) : Option (List String) :=
  match patternOf rules flag0 with
  | none => none
  | some p => findallFor p value

def matchesFor (rules : List Rule) (table : List ((String × String) × List String)) : Matches :=
  { table := table, compute := computeFor rules }

/-- `ArgumentParser(argv0).parse_args(argv)` with the regex results computed by the model -/
def emulateRe (cs : CompilerMap) (table : List ((String × String) × List String)) (name : String) (argv : List String) :
    Except PErr (List PPConfig × List Log) :=
  emulate cs (matchesFor (resolve cs name).compiler.parser table) name argv

/-- for `load_database` (one oracle for all commands): the rules of every compiler of the map; when two
    compilers give the same first flag different patterns the answer is `none` (table path) -/
def patternAll (cs : CompilerMap) (flag0 : String) : Option String :=
  match (cs.filterMap fun kc => patternOf kc.2.parser flag0).eraseDups with
  | [p] => some p
  | _ => none

def computeAll (cs : CompilerMap) (flag0 value : String) : Option (List String) :=
  match patternAll cs flag0 with
  | none => none
  | some p => findallFor p value

def loadDatabaseRe (cs : CompilerMap) (table : List ((String × String) × List String)) (cmds : List Command) :
    Except PErr (List Entry × List Log) :=
  loadDatabase cs { table := table, compute := computeAll cs } cmds

/-! ## closed form of the shipped nvcc architecture rule (`pattern = '(?:sm_|compute_)(\d+)'`)

Written from the documented meaning of `--gpu-architecture` / `--gpu-code` / `-gencode`: every `sm_N` /
`compute_N` (N a non-empty run of decimal digits) in the value names an architecture; the scan is left to
right and continues after the digits.  `Props/C12Regex.lean` proves that the matcher computes exactly this on
every value. -/

/-- the digits and the rest when `s` starts with at least one digit -/
def digitsAt (s : List Char) : Option (List Char × List Char) :=
  match s with
  | c :: _ => if c.isDigit then some (s.takeWhile Char.isDigit, s.dropWhile Char.isDigit) else none
  | [] => none

/-- an architecture name at the beginning of `s` -/
def nvAt (s : List Char) : Option (List Char × List Char) :=
  match (match Regex.stripPrefix "sm_".toList s with | some r => digitsAt r | none => none) with
  | some x => some x
  | none => match Regex.stripPrefix "compute_".toList s with | some r => digitsAt r | none => none

/-- the architecture numbers named in an option value, left to right: the leftmost, non-overlapping scan
    (`Regex.scanWith`) for `nvAt` -/
def nvArchs (s : List Char) : List (List Char) :=
  (Regex.scanWith (fun t => (nvAt t).map fun dr => (dr.2, [(1, dr.1)])) (2 * s.length + 3) 0 s).map fun h => Regex.capOf h.caps 1

end CbiVerif.Compilers
