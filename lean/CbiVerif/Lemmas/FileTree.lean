import CbiVerif.Model.FileTree
/-!
helper lemmas for C06 (`FileTree.insert`): for every additive measure of the figures
(`Meas`: a map `μ` from figures into a commutative monoid with `μ (vadd a b) = μ a · μ b`)
one insertion of a fresh path keeps "every directory's measure = product of the measures of the
non-link files beneath it" (`insertRoot_inv`, generalised from the design prototype
`CbiVerif/FileTree.lean`), keeps later paths fresh (`fresh_insert`), and adds exactly one leaf
(`leaves_insertKids`); `build_spec` lifts this to any sequence of insertions.
-/
namespace CbiVerif.FTm

/-- an additive measure of figures -/
structure Meas (V A : Type) where
  vadd : V → V → V
  zero : V
  μ : V → A
  op : A → A → A
  e : A
  assoc : ∀ a b c, op (op a b) c = op a (op b c)
  comm : ∀ a b, op a b = op b a
  op_e : ∀ a, op a e = a
  μ_add : ∀ a b, μ (vadd a b) = op (μ a) (μ b)
  μ_zero : μ zero = e

variable {V A : Type} (M : Meas V A)

theorem Meas.e_op (a : A) : M.op M.e a = a := by rw [M.comm, M.op_e]
theorem Meas.right_comm (a b c : A) : M.op (M.op a b) c = M.op (M.op a c) b := by
  rw [M.assoc, M.comm b c, ← M.assoc]

mutual
def leafSum : T V → A
  | .file _ link v => if link then M.e else M.μ v
  | .dir _ _ kids => leafSumL kids
def leafSumL : List (T V) → A
  | [] => M.e
  | t :: ts => M.op (leafSum t) (leafSumL ts)
end

def Distinct (kids : List (T V)) : Prop := kids.Pairwise (fun a b => a.name ≠ b.name)

mutual
def Inv : T V → Prop
  | .file _ _ _ => True
  | .dir _ v kids => M.μ v = leafSumL M kids ∧ Distinct kids ∧ InvL kids
def InvL : List (T V) → Prop
  | [] => True
  | t :: ts => Inv t ∧ InvL ts
end

/-- the names along `path` that already exist are directories and the last one does not exist:
    the path has not been inserted and no file sits where it needs a directory -/
def Fresh : List String → List (T V) → Prop
  | [], _ => True
  | [f], kids => ¬ kids.any (·.name == f)
  | d :: rest, kids => ∀ k ∈ kids, k.name = d → match k with | .dir _ _ ks => Fresh rest ks | .file _ _ _ => False

/-- what one insertion adds to the measure -/
def gain (x : V) (link : Bool) : A := if link then M.e else M.μ x

theorem leafSumL_append (a b : List (T V)) : leafSumL M (a ++ b) = M.op (leafSumL M a) (leafSumL M b) := by
  induction a with
  | nil => simp only [List.nil_append, leafSumL, M.e_op]
  | cons t ts ih => simp only [List.cons_append, leafSumL, ih, M.assoc]

theorem InvL_append (a b : List (T V)) : InvL M (a ++ b) ↔ InvL M a ∧ InvL M b := by
  induction a with
  | nil => simp [InvL]
  | cons t ts ih => simp [InvL, ih, and_assoc]

theorem inv_of_mem : ∀ (kids : List (T V)) (k : T V), InvL M kids → k ∈ kids → Inv M k := by
  intro kids
  induction kids with
  | nil => intro k _ h; simp at h
  | cons a as ih =>
    intro k hinv hk
    simp only [InvL] at hinv
    rcases List.mem_cons.mp hk with h | h
    · rw [h]; exact hinv.1
    · exact ih k hinv.2 h

theorem bump_name (vadd : V → V → V) (x : V) (link : Bool) (g : List (T V) → List (T V)) (t : T V) :
    (bump vadd x link g t).name = t.name := by
  cases t <;> rfl

theorem distinct_append (kids : List (T V)) (t : T V) (h : Distinct kids) (hn : ∀ k ∈ kids, k.name ≠ t.name) :
    Distinct (kids ++ [t]) := by
  unfold Distinct at *
  rw [List.pairwise_append]
  exact ⟨h, by simp, fun a ha b hb => by simp at hb; subst hb; exact hn a ha⟩

theorem distinct_map (kids : List (T V)) (f : T V → T V) (hf : ∀ k, (f k).name = k.name) (h : Distinct kids) :
    Distinct (kids.map f) := by
  unfold Distinct at *
  rw [List.pairwise_map]
  exact h.imp (fun {a b} hab => by rw [hf a, hf b]; exact hab)

theorem not_any_name (kids : List (T V)) (d : String) (h : kids.any (·.name == d) = false) : ∀ k ∈ kids, k.name ≠ d := by
  intro k hk hn
  have := List.any_eq_false.mp h k hk
  simp [hn] at this

theorem map_spec (d : String) (g : T V → T V) (δ : A) : ∀ (kids : List (T V)), Distinct kids → InvL M kids →
    (kids.any (·.name == d) = true) →
    (∀ k ∈ kids, k.name = d → Inv M (g k) ∧ leafSum M (g k) = M.op (leafSum M k) δ) →
    InvL M (kids.map fun k => if k.name == d then g k else k) ∧
    leafSumL M (kids.map fun k => if k.name == d then g k else k) = M.op (leafSumL M kids) δ := by
  intro kids
  induction kids with
  | nil => intro _ _ h; simp at h
  | cons k ks ih =>
    intro hdis hinv hex hg
    simp only [Distinct, List.pairwise_cons] at hdis
    obtain ⟨hk, hks⟩ := hdis
    simp only [InvL] at hinv
    by_cases hn : k.name = d
    · have hnone : ∀ k' ∈ ks, (k'.name == d) = false := by
        intro k' hk'; have := hk k' hk'; simp; intro h; exact this (hn.trans h.symm)
      have hmap : (ks.map fun k => if k.name == d then g k else k) = ks := by
        have : ∀ k' ∈ ks, (fun k => if k.name == d then g k else k) k' = id k' := by
          intro k' hk'; simp [hnone k' hk']
        rw [List.map_congr_left this]; simp
      obtain ⟨hi, hs⟩ := hg k (by simp) hn
      simp only [List.map_cons, hn, beq_self_eq_true, if_true, hmap, InvL, leafSumL]
      exact ⟨⟨hi, hinv.2⟩, by rw [hs, M.right_comm]⟩
    · have hn' : (k.name == d) = false := by simpa using hn
      have hex' : ks.any (·.name == d) = true := by simpa [hn'] using hex
      obtain ⟨hi, hs⟩ := ih hks hinv.2 hex' (fun k' hk' => hg k' (List.mem_cons_of_mem _ hk'))
      simp only [List.map_cons, hn', Bool.false_eq_true, if_false, InvL, leafSumL]
      exact ⟨⟨hinv.1, hi⟩, by rw [hs, M.assoc]⟩

theorem bump_val (v x : V) (link : Bool) (s : A) (hv : M.μ v = s) :
    M.μ (if link then v else M.vadd v x) = M.op s (gain M x link) := by
  cases link
  · simp only [Bool.false_eq_true, if_false, gain, M.μ_add, hv]
  · simp only [if_true, gain, M.op_e, hv]

theorem insertKids_spec (x : V) (link : Bool) : ∀ (path : List String) (kids : List (T V)),
    path ≠ [] → InvL M kids → Distinct kids → Fresh path kids →
    InvL M (insertKids M.vadd M.zero x link path kids) ∧ Distinct (insertKids M.vadd M.zero x link path kids) ∧
      leafSumL M (insertKids M.vadd M.zero x link path kids) = M.op (leafSumL M kids) (gain M x link) := by
  intro path
  induction path with
  | nil => intro kids h; exact absurd rfl h
  | cons d rest ih =>
    intro kids _ hinv hdis hfresh
    cases rest with
    | nil =>
      have hf : (kids.any (·.name == d)) = false := by
        have : ¬ kids.any (·.name == d) = true := hfresh
        simpa using this
      simp only [insertKids, hf, Bool.false_eq_true, if_false]
      refine ⟨(InvL_append M _ _).mpr ⟨hinv, by simp [InvL, Inv]⟩, ?_, ?_⟩
      · exact distinct_append kids _ hdis (by intro k hk; exact not_any_name kids d hf k hk)
      · rw [leafSumL_append]; simp only [leafSumL, leafSum, gain, M.op_e]
    | cons r rs =>
      simp only [insertKids]
      by_cases hex : kids.any (·.name == d) = true
      · simp only [hex, if_true]
        have hm := map_spec M d (bump M.vadd x link (insertKids M.vadd M.zero x link (r :: rs))) (gain M x link) kids hdis hinv hex (by
          intro k hk hn
          have hfk := hfresh k hk hn
          cases k with
          | file n l v => exact absurd hfk (by simp)
          | dir n v ks =>
            have hkinv : Inv M (.dir n v ks) := inv_of_mem M kids _ hinv hk
            simp only [Inv] at hkinv
            obtain ⟨hv, hdk, hksinv⟩ := hkinv
            obtain ⟨hi, hd2, hs⟩ := ih ks (by simp) hksinv hdk hfk
            refine ⟨?_, ?_⟩
            · simp only [bump, Inv]
              refine ⟨?_, hd2, hi⟩
              rw [hs]; exact bump_val M v x link _ hv
            · simp only [bump, leafSum]
              exact hs)
        refine ⟨hm.1, ?_, hm.2⟩
        apply distinct_map kids _ _ hdis
        intro k; split
        · exact bump_name _ _ _ _ _
        · rfl
      · have hex' : kids.any (·.name == d) = false := by simpa using hex
        simp only [hex', Bool.false_eq_true, if_false]
        have hrec := ih [] (by simp) (by simp [InvL]) (by simp [Distinct]) (by
          cases rs with
          | nil => simp [Fresh]
          | cons a b => intro k hk; simp at hk)
        obtain ⟨hi, hd2, hs⟩ := hrec
        have hs' : leafSumL M (insertKids M.vadd M.zero x link (r :: rs) []) = gain M x link := by
          rw [hs]; simp only [leafSumL, M.e_op]
        refine ⟨(InvL_append M _ _).mpr ⟨hinv, ?_⟩, ?_, ?_⟩
        · simp only [bump, InvL, Inv, and_true]
          refine ⟨?_, hd2, hi⟩
          rw [hs', bump_val M M.zero x link M.e M.μ_zero, M.e_op]
        · exact distinct_append kids _ hdis (by
            intro k hk; rw [bump_name]; exact not_any_name kids d hex' k hk)
        · rw [leafSumL_append]
          simp only [bump, leafSumL, leafSum, M.op_e]
          rw [hs']

/-- inserting a fresh path keeps "every directory's measure = product over the non-link files beneath it",
    at every level, and the root gains exactly the file's measure (nothing for a symlink). -/
theorem insertRoot_inv (x : V) (link : Bool) (path : List String) (n : String) (v : V) (kids : List (T V))
    (hp : path ≠ []) (h : Inv M (.dir n v kids)) (hf : Fresh path kids) :
    Inv M (insertRoot M.vadd M.zero x link path (.dir n v kids)) ∧
      leafSum M (insertRoot M.vadd M.zero x link path (.dir n v kids)) = M.op (leafSum M (.dir n v kids)) (gain M x link) := by
  simp only [Inv] at h
  obtain ⟨hv, hd, hi⟩ := h
  obtain ⟨h1, h2, h3⟩ := insertKids_spec M x link path kids hp hi hd hf
  simp only [insertRoot, bump, Inv, leafSum]
  refine ⟨⟨?_, h2, h1⟩, h3⟩
  rw [h3]; exact bump_val M v x link _ hv

/-! ### later paths stay fresh -/

/-- neither path is a prefix of the other (in particular they differ): two files of one file system -/
def Incomp (p q : List String) : Prop := ¬ p <+: q ∧ ¬ q <+: p

theorem incomp_tail {a : String} {p q : List String} (h : Incomp (a :: p) (a :: q)) : Incomp p q := by
  unfold Incomp at *
  simp only [List.cons_prefix_cons, true_and] at h
  exact h

theorem fresh_nil : ∀ (q : List String), Fresh q ([] : List (T V)) := by
  intro q
  cases q with
  | nil => simp [Fresh]
  | cons d rest =>
    cases rest with
    | nil => simp [Fresh]
    | cons r rs => intro k hk; simp at hk

theorem any_name_map (kids : List (T V)) (f : T V → T V) (hf : ∀ k, (f k).name = k.name) (d : String) :
    (kids.map f).any (·.name == d) = kids.any (·.name == d) := by
  induction kids with
  | nil => rfl
  | cons k ks ih => simp only [List.map_cons, List.any_cons, ih, hf]

theorem fresh_insert (vadd : V → V → V) (zero : V) (x : V) (link : Bool) : ∀ (q p : List String) (kids : List (T V)),
    p ≠ [] → Incomp p q → Fresh q kids → Fresh q (insertKids vadd zero x link p kids) := by
  intro q
  induction q with
  | nil => intro p kids _ _ _; simp [Fresh]
  | cons d rest ih =>
    intro p kids hp hinc hq
    cases rest with
    | nil =>
      -- q = [d]: no child named d may appear
      have hq' : kids.any (·.name == d) = false := by
        have : ¬ kids.any (·.name == d) = true := hq
        simpa using this
      show ¬ (insertKids vadd zero x link p kids).any (·.name == d) = true
      cases p with
      | nil => exact absurd rfl hp
      | cons g ps =>
        have hgd : g ≠ d := by
          intro h; subst h
          exact hinc.2 (by simp [List.cons_prefix_cons])
        have hgd' : (g == d) = false := by simpa using hgd
        cases ps with
        | nil =>
          simp only [insertKids]
          split
          · simp [hq']
          · rw [List.any_append, hq']
            have hname : (T.file g link x : T V).name = g := rfl
            simp only [List.any_cons, List.any_nil, Bool.or_false, Bool.false_or, hname, hgd']
            simp
        | cons r rs =>
          simp only [insertKids]
          split
          · rw [any_name_map]
            · simp [hq']
            · intro k; split
              · exact bump_name _ _ _ _ _
              · rfl
          · rw [List.any_append, hq']
            have hname : (bump vadd x link (insertKids vadd zero x link (r :: rs)) (T.dir g zero [])).name = g := by
              rw [bump_name]; rfl
            simp only [List.any_cons, List.any_nil, Bool.or_false, Bool.false_or, hname, hgd']
            simp
    | cons r rs =>
      -- q = d :: r :: rs
      have hq' : ∀ k ∈ kids, k.name = d → match k with | .dir _ _ ks => Fresh (r :: rs) ks | .file _ _ _ => False := hq
      show ∀ k ∈ insertKids vadd zero x link p kids, k.name = d →
        match k with | .dir _ _ ks => Fresh (r :: rs) ks | .file _ _ _ => False
      cases p with
      | nil => exact absurd rfl hp
      | cons g ps =>
        cases ps with
        | nil =>
          have hgd : g ≠ d := by
            intro h; subst h
            exact hinc.1 (by simp [List.cons_prefix_cons])
          simp only [insertKids]
          split
          · exact hq'
          · intro k hk hn
            rcases List.mem_append.mp hk with h | h
            · exact hq' k h hn
            · simp at h; subst h; exact absurd hn hgd
        | cons r' rs' =>
          simp only [insertKids]
          split
          · intro k hk hn
            obtain ⟨k0, hk0, hk0e⟩ := List.mem_map.mp hk
            by_cases hg : k0.name = g
            · have hbeq : (k0.name == g) = true := by simpa using hg
              simp only [hbeq, if_true] at hk0e
              subst hk0e
              rw [bump_name] at hn
              have hgd : g = d := hg.symm.trans hn
              subst hgd
              have h0 := hq' k0 hk0 hn
              cases k0 with
              | file n l v => exact absurd h0 (by simp)
              | dir n v ks =>
                simp only [bump]
                exact ih (r' :: rs') ks (by simp) (incomp_tail hinc) h0
            · have hbeq : (k0.name == g) = false := by simpa using hg
              simp only [hbeq, Bool.false_eq_true, if_false] at hk0e
              subst hk0e
              exact hq' k0 hk0 hn
          · intro k hk hn
            rcases List.mem_append.mp hk with h | h
            · exact hq' k h hn
            · simp at h; subst h
              simp only [bump, T.name] at hn
              subst hn
              simp only [bump]
              exact ih (r' :: rs') [] (by simp) (incomp_tail hinc) (fresh_nil _)

/-! ### the files listed in the tree -/

mutual
def leaves : List String → T V → List (Ins V)
  | pre, .file n l v => [⟨pre ++ [n], l, v⟩]
  | pre, .dir n _ ks => leavesL (pre ++ [n]) ks
def leavesL : List String → List (T V) → List (Ins V)
  | _, [] => []
  | pre, t :: ts => leaves pre t ++ leavesL pre ts
end

theorem leavesL_append (pre : List String) (a b : List (T V)) : leavesL pre (a ++ b) = leavesL pre a ++ leavesL pre b := by
  induction a with
  | nil => simp [leavesL]
  | cons t ts ih => simp [leavesL, ih]

theorem map_leaves (pre : List String) (d : String) (g : T V → T V) (i : Ins V) : ∀ (kids : List (T V)), Distinct kids →
    (kids.any (·.name == d) = true) →
    (∀ k ∈ kids, k.name = d → (leaves pre (g k)).Perm (leaves pre k ++ [i])) →
    (leavesL pre (kids.map fun k => if k.name == d then g k else k)).Perm (leavesL pre kids ++ [i]) := by
  intro kids
  induction kids with
  | nil => intro _ h; simp at h
  | cons k ks ih =>
    intro hdis hex hg
    simp only [Distinct, List.pairwise_cons] at hdis
    obtain ⟨hk, hks⟩ := hdis
    by_cases hn : k.name = d
    · have hnone : ∀ k' ∈ ks, (k'.name == d) = false := by
        intro k' hk'; have := hk k' hk'; simp; intro h; exact this (hn.trans h.symm)
      have hmap : (ks.map fun k => if k.name == d then g k else k) = ks := by
        have : ∀ k' ∈ ks, (fun k => if k.name == d then g k else k) k' = id k' := by
          intro k' hk'; simp [hnone k' hk']
        rw [List.map_congr_left this]; simp
      have hp := hg k (by simp) hn
      simp only [List.map_cons, hn, beq_self_eq_true, if_true, hmap, leavesL]
      -- (leaves (g k)) ++ L ~ (leaves k ++ L) ++ [i]
      refine (List.Perm.append_right _ hp).trans ?_
      rw [List.append_assoc, List.append_assoc]
      exact List.Perm.append_left _ List.perm_append_comm
    · have hn' : (k.name == d) = false := by simpa using hn
      have hex' : ks.any (·.name == d) = true := by simpa [hn'] using hex
      have hp := ih hks hex' (fun k' hk' => hg k' (List.mem_cons_of_mem _ hk'))
      simp only [List.map_cons, hn', Bool.false_eq_true, if_false, leavesL]
      rw [List.append_assoc]
      exact List.Perm.append_left _ hp

theorem leaves_insertKids (x : V) (link : Bool) : ∀ (path : List String) (pre : List String) (kids : List (T V)),
    path ≠ [] → InvL M kids → Distinct kids → Fresh path kids →
    (leavesL pre (insertKids M.vadd M.zero x link path kids)).Perm (leavesL pre kids ++ [⟨pre ++ path, link, x⟩]) := by
  intro path
  induction path with
  | nil => intro pre kids h; exact absurd rfl h
  | cons d rest ih =>
    intro pre kids _ hinv hdis hfresh
    cases rest with
    | nil =>
      have hf : (kids.any (·.name == d)) = false := by
        have : ¬ kids.any (·.name == d) = true := hfresh
        simpa using this
      simp only [insertKids, hf, Bool.false_eq_true, if_false]
      rw [leavesL_append]
      simp [leavesL, leaves]
    | cons r rs =>
      simp only [insertKids]
      by_cases hex : kids.any (·.name == d) = true
      · simp only [hex, if_true]
        apply map_leaves pre d _ _ kids hdis hex
        intro k hk hn
        have hfk := hfresh k hk hn
        cases k with
        | file n l v => exact absurd hfk (by simp)
        | dir n v ks =>
          simp only [bump, leaves]
          have hn' : n = d := hn
          subst hn'
          have hkinv : Inv M (.dir n v ks) := inv_of_mem M kids _ hinv hk
          simp only [Inv] at hkinv
          have := ih (pre ++ [n]) ks (by simp) hkinv.2.2 hkinv.2.1 hfk
          simpa [List.append_assoc] using this
      · have hex' : kids.any (·.name == d) = false := by simpa using hex
        simp only [hex', Bool.false_eq_true, if_false]
        rw [leavesL_append]
        apply List.Perm.append_left
        simp only [bump, leavesL, leaves, List.append_nil]
        have := ih (pre ++ [d]) [] (by simp) (by simp [InvL]) (by simp [Distinct]) (fresh_nil _)
        simpa [leavesL, List.append_assoc] using this

end CbiVerif.FTm

namespace CbiVerif.FTm
variable {V A : Type} (M : Meas V A)

/-! ### sequences of insertions -/

/-- the inserted paths are non-empty and pairwise prefix-incomparable (distinct files of one file system) -/
def PathsOK (ps : List (List String)) : Prop := (∀ p ∈ ps, p ≠ []) ∧ ps.Pairwise Incomp

def T.kids : T V → List (T V)
  | .file _ _ _ => []
  | .dir _ _ ks => ks

/-- product of a list of measures -/
def msum (l : List A) : A := l.foldr M.op M.e

theorem msum_append (a b : List A) : msum M (a ++ b) = M.op (msum M a) (msum M b) := by
  induction a with
  | nil => simp [msum, M.e_op]
  | cons x xs ih =>
    have : msum M (x :: (xs ++ b)) = M.op x (msum M (xs ++ b)) := rfl
    rw [List.cons_append, this, ih, ← M.assoc]; rfl

theorem build_aux (ins : List (Ins V)) : ∀ (n : String) (v : V) (kids : List (T V)),
    Inv M (.dir n v kids) → (∀ i ∈ ins, Fresh i.path kids) → PathsOK (ins.map (·.path)) →
    ∃ v' kids', ins.foldl (fun t i => insertRoot M.vadd M.zero i.v i.link i.path t) (.dir n v kids) = .dir n v' kids' ∧
      Inv M (.dir n v' kids') ∧
      M.μ v' = M.op (M.μ v) (msum M (ins.map fun i => gain M i.v i.link)) ∧
      (leavesL [] kids').Perm (leavesL [] kids ++ ins) := by
  induction ins with
  | nil =>
    intro n v kids hinv _ _
    exact ⟨v, kids, rfl, hinv, by simp [msum, M.op_e], by simp⟩
  | cons i rest ih =>
    intro n v kids hinv hfresh hok
    obtain ⟨hne, hpw⟩ := hok
    simp only [List.map_cons, List.pairwise_cons] at hpw
    have hip : i.path ≠ [] := hne i.path (by simp)
    have hfi : Fresh i.path kids := hfresh i (by simp)
    have hstep : insertRoot M.vadd M.zero i.v i.link i.path (.dir n v kids)
        = .dir n (if i.link then v else M.vadd v i.v) (insertKids M.vadd M.zero i.v i.link i.path kids) := rfl
    have hinv1 := (insertRoot_inv M i.v i.link i.path n v kids hip hinv hfi).1
    rw [hstep] at hinv1
    have hinv0 := hinv
    simp only [Inv] at hinv0
    have hleaves := leaves_insertKids M i.v i.link i.path [] kids hip hinv0.2.2 hinv0.2.1 hfi
    have hfresh1 : ∀ j ∈ rest, Fresh j.path (insertKids M.vadd M.zero i.v i.link i.path kids) := by
      intro j hj
      apply fresh_insert M.vadd M.zero i.v i.link j.path i.path kids hip
      · exact hpw.1 j.path (List.mem_map.mpr ⟨j, hj, rfl⟩)
      · exact hfresh j (List.mem_cons_of_mem _ hj)
    have hok1 : PathsOK (rest.map (·.path)) :=
      ⟨fun p hp => hne p (by simp only [List.map_cons]; exact List.mem_cons_of_mem _ hp), hpw.2⟩
    obtain ⟨v', kids', he, hi', hμ, hl⟩ := ih n _ _ hinv1 hfresh1 hok1
    refine ⟨v', kids', ?_, hi', ?_, ?_⟩
    · rw [List.foldl_cons, hstep]; exact he
    · rw [hμ, bump_val M v i.v i.link (M.μ v) rfl, M.assoc]; rfl
    · refine hl.trans ?_
      refine (List.Perm.append_right _ hleaves).trans ?_
      have hi : (⟨[] ++ i.path, i.link, i.v⟩ : Ins V) = i := by cases i; rfl
      rw [hi, List.append_assoc]; rfl

/-- **any sequence of insertions** of pairwise incomparable paths into an empty tree: every directory satisfies the
    invariant, the root's measure is the product over the non-link insertions, and the files listed are exactly
    the inserted ones -/
theorem build_spec (root : String) (ins : List (Ins V)) (hok : PathsOK (ins.map (·.path))) :
    ∃ v' kids', build M.vadd M.zero root ins = .dir root v' kids' ∧
      Inv M (.dir root v' kids') ∧
      M.μ v' = msum M (ins.map fun i => gain M i.v i.link) ∧
      (leavesL [] kids').Perm ins := by
  have h0 : Inv M (.dir root M.zero ([] : List (T V))) := by
    simp [Inv, InvL, Distinct, leafSumL, M.μ_zero]
  obtain ⟨v', kids', he, hi, hμ, hl⟩ := build_aux M ins root M.zero [] h0 (fun i _ => fresh_nil _) hok
  refine ⟨v', kids', he, hi, ?_, ?_⟩
  · rw [hμ, M.μ_zero, M.e_op]
  · simpa [leavesL] using hl

/-! ### every node of the tree -/
mutual
def nodes : T V → List (T V)
  | .file n l v => [.file n l v]
  | .dir n v ks => .dir n v ks :: nodesL ks
def nodesL : List (T V) → List (T V)
  | [] => []
  | t :: ts => nodes t ++ nodesL ts
end

mutual
theorem inv_nodes : ∀ (t : T V), Inv M t → ∀ d ∈ nodes t, Inv M d
  | .file n l v => by
    intro h d hd
    simp only [nodes, List.mem_singleton] at hd
    subst hd; exact h
  | .dir n v ks => by
    intro h d hd
    simp only [nodes, List.mem_cons] at hd
    rcases hd with hd | hd
    · subst hd; exact h
    · simp only [Inv] at h
      exact invL_nodes ks h.2.2 d hd
theorem invL_nodes : ∀ (ts : List (T V)), InvL M ts → ∀ d ∈ nodesL ts, Inv M d
  | [] => by intro _ d hd; simp [nodesL] at hd
  | t :: ts => by
    intro h d hd
    simp only [InvL] at h
    simp only [nodesL, List.mem_append] at hd
    rcases hd with hd | hd
    · exact inv_nodes t h.1 d hd
    · exact invL_nodes ts h.2 d hd
end

mutual
theorem leafSum_leaves : ∀ (t : T V) (pre : List String),
    leafSum M t = msum M ((leaves pre t).map fun i => gain M i.v i.link)
  | .file n l v => by
    intro pre
    simp [leafSum, leaves, msum, gain, M.op_e]
  | .dir n v ks => by
    intro pre
    simp only [leafSum, leaves]
    exact leafSumL_leaves ks (pre ++ [n])
theorem leafSumL_leaves : ∀ (ts : List (T V)) (pre : List String),
    leafSumL M ts = msum M ((leavesL pre ts).map fun i => gain M i.v i.link)
  | [] => by intro pre; simp [leafSumL, leavesL, msum]
  | t :: ts => by
    intro pre
    simp only [leafSumL, leavesL, List.map_append, msum_append]
    rw [leafSum_leaves t pre, leafSumL_leaves ts pre]
end

/-- a permutation of the factors does not change the product -/
theorem msum_perm {a b : List A} (h : a.Perm b) : msum M a = msum M b := by
  induction h with
  | nil => rfl
  | cons x _ ih => exact congrArg (M.op x) ih
  | swap x y l =>
    show M.op y (M.op x _) = M.op x (M.op y _)
    rw [← M.assoc, M.comm y x, M.assoc]
  | trans _ _ ih1 ih2 => exact ih1.trans ih2

/-! ### printing -/

@[simp] theorem hidden_none (d : Nat) : hidden none d = false := rfl

theorem hidden_mono (lv : Option Nat) (d d' : Nat) (h : d ≤ d') (hd : hidden lv d = true) : hidden lv d' = true := by
  cases lv with
  | none => simp [hidden] at hd
  | some l =>
    simp only [hidden, Bool.and_eq_true, bne_iff_ne, ne_eq, decide_eq_true_eq] at hd ⊢
    exact ⟨hd.1, by omega⟩

mutual
theorem depth_ge_node : ∀ (t : T V) (d : Nat) (pre conn : String) (r : Bool),
    ∀ row ∈ printNode none d pre conn r t, d ≤ row.depth
  | .file n l v => by
    intro d pre conn r row hrow
    simp [printNode, hidden] at hrow
    subst hrow; exact Nat.le_refl _
  | .dir n v ks => by
    intro d pre conn r row hrow
    simp only [printNode, hidden, Bool.false_eq_true, if_false, List.mem_cons] at hrow
    rcases hrow with h | h
    · subst h; exact Nat.le_refl _
    · have := depth_ge_kids ks (d + 1) (nextPrefix pre conn) row h
      omega
theorem depth_ge_kids : ∀ (ts : List (T V)) (d : Nat) (pre : String),
    ∀ row ∈ printKids none d pre ts, d ≤ row.depth
  | [] => by intro d pre row hrow; simp [printKids] at hrow
  | t :: ts => by
    intro d pre row hrow
    simp only [printKids, List.mem_append] at hrow
    rcases hrow with h | h
    · exact depth_ge_node t d pre _ false row h
    · exact depth_ge_kids ts d pre row h
end

mutual
theorem print_hide_node (lv : Option Nat) : ∀ (t : T V) (d : Nat) (pre conn : String) (r : Bool),
    printNode lv d pre conn r t = (printNode none d pre conn r t).filter (fun row => !hidden lv row.depth)
  | .file n l v => by
    intro d pre conn r
    cases h : hidden lv d <;> simp [printNode, h, hidden_none, List.filter_cons]
  | .dir n v ks => by
    intro d pre conn r
    cases h : hidden lv d
    · simp only [printNode, h, hidden_none, Bool.false_eq_true, if_false, List.filter_cons, Bool.not_false, if_true]
      rw [print_hide_kids lv ks (d + 1) (nextPrefix pre conn)]
    · simp only [printNode, h, hidden_none, if_true, Bool.false_eq_true, if_false, List.filter_cons, Bool.not_true]
      symm
      rw [List.filter_eq_nil_iff]
      intro row hrow
      have := depth_ge_kids ks (d + 1) (nextPrefix pre conn) row hrow
      simp [hidden_mono lv d row.depth (by omega) h]
theorem print_hide_kids (lv : Option Nat) : ∀ (ts : List (T V)) (d : Nat) (pre : String),
    printKids lv d pre ts = (printKids none d pre ts).filter (fun row => !hidden lv row.depth)
  | [] => by intro d pre; simp [printKids]
  | t :: ts => by
    intro d pre
    simp only [printKids, List.filter_append]
    rw [print_hide_node lv t d pre _ false, print_hide_kids lv ts d pre]
end

end CbiVerif.FTm
