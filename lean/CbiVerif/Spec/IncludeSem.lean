import CbiVerif.Spec.CPreproc
/-! # C04 reference semantics of textual inclusion across files.

A translation unit is processed by the flat conditional-group machine of ISO C 6.10.1
(`Cond.refStep`, the reference of C01, `Spec/CPreproc.lean`) over the *lines* of a file.  When an
active `#include` directive names a file that is to be entered, the lines of that file are processed
by the same machine, with a fresh conditional stack (conditional groups may not span files), **under
the world as it is at the point of inclusion**; the world it leaves behind (macro table, once-list, …)
is the one the including file continues with.  `fuel` bounds the include depth (a compiler's
`#include nested too deeply`).  A structural diagnostic inside a file (`bad`: stray `#elif/#else/#endif`)
is a failure of the analysis (`crash`); such units are outside the property's well-formedness.

Everything that is not conditional structure is abstract here (`FileOps`): how a controlling
expression is evaluated, what a non-conditional directive does, and — for an include directive —
whether and which file is entered (resolution, `#pragma once`, …). -/
namespace CbiVerif.MF
open CbiVerif.Cond

/-- per-directive semantics, parametrised by the file the directive is in and its node index -/
structure FileOps (W : Type) where
  /-- value of the controlling expression of conditional `idx` of `file`; may change the world (sticky error) -/
  evalIf : String → W → Nat → Bool × W
  /-- effect of the non-conditional directive `idx` of `file`.  `some inc`: it is an include that
  enters `inc` now (already resolved, not once-listed, parsed); the returned world is the one the
  included file starts in. -/
  enter : String → W → Nat → Option String × W
  /-- the directive/code lines of a file, in source order (`id` = node index) -/
  labels : String → List Lbl
  /-- record that the nodes `out` of `file` were reached (attribution to the current platform) -/
  record : W → String → List Nat → W
  /-- include depth exhausted -/
  noFuel : W → W
  /-- the conditional structure of a file is broken (model: the tree builder / `branch_taken` raised) -/
  crash : W → W

variable {W : Type}

/-- process the lines of `file` with the flat machine under semantics `M`, starting in world `w`,
and record the lines reached -/
def runFileRef' (M : Sem W) (F : FileOps W) (file : String) (w : W) : W :=
  let r := reference M w (F.labels file)
  F.record (if r.bad then F.crash r.σ else r.σ) file r.out

/-- flat reference: the `Sem` of one file at include depth `fuel` -/
def semRef (F : FileOps W) : Nat → String → Sem W
  | 0, file =>
    { evalIf := F.evalIf file
      exec := fun w i =>
        let r := F.enter file w i
        match r.1 with
        | none => r.2
        | some _ => F.noFuel r.2 }
  | n + 1, file =>
    { evalIf := F.evalIf file
      exec := fun w i =>
        let e := F.enter file w i
        match e.1 with
        | none => e.2
        | some inc => runFileRef' (semRef F n inc) F inc e.2 }

/-- process the lines of `file` starting in world `w` -/
def runFileRef (F : FileOps W) (fuel : Nat) (file : String) (w : W) : W :=
  runFileRef' (semRef F fuel file) F file w

end CbiVerif.MF
