import CbiVerif.Lemmas.CLexLogical
/-! # C05: model-level facts about the node list (no well-formedness needed) -/
namespace CbiVerif.CLexSim
open CbiVerif.CClean CbiVerif.CLexRef CbiVerif.CText

theorem filter_flatMap_sublist {α β : Type} (p : α → Bool) (f : α → List β) (l : List α) :
    ((l.filter p).flatMap f).Sublist (l.flatMap f) := by
  induction l with
  | nil => simp
  | cons x xs ih =>
    simp only [List.filter_cons, List.flatMap_cons]
    split
    · simp only [List.flatMap_cons]
      exact List.Sublist.append (List.Sublist.refl _) ih
    · exact List.Sublist.trans ih (List.sublist_append_right _ _)

/-- the counted lines reported by the loop of `c_file_source` are `acc.lines` followed by a
    selection of the following line numbers, in order -/
theorem srcLoop_lines (pls : List PLine) : ∀ (st : Stack) (acc : Acc) (n : Nat),
    ∃ flags : List Bool, flags.length = pls.length ∧
      (srcLoop st acc n pls).1.flatMap (·.lines) = acc.lines ++ flagsToLines n flags := by
  induction pls with
  | nil => intro st acc n; exact ⟨[], rfl, by simp [srcLoop, flagsToLines]⟩
  | cons l ls ih =>
    intro st acc n
    simp only [srcLoop]
    split
    · obtain ⟨flags, hl, hf⟩ := ih (procLine st l).1 { start := n + 2 } (n + 1)
      refine ⟨(!(procLine st l).2.1.blank) :: flags, by simp [hl], ?_⟩
      simp only [List.flatMap_cons, hf, flagsToLines]
      cases (procLine st l).2.1.blank <;> simp
    · obtain ⟨flags, hl, hf⟩ := ih (procLine st l).1
        { cur := acc.cur.join (procLine st l).2.1, start := acc.start,
          lines := if (!(procLine st l).2.1.blank) = true then acc.lines ++ [n + 1] else acc.lines } (n + 1)
      refine ⟨(!(procLine st l).2.1.blank) :: flags, by simp [hl], ?_⟩
      rw [hf]
      simp only [flagsToLines]
      cases (procLine st l).2.1.blank <;> simp

theorem flagsToLines_mem (flags : List Bool) : ∀ (n m : Nat), m ∈ flagsToLines n flags → n + 1 ≤ m ∧ m ≤ n + flags.length := by
  induction flags with
  | nil => intro n m h; simp [flagsToLines] at h
  | cons b bs ih =>
    intro n m h
    simp only [flagsToLines, List.mem_append] at h
    simp only [List.length_cons]
    rcases h with h | h
    · cases b <;> simp at h
      omega
    · have := ih (n + 1) m h; omega

theorem flagsToLines_sorted (flags : List Bool) : ∀ n : Nat, (flagsToLines n flags).Pairwise (· < ·) := by
  induction flags with
  | nil => intro n; simp [flagsToLines]
  | cons b bs ih =>
    intro n
    simp only [flagsToLines]
    rw [List.pairwise_append]
    refine ⟨by cases b <;> simp, ih (n + 1), ?_⟩
    intro a ha c hc
    cases b <;> simp at ha
    have := flagsToLines_mem bs (n + 1) c hc
    omega

/-- `groupLoop` keeps the counted lines, in order -/
theorem groupLoop_lines (lls : List LLine) : ∀ (code : Option (List Nat × Nat)) (ns : List Node),
    groupLoop code lls = .ok ns →
    ns.flatMap (·.lines) = ((code.map (·.1)).getD []) ++ lls.flatMap (·.lines) := by
  induction lls with
  | nil =>
    intro code ns h
    cases code with
    | none => simp only [groupLoop, Except.ok.injEq] at h; subst h; rfl
    | some c => obtain ⟨ls, k⟩ := c; simp only [groupLoop, Except.ok.injEq] at h; subst h; simp
  | cons l rest ih =>
    intro code ns h
    simp only [groupLoop] at h
    split at h
    · cases hg : groupLoop none rest with
      | error e => simp [hg] at h
      | ok ns' =>
        simp only [hg] at h
        have := ih none ns' hg
        cases code with
        | none => simp only [Except.ok.injEq] at h; subst h; simp [this]
        | some c => obtain ⟨ls, k⟩ := c; simp only [Except.ok.injEq] at h; subst h; simp [this]
    · cases code with
      | none => simp only at h; have := ih _ ns h; simpa using this
      | some c => obtain ⟨ls, k⟩ := c; simp only at h; have := ih _ ns h; simpa [List.append_assoc] using this

/-- `num_lines` of every node is the length of its `lines` (given that of the open code group is) -/
theorem groupLoop_counts (lls : List LLine) : ∀ (code : Option (List Nat × Nat)) (ns : List Node),
    groupLoop code lls = .ok ns → (∀ c, code = some c → c.2 = c.1.length) →
    ∀ nd ∈ ns, nd.numLines = nd.lines.length := by
  induction lls with
  | nil =>
    intro code ns h hc
    cases code with
    | none => simp only [groupLoop, Except.ok.injEq] at h; subst h; simp
    | some c =>
      obtain ⟨ls, k⟩ := c
      simp only [groupLoop, Except.ok.injEq] at h; subst h
      have := hc (ls, k) rfl
      simpa using this
  | cons l rest ih =>
    intro code ns h hc
    simp only [groupLoop] at h
    split at h
    · cases hg : groupLoop none rest with
      | error e => simp [hg] at h
      | ok ns' =>
        simp only [hg] at h
        have hrest := ih none ns' hg (by simp)
        cases code with
        | none =>
          simp only [Except.ok.injEq] at h; subst h
          intro nd hnd
          simp only [List.mem_cons] at hnd
          rcases hnd with rfl | hnd
          · rfl
          · exact hrest nd hnd
        | some c =>
          obtain ⟨ls, k⟩ := c
          simp only [Except.ok.injEq] at h; subst h
          have := hc (ls, k) rfl
          intro nd hnd
          simp only [List.mem_cons] at hnd
          rcases hnd with rfl | rfl | hnd
          · simpa using this
          · rfl
          · exact hrest nd hnd
    · cases code with
      | none => simp only at h; exact ih _ ns h (by simp)
      | some c =>
        obtain ⟨ls, k⟩ := c
        simp only at h
        have := hc (ls, k) rfl
        simp only at this
        exact ih _ ns h (by simp [this])

/-- the node list in the specification's terms, given the logical lines in those terms -/
theorem groupLoop_nodesOf (lls : List LLine) : ∀ (code : Option (List Nat × Nat)) (ns : List Node),
    groupLoop code lls = .ok ns →
    ns.map (fun nd => (nd.kind == NKind.directive, nd.lines)) =
      nodesOf (code.map (·.1)) (lls.map fun l => (l.isDirective, l.lines)) := by
  induction lls with
  | nil =>
    intro code ns h
    cases code with
    | none => simp only [groupLoop, Except.ok.injEq] at h; subst h; rfl
    | some c => obtain ⟨ls, k⟩ := c; simp only [groupLoop, Except.ok.injEq] at h; subst h; rfl
  | cons l rest ih =>
    intro code ns h
    simp only [groupLoop] at h
    split at h
    · rename_i hcat
      cases hg : groupLoop none rest with
      | error e => simp [hg] at h
      | ok ns' =>
        simp only [hg] at h
        have := ih none ns' hg
        simp only [Option.map_none] at this
        cases code with
        | none =>
          simp only [Except.ok.injEq] at h; subst h
          simp [nodesOf, hcat, this]
        | some c =>
          obtain ⟨ls, k⟩ := c
          simp only [Except.ok.injEq] at h; subst h
          simp [nodesOf, hcat, this]
    · rename_i hcat
      have hcat' : l.isDirective = false := by simpa using hcat
      cases code with
      | none =>
        simp only at h
        have := ih _ ns h
        simp only [List.map_cons, hcat', nodesOf, Option.map_none, Option.getD_none, List.nil_append,
          Bool.false_eq_true, if_false]
        simpa using this
      | some c =>
        obtain ⟨ls, k⟩ := c
        simp only at h
        have := ih _ ns h
        simp only [List.map_cons, hcat', nodesOf, Option.map_some, Option.getD_some, Bool.false_eq_true, if_false]
        simpa using this

theorem nodesOf_nonempty (lg : List (Bool × List Nat)) : ∀ (code : Option (List Nat)),
    (∀ p ∈ lg, p.2 ≠ []) → (∀ c, code = some c → c ≠ []) → ∀ p ∈ nodesOf code lg, p.2 ≠ [] := by
  induction lg with
  | nil =>
    intro code _ hc p hp
    cases code with
    | none => simp [nodesOf] at hp
    | some c => simp only [nodesOf, List.mem_singleton] at hp; subst hp; exact hc c rfl
  | cons x xs ih =>
    intro code hl hc p hp
    obtain ⟨d, ls⟩ := x
    cases d with
    | true =>
      simp only [nodesOf, if_true, List.mem_append, List.mem_cons] at hp
      rcases hp with hp | rfl | hp
      · cases code with
        | none => simp at hp
        | some c => simp only [List.mem_singleton] at hp; subst hp; exact hc c rfl
      · exact hl _ (by simp)
      · exact ih none (fun q hq => hl q (by simp [hq])) (by simp) p hp
    | false =>
      simp only [nodesOf, Bool.false_eq_true, if_false] at hp
      refine ih _ (fun q hq => hl q (by simp [hq])) ?_ p hp
      intro c hc'
      simp only [Option.some.injEq] at hc'
      subst hc'
      have := hl (false, ls) (by simp)
      simp only at this
      cases code <;> simp [this]

theorem nodes_eq (t : List Char) : CLexRef.nodes t = nodesOf none (CLexRef.logical t) := by
  unfold CLexRef.nodes CLexRef.logical CLexRef.result resultLines
  split <;> rfl


end CbiVerif.CLexSim
