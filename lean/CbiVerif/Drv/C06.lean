import Lean.Data.Json
import CbiVerif.Model.Setmap
import CbiVerif.Spec.C06
import CbiVerif.Model.FileTree
import CbiVerif.Model.Coverage
import CbiVerif.Model.Summary
/-! driver op for C06: `{"op":"c06","root":str,"files":[{"path":[..],"link":bool,"nodes":[[[plat..],n,[line..]],..]}],
    "variants":[[prune,levels|null],..]}` -/
open Lean
namespace CbiVerif.Drv.C06
open CbiVerif.SM CbiVerif.FTm

def ratJson (r : Option Rat) : Json := match r with
  | none => Json.null
  | some q => Json.str (toString q.num ++ "/" ++ toString q.den)

def strs (j : Json) : List String := ((j.getArr?.toOption.getD #[]).toList.map fun x => x.getStr?.toOption.getD "")
def nats (j : Json) : List Nat := ((j.getArr?.toOption.getD #[]).toList.map fun x => x.getNat?.toOption.getD 0)

def parseNode (j : Json) : NodeRec :=
  match j with
  | Json.arr a => ⟨strs (a[0]!), (a[1]!).getNat?.toOption.getD 0, nats (a[2]!)⟩
  | _ => ⟨[], 0, []⟩

def parseFile (j : Json) : FileRec :=
  ⟨strs ((j.getObjVal? "path").toOption.getD Json.null),
   ((j.getObjValAs? Bool "link").toOption.getD false),
   ((j.getObjValAs? (Array Json) "nodes").toOption.getD #[]).toList.map parseNode⟩

def nj (n : Nat) : Json := Json.num (JsonNumber.fromNat n)

def smJson (sm : Setmap) : Json :=
  Json.arr (sm.map fun e => Json.arr #[Json.arr (e.1.map Json.str).toArray, nj e.2]).toArray

def natsJson (l : List Nat) : Json := Json.arr (l.map nj).toArray

def lettersStr (bs : List Bool) : String :=
  String.ofList ((bs.zipIdx).map fun (b, i) => if b then Char.ofNat (65 + i) else '-')

def treeJson (t : FileTree) (levels : Option Nat) : Json :=
  let rootSm := t.val
  Json.mkObj [
    ("legend", Json.arr ((legend rootSm).map Json.str).toArray),
    ("rows", Json.arr ((print levels t).map fun r =>
      let f := figures rootSm r.v
      Json.mkObj [("depth", nj r.depth), ("text", Json.str r.text), ("name", Json.str r.name),
        ("dir", Json.bool r.isDir), ("link", Json.bool r.link), ("letters", Json.str (lettersStr f.letters)),
        ("sloc", nj f.sloc), ("cov", ratJson f.coverage), ("avg", ratJson f.avgCoverage),
        ("setmap", smJson r.v)]).toArray)]

def specKeys (fs : List FileRec) : List Key := ((allLines fs).map (·.2)).eraseDups

def handle (j : Json) : Json :=
  let root := (j.getObjValAs? String "root").toOption.getD ""
  let fs := ((j.getObjValAs? (Array Json) "files").toOption.getD #[]).toList.map parseFile
  let variants := ((j.getObjValAs? (Array Json) "variants").toOption.getD #[]).toList
  let sm := getSetmap fs
  let summary := match CbiVerif.Summary.rows sm with
    | none => Json.null
    | some rows => Json.mkObj [
        ("rows", Json.arr (rows.map fun r => Json.arr #[Json.str r.name, nj r.count, ratJson (some r.percent)]).toArray),
        ("total", nj (CbiVerif.Summary.totalCount sm))]
  Json.mkObj [
    ("setmap", smJson sm),
    ("summary", summary),
    ("filesetmaps", Json.arr (fs.map fun f => smJson (fileSetmap f)).toArray),
    ("trees", Json.arr (variants.map fun v =>
        match v with
        | Json.arr a =>
          let prune := (a[0]!).getBool?.toOption.getD false
          let levels := (a[1]!).getNat?.toOption
          treeJson (filesTree root prune fs) levels
        | _ => Json.null).toArray),
    ("coverage", Json.arr ((CbiVerif.Cov.compute fs).map fun (p, s) =>
        Json.mkObj [("path", Json.arr (p.map Json.str).toArray), ("used", natsJson s.used), ("unused", natsJson s.unused)]).toArray),
    ("spec", Json.mkObj [
        ("wf", Json.bool (decide (NodesWF fs))),
        ("rows", Json.arr ((specKeys fs).map fun k => Json.arr #[Json.arr (k.map Json.str).toArray, nj (specCount fs k)]).toArray),
        ("sloc", nj (specSloc fs))])]

def handlers : List (String × (Json → Json)) := [("c06", handle)]

end CbiVerif.Drv.C06
