import CbiVerif.Lemmas.EnginesAgreeTop
import CbiVerif.Lemmas.EnginesAgreeTree
import CbiVerif.Props.C04
import CbiVerif.Props.C10
/-! # C04 — the engine of `c08find` / `c10find` agrees with the engine of `findinc` (the C04 / C13 / C18 model)

Two executable multi-file engines remain: `Inc.find` (`Model/FindInc.lean`: per file `Cond.build` + `Cond.visitList`, i.e.
`Cond.model`; fuel = include depth; attribution recorded per file after the walk; memo `IncMemo`; file system with links —
the model `C04.include_semantics_find`, `C13.attributed_files_reachable` and the C18 warning theorems are about) and the
engine of `Model/Exclude.lean` (`runEntryRef` / `findRef`: `PTree` of node indices walked by `visitRef`, fuel per step,
attribution at every node, language classes — the engine `C08.findI_is_engine` and `C10.find_eq_ref` are about, run by ops
`c08find` / `c10find` under the record `Exclude.sem`).  `C08.paths_agree` tied their path layers only.

Proved here (`Lemmas/EnginesAgree{Base,Sim,Core,Visit,Tree,Top}.lean`): a simulation between `Exclude.visitRef (sem fs)` and
`Cond.visit (MF.sem (Inc.ops fs (parseAll fs)) d file)` — mutual induction on the tree inside an induction on the include
depth `d`, for every step fuel of the other side; the relation keeps both failure flags clear, the `Platform` objects equal
field by field (macro table, once-list, search list, memo), `branch_taken` equal, and the attribution sets equal *up to the
nodes the C04 engine has walked but not yet recorded* (in the current file and in every including file).  Both failure flags
are sticky (`visit_bad`, `visitListRef_err`), so "neither run failed" implies that neither fuel ran out; no explicit fuel bound
is needed.  The tree invariant needed (every label of a built tree is a label of the node list, `build_lbls`) is proved for
every label list, well nested or not.

Side condition (`Engines.EngOK`, decidable, evaluated by op `engines` for every generated case): no symbolic links, no
existing file that is Fortran / assembler by extension, compiled files C-family by extension, no `-include` files. -/
namespace CbiVerif.C04
open CbiVerif.PP CbiVerif.Engines

/-- FULL STATEMENT (not proved; expected false without a side condition — `Exclude.sem` sends a header with a Fortran
extension to the Fortran front end, `Inc.find` knows one front end only, and follows symbolic links): in non-error runs the two
engines attribute the same (file, node, platform) triples. -/
def ExcludeEngineEqFindInc : Prop :=
  ∀ (fs : Inc.FS) (cb : List String) (cfg : List (String × List Entry)) (n fuel : Nat),
    (runExclude fs cfg n).err = none → (Inc.find fs cb cfg fuel).err = none →
    ∀ f i p, Has (runExclude fs cfg n).assoc f i p ↔ Has (Inc.find fs cb cfg fuel).assoc f i p

/-- **engine agreement (proved part).**  On a link-free, single-language-class request without `-include` files (`EngOK`),
whenever neither run fails — which includes "neither fuel was exhausted": the step fuel `n` of `Exclude`'s engine and the
include-depth fuel `fuel` of `Inc.find` — the cache-free engine of ops `c08find` / `c10find` (`Exclude.findRef (Exclude.sem fs.files)`)
and the model of `finder.find` the C04 / C13 / C18 theorems are about attribute exactly the same (file, node, platform)
triples, for every code base, configuration and pair of fuels. -/
theorem engines_agree_partial (fs : Inc.FS) (cb : List String) (cfg : List (String × List Entry)) (n fuel : Nat)
    (hok : EngOK fs cfg = true)
    (hx : (runExclude fs cfg n).err = none) (hi : (Inc.find fs cb cfg fuel).err = none) :
    ∀ f i p, Has (runExclude fs cfg n).assoc f i p ↔ Has (Inc.find fs cb cfg fuel).assoc f i p := by
  rcases find_top fs cb cfg n fuel treesOK hok with h | h | ⟨_, _, h⟩
  · exact absurd hx h
  · exact absurd hi h
  · exact h

/-- … in the form the driver evaluates (op `engines`: fields `eng_ok`, `both_ok`, `agree`) -/
theorem engines_agree_checked (fs : Inc.FS) (cb : List String) (cfg : List (String × List Entry)) (n fuel : Nat)
    (hok : EngOK fs cfg = true) (hb : bothOk fs cb cfg n fuel = true) : agree fs cb cfg n fuel = true := by
  simp only [bothOk, bothOkOf, Bool.and_eq_true, Option.isNone_iff_eq_none] at hb
  exact (sameSet_iff _ _).mpr (engines_agree_partial fs cb cfg n fuel hok hb.1 hb.2)

/-- **one file, no `#include` processed** (first step of the induction, stated for the engines themselves): a single
command, include-depth fuel 0 on the side of `Inc.find` — any `#include` that enters a file makes that run fail — : both
engines reduce to the single-file associator `Cond.model` over the file's labels and attribute the same nodes. -/
theorem engines_agree_single_file (fs : Inc.FS) (cb : List String) (pname : String) (e : Entry) (n : Nat)
    (hok : EngOK fs [(pname, [e])] = true)
    (hx : (runExclude fs [(pname, [e])] n).err = none) (hi : (Inc.find fs cb [(pname, [e])] 0).err = none) :
    ∀ f i p, Has (runExclude fs [(pname, [e])] n).assoc f i p ↔ Has (Inc.find fs cb [(pname, [e])] 0).assoc f i p :=
  engines_agree_partial fs cb [(pname, [e])] n 0 hok hx hi

/-- FULL STATEMENT of the transfer (not proved without the side condition) -/
def IncludeSemanticsExcludeEngine : Prop :=
  ∀ (fs : Inc.FS) (cb : List String) (cfg : List (String × List Entry)) (n fuel : Nat),
    Inc.WFparsed (Inc.parseAll fs) →
    (runExclude fs cfg n).err = none → (Inc.findSpec fs cb cfg fuel).err = none →
    ∀ f i p, Has (runExclude fs cfg n).assoc f i p ↔ Has (Inc.findSpec fs cb cfg fuel).assoc f i p

/-- **`C04.include_semantics_find` transfers to the engine ops `c08find` / `c10find` execute** (proved part: `EngOK`).
For well-nested files, whenever neither run fails, the engine of `Model/Exclude.lean` attributes exactly the triples the
reference analysis does (`Inc.findSpec`: flat ISO C conditional-group machine, textual inclusion, the compiler's search rule
evaluated afresh at every include). -/
theorem include_semantics_exclude_engine_partial (fs : Inc.FS) (cb : List String) (cfg : List (String × List Entry))
    (n fuel : Nat) (hok : EngOK fs cfg = true) (hwf : Inc.WFparsed (Inc.parseAll fs))
    (hx : (runExclude fs cfg n).err = none) (hs : (Inc.findSpec fs cb cfg fuel).err = none) :
    ∀ f i p, Has (runExclude fs cfg n).assoc f i p ↔ Has (Inc.findSpec fs cb cfg fuel).assoc f i p := by
  rw [← include_semantics_find fs cb cfg fuel hwf] at hs ⊢
  exact engines_agree_partial fs cb cfg n fuel hok hx hs

/-- … and to the run with the shared parse cache (`Exclude.find`, what op `c10find` returns), when it logs no
language-mixing event and the up-front parse succeeds (`C10.find_eq_ref`) -/
theorem include_semantics_cached_engine_partial (fs : Inc.FS) (cb cb' : List String) (cfg : List (String × List Entry))
    (n fuel : Nat) (hok : EngOK fs cfg = true) (hwf : Inc.WFparsed (Inc.parseAll fs))
    (hpre : C10.PreOK (Exclude.sem fs.files) cb' cfg) (hmix : C10.NoMix (Exclude.sem fs.files) n cb' cfg)
    (hx : (Exclude.find (Exclude.sem fs.files) n cb' cfg).loc.err = none) (hs : (Inc.findSpec fs cb cfg fuel).err = none) :
    ∀ f i p, Has (Exclude.find (Exclude.sem fs.files) n cb' cfg).loc.assoc f i p ↔ Has (Inc.findSpec fs cb cfg fuel).assoc f i p := by
  rw [C10.find_eq_ref _ n cb' cfg hpre hmix] at hx ⊢
  exact include_semantics_exclude_engine_partial fs cb cfg n fuel hok hwf hx hs

/-! ### non-vacuity -/

/-- a `#pragma once` header that defines a macro and shows different lines per platform, included twice (quote form, then
angle form through `-I`: the second inclusion is stopped by the once-list), two platforms -/
def engFs : Inc.FS := { files := [
  ("/r/inc/h.h", "#pragma once\n#ifdef A\nint a;\n#else\nint b;\n#endif\n#define H 1\n"),
  ("/r/a.c", "#include \"inc/h.h\"\n#include <h.h>\n#ifdef H\nint x;\n#endif\n")] }
def engCfg : List (String × List Entry) :=
  [("cpu", [{ file := "/r/a.c", defines := ["A"], includePaths := ["/r/inc"], includeFiles := [] }]),
   ("gpu", [{ file := "/r/a.c", defines := [], includePaths := ["/r/inc"], includeFiles := [] }])]

/-- the hypotheses of `engines_agree_partial` / `engines_agree_checked` hold there (kernel-checked) … -/
example : EngOK engFs engCfg = true ∧ bothOk engFs ["/r/a.c"] engCfg 200 4 = true := by decide +kernel

/-- … and both runs are non-trivial: 12 nodes, 22 (file, node, platform) triples each (the two association lists differ
in order: `Inc.find` records the header's nodes before the includer's) -/
example : ((runExclude engFs engCfg 200).assoc.map (·.2.length)).sum = 22 := by decide +kernel
example : ((Inc.find engFs ["/r/a.c"] engCfg 4).assoc.map (·.2.length)).sum = 22 := by decide +kernel

/-- the well-formedness hypothesis of the transfer theorem holds there as well -/
example : Inc.WFparsed (Inc.parseAll engFs) := WFparsed_of_check _ (by decide +kernel)

/-- the side condition is not vacuous: a symbolic link, an `-include` file or a Fortran header falsify it -/
example : EngOK { engFs with links := [("/r/l", "/r/inc")] } engCfg = false ∧
    EngOK engFs [("p", [{ file := "/r/a.c", defines := [], includePaths := [], includeFiles := ["inc/h.h"] }])] = false ∧
    EngOK { files := ("/r/m.f90", "") :: engFs.files } engCfg = false := by decide +kernel

end CbiVerif.C04
