import CbiVerif.Model.CClean
/-!
# Cells of the `c_cleaner` model in the vocabulary of the regenerated table

`tools/gen/cleaner.py` tabulates the running code per cell (reachable stack, buffer category, character
class) with states and classes *numbered* (discovery order / order of the smallest member).  This file
fixes the numbering on the model side and computes the model's entry for a cell.  The same functions are
used by the theorems (`Lemmas/CCleanRegen.lean`, `Props/C05Table.lean`) and by the driver op
`cclean_cells`, with which the harness locates the cells where code and model differ.  Core Lean only.
-/
namespace CbiVerif.CClean.Regen
open CbiVerif.CClean CbiVerif.CText

/-- (raises, successor stack as state numbers — top first, buffer effects: 0 blank, 1 current character, 2 "/") -/
abbrev Entry := Bool × List Nat × List Nat
/-- (raises, stack afterwards, the physical line is counted, the logical line ends, text of the line's buffer) -/
abbrev LineEntry := Bool × List Nat × Bool × Bool × List Nat

/-- state numbers: breadth-first discovery order from `["TOPLEVEL"]` with the ASCII characters ascending
    (TOPLEVEL, DOUBLE_QUOTATION, CPP_DIRECTIVE, SINGLE_QUOTATION, FOUND_SLASH, ESCAPING, IN_BLOCK_COMMENT,
    IN_INLINE_COMMENT, IN_BLOCK_COMMENT_FOUND_STAR) — names play no role -/
def modeId : Mode → Nat
  | .top => 0 | .dq => 1 | .dir => 2 | .sq => 3 | .slash => 4 | .esc => 5 | .blockC => 6 | .lineC => 7
  | .blockStar => 8 | .err => 99

def modeOfId : Nat → Mode
  | 0 => .top | 1 => .dq | 2 => .dir | 3 => .sq | 4 => .slash | 5 => .esc | 6 => .blockC | 7 => .lineC
  | 8 => .blockStar | _ => .err

def decode (ids : List Nat) : Stack := ids.map modeOfId
def encode (st : Stack) : List Nat := st.map modeId

/-- class numbers: position of the class's smallest member (NUL, TAB, `"`, `#`, `'`, `*`, `/`, `\`);
    `process()` does not tell the blank from the other white space -/
def clsIdx : Cls → Nat
  | .other => 0 | .space => 1 | .ws => 1 | .dq => 2 | .hash => 3 | .sq => 4 | .star => 5 | .slash => 6 | .bslash => 7

def allCls : List Cls := [.slash, .star, .dq, .sq, .bslash, .hash, .space, .ws, .other]

/-- effect numbers; appending "/" while the current character is "/" is appending the current character -/
def emitCode (k : Cls) : Emit → Nat
  | .sp => 0 | .cur => 1 | .slash => if k == .slash then 1 else 2

/-- the table entry the model predicts: a raised exception is the model's `err` stack -/
def entryOf (k : Cls) (r : Stack × List Emit) : Entry :=
  if hasErr r.1 then (true, [], []) else (false, encode r.1, r.2.map (emitCode k))

def chars (l : List Nat) : List Char := l.map Char.ofNat

/-- what the model says about one physical line `body ++ "\n"` read with the cleaner in stack `st`:
    `toPLine` (continuation detection), `procLine` (process, `logical_newline`, end of the logical line) and
    the BLANK test of `srcLoop` -/
def lineObs (st : Stack) (body : List Char) : LineEntry :=
  let r := procLine st (toPLine ⟨body, true⟩)
  if hasErr r.1 then (true, [], false, false, [])
  else (false, encode r.1, !r.2.1.blank, r.2.2, r.2.1.text.map Char.toNat)

def catCode : Cat → Nat | .blank => 0 | .srcNonblank => 1 | .cppDirective => 2


end CbiVerif.CClean.Regen
