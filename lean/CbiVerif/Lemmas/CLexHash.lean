import CbiVerif.Lemmas.CLexPart
/-! # C05: `##` at the start of a logical line (finding class F-C05-3) — the joined buffer of a logical
line is the one-space normalisation of everything the reference lets survive on it -/
namespace CbiVerif.CLexSim
open CbiVerif.CClean CbiVerif.CLexRef CbiVerif.CText

/-! ## `addAll` appends; `join` = `addAll` unless a literal blank meets a trailing space -/

/-- parts appended by a list of buffer actions and the final trailing flag, given the initial flag -/
def app : Bool → List REmit → List Cls × Bool
  | tr, [] => ([], tr)
  | tr, .sp :: es => if tr then app true es else (.space :: (app true es).1, (app true es).2)
  | _, .ns k :: es => (k :: (app false es).1, (app false es).2)

theorem addAll_app (es : List REmit) : ∀ b : CBuf, b.addAll es = ⟨b.parts ++ (app b.trailing es).1, (app b.trailing es).2⟩ := by
  induction es with
  | nil => intro b; simp [CBuf.addAll, app]
  | cons e es ih =>
    intro b
    simp only [CBuf.addAll, List.foldl_cons] at ih ⊢
    rw [ih]
    cases e with
    | sp =>
      cases ht : b.trailing
      · simp [CBuf.add, ht, app]
      · simp [CBuf.add, ht, app]
    | ns k => simp [CBuf.add, app]

theorem app_nil_iff (es : List REmit) : (app false es).1 = [] → es = [] := by
  cases es with
  | nil => intro _; rfl
  | cons e es => cases e <;> simp [app]

/-- the first action is not a literal blank (`" "` appended with `append_nonspace`) -/
def firstOK : List REmit → Bool
  | .ns .space :: _ => false
  | _ => true

theorem join_addAll (b : CBuf) (es : List REmit) (h : b.trailing = true → firstOK es = true) :
    b.join (({} : CBuf).addAll es) = b.addAll es := by
  rw [addAll_app es b, addAll_app es {}]
  simp only [List.nil_append]
  unfold CBuf.join
  cases es with
  | nil => simp [app]
  | cons e es' =>
    cases e with
    | sp =>
      cases ht : b.trailing
      · simp [app]
      · simp [app]
    | ns k =>
      cases ht : b.trailing
      · simp [app]
      · have := h ht
        have hk : (k == Cls.space) = false := by cases k <;> simp [firstOK] at this <;> rfl
        simp [app, hk]

/-! ## `##` in a single buffer -/

/-- the surviving characters start (after code white space) with two `#` in a row -/
def hhE : List REmit → Bool
  | .sp :: es => hhE es
  | .ns .hash :: .ns .hash :: _ => true
  | _ => false

theorem parts_prefix (es : List REmit) (b : CBuf) : ∃ rest, (b.addAll es).parts = b.parts ++ rest := by
  rw [addAll_app]; exact ⟨_, rfl⟩

theorem hh_after_vis (pre : List Cls) (hpre : pre = [] ∨ pre = [Cls.space]) (k : Cls) (hk : k.isWhite = false)
    (es : List REmit) :
    hashHash ((⟨pre ++ [k], false⟩ : CBuf).addAll es).parts = hhE (.ns k :: es) := by
  cases es with
  | nil =>
    rcases hpre with rfl | rfl <;> cases k <;> simp [Cls.isWhite] at hk <;> simp [CBuf.addAll, hashHash, hhE]
  | cons e es' =>
    simp only [CBuf.addAll, List.foldl_cons]
    cases e with
    | sp =>
      obtain ⟨rest, hr⟩ := parts_prefix es' ((⟨pre ++ [k], false⟩ : CBuf).add .sp)
      simp only [CBuf.addAll] at hr
      rw [hr]
      rcases hpre with rfl | rfl <;> cases k <;> simp [Cls.isWhite] at hk <;> simp [CBuf.add, hashHash, hhE]
    | ns c =>
      obtain ⟨rest, hr⟩ := parts_prefix es' ((⟨pre ++ [k], false⟩ : CBuf).add (.ns c))
      simp only [CBuf.addAll] at hr
      rw [hr]
      rcases hpre with rfl | rfl <;> cases k <;> simp [Cls.isWhite] at hk <;> cases c <;> simp [CBuf.add, hashHash, hhE]

theorem hh_addAll_gen (es : List REmit) : ∀ b : CBuf, b.OnlySp → leadOK none es = true →
    hashHash (b.addAll es).parts = hhE es := by
  induction es with
  | nil =>
    intro b hb _
    rcases hb with ⟨hp, _⟩ | ⟨hp, _⟩ <;> simp [CBuf.addAll, hp, hashHash, hhE]
  | cons e es ih =>
    intro b hb hok
    cases e with
    | sp =>
      simp only [leadOK] at hok
      simp only [CBuf.addAll, List.foldl_cons, hhE]
      exact ih _ (onlySp_add b .sp hb rfl rfl) hok
    | ns k =>
      simp only [leadOK, Bool.not_eq_true'] at hok
      simp only [CBuf.addAll, List.foldl_cons]
      have hadd : b.add (.ns k) = ⟨b.parts ++ [k], false⟩ := rfl
      rw [hadd]
      rcases hb with ⟨hp, _⟩ | ⟨hp, _⟩
      · rw [hp]; exact hh_after_vis [] (Or.inl rfl) k hok es
      · rw [hp]; exact hh_after_vis [Cls.space] (Or.inr rfl) k hok es

theorem hh_addAll (es : List REmit) (hok : leadOK none es = true) :
    hashHash (({} : CBuf).addAll es).parts = hhE es := hh_addAll_gen es {} onlySp_empty hok

/-! ## a trailing space is never followed by the blank of a literal -/

def lastSp (es : List REmit) : Bool := es.getLast? == some .sp

def trOK (w : DMode) (k : Cls) : Bool :=
  match dstep w k.kind with
  | none => true
  | some o =>
    let es := refEmits w k o
    (es != [] || w.inLiteral || !o.mode.inLiteral) && (!lastSp es || !o.mode.inLiteral) &&
      (w.inLiteral || firstOK es)

theorem trOK_all : (allW.all fun w => allC.all fun c => trOK w c) = true := by decide

theorem trOK_each (w : DMode) (k : Cls) : trOK w k = true := by
  have h := trOK_all
  simp only [List.all_eq_true] at h
  exact h w (by cases w <;> simp [allW]) k (by cases k <;> simp [allC])

theorem app_append (xs ys : List REmit) : ∀ tr, (app tr (xs ++ ys)).2 = (app (app tr xs).2 ys).2 := by
  induction xs with
  | nil => intro tr; rfl
  | cons e xs ih =>
    intro tr
    cases e with
    | sp => cases tr <;> simp [app, ih]
    | ns k => simp [app, ih]

theorem app_tr_cases (es : List REmit) (tr : Bool) : (app tr es).2 = if es = [] then tr else lastSp es := by
  induction es generalizing tr with
  | nil => rfl
  | cons e es ih =>
    cases e with
    | sp =>
      cases tr <;> simp only [app, if_true, Bool.false_eq_true, if_false, ih] <;>
        (cases es <;> simp [lastSp, List.getLast?_cons_cons])
    | ns k =>
      simp only [app, ih]
      cases es <;> simp [lastSp, List.getLast?_cons_cons]

theorem firstOK_append (xs ys : List REmit) : firstOK (xs ++ ys) = if xs = [] then firstOK ys else firstOK xs := by
  cases xs with
  | nil => rfl
  | cons e xs => cases e with
    | sp => rfl
    | ns k => cases k <;> rfl

/-- over the characters of a line: if the buffer's trailing flag implies a non-literal mode before,
    it does so after, and a literal blank is never the first action after a trailing space -/
theorem chars_tr (ks : List Cls) : ∀ (w w' : DMode) (es : List REmit) (tr : Bool),
    refChars w ks = some (w', es) → (tr = true → w.inLiteral = false) →
    ((app tr es).2 = true → w'.inLiteral = false) ∧ (tr = true → firstOK es = true) := by
  induction ks with
  | nil =>
    intro w w' es tr h htr
    simp only [refChars, Option.some.injEq, Prod.mk.injEq] at h
    obtain ⟨rfl, rfl⟩ := h
    exact ⟨fun h => htr (by simpa [app] using h), fun _ => rfl⟩
  | cons k ks ih =>
    intro w w' es tr h htr
    simp only [refChars] at h
    cases ho : dstep w k.kind with
    | none => simp [ho] at h
    | some o =>
      simp only [ho] at h
      cases hr : refChars o.mode ks with
      | none => simp [hr] at h
      | some r =>
        obtain ⟨w2, es2⟩ := r
        simp only [hr, Option.some.injEq, Prod.mk.injEq] at h
        obtain ⟨rfl, rfl⟩ := h
        have ht := trOK_each w k
        simp only [trOK, ho, Bool.and_eq_true, Bool.or_eq_true, Bool.not_eq_true', bne_iff_ne, ne_eq] at ht
        obtain ⟨⟨t1, t2⟩, t3⟩ := ht
        have hmid : (app tr (refEmits w k o)).2 = true → o.mode.inLiteral = false := by
          rw [app_tr_cases]
          split
          · rename_i hnil
            intro htr'
            rcases t1 with (t1 | t1) | t1
            · exact absurd hnil t1
            · rw [htr htr'] at t1; exact absurd t1 (by simp)
            · exact t1
          · intro hl
            rcases t2 with t2 | t2
            · rw [hl] at t2; exact absurd t2 (by simp)
            · exact t2
        obtain ⟨i1, i2⟩ := ih o.mode w2 es2 (app tr (refEmits w k o)).2 hr hmid
        refine ⟨?_, ?_⟩
        · rw [app_append]; exact i1
        · intro htr'
          rw [firstOK_append]
          split
          · rename_i hnil
            have : (app tr (refEmits w k o)).2 = true := by rw [app_tr_cases, if_pos hnil]; exact htr'
            exact i2 this
          · rcases t3 with t3 | t3
            · rw [htr htr'] at t3; exact absurd t3 (by simp)
            · exact t3

theorem line_tr (w w' : DMode) (ks : List Cls) (cont : Bool) (es : List REmit) (ends : Bool) (tr : Bool)
    (h : refLine w ks cont = some (w', es, ends)) (htr : tr = true → w.inLiteral = false) :
    ((app tr es).2 = true → w'.inLiteral = false) ∧ (tr = true → firstOK es = true) := by
  unfold refLine at h
  cases hr : refChars w ks with
  | none => simp [hr] at h
  | some r =>
    obtain ⟨w1, es1⟩ := r
    simp only [hr] at h
    obtain ⟨c1, c2⟩ := chars_tr ks w w1 es1 tr hr htr
    cases cont with
    | true =>
      simp only [if_true, Option.some.injEq, Prod.mk.injEq] at h
      obtain ⟨rfl, rfl, rfl⟩ := h
      exact ⟨c1, c2⟩
    | false =>
      simp only [Bool.false_eq_true, if_false] at h
      cases hn : refNewline w1 with
      | none => simp [hn] at h
      | some r2 =>
        obtain ⟨w2, es2, e2⟩ := r2
        simp only [hn, Option.some.injEq, Prod.mk.injEq] at h
        obtain ⟨rfl, rfl, rfl⟩ := h
        have hw2 : w2.inLiteral = false := by
          revert hn; cases w1 <;> simp [refNewline] <;> intro h _ _ <;> subst h <;> rfl
        refine ⟨fun _ => hw2, ?_⟩
        intro htr'
        rw [firstOK_append]
        split
        · revert hn; cases w1 <;> simp [refNewline] <;> intro _ h _ <;> subst h <;> rfl
        · exact c2 htr'


/-! ## the joined buffer of every logical line -/

/-- everything the reference lets survive on each logical line, as buffer actions -/
def expectE (acc : List REmit) : List LD → List (List REmit)
  | [] => [acc]
  | d :: ds => if d.ends then (acc ++ d.es) :: expectE [] ds else expectE (acc ++ d.es) ds

theorem addAll_trailing (es : List REmit) : (({} : CBuf).addAll es).trailing = (app false es).2 := by
  rw [addAll_app]

theorem srcLoop_parts (rs : List RawLine) : ∀ (s : DState) (n : Nat) (scs : List Scan) (d : Bool) (acc : Acc)
    (E : List REmit),
    scanPer s (n + 1) rs = some scs → (∀ sc ∈ scs, sc.k1 = false) →
    (lastSt s scs).mode = .code → (∀ r ∈ rs, plainLine r = true) →
    s.mode ≠ .sqSl → acc.cur.toC = ({} : CBuf).addAll E → leadOK none E = true →
    ((app false E).2 = true → s.mode.inLiteral = false) → (lead none E = none → s.mode.inLiteral = false) →
    (srcLoop (absStack d s.mode) acc n (rs.map toPLine)).1.map (fun l => l.parts.map (·.1))
        = (expectE E (scs.map ldOf)).map (fun e => (({} : CBuf).addAll e).parts) ∧
      ∀ e ∈ expectE E (scs.map ldOf), leadOK none e = true := by
  induction rs with
  | nil =>
    intro s n scs d acc E h _ _ _ _ hcur hok _ _
    simp only [scanPer, Option.some.injEq] at h
    subst h
    simp only [List.map_nil, srcLoop, expectE, List.map_cons, List.mem_singleton, forall_eq]
    refine ⟨?_, hok⟩
    rw [← hcur]; rfl
  | cons r rs ih =>
    intro s n scs d acc E h hk1 hlast hplain hsq hcur hok htr hlead
    simp only [scanPer] at h
    cases hdec : decomment s (lineItems (n + 1) r) with
    | none => simp [hdec] at h
    | some sc =>
      simp only [hdec] at h
      cases hrest : scanPer sc.st (n + 1 + 1) rs with
      | none => simp [hrest] at h
      | some rest =>
        simp only [hrest, Option.some.injEq] at h
        subst h
        obtain ⟨ends, body, f⟩ := line_ref s (n + 1) r sc hdec (hplain r (by simp))
        have hk1r : ∀ x ∈ rest, x.k1 = false := fun x hx => hk1 x (by simp [hx])
        simp only [lastSt] at hlast
        have hsq' : sc.st.mode ≠ .sqSl := by
          intro hm
          have hpt := f.ptag (fun h => absurd h hsq) hm
          rcases sqSl_carry rs sc.st (n + 1 + 1) rest hrest hm (by omega) with h1 | h1
          · simp only [List.any_eq_true] at h1
            obtain ⟨x, hx, hxk⟩ := h1
            rw [hk1r x hx] at hxk; exact absurd hxk (by simp)
          · rw [hlast] at h1; exact absurd h1 (by simp)
        have hw : holdL s.mode = [] := by simp [holdL, hsq]
        have hw' : holdL sc.st.mode = [] := by simp [holdL, hsq']
        obtain ⟨d', p1, p2, p3, _⟩ := line_sim d s.mode sc.st.mode (toPLine r) (renderAll body) ends f.ref hw hw'
        obtain ⟨l1, l2, l3⟩ := line_lead s.mode sc.st.mode _ _ (renderAll body) ends (lead none E) f.ref hlead
        obtain ⟨t1, t2⟩ := line_tr s.mode sc.st.mode _ _ (renderAll body) ends (app false E).2 f.ref htr
        have hld := ldOf_facts f
        have hjoin : (acc.cur.join (procLine (absStack d s.mode) (toPLine r)).2.1).toC
            = ({} : CBuf).addAll (E ++ renderAll body) := by
          rw [toC_join, p2, hcur, join_addAll _ _ (by rw [addAll_trailing]; exact t2), CBuf.addAll_append]
        have hok' : leadOK none (E ++ renderAll body) = true := by
          rw [leadOK_append, hok, l1]; rfl
        have hplain' : ∀ r' ∈ rs, plainLine r' = true := fun r' hr' => hplain r' (by simp [hr'])
        simp only [List.map_cons, srcLoop, hld, expectE]
        cases hends : ends with
        | true =>
          rw [hends] at p3 l3
          have hcode : sc.st.mode = .code := l3 rfl
          have ih' := ih sc.st (n + 1) rest d' { start := n + 2 } [] hrest hk1r hlast hplain' hsq' rfl rfl
            (by simp [app]) (fun _ => by simp [hcode, DMode.inLiteral])
          simp only [p3, if_true, List.map_cons, p1, List.mem_cons, forall_eq_or_imp]
          refine ⟨?_, hok', ih'.2⟩
          rw [ih'.1]
          congr 1
          have := congrArg CBuf.parts hjoin
          simpa [Buf.toC] using this
        | false =>
          rw [hends] at p3
          simp only [p3, Bool.false_eq_true, if_false, p1]
          exact ih sc.st (n + 1) rest d' _ (E ++ renderAll body) hrest hk1r hlast hplain' hsq' hjoin hok'
            (by rw [app_append]; exact t1) (by rw [lead_append]; exact l2)

/-! ## the specification side -/

theorem segments_mem (xs : List Surv) : ∀ (cur seg : List Surv), seg ∈ segments xs cur → ∀ x ∈ seg,
    (x ∈ xs ∨ x ∈ cur) ∧ (x.isNl = true → x ∈ cur) := by
  induction xs with
  | nil =>
    intro cur seg hseg x hx
    simp only [segments] at hseg
    split at hseg
    · simp at hseg
    · simp only [List.mem_singleton] at hseg
      subst hseg
      have : x ∈ cur := by simpa using hx
      exact ⟨Or.inr this, fun _ => this⟩
  | cons y ys ih =>
    intro cur seg hseg x hx
    cases y with
    | nl n =>
      simp only [segments, List.mem_cons] at hseg
      rcases hseg with rfl | hseg
      · have : x ∈ cur := by simpa using hx
        exact ⟨Or.inr this, fun _ => this⟩
      · obtain ⟨h1, h2⟩ := ih [] seg hseg x hx
        refine ⟨?_, fun hn => ?_⟩
        · rcases h1 with h1 | h1
          · exact Or.inl (by simp [h1])
          · simp at h1
        · have := h2 hn; simp at this
    | ch c n lit =>
      simp only [segments] at hseg
      obtain ⟨h1, h2⟩ := ih (.ch c n lit :: cur) seg hseg x hx
      refine ⟨?_, fun hn => ?_⟩
      · rcases h1 with h1 | h1
        · exact Or.inl (by simp [h1])
        · simp only [List.mem_cons] at h1
          rcases h1 with rfl | h1
          · exact Or.inl (by simp)
          · exact Or.inr h1
      · have := h2 hn
        simp only [List.mem_cons] at this
        rcases this with rfl | this
        · simp [Surv.isNl] at hn
        · exact this

theorem expectE_segments (rs : List RawLine) : ∀ (s : DState) (n : Nat) (scs : List Scan) (cur : List Surv),
    scanPer s (n + 1) rs = some scs → (∀ sc ∈ scs, sc.k1 = false) → (∀ r ∈ rs, plainLine r = true) →
    ∀ e ∈ expectE (renderAll cur.reverse) (scs.map ldOf),
      e = [] ∨ ∃ seg ∈ segments (scs.flatMap (·.out)) cur, renderAll seg = e := by
  induction rs with
  | nil =>
    intro s n scs cur h _ _ e he
    simp only [scanPer, Option.some.injEq] at h
    subst h
    simp only [List.map_nil, expectE, List.mem_singleton] at he
    subst he
    cases cur with
    | nil => left; rfl
    | cons x xs => right; exact ⟨(x :: xs).reverse, by simp [segments], rfl⟩
  | cons r rs ih =>
    intro s n scs cur h hk hp e he
    simp only [scanPer] at h
    cases hd : decomment s (lineItems (n + 1) r) with
    | none => simp [hd] at h
    | some sc =>
      simp only [hd] at h
      cases hr : scanPer sc.st (n + 1 + 1) rs with
      | none => simp [hr] at h
      | some rest =>
        simp only [hr, Option.some.injEq] at h
        subst h
        obtain ⟨_, _, ends, body, hout, hnonl, hld⟩ := line_out s (n + 1) r sc hd (hk sc (by simp)) (hp r (by simp))
        simp only [List.map_cons, hld, expectE] at he
        simp only [List.flatMap_cons]
        rw [hout, List.append_assoc, segments_body body _ cur hnonl]
        have hk' : ∀ y ∈ rest, y.k1 = false := fun y hy => hk y (by simp [hy])
        have hp' : ∀ y ∈ rs, plainLine y = true := fun y hy => hp y (by simp [hy])
        cases ends with
        | true =>
          simp only [if_true, List.mem_cons] at he
          simp only [if_true, List.singleton_append, segments, List.reverse_append, List.reverse_reverse, List.mem_cons]
          rcases he with rfl | he
          · right
            exact ⟨cur.reverse ++ body, Or.inl rfl, by rw [renderAll_append]⟩
          · have := ih sc.st (n + 1) rest [] hr hk' hp' e (by simpa [renderAll] using he)
            rcases this with h1 | ⟨seg, hs, hre⟩
            · exact Or.inl h1
            · exact Or.inr ⟨seg, Or.inr hs, hre⟩
        | false =>
          simp only [Bool.false_eq_true, if_false, List.nil_append] at he ⊢
          have hacc : renderAll (body.reverse ++ cur).reverse = renderAll cur.reverse ++ renderAll body := by
            simp [List.reverse_append, renderAll_append]
          exact ih sc.st (n + 1) rest (body.reverse ++ cur) hr hk' hp' e (by rw [hacc]; exact he)


/-! ## `##` in the specification's terms -/

theorem shh_white (x : Surv) (xs : List Surv) (h : x.isWhite = true) :
    CLexRef.startsHashHash (x :: xs) = CLexRef.startsHashHash xs := by
  simp [CLexRef.startsHashHash, List.dropWhile, h]

def isHashCh : Surv → Bool
  | .ch c _ _ => c == '#'
  | .nl _ => false

theorem shh_nonwhite (x : Surv) (xs : List Surv) (h : x.isWhite = false) :
    CLexRef.startsHashHash (x :: xs) = (isHashCh x && (match xs with | y :: _ => isHashCh y | [] => false)) := by
  cases x with
  | nl n => simp [Surv.isWhite] at h
  | ch c n lit =>
    simp only [CLexRef.startsHashHash, List.dropWhile, h, isHashCh]
    by_cases hc : c = '#'
    · subst hc
      cases xs with
      | nil => simp
      | cons y ys =>
        cases y with
        | nl m => simp [isHashCh]
        | ch c2 m l2 =>
          by_cases hc2 : c2 = '#'
          · subst hc2; simp [isHashCh]
          · simp [hc2]
    · have : (c == '#') = false := by simpa using hc
      simp only [this, Bool.false_and]
      split <;> simp_all

theorem classify_hash_ch (c : Char) : (c == '#') = true → classify c = Cls.hash := by
  intro h; have := classify_hash c; rw [h] at this; simpa using this

theorem hhE_ns (k : Cls) (es : List REmit) : hhE (.ns k :: es) =
    (k == Cls.hash && (match es with | .ns k2 :: _ => k2 == Cls.hash | _ => false)) := by
  cases k <;> simp [hhE] <;> (cases es with
    | nil => simp [hhE]
    | cons e es' => cases e with
      | sp => simp [hhE]
      | ns k2 => cases k2 <;> simp [hhE])

theorem hh_spec (seg : List Surv) : (∀ x ∈ seg, x.plain = true) → (∀ x ∈ seg, x.isNl = false) →
    leadOK none (renderAll seg) = true → CLexRef.startsHashHash seg = hhE (renderAll seg) := by
  induction seg with
  | nil => intro _ _ _; rfl
  | cons x xs ih =>
    intro hp hn hok
    have hp' : ∀ y ∈ xs, y.plain = true := fun y hy => hp y (by simp [hy])
    have hn' : ∀ y ∈ xs, y.isNl = false := fun y hy => hn y (by simp [hy])
    cases x with
    | nl n => have := hn (.nl n) (by simp); simp [Surv.isNl] at this
    | ch c n lit =>
      have hpc : plainChar c = true := hp (.ch c n lit) (by simp)
      cases hw : cWhite c with
      | true =>
        rw [shh_white _ _ (by simp [Surv.isWhite, hw])]
        cases lit with
        | false =>
          simp only [renderAll, List.flatMap_cons, Surv.render, hw, Bool.not_false, Bool.and_true, if_true,
            List.singleton_append, hhE, leadOK] at hok ⊢
          exact ih hp' hn' hok
        | true =>
          simp only [renderAll, List.flatMap_cons, Surv.render, hw, Bool.not_true, Bool.and_false,
            Bool.false_eq_true, if_false, List.singleton_append, leadOK, isWhite_classify c hpc] at hok
      | false =>
        rw [shh_nonwhite _ _ (by simp [Surv.isWhite, hw])]
        have hr : renderAll (Surv.ch c n lit :: xs) = .ns (classify c) :: renderAll xs := by
          simp [renderAll, Surv.render, hw]
        rw [hr, hhE_ns, classify_hash c]
        simp only [isHashCh]
        congr 1
        cases xs with
        | nil => rfl
        | cons y ys =>
          cases y with
          | nl m => have := hn (.nl m) (by simp); simp [Surv.isNl] at this
          | ch c2 m l2 =>
            have hpc2 : plainChar c2 = true := hp (.ch c2 m l2) (by simp)
            simp only [isHashCh, renderAll, List.flatMap_cons, Surv.render, List.singleton_append]
            by_cases hc2 : c2 = '#'
            · subst hc2
              have : cWhite '#' = false := by decide
              simp [this, classify]
            · have h1 : (c2 == '#') = false := by simpa using hc2
              rw [h1]
              have hcl := classify_hash c2
              rw [h1] at hcl
              cases hq : (cWhite c2 && !l2)
              · simp only [Bool.false_eq_true, if_false]
                exact hcl.symm
              · simp


/-! ## assembling: the `##` test of `FileParser.is_directive`, logical line by logical line (F-C05-3 repaired) -/

/-- the `LineGroup` folding of `parse_file` raises nothing -/
theorem groupLoop_ok (lls : List LLine) : ∀ code : Option (List Nat × Nat), ∃ ns, groupLoop code lls = .ok ns := by
  induction lls with
  | nil => intro code; cases code <;> exact ⟨_, rfl⟩
  | cons l rest ih =>
    intro code
    simp only [groupLoop]
    split
    · obtain ⟨ns, hns⟩ := ih none
      rw [hns]
      cases code <;> exact ⟨_, rfl⟩
    · cases code with
      | none => exact ih _
      | some c => exact ih _

theorem all_eq (ls : List RawLine) (h : badFinal ls = false) :
    (cFileSourceLines ls).all = (srcLoop [.top] {} 0 (ls.map toPLine)).1 := by
  simp [cFileSourceLines, h]

/-- like `segments`, but the last segment is listed even when it is empty (as `c_file_source` flushes at the end of
    the file whatever the buffer holds) -/
def segmentsAll : List Surv → List Surv → List (List Surv)
  | [], cur => [cur.reverse]
  | .nl _ :: rest, cur => cur.reverse :: segmentsAll rest []
  | .ch c n l :: rest, cur => segmentsAll rest (.ch c n l :: cur)

theorem segmentsAll_spec (xs : List Surv) : ∀ cur, ∃ tl, segmentsAll xs cur = segments xs cur ++ tl ∧ (tl = [] ∨ tl = [[]]) := by
  induction xs with
  | nil =>
    intro cur
    cases cur with
    | nil => exact ⟨[[]], by simp [segmentsAll, segments], Or.inr rfl⟩
    | cons x xs => exact ⟨[], by simp [segmentsAll, segments], Or.inl rfl⟩
  | cons y ys ih =>
    intro cur
    cases y with
    | nl n =>
      obtain ⟨tl, h1, h2⟩ := ih []
      exact ⟨tl, by simp [segmentsAll, segments, h1], h2⟩
    | ch c n l =>
      obtain ⟨tl, h1, h2⟩ := ih (.ch c n l :: cur)
      exact ⟨tl, by simp [segmentsAll, segments, h1], h2⟩

theorem segmentsAll_body (body : List Surv) : ∀ (rest cur : List Surv), (∀ x ∈ body, x.isNl = false) →
    segmentsAll (body ++ rest) cur = segmentsAll rest (body.reverse ++ cur) := by
  induction body with
  | nil => intro rest cur _; rfl
  | cons x body ih =>
    intro rest cur h
    cases x with
    | nl n => have := h (.nl n) (by simp); simp [Surv.isNl] at this
    | ch c n lit =>
      simp only [List.cons_append, segmentsAll]
      rw [ih rest _ (fun y hy => h y (by simp [hy]))]
      simp

/-- the buffer actions of the logical lines are the renderings of the specification's segments, in order -/
theorem expectE_segmentsAll (rs : List RawLine) : ∀ (s : DState) (n : Nat) (scs : List Scan) (cur : List Surv),
    scanPer s (n + 1) rs = some scs → (∀ sc ∈ scs, sc.k1 = false) → (∀ r ∈ rs, plainLine r = true) →
    expectE (renderAll cur.reverse) (scs.map ldOf) = (segmentsAll (scs.flatMap (·.out)) cur).map renderAll := by
  induction rs with
  | nil =>
    intro s n scs cur h _ _
    simp only [scanPer, Option.some.injEq] at h
    subst h
    simp [expectE, segmentsAll]
  | cons r rs ih =>
    intro s n scs cur h hk hp
    simp only [scanPer] at h
    cases hd : decomment s (lineItems (n + 1) r) with
    | none => simp [hd] at h
    | some sc =>
      simp only [hd] at h
      cases hr : scanPer sc.st (n + 1 + 1) rs with
      | none => simp [hr] at h
      | some rest =>
        simp only [hr, Option.some.injEq] at h
        subst h
        obtain ⟨_, _, ends, body, hout, hnonl, hld⟩ := line_out s (n + 1) r sc hd (hk sc (by simp)) (hp r (by simp))
        have hk' : ∀ y ∈ rest, y.k1 = false := fun y hy => hk y (by simp [hy])
        have hp' : ∀ y ∈ rs, plainLine y = true := fun y hy => hp y (by simp [hy])
        simp only [List.map_cons, hld, expectE, List.flatMap_cons]
        rw [hout, List.append_assoc, segmentsAll_body body _ cur hnonl]
        cases ends with
        | true =>
          have ih' := ih sc.st (n + 1) rest [] hr hk' hp'
          simp only [List.reverse_nil, renderAll, List.flatMap_nil] at ih'
          simp only [if_true, List.singleton_append, segmentsAll, List.map_cons, List.reverse_append,
            List.reverse_reverse]
          rw [← ih', renderAll_append]
        | false =>
          simp only [Bool.false_eq_true, if_false, List.nil_append]
          have hacc : renderAll (body.reverse ++ cur).reverse = renderAll cur.reverse ++ renderAll body := by
            simp [List.reverse_append, renderAll_append]
          rw [← hacc]
          exact ih sc.st (n + 1) rest (body.reverse ++ cur) hr hk' hp'

theorem tags_le (rs : List RawLine) : ∀ (s : DState) (n : Nat) (scs : List Scan), scanPer s (n + 1) rs = some scs →
    (∀ sc ∈ scs, sc.k1 = false) → (∀ r ∈ rs, plainLine r = true) →
    ∀ x ∈ scs.flatMap (·.out), x.lineNo ≤ n + rs.length := by
  induction rs with
  | nil =>
    intro s n scs h _ _
    simp only [scanPer, Option.some.injEq] at h
    subst h; simp
  | cons r rs ih =>
    intro s n scs h hk hp
    simp only [scanPer] at h
    cases hd : decomment s (lineItems (n + 1) r) with
    | none => simp [hd] at h
    | some sc =>
      simp only [hd] at h
      cases hr : scanPer sc.st (n + 1 + 1) rs with
      | none => simp [hr] at h
      | some rest =>
        simp only [hr, Option.some.injEq] at h
        subst h
        intro x hx
        simp only [List.flatMap_cons, List.mem_append] at hx
        simp only [List.length_cons]
        rcases hx with hx | hx
        · have := (line_out s (n + 1) r sc hd (hk sc (by simp)) (hp r (by simp))).1 x hx
          omega
        · have := ih sc.st (n + 1) rest hr (fun y hy => hk y (by simp [hy])) (fun y hy => hp y (by simp [hy])) x hx
          omega

/-- F-C05-2 excluded for every physical line ⇒ excluded for every logical line -/
theorem expectE_k2 (lds : List LD) : ∀ E : List REmit, (anyLitWs E = true → anyVisible E = true) →
    (∀ d ∈ lds, anyLitWs d.es = true → anyVisible d.es = true) →
    ∀ e ∈ expectE E lds, anyLitWs e = true → anyVisible e = true := by
  induction lds with
  | nil =>
    intro E hE _ e he
    simp only [expectE, List.mem_singleton] at he
    subst he; exact hE
  | cons d ds ih =>
    intro E hE hd e he
    have happ : anyLitWs (E ++ d.es) = true → anyVisible (E ++ d.es) = true := by
      intro h
      simp only [anyLitWs, anyVisible, List.any_append, Bool.or_eq_true] at h ⊢
      rcases h with h | h
      · exact Or.inl (hE h)
      · exact Or.inr (hd d (by simp) h)
    have hds : ∀ d' ∈ ds, anyLitWs d'.es = true → anyVisible d'.es = true := fun d' hd' => hd d' (by simp [hd'])
    simp only [expectE] at he
    split at he
    · simp only [List.mem_cons] at he
      rcases he with rfl | he
      · exact happ
      · exact ih [] (by simp [anyLitWs]) hds e he
    · exact ih _ happ hds e he

theorem srcLoop_cat : ∀ (ls : List PLine) (st : Stack) (acc : Acc) (n : Nat),
    ∀ l ∈ (srcLoop st acc n ls).1, l.cat = catOf (l.parts.map (·.1)) := by
  intro ls
  induction ls with
  | nil =>
    intro st acc n l hl
    simp only [srcLoop, List.mem_singleton] at hl
    subst hl; rfl
  | cons p ps ih =>
    intro st acc n l hl
    simp only [srcLoop] at hl
    split at hl
    · simp only [List.mem_cons] at hl
      rcases hl with rfl | hl
      · rfl
      · exact ih _ _ _ l hl
    · exact ih _ _ _ l hl

theorem filter_isEmpty_not {α : Type} (p : α → Bool) (l : List α) : (!(l.filter p).isEmpty) = l.any p := by
  induction l with
  | nil => rfl
  | cons a as ih =>
    simp only [List.filter_cons, List.any_cons]
    cases p a
    · simpa using ih
    · simp

/-- a segment whose survivors stand on lines `1..cnt` has a counted line iff one of them is not white -/
theorem linesOf_nonempty (cnt : Nat) (seg : List Surv) (h : ∀ x ∈ seg, 1 ≤ x.lineNo ∧ x.lineNo ≤ cnt) :
    (!(linesOf cnt seg).isEmpty) = seg.any (fun x => !x.isWhite) := by
  unfold linesOf
  rw [filter_isEmpty_not]
  rw [Bool.eq_iff_iff]
  simp only [List.any_eq_true, List.mem_range'_1, Bool.not_eq_true']
  constructor
  · rintro ⟨n, _, x, hx, hnw⟩
    rw [nonWhiteOn_eq] at hnw
    simp only [Bool.and_eq_true, Bool.not_eq_true'] at hnw
    exact ⟨x, hx, hnw.2⟩
  · rintro ⟨x, hx, hnw⟩
    have := h x hx
    refine ⟨x.lineNo, by omega, x, hx, ?_⟩
    rw [nonWhiteOn_eq]
    simp [hnw]

theorem filter_map_pair {α β γ : Type} (p : α → Bool) (g : α → γ) (q : β → Bool) (h : β → γ) :
    ∀ (A : List α) (B : List β), A.map (fun a => (p a, g a)) = B.map (fun b => (q b, h b)) →
      (A.filter p).map g = (B.filter q).map h := by
  intro A
  induction A with
  | nil => intro B hB; cases B with
    | nil => rfl
    | cons b bs => simp at hB
  | cons a as ih =>
    intro B hB
    cases B with
    | nil => simp at hB
    | cons b bs =>
      simp only [List.map_cons, List.cons.injEq, Prod.mk.injEq] at hB
      obtain ⟨⟨h1, h2⟩, h3⟩ := hB
      have := ih bs h3
      simp only [List.filter_cons, ← h1]
      cases p a
      · simpa using this
      · simp [this, h2]

theorem map_zip2 {α β γ δ ε : Type} (f1 : α → γ) (f2 : α → δ) (g1 : β → γ) (g2 : β → δ) (F : γ → δ → ε) :
    ∀ (A : List α) (B : List β), A.map f1 = B.map g1 → A.map f2 = B.map g2 →
      A.map (fun a => F (f1 a) (f2 a)) = B.map (fun b => F (g1 b) (g2 b)) := by
  intro A
  induction A with
  | nil => intro B h1 _; cases B with
    | nil => rfl
    | cons b bs => simp at h1
  | cons a as ih =>
    intro B h1 h2
    cases B with
    | nil => simp at h1
    | cons b bs =>
      simp only [List.map_cons, List.cons.injEq] at h1 h2 ⊢
      exact ⟨by rw [h1.1, h2.1], ih bs h1.2 h2.2⟩

/-- logical line by logical line (BLANK ones included): `c_file_source` yields the line iff the specification
    counts a line of the segment, and the buffer starts with `##` iff the segment does -/
theorem lines_flags (ls : List RawLine) (scs : List Scan) (f : TextFacts ls scs) (hnl : nlOK ls = true) :
    (cFileSourceLines ls).all.map (fun l => (l.yielded, l.startsHashHash)) =
      (segmentsAll (scs.flatMap (·.out)) []).map
        (fun seg => (!(linesOf ls.length seg).isEmpty, CLexRef.startsHashHash seg)) := by
  rw [all_eq ls (badFinal_false ls hnl f.nofinal)]
  have h := srcLoop_parts ls {} 0 scs false {} [] f.scan f.k1 f.last f.plain (by simp) rfl rfl (by simp [app])
    (fun _ => rfl)
  have habs : absStack false ({} : DState).mode = [.top] := rfl
  rw [habs] at h
  obtain ⟨hparts, hlead⟩ := h
  have hseg := expectE_segmentsAll ls {} 0 scs [] f.scan f.k1 f.plain
  simp only [List.reverse_nil, renderAll, List.flatMap_nil] at hseg
  have hk2 := expectE_k2 (scs.map ldOf) [] (by simp [anyLitWs]) (by
    intro d hd
    simp only [List.mem_map] at hd
    obtain ⟨sc, hsc, rfl⟩ := hd
    exact f.k2 sc hsc)
  have hcat := srcLoop_cat (ls.map toPLine) [.top] {} 0
  -- the model side, in terms of the buffer actions
  have hA : (srcLoop [.top] {} 0 (ls.map toPLine)).1.map (fun l => (l.yielded, l.startsHashHash)) =
      (expectE [] (scs.map ldOf)).map (fun e => (anyVisible e, hhE e)) := by
    have e1 : (srcLoop [.top] {} 0 (ls.map toPLine)).1.map (fun l => (l.yielded, l.startsHashHash)) =
        ((srcLoop [.top] {} 0 (ls.map toPLine)).1.map (fun l => l.parts.map (·.1))).map
          (fun cs => (catOf cs != Cat.blank, hashHash cs)) := by
      rw [List.map_map]
      apply List.map_congr_left
      intro l hl
      simp only [Function.comp, LLine.yielded, LLine.startsHashHash, hcat l hl]
    rw [e1, hparts, List.map_map]
    apply List.map_congr_left
    intro e he
    simp only [Function.comp, counted_iff e (hk2 e he), hh_addAll e (hlead e he)]
  rw [hA, hseg, List.map_map]
  apply List.map_congr_left
  intro seg hs
  -- facts about one segment
  have hplainAll : ∀ x ∈ scs.flatMap (·.out), x.plain = true := by
    have hsc := decomment_splice ls {} 1
    rw [f.scan] at hsc
    simp only [Option.map_some] at hsc
    have := decomment_plain (splice 1 ls) {} _ hsc (by
      intro it hit
      clear hsc
      have : ∀ (rs : List RawLine) (n : Nat), (∀ r ∈ rs, plainLine r = true) → ∀ it ∈ splice n rs, it.plain = true := by
        intro rs
        induction rs with
        | nil => intro n _ it hit; simp [splice] at hit
        | cons r rs ih =>
          intro n hp it hit
          simp only [splice, List.mem_append] at hit
          rcases hit with hit | hit
          · exact lineItems_plain n r (hp r (by simp)) it hit
          · exact ih (n + 1) (fun r' hr' => hp r' (by simp [hr'])) it hit
      exact this ls 1 f.plain it hit)
    simpa using this
  have hge := tags_ge ls {} 0 scs f.scan f.k1 f.plain
  have hle := tags_le ls {} 0 scs f.scan f.k1 f.plain
  have hin : ∀ x ∈ seg, x ∈ scs.flatMap (·.out) ∧ x.isNl = false := by
    obtain ⟨tl, htl, hcases⟩ := segmentsAll_spec (scs.flatMap (·.out)) []
    rw [htl, List.mem_append] at hs
    rcases hs with hs | hs
    · intro x hx
      have hmem := segments_mem _ [] seg hs x hx
      refine ⟨?_, ?_⟩
      · rcases hmem.1 with h1 | h1
        · exact h1
        · simp at h1
      · cases hx' : x.isNl with
        | false => rfl
        | true => have := hmem.2 hx'; simp at this
    · rcases hcases with rfl | rfl
      · simp at hs
      · simp only [List.mem_singleton] at hs
        subst hs
        intro x hx; simp at hx
  have hpl : ∀ x ∈ seg, x.plain = true := fun x hx => hplainAll x (hin x hx).1
  have hrng : ∀ x ∈ seg, 1 ≤ x.lineNo ∧ x.lineNo ≤ ls.length := by
    intro x hx
    have h1 := hge x (hin x hx).1
    have h2 := hle x (hin x hx).1
    omega
  have hlk : leadOK none (renderAll seg) = true := by
    apply hlead
    rw [hseg]
    exact List.mem_map_of_mem hs
  simp only [Function.comp]
  rw [linesOf_nonempty _ seg hrng, anyVisible_renderAll seg hpl,
    hh_spec seg hpl (fun x hx => (hin x hx).2) hlk]

/-- the logical lines as `parse_file` sees them (`FileParser.is_directive`, counted lines) are the
    specification's: a yielded line is a directive iff its first token is `#` -/
theorem logical_eq (ls : List RawLine) (scs : List Scan) (f : TextFacts ls scs) (hnl : nlOK ls = true) :
    ((cFileSourceLines ls).all.filter LLine.yielded).map (fun l => (l.isDirective, l.lines)) =
      logicalOf ls.length (scs.flatMap (·.out)) := by
  obtain ⟨_, hall⟩ := model_eq_expect ls scs f hnl
  -- category and counted lines (the `#` test)
  have h1 : ((cFileSourceLines ls).all.filter LLine.yielded).map (fun l => (l.cat == Cat.cppDirective, l.lines))
      = (((cFileSourceLines ls).all.map LLine.sum).filter fun x => x.2.2.2 != Cat.blank).map sumPair := by
    rw [List.filter_map, List.map_map]
    rfl
  have h2 := spec_expect ls.length ls {} 0 scs [] none [] 1 f.scan f.k1 f.plain (by omega)
    (by simp) (by simp) (by simp [firstNonWhite]) (by simp [linesOf_nil]) (by simp)
  rw [hall, ← h2, List.filter_map] at h1
  -- the `##` test
  have h3 := filter_map_pair _ _ _ _ _ _ (lines_flags ls scs f hnl)
  obtain ⟨tl, htl, hcases⟩ := segmentsAll_spec (scs.flatMap (·.out)) []
  have h4 : (segmentsAll (scs.flatMap (·.out)) []).filter (fun seg => !(linesOf ls.length seg).isEmpty) =
      (segments (scs.flatMap (·.out)) []).filter (fun seg => !(linesOf ls.length seg).isEmpty) := by
    rw [htl, List.filter_append]
    rcases hcases with rfl | rfl
    · simp
    · simp [linesOf_nil]
  rw [h4] at h3
  have hz := map_zip2 (fun l : LLine => (l.cat == Cat.cppDirective, l.lines)) LLine.startsHashHash
    (fun seg => (startsHash seg, linesOf ls.length seg)) CLexRef.startsHashHash
    (fun (p : Bool × List Nat) (b : Bool) => (p.1 && !b, p.2)) _ _ h1 h3
  unfold logicalOf
  rw [List.filter_map]
  exact hz

end CbiVerif.CLexSim
