import Lean.Data.Json
import CbiVerif.Model.C06Compose
import CbiVerif.Model.C06Fortran
import CbiVerif.Model.Exclude
import CbiVerif.Model.Summary
import CbiVerif.Drv.C06
/-! driver op for the composed C06 pipeline (source text → setmap / coverage):
`{"op":"c06text","files":[{"path":[..],"text":str}],"plats":[{"name":str,"entries":[{"file":[..],"defs":[..]}]}]}` →
`{"model": {"ok":{"files":[{"path":[..],"nodes":[[[plat..],num_lines,[line..]],..]}],"setmap":..,"summary":..,"coverage":..}} | {"exc":str},
  "spec": {"files":[{"guard":b,"counted":[..],"nodes":[[isDirective,[line..]],..],"attr":[[line,[plat..]],..]|null,
                     "accepts":b,"pp_agree":b}], "wf":b, "sloc":n}}`
`model` = `C06L.analyseL` (`Model/C06Fortran.lean`: the front end is chosen by the extension of the file — C family: `C06C.parseSrc`,
  free-form Fortran: `C06L.fParseSrc`, the C17 model; on a code base of C-family files it IS `C06C.analyse`,
  `C06.mixed_eq_C_on_C_files`) followed by `SM.getSetmap`, `Summary.rows`, `Cov.compute` — the definitions of
  `Props/C06Compose.lean` / `Props/C06Fortran.lean`;
`spec`  = per file the specification of its language — `CLexRef` (C05) or `Fortran.refText` / `Fortran.refNodes` (C17) — and
  `C06L.specLineAttrL` (C01 reference machine per `-D` list); every `spec.files[i]` also carries `"lang"`. -/
open Lean
namespace CbiVerif.Drv.C06Compose
open CbiVerif.SM CbiVerif.C06C CbiVerif.C06L CbiVerif.Drv.C06

def parseSrcFile (j : Json) : SrcFile :=
  ⟨strs ((j.getObjVal? "path").toOption.getD Json.null), ((j.getObjValAs? String "text").toOption.getD "").toList⟩

def parseEntry (j : Json) : Entry :=
  ⟨strs ((j.getObjVal? "file").toOption.getD Json.null), strs ((j.getObjVal? "defs").toOption.getD Json.null)⟩

def parsePlat (j : Json) : Plat :=
  ⟨(j.getObjValAs? String "name").toOption.getD "",
   ((j.getObjValAs? (Array Json) "entries").toOption.getD #[]).toList.map parseEntry⟩

def keyJson (k : Key) : Json := Json.arr (k.map Json.str).toArray

/-- do the two parser models (C05 `CClean.parseFile` + `attach`, and the literal port `PP.parseFile` used by op `c01`)
    give the same node list: kind, lines, macro name, payload spellings -/
def ppAgree (t : List Char) : Bool :=
  let sig := fun (pn : List PP.PNode) => pn.map fun n => (toString (repr n.kind), n.lines, n.name, n.toks.map (·.text))
  match cPNodes t, PP.parseFile (String.ofList t) with
  | .ok p, .ok q => sig p.pnodes == sig q
  | .error _, .error _ => true
  | _, _ => false

/-- the Fortran parser model of this composition (C17's `fortranSource` + `group` + `pnodeOf`) against the literal port used by
    C08 (`PP.fFileSource` + `Exclude.nodesOfRows`): same node list -/
def ppAgreeF (t : List Char) : Bool :=
  let sig := fun (pn : List PP.PNode) => pn.map fun n => (toString (repr n.kind), n.lines, n.name, n.toks.map (·.text))
  let port : Except PP.Err (List PP.PNode) :=
    match PP.fFileSource (String.ofList t) with
    | .error e => .error e
    | .ok rows => CbiVerif.Exclude.nodesOfRows rows
  match CbiVerif.Fortran.fortranPNodes (String.ofList t), port with
  | .ok p, .ok q => sig p == sig q
  | .error _, .error _ => true
  | _, _ => false

def langName : Lang → String
  | .cFamily => "c" | .fortranFree => "fortran-free" | .asm => "asm" | .unsupported => "unsupported"

def specFile (plats : List Plat) (f : SrcFile) : Json :=
  let entries := plats.flatMap fun p => p.entries.filter fun e => e.file == f.path
  let lang := langOf f.path
  let (attr, accepts) := match parseSrcL f with
    | .ok p => (Json.arr ((specLineAttrL plats f p.pnodes).map fun (x : Nat × Key) => Json.arr #[nj x.1, keyJson x.2]).toArray,
                structOK p.pnodes && entries.all fun e => refAccepts p.pnodes e.defs &&
                  (match PP.referenceNodes p.pnodes e.defs with | .ok r => r.err.isNone && !r.c23 | .error _ => false))
    | .error _ => (Json.null, false)
  Json.mkObj [("lang", Json.str (langName lang)),
    ("guard", Json.bool (guardL f)),
    ("counted", natsJson (countedL f)),
    ("nodes", Json.arr ((specNodesL f).map fun (x : Bool × List Nat) => Json.arr #[Json.bool x.1, natsJson x.2]).toArray),
    ("attr", attr), ("accepts", Json.bool accepts),
    ("pp_agree", Json.bool (match lang with | .cFamily => ppAgree f.text | .fortranFree => ppAgreeF f.text | _ => true))]

def handle (j : Json) : Json :=
  let files := ((j.getObjValAs? (Array Json) "files").toOption.getD #[]).toList.map parseSrcFile
  let plats := ((j.getObjValAs? (Array Json) "plats").toOption.getD #[]).toList.map parsePlat
  let model := match analyseL files plats with
    | .error e => Json.mkObj [("exc", toString (repr e))]
    | .ok fs =>
      let sm := getSetmap fs
      let summary := match CbiVerif.Summary.rows sm with
        | none => Json.null
        | some rows => Json.mkObj [
            ("rows", Json.arr (rows.map fun r => Json.arr #[Json.str r.name, nj r.count, ratJson (some r.percent)]).toArray),
            ("total", nj (CbiVerif.Summary.totalCount sm))]
      Json.mkObj [("ok", Json.mkObj [
        ("files", Json.arr (fs.map fun f => Json.mkObj [("path", keyJson f.path),
            ("nodes", Json.arr (f.nodes.map fun n => Json.arr #[keyJson n.plats, nj n.numLines, natsJson n.lines]).toArray)]).toArray),
        ("setmap", smJson sm), ("summary", summary),
        ("coverage", Json.arr ((CbiVerif.Cov.compute fs).map fun (p, s) =>
            Json.mkObj [("path", keyJson p), ("used", natsJson s.used), ("unused", natsJson s.unused)]).toArray)])]
  let sf := files.map (specFile plats)
  let flag := fun (k : String) (x : Json) => (x.getObjValAs? Bool k).toOption.getD false
  Json.mkObj [("model", model),
    ("spec", Json.mkObj [("files", Json.arr sf.toArray),
      ("wf", Json.bool (sf.all fun x => flag "guard" x && flag "accepts" x)),
      ("sloc", nj ((files.map fun f => (countedL f).length).sum))])]

def handlers : List (String × (Json → Json)) := [("c06text", handle)]

end CbiVerif.Drv.C06Compose
