import CbiVerif.Lemmas.MacroFunSimple
import CbiVerif.Lemmas.MacroObjSpec
/-! # C03, function-like fragment against the specification, part A: the specification's side

What `Spec.Prosser.expand` / `collect` / `bindArgs` / `subst` do on the image (`toSpec`) of model tokens, for function-like
macros without `#` / `##` / variadic parameters whose call arguments contain no macro name (`Inert`):

* `collect_split` — the specification's argument collection agrees with the model's `splitArgs`;
* `subst_fun`, `specSubst_map` — the specification's substitution agrees with the model's `substRef`;
* `spec_inert` — a list without macro names is its own complete macro expansion;
* `step_call`, `step_bare` — one iteration of the specification's loop at a function-like macro name. -/
namespace CbiVerif.MX
open CbiVerif.PP
open CbiVerif.Spec.Prosser (T K Macros Unspec)

/-- the specification's table for a table that may hold function-like macros (none of them variadic) -/
def specTableF (tbl : Table) : Macros :=
  tbl.map fun e => ⟨e.1, e.2.args, false, e.2.replacement.map (toSpec [])⟩

/-- tokens the comparison is about: no `#` / `##` / `defined`, a token that was painted earlier is not the name of a macro, and a
    token of kind `unknown` (which the lexer never gives these spellings) is not spelled like a parenthesis or a comma.  Literals
    spelled `,` `(` `)` are inside: since the repair of finding D44 only punctuators delimit arguments (`dtext`) -/
structure CTok (tbl : Table) (t : Tok) : Prop where
  paren : ∀ s, (s = "(" ∨ s = ")" ∨ s = ",") → t.kind = .unknown → t.text ≠ s
  nohash : t.text ≠ "#"
  nocat : t.text ≠ "##"
  nodef : t.text ≠ "defined"
  live : t.expandable = true ∨ (t.kind = .ident → tbl.get t.text = none)

def ctokb (tbl : Table) (t : Tok) : Bool :=
  (t.kind != .unknown || (t.text != "(" && t.text != ")" && t.text != ",")) &&
  t.text != "#" && t.text != "##" && t.text != "defined" &&
  (t.expandable || (t.kind != .ident || (tbl.get t.text).isNone))

theorem ctok_of_check (tbl : Table) (t : Tok) (h : ctokb tbl t = true) : CTok tbl t := by
  simp only [ctokb, Bool.and_eq_true, Bool.or_eq_true, bne_iff_ne, ne_eq, Option.isNone_iff_eq_none] at h
  obtain ⟨⟨⟨⟨h1, h2⟩, h3⟩, h4⟩, h5⟩ := h
  refine ⟨?_, h2, h3, h4, ?_⟩
  · intro s hs hk
    rcases h1 with h1 | h1
    · exact absurd hk h1
    · rcases hs with rfl | rfl | rfl
      · exact h1.1.1
      · exact h1.1.2
      · exact h1.2
  · rcases h5 with h5 | h5
    · exact Or.inl h5
    · right; intro hk
      rcases h5 with h5 | h5
      · exact absurd hk h5
      · exact h5

theorem CTok.pw {tbl : Table} {t : Tok} (h : CTok tbl t) (w : Bool) : CTok tbl { t with pw := w } :=
  ⟨h.paren, h.nohash, h.nocat, h.nodef, h.live⟩

theorem CTok.paint {tbl : Table} {t : Tok} (h : CTok tbl t) (hi : Inert tbl t) : CTok tbl (paint t) :=
  ⟨h.paren, h.nohash, h.nocat, h.nodef, Or.inr hi.2⟩

/-! ### tokens -/
theorem spell_of_punct (t : Tok) (h : kindOf t.kind = K.punct) : spellTok t = t.text := by
  cases t with
  | mk k tx pw ex => cases k <;> simp_all [kindOf, spellTok]

theorem isP_paren (tbl : Table) (hs : List String) (t : Tok) (h : CTok tbl t) (s : String) (hs' : s = "(" ∨ s = ")" ∨ s = ",") :
    Spec.Prosser.isP (toSpec hs t) s = (dtext t == s) := by
  have hne : ("" == s) = false := by rcases hs' with rfl | rfl | rfl <;> decide
  have hp := h.paren s hs'
  have k1 : (K.num == K.punct) = false := by decide
  have k2 : (K.chr == K.punct) = false := by decide
  have k3 : (K.str == K.punct) = false := by decide
  have k4 : (K.id == K.punct) = false := by decide
  cases t with
  | mk k tx pw ex =>
    cases k
    case unknown =>
      have : (tx == s) = false := by simpa using hp rfl
      simp [Spec.Prosser.isP, toSpec, kindOf, spellTok, dtext, hne, this]
    all_goals simp [Spec.Prosser.isP, toSpec, kindOf, spellTok, dtext, hne, k1, k2, k3, k4]

theorem isP_hash (hs : List String) (t : Tok) (h : t.text ≠ "#") : Spec.Prosser.isP (toSpec hs t) "#" = false := by
  cases t with
  | mk k tx pw ex => cases k <;> simp_all [Spec.Prosser.isP, toSpec, kindOf, spellTok]

theorem isDef_toSpec (hs : List String) (t : Tok) (h : t.text ≠ "defined") : Spec.Prosser.isDefinedTok (toSpec hs t) = false := by
  cases t with
  | mk k tx pw ex => cases k <;> simp_all [Spec.Prosser.isDefinedTok, toSpec, kindOf, spellTok]

theorem pidx_toSpec (hs : List String) (ps : List String) (t : Tok) : Spec.Prosser.pidx (some ps) (toSpec hs t) = paramIdx ps t := by
  cases t with
  | mk k tx pw ex => cases k <;> simp [Spec.Prosser.pidx, paramIdx, toSpec, kindOf, spellTok]

theorem toSpec_paint (hs : List String) (t : Tok) : toSpec hs (paint t) = toSpec hs t := rfl

/-! ### hide sets -/
theorem inter_self (a : List String) : Spec.Prosser.inter a a = a := by
  simp [Spec.Prosser.inter]

theorem union_union_self (hs : List String) (n : String) :
    Spec.Prosser.union hs (Spec.Prosser.union hs [n]) = Spec.Prosser.union hs [n] := by
  by_cases h : n ∈ hs
  · simp [Spec.Prosser.union, h]
  · simp [Spec.Prosser.union, h]

/-! ### white space of the first token -/
theorem setWs_map_toSpec (l : List Tok) (h : List String) (w : Bool) :
    Spec.Prosser.setWs (l.map (toSpec h)) w = (fixpw l w).map (toSpec h) := by
  cases l with
  | nil => simp [Spec.Prosser.setWs, fixpw]
  | cons a r => simp [Spec.Prosser.setWs, fixpw, toSpec, spellTok]

theorem setWs_map_hs (l : List T) (h : List String) (w : Bool) :
    Spec.Prosser.setWs (l.map fun x => { x with hs := Spec.Prosser.union x.hs h }) w
      = (Spec.Prosser.setWs l w).map fun x => { x with hs := Spec.Prosser.union x.hs h } := by
  cases l with
  | nil => simp [Spec.Prosser.setWs]
  | cons a r => simp [Spec.Prosser.setWs]

theorem map_hs_toSpec (l : List Tok) (hs h : List String) :
    (l.map (toSpec hs)).map (fun x => { x with hs := Spec.Prosser.union x.hs h }) = l.map (toSpec (Spec.Prosser.union hs h)) := by
  simp [toSpec]

/-! ### the table -/
theorem specTableF_get_none (tbl : Table) (n : String) (h : tbl.get n = none) : Macros.get (specTableF tbl) n = none := by
  induction tbl with
  | nil => simp [specTableF, Macros.get]
  | cons e tbl ih =>
    unfold Table.get at h ih
    unfold Macros.get specTableF at ih ⊢
    simp only [List.find?_cons, List.map_cons] at h ⊢
    by_cases he : (e.1 == n) = true
    · simp [he] at h
    · have he' : (e.1 == n) = false := by simpa using he
      simp only [he'] at h ⊢
      exact ih h

theorem specTableF_get_some (tbl : Table) (n : String) (m : Macro) (h : tbl.get n = some m) :
    ∃ sm, Macros.get (specTableF tbl) n = some sm ∧ sm.params = m.args ∧ sm.variadic = false ∧
      sm.body = m.replacement.map (toSpec []) := by
  induction tbl with
  | nil => simp [Table.get] at h
  | cons e tbl ih =>
    unfold Table.get at h ih
    unfold Macros.get specTableF at ih ⊢
    simp only [List.find?_cons, List.map_cons] at h ⊢
    by_cases he : (e.1 == n) = true
    · simp only [he, Option.map_some, Option.some.injEq] at h
      subst h
      exact ⟨⟨e.1, e.2.args, false, e.2.replacement.map (toSpec [])⟩, by simp only [he], rfl, rfl, rfl⟩
    · have he' : (e.1 == n) = false := by simpa using he
      simp only [he'] at h ⊢
      exact ih h

/-! ### argument collection -/
theorem collect_split (tbl : Table) (hs : List String) : ∀ (r : List Tok) (args : List (List Tok)) (cur : List Tok) (k : Nat)
    (args' : List (List Tok)) (rest : List Tok), splitArgs r args cur (k + 1) = some (args', rest) → (∀ t ∈ r, CTok tbl t) →
    ∀ (tail commas : List T), ∃ commas' rp,
      Spec.Prosser.collect (r.map (toSpec hs) ++ tail) k (args.map (·.map (toSpec hs))) (cur.map (toSpec hs)) commas
        = .ok ⟨args'.map (·.map (toSpec hs)), commas', rp, rest.map (toSpec hs) ++ tail⟩ ∧ rp.hs = hs := by
  intro r
  induction r with
  | nil => intro args cur k args' rest h; simp [splitArgs] at h
  | cons tok r ih =>
    intro args cur k args' rest h hr tail commas
    have hc := hr tok (by simp)
    have hr' : ∀ t ∈ r, CTok tbl t := fun t ht => hr t (by simp [ht])
    have p1 := isP_paren tbl hs tok hc "(" (Or.inl rfl)
    have p2 := isP_paren tbl hs tok hc ")" (Or.inr (Or.inl rfl))
    have p3 := isP_paren tbl hs tok hc "," (Or.inr (Or.inr rfl))
    simp only [splitArgs] at h
    simp only [List.map_cons, List.cons_append, Spec.Prosser.collect, p1, p2, p3]
    by_cases e1 : dtext tok = "("
    · have n2 : (dtext tok == ")") = false := by rw [e1]; decide
      have n3 : (dtext tok == ",") = false := by rw [e1]; decide
      have y1 : (dtext tok == "(") = true := by rw [e1]; decide
      simp only [n3, Bool.false_and, Bool.false_eq_true, if_false, y1, if_true] at h ⊢
      have := ih args (cur ++ [tok]) (k + 1) args' rest h hr' tail commas
      simpa using this
    · have y1 : (dtext tok == "(") = false := by simpa using e1
      by_cases e2 : dtext tok = ")"
      · have n3 : (dtext tok == ",") = false := by rw [e2]; decide
        have y2 : (dtext tok == ")") = true := by rw [e2]; decide
        simp only [n3, Bool.false_and, Bool.false_eq_true, if_false, y1, y2, if_true] at h ⊢
        cases k with
        | zero =>
          simp only [Nat.zero_add, beq_self_eq_true, if_true, Option.some.injEq, Prod.mk.injEq] at h
          obtain ⟨rfl, rfl⟩ := h
          refine ⟨commas, toSpec hs tok, ?_, rfl⟩
          simp
        | succ k =>
          have hk : (k + 1 + 1 == 1) = false := by simp
          have hk0 : (k + 1 == 0) = false := by simp
          simp only [hk, Bool.false_eq_true, if_false, hk0, Nat.add_sub_cancel] at h ⊢
          have := ih args (cur ++ [tok]) k args' rest h hr' tail commas
          simpa using this
      · have y2 : (dtext tok == ")") = false := by simpa using e2
        by_cases e3 : dtext tok = ","
        · have y3 : (dtext tok == ",") = true := by rw [e3]; decide
          cases k with
          | zero =>
            simp only [y3, Nat.zero_add, beq_self_eq_true, Bool.and_self, if_true, y1, y2, Bool.false_eq_true, if_false] at h ⊢
            have := ih (args ++ [cur]) [] 0 args' rest h hr' tail (commas ++ [toSpec hs tok])
            simpa using this
          | succ k =>
            have hk : (k + 1 + 1 == 1) = false := by simp
            have hk0 : (k + 1 == 0) = false := by simp
            simp only [y3, hk, hk0, Bool.and_false, Bool.false_eq_true, if_false, y1, y2] at h ⊢
            have := ih args (cur ++ [tok]) (k + 1) args' rest h hr' tail commas
            simpa using this
        · have y3 : (dtext tok == ",") = false := by simpa using e3
          simp only [y3, Bool.false_and, Bool.false_eq_true, if_false, y1, y2] at h ⊢
          have := ih args (cur ++ [tok]) k args' rest h hr' tail commas
          simpa using this

/-! ### substitution -/
/-- the specification's substitution of a replacement list without `#` / `##`, on model tokens -/
def specSubst (ps : List String) (A : List (List T)) : List Tok → List T
  | [] => []
  | tok :: r =>
    match paramIdx ps tok with
    | some i => Spec.Prosser.setWs (A.getD i []) tok.pw ++ specSubst ps A r
    | none => toSpec [] tok :: specSubst ps A r

theorem subst_fun (ex : List T → Except Unspec (List T)) (ps : List String) (A : List (List T))
    (hex : ∀ i, ex (A.getD i []) = .ok (A.getD i [])) :
    ∀ (body : List Tok) (fuel : Nat) (os : List T) (pm : Bool), (∀ t ∈ body, t.text ≠ "#" ∧ t.text ≠ "##") → body.length < fuel →
      Spec.Prosser.subst ex (some ps) A fuel (body.map (toSpec [])) os pm = .ok (os ++ specSubst ps A body) := by
  intro body
  induction body with
  | nil =>
    intro fuel os pm _ hl
    obtain ⟨f, rfl⟩ : ∃ f, fuel = f + 1 := ⟨fuel - 1, by simp at hl; omega⟩
    simp [Spec.Prosser.subst, specSubst]
  | cons t body ih =>
    intro fuel os pm hp hl
    obtain ⟨f, rfl⟩ : ∃ f, fuel = f + 1 := ⟨fuel - 1, by simp at hl; omega⟩
    have ht := hp t (by simp)
    have h1 := isP_hash [] t ht.1
    have h2 := isP_toSpec [] t ht.2
    have hnext : ((body.map (toSpec [])).head?.map (Spec.Prosser.isP · "##")).getD false = false := by
      cases body with
      | nil => simp
      | cons b bs => simp [isP_toSpec [] b (hp b (by simp)).2]
    have hl' : body.length < f := by simp at hl; omega
    have hp' : ∀ x ∈ body, x.text ≠ "#" ∧ x.text ≠ "##" := fun x hx => hp x (by simp [hx])
    simp only [List.map_cons, Spec.Prosser.subst, h1, Bool.and_false, Bool.false_eq_true, if_false, h2, pidx_toSpec, specSubst]
    cases hpi : paramIdx ps t with
    | none =>
      simp only []
      rw [ih f (os ++ [toSpec [] t]) false hp' hl']
      simp
    | some i =>
      simp only [hnext, Bool.false_eq_true, if_false, hex i]
      rw [ih f _ false hp' hl']
      simp [toSpec]

theorem getD_map_toSpec (args : List (List Tok)) (hs : List String) (i : Nat) :
    (args.map (·.map (toSpec hs))).getD i [] = (args.getD i []).map (toSpec hs) := by
  rw [List.getD_eq_getElem?_getD, List.getD_eq_getElem?_getD, List.getElem?_map]
  cases args[i]? <;> simp

/-- the substituted replacement list, hide sets added, is the image of the model's substituted replacement list -/
theorem specSubst_map (ps : List String) (A : List (List T)) (E : List (List Tok)) (hs h' : List String)
    (hu : Spec.Prosser.union hs h' = h')
    (hA : ∀ tok i, paramIdx ps tok = some i → ∃ X : List Tok, A.getD i [] = X.map (toSpec hs) ∧
      (E.getD i []).map (toSpec h') = X.map (toSpec h')) :
    ∀ (body : List Tok),
      (specSubst ps A body).map (fun x => { x with hs := Spec.Prosser.union x.hs h' }) = (substRef ps E body).map (toSpec h') := by
  intro body
  induction body with
  | nil => simp [specSubst, substRef]
  | cons tok r ih =>
    simp only [specSubst, substRef]
    cases hpi : paramIdx ps tok with
    | none =>
      simp only [List.map_cons, ih]
      congr 1
      simp [toSpec, union_nil_left]
    | some i =>
      obtain ⟨X, hX1, hX2⟩ := hA tok i hpi
      simp only [List.map_append, ih]
      congr 1
      rw [hX1, ← setWs_map_hs, map_hs_toSpec, hu, setWs_map_toSpec, ← setWs_map_toSpec, ← setWs_map_toSpec, hX2]

/-! ### lists without macro names -/
theorem spec_inert (tbl : Table) (hs : List String) : ∀ (a : List Tok) (F : Nat) (top : Bool) (out : List T), a.length < F →
    (∀ t ∈ a, Inert tbl t) →
    Spec.Prosser.expand (specTableF tbl) F top (a.map (toSpec hs)) out = .ok (out ++ a.map (toSpec hs)) := by
  intro a
  induction a with
  | nil =>
    intro F top out hl _
    obtain ⟨f, rfl⟩ : ∃ f, F = f + 1 := ⟨F - 1, by simp at hl; omega⟩
    simp [Spec.Prosser.expand]
  | cons t a ih =>
    intro F top out hl hin
    obtain ⟨f, rfl⟩ : ∃ f, F = f + 1 := ⟨F - 1, by simp at hl; omega⟩
    have hi := hin t (by simp)
    have hdef := isDef_toSpec hs t hi.1
    have hl' : a.length < f := by simp at hl; omega
    have hrest := ih f top (out ++ [toSpec hs t]) hl' (fun x hx => hin x (by simp [hx]))
    simp only [List.map_cons]
    by_cases hc : ((toSpec hs t).kind != K.id || (toSpec hs t).hs.contains (toSpec hs t).text) = true
    · rw [step_copy _ _ _ _ _ _ hdef hc, hrest]; simp
    · have hc' : ((toSpec hs t).kind != K.id || (toSpec hs t).hs.contains (toSpec hs t).text) = false := by simpa using hc
      have hk : t.kind = .ident := by
        have : (kindOf t.kind != K.id) = false := by
          simp only [Bool.or_eq_false_iff] at hc'; exact hc'.1
        have h2 := kindOf_id t.kind
        simp only [bne, h2] at this
        simpa using this
      have hg : Macros.get (specTableF tbl) (toSpec hs t).text = none := by
        show Macros.get (specTableF tbl) (spellTok t) = none
        rw [spellTok_ident t hk]; exact specTableF_get_none tbl _ (hi.2 hk)
      rw [step_nomacro _ _ _ _ _ _ hdef hc' hg, hrest]; simp

/-! ### one iteration of the specification's loop at the name of a function-like macro -/
theorem step_bare (ms : Macros) (f : Nat) (top : Bool) (t p : T) (r out : List T) (m : Spec.Prosser.Macro) (ps : List String)
    (h1 : Spec.Prosser.isDefinedTok t = false) (h2 : (t.kind != K.id || t.hs.contains t.text) = false)
    (h3 : ms.get t.text = some m) (h4 : m.params = some ps) (hp : Spec.Prosser.isP p "(" = false) :
    Spec.Prosser.expand ms (f + 1) top (t :: p :: r) out = Spec.Prosser.expand ms f top (p :: r) (out ++ [t]) := by
  simp only [Spec.Prosser.expand, h1, Bool.false_eq_true, if_false, h2, h3, h4, hp, Bool.not_false, if_true]

theorem step_call (ms : Macros) (f : Nat) (top : Bool) (t p : T) (r out : List T) (m : Spec.Prosser.Macro) (ps : List String)
    (c : Spec.Prosser.Call) (args rep : List (List T)) (rp : List T)
    (h1 : Spec.Prosser.isDefinedTok t = false) (h2 : (t.kind != K.id || t.hs.contains t.text) = false)
    (h3 : ms.get t.text = some m) (h4 : m.params = some ps) (hp : Spec.Prosser.isP p "(" = true)
    (hc : Spec.Prosser.collect r 0 [] [] [] = .ok c) (hd : c.args.any (·.any Spec.Prosser.isDefinedTok) = false)
    (hb : Spec.Prosser.bindArgs m c = .ok args)
    (hs : Spec.Prosser.subst (fun a => Spec.Prosser.expand ms f false a []) (some ps) args (m.body.length + 1) m.body [] false = .ok rp) :
    Spec.Prosser.expand ms (f + 1) top (t :: p :: r) out
      = Spec.Prosser.expand ms f top
          (Spec.Prosser.setWs (rp.map fun x =>
            { x with hs := Spec.Prosser.union x.hs (Spec.Prosser.union (Spec.Prosser.inter t.hs c.rparen.hs) [t.text]) }) t.ws ++ c.rest) out := by
  have _ := rep
  simp only [Spec.Prosser.expand, h1, Bool.false_eq_true, if_false, h2, h3, h4, hp, Bool.not_true, hc, hd, hb, hs]

end CbiVerif.MX
