import CbiVerif.Lemmas.C14Compose
/-!
# C14 about SOURCE TEXT — order independence of the composed pipeline

`C06C.analyse files plats` (`Model/C06Compose.lean`: C05 parser model → directive parser → C01 associator per compile command →
platform set per node) takes three lists whose order the real code does not choose: the files (`set(codebase)` / `rglob`),
the `[platform.*]` tables, the entries of each compilation database.  The per-entry step is the real definition
`C06C.runEntry` (= `PP.analyseNodes` on the parsed text), not an assumption: that it is a function of the entry and of the SET
of files is proved here (`Lemmas/C14Compose.lean`: `analyse_iff`, the closed form of a run), not supposed.

WHICH REPRESENTATION IS INVARIANT.  The value of `analyse` is a list of records in file order, and a platform set is a LIST
of names in platform-table order; neither is invariant, and neither is a listed result.

* permuting the FILES permutes the records (`analysis_perm_files`: the record of a file is a function `recOf` of the file),
  hence the items of the `get_setmap` dict (`List.Perm`: same key → count map, other insertion order); the sorted summary table
  (`Summary.rows`, all columns and the key lists), `Total SLOC`, the sorted coverage export and the per-line attribution are EQUAL;
* permuting the PLATFORM TABLES re-lists every platform set in the new table order (`relist`: same members — sets are compared
  extensionally, `List.Perm` of duplicate-free lists) and leaves everything else in place: the dict has the same items in the same
  insertion order under re-listed keys; what the summary PRINTS (sorted names, counts, percentages), `Total SLOC`, the coverage
  records and the per-line attribution with sorted sets are EQUAL;
* permuting or repeating database ENTRIES of a platform changes NOTHING: the very same list of records, list representation included;
* if the analysis raises, it raises under every such rearrangement (`analysis_deterministic` compares `Option`s); WHICH exception
  surfaces first is not invariant when several inputs are faulty (`first_exception_depends_on_order`).

Hypotheses: file names are distinct (`Nodup` of the paths) and platform names are distinct (`Nodup` — TOML table names are).
Scope as in `Props/C06Compose.lean`: no `#include` resolution.
-/
namespace CbiVerif.C14.Text
open CbiVerif.SM CbiVerif.C06C CbiVerif.C14C

/-! ## files -/

/-- **analysis_perm_files.**  For every code base (texts, distinct paths), every configuration and every enumeration order of
    the files: if the analysis does not raise, there is ONE function `recOf` from files to records (path kept, never a link)
    such that the result is `files.map recOf` for the given order and `files'.map recOf` for any other order — the record of
    a file does not depend on its position nor on the position of the others. -/
theorem analysis_perm_files {files files' : List SrcFile} (h : files.Perm files') (hnd : (files.map (·.path)).Nodup)
    (plats : List Plat) (fs : List FileRec) (ha : analyse files plats = .ok fs) :
    ∃ recOf : SrcFile → FileRec, fs = files.map recOf ∧ analyse files' plats = .ok (files'.map recOf) ∧
      ∀ f, (recOf f).path = f.path ∧ (recOf f).link = false := by
  obtain ⟨hg, rfl⟩ := (analyse_iff files plats fs).mp ha
  refine ⟨recClosed (lkOf files) plats, rfl, ?_, fun f => ⟨rfl, rfl⟩⟩
  rw [analyse_iff]
  exact ⟨(good_perm_files h hnd plats).mp hg, by rw [lkOf_perm h hnd]⟩

/-- **setmap_perm_files.**  Under the same permutation: the records are permuted; the `get_setmap` dicts have the same items
    (`List.Perm`, i.e. the same key → count function with the same key set) in another insertion order; after the sort of
    `report.summary` the rows are the SAME LIST (every column, the key lists included) and `Total SLOC` is the same number.
    Platform names distinct. -/
theorem setmap_perm_files {files files' : List SrcFile} (h : files.Perm files') (hnd : (files.map (·.path)).Nodup)
    (plats : List Plat) (hpn : (plats.map (·.name)).Nodup) (fs : List FileRec) (ha : analyse files plats = .ok fs) :
    ∃ fs', analyse files' plats = .ok fs' ∧ fs.Perm fs' ∧
      (getSetmap fs).Perm (getSetmap fs') ∧
      (∀ k, SM.get (getSetmap fs) k = SM.get (getSetmap fs') k) ∧ (∀ k, has (getSetmap fs) k = has (getSetmap fs') k) ∧
      CbiVerif.Summary.rows (getSetmap fs) = CbiVerif.Summary.rows (getSetmap fs') ∧
      CbiVerif.Summary.totalCount (getSetmap fs) = CbiVerif.Summary.totalCount (getSetmap fs') := by
  obtain ⟨hg, rfl⟩ := (analyse_iff files plats fs).mp ha
  refine ⟨files'.map (recClosed (lkOf files) plats), ?_, h.map _, ?_⟩
  · rw [analyse_iff]; exact ⟨(good_perm_files h hnd plats).mp hg, by rw [lkOf_perm h hnd]⟩
  · obtain ⟨hp, hget, hhas⟩ := getSetmap_perm (h.map (recClosed (lkOf files) plats))
    obtain ⟨hr, ht⟩ := rows_perm hp
      (keyLe_antisymm_on hpn (nodup_keys_getSetmap _) (setmap_keys_sublist files plats))
    exact ⟨hp, hget, hhas, hr, ht⟩

/-! ## platform tables -/

/-- **setmap_perm_platforms.**  For every permutation of the `[platform.*]` tables (distinct names): if the analysis does not
    raise, the analysis under the permuted tables is the SAME list of records with every node's platform set re-listed in the new
    table order; the re-listed set has the same members (it is a permutation of the old list, and both are duplicate free — set
    semantics), line lists and counts are untouched; the dict of `get_setmap` is the old dict under re-listed keys, insertion
    order included; what `report.summary` prints (sorted names, counts, percentages) and `Total SLOC` are equal. -/
theorem setmap_perm_platforms (files : List SrcFile) {plats plats' : List Plat} (h : plats.Perm plats')
    (hpn : (plats.map (·.name)).Nodup) (fs : List FileRec) (ha : analyse files plats = .ok fs) :
    analyse files plats' = .ok (fs.map (relistRec (plats'.map (·.name)))) ∧
    (∀ r ∈ fs, ∀ n ∈ r.nodes, (relist (plats'.map (·.name)) n.plats).Perm n.plats ∧ n.plats.Nodup ∧
      ∀ x, x ∈ relist (plats'.map (·.name)) n.plats ↔ x ∈ n.plats) ∧
    getSetmap (fs.map (relistRec (plats'.map (·.name)))) = relistSetmap (plats'.map (·.name)) (getSetmap fs) ∧
    printed (CbiVerif.Summary.rows (getSetmap (fs.map (relistRec (plats'.map (·.name)))))) =
      printed (CbiVerif.Summary.rows (getSetmap fs)) ∧
    CbiVerif.Summary.totalCount (getSetmap (fs.map (relistRec (plats'.map (·.name))))) =
      CbiVerif.Summary.totalCount (getSetmap fs) := by
  obtain ⟨hg, rfl⟩ := (analyse_iff files plats fs).mp ha
  have hnames : (plats.map (·.name)).Perm (plats'.map (·.name)) := h.map _
  have hsub := closed_keys_sublist files plats
  have hperm : ∀ r ∈ closed files plats, ∀ n ∈ r.nodes, (relist (plats'.map (·.name)) n.plats).Perm n.plats :=
    fun r hr n hn => relist_perm hpn hnames (hsub r hr n hn)
  have hsm : getSetmap ((closed files plats).map (relistRec (plats'.map (·.name)))) =
      relistSetmap (plats'.map (·.name)) (getSetmap (closed files plats)) := by
    rw [relistRec_eq, relistSetmap_eq]
    exact getSetmap_ren (relist (plats'.map (·.name))) (fun k => k.Sublist (plats.map (·.name)))
      (relist_inj hpn hnames) _ hsub
  have hpr := printed_rows_ren (relist (plats'.map (·.name))) (getSetmap (closed files plats))
    (fun e he => relist_perm hpn hnames (setmap_keys_sublist files plats e he))
  refine ⟨?_, ?_, hsm, ?_, ?_⟩
  · rw [analyse_iff]
    refine ⟨(good_perm_plats files h).mp hg, ?_⟩
    show _ = files.map (recClosed (lkOf files) plats')
    rw [List.map_map]
    apply List.map_congr_left
    intro f _
    exact (recClosed_perm_plats (lkOf files) h hpn f).symm
  · intro r hr n hn
    exact ⟨hperm r hr n hn, (hsub r hr n hn).nodup hpn, fun x => (hperm r hr n hn).mem_iff⟩
  · show printed (CbiVerif.Summary.rows (getSetmap ((closed files plats).map _))) = _
    rw [hsm, relistSetmap_eq]; exact hpr.1
  · show CbiVerif.Summary.totalCount (getSetmap ((closed files plats).map _)) = _
    rw [hsm, relistSetmap_eq]; exact hpr.2

/-! ## database entries -/

/-- **setmap_perm_entries.**  For every pair of configurations with the same platforms in the same order whose databases have,
    platform by platform, the same SET of entries (entries permuted, entries repeated any number of times): the analysis
    gives the very same value — the same exception-or-not, the same list of records with the same platform lists — hence the
    same dict, summary, coverage.  No hypothesis. -/
theorem setmap_perm_entries (files : List SrcFile) {plats plats' : List Plat} (h : SameEntries plats plats')
    (fs : List FileRec) : analyse files plats = .ok fs ↔ analyse files plats' = .ok fs := by
  rw [analyse_iff, analyse_iff, good_sameEntries files h]
  have : files.map (recClosed (lkOf files) plats) = files.map (recClosed (lkOf files) plats') :=
    List.map_congr_left fun f _ => recClosed_sameEntries (lkOf files) h f
  rw [this]

theorem sameEntries_refl (plats : List Plat) : SameEntries plats plats := by
  unfold SameEntries
  induction plats with
  | nil => exact .nil
  | cons p ps ih => exact .cons ⟨rfl, fun _ => Iff.rfl⟩ ih

/-- permuting the entries inside every database is an instance … -/
theorem sameEntries_of_perm {plats plats' : List Plat}
    (h : List.Forall₂ (fun p p' => p.name = p'.name ∧ p.entries.Perm p'.entries) plats plats') : SameEntries plats plats' :=
  h.imp fun _ _ hp => ⟨hp.1, fun _ => hp.2.mem_iff⟩

/-- … and so is writing one entry of one database a second time (anywhere in that database) -/
theorem sameEntries_dup (pre post : List Plat) (p : Plat) (e : Entry) (he : e ∈ p.entries) (a b : List Entry)
    (hab : p.entries = a ++ b) : SameEntries (pre ++ p :: post) (pre ++ ⟨p.name, a ++ e :: b⟩ :: post) := by
  unfold SameEntries
  refine List.rel_append (sameEntries_refl pre) (.cons ⟨rfl, fun x => ?_⟩ (sameEntries_refl post))
  rw [hab] at he ⊢
  simp only [List.mem_append, List.mem_cons] at he ⊢
  constructor
  · rintro (h | h); exact .inl h; exact .inr (.inr h)
  · rintro (h | rfl | h); exact .inl h; exact he; exact .inr h

/-- **setmap_dup_entry.**  A compile command listed twice in a database changes nothing. -/
theorem setmap_dup_entry (files : List SrcFile) (pre post : List Plat) (p : Plat) (e : Entry) (he : e ∈ p.entries)
    (a b : List Entry) (hab : p.entries = a ++ b) (fs : List FileRec) :
    analyse files (pre ++ p :: post) = .ok fs ↔ analyse files (pre ++ ⟨p.name, a ++ e :: b⟩ :: post) = .ok fs :=
  setmap_perm_entries files (sameEntries_dup pre post p e he a b hab) fs

/-- **setmapOfTexts_perm.**  The same three facts about `C06C.setmapOfTexts` (`state.get_setmap(codebase)` of the texts), the
    definition the C06 theorems are about: permuting the files permutes the items of the dict (same key → count function);
    permuting the platform tables gives the same dict, in the same insertion order, under re-listed keys; rearranging database
    entries gives the same dict. -/
theorem setmapOfTexts_perm {files files' : List SrcFile} (hf : files.Perm files') (hnd : (files.map (·.path)).Nodup)
    {plats plats' plats'' : List Plat} (hp : plats.Perm plats') (hpn : (plats.map (·.name)).Nodup)
    (he : SameEntries plats plats'') (sm : Setmap) (h : setmapOfTexts files plats = .ok sm) :
    (∃ sm', setmapOfTexts files' plats = .ok sm' ∧ sm.Perm sm' ∧ ∀ k, SM.get sm k = SM.get sm' k) ∧
    setmapOfTexts files plats' = .ok (relistSetmap (plats'.map (·.name)) sm) ∧
    setmapOfTexts files plats'' = .ok sm := by
  unfold setmapOfTexts at h ⊢
  cases ha : analyse files plats with
  | error e => simp [ha] at h
  | ok fs =>
    simp only [ha, Except.ok.injEq] at h
    subst h
    obtain ⟨fs', h1, _, h2, h3, _⟩ := setmap_perm_files hf hnd plats hpn fs ha
    obtain ⟨h4, _, h5, _⟩ := setmap_perm_platforms files hp hpn fs ha
    refine ⟨⟨getSetmap fs', by simp only [h1], h2, h3⟩, by simp only [h4, h5], ?_⟩
    simp only [(setmap_perm_entries files he fs).mp ha]

/-! ## coverage export and per-line attribution -/

/-- **coverage_perm.**  The used / unused split per file is invariant: under a permutation of the files the records of
    `_compute` are permuted (each file keeps its record), and the export sorted by file name as well as the per-line attribution
    (files sorted by name, sets sorted) are the same lists; under a permutation of the platform tables the records are the same
    list and the per-line attribution is the same.  File names distinct as strings, platform names distinct. -/
theorem coverage_perm {files files' : List SrcFile} (hf : files.Perm files')
    (hnd : (files.map fun f => fileName f.path).Nodup) {plats plats' : List Plat} (hp : plats.Perm plats')
    (hpn : (plats.map (·.name)).Nodup) (fs : List FileRec) (ha : analyse files plats = .ok fs) :
    ∃ fs1 fs2, analyse files' plats = .ok fs1 ∧ analyse files plats' = .ok fs2 ∧
      (CbiVerif.Cov.compute fs).Perm (CbiVerif.Cov.compute fs1) ∧ covExport fs = covExport fs1 ∧ attrExport fs = attrExport fs1 ∧
      CbiVerif.Cov.compute fs2 = CbiVerif.Cov.compute fs ∧ covExport fs2 = covExport fs ∧ attrExport fs2 = attrExport fs := by
  have hpaths : (files.map (·.path)).Nodup := by
    have : ((files.map (·.path)).map fileName).Nodup := by simpa [List.map_map, Function.comp_def] using hnd
    exact List.Nodup.of_map _ this
  obtain ⟨h2, hperm, _⟩ := setmap_perm_platforms files hp hpn fs ha
  obtain ⟨hg, rfl⟩ := (analyse_iff files plats fs).mp ha
  have hfs : (files.map (recClosed (lkOf files) plats)).Perm (files'.map (recClosed (lkOf files) plats)) := hf.map _
  have hnd' : ((files.map (recClosed (lkOf files) plats)).map fun r => fileName r.path).Nodup := by
    have := closed_names files plats
    unfold closed at this
    rw [this]; exact hnd
  have hperm' : ∀ r ∈ files.map (recClosed (lkOf files) plats), ∀ n ∈ r.nodes,
      (relist (plats'.map (·.name)) n.plats).Perm n.plats := fun r hr n hn => (hperm r hr n hn).1
  have hc := compute_ren (relist (plats'.map (·.name))) (files.map (recClosed (lkOf files) plats)) hperm'
  refine ⟨_, _, ?_, h2, ?_, covExport_perm hfs hnd', attrExport_perm hfs hnd', hc, ?_, ?_⟩
  · rw [analyse_iff]; exact ⟨(good_perm_files hf hpaths plats).mp hg, by rw [lkOf_perm hf hpaths]⟩
  · unfold CbiVerif.Cov.compute; exact (hfs.filter _).map _
  · unfold covExport; rw [relistRec_eq, hc]
  · rw [relistRec_eq]; exact attrExport_ren _ _ hperm'

/-! ## the listed results are a function of the multiset of files, the set of platforms, the sets of entries -/

/-- two configurations that differ by a permutation of the platform tables followed by a rearrangement (permutation,
    repetition) of the entries inside each database -/
def PlatsEquiv (plats plats' : List Plat) : Prop := ∃ mid, plats.Perm mid ∧ SameEntries mid plats'

/-- **results_perm_files** -/
theorem results_perm_files {files files' : List SrcFile} (hf : files.Perm files')
    (hnd : (files.map fun f => fileName f.path).Nodup) (plats : List Plat) (hpn : (plats.map (·.name)).Nodup) :
    resultsOfTexts files plats = resultsOfTexts files' plats := by
  have hpaths : (files.map (·.path)).Nodup := by
    have : ((files.map (·.path)).map fileName).Nodup := by simpa [List.map_map, Function.comp_def] using hnd
    exact List.Nodup.of_map _ this
  apply results_eq_of_good (good_perm_files hf hpaths plats)
  intro _ _
  have hfs : (closed files plats).Perm (closed files' plats) := by
    unfold closed; rw [← lkOf_perm hf hpaths]; exact hf.map _
  have hnd' : ((closed files plats).map fun r => fileName r.path).Nodup := by rw [closed_names]; exact hnd
  obtain ⟨hsm, _, _⟩ := getSetmap_perm hfs
  obtain ⟨hr, ht⟩ := rows_perm hsm (keyLe_antisymm_on hpn (nodup_keys_getSetmap _) (setmap_keys_sublist files plats))
  unfold canonOf
  rw [hr, ht, covExport_perm hfs hnd', attrExport_perm hfs hnd']

/-- **results_perm_platforms** -/
theorem results_perm_platforms (files : List SrcFile) {plats plats' : List Plat} (hp : plats.Perm plats')
    (hpn : (plats.map (·.name)).Nodup) : resultsOfTexts files plats = resultsOfTexts files plats' := by
  apply results_eq_of_good (good_perm_plats files hp)
  intro hg _
  obtain ⟨h2, hperm, _, hrows, htot⟩ := setmap_perm_platforms files hp hpn _ (analyse_closed files plats hg)
  have hcl : closed files plats' = (closed files plats).map (relistRec (plats'.map (·.name))) :=
    ((analyse_iff files plats' _).mp h2).2.symm
  have hperm' : ∀ r ∈ closed files plats, ∀ n ∈ r.nodes, (relist (plats'.map (·.name)) n.plats).Perm n.plats :=
    fun r hr n hn => (hperm r hr n hn).1
  unfold canonOf
  rw [hcl, hrows, htot]
  have hc : covExport ((closed files plats).map (relistRec (plats'.map (·.name)))) = covExport (closed files plats) := by
    unfold covExport; rw [relistRec_eq, compute_ren _ _ hperm']
  have hat : attrExport ((closed files plats).map (relistRec (plats'.map (·.name)))) = attrExport (closed files plats) := by
    rw [relistRec_eq]; exact attrExport_ren _ _ hperm'
  rw [hc, hat]

/-- **results_same_entries** -/
theorem results_same_entries (files : List SrcFile) {plats plats' : List Plat} (h : SameEntries plats plats') :
    resultsOfTexts files plats = resultsOfTexts files plats' := by
  unfold resultsOfTexts
  cases ha : analyse files plats with
  | ok fs => rw [(setmap_perm_entries files h fs).mp ha]
  | error e =>
    cases hb : analyse files plats' with
    | ok fs => rw [(setmap_perm_entries files h fs).mpr hb] at ha; cases ha
    | error e' => rfl

/-- **analysis_deterministic.**  The listed results of the analysis of a code base given as texts — the printed summary rows,
    `Total SLOC`, the coverage export sorted by file name, the per-line attribution — and whether the analysis raises at all are
    a function of the MULTISET of files, of the SET of platform tables and, per platform, of the SET of database entries:
    any two presentations related by a permutation of the files, a permutation of the tables and a rearrangement (permutation,
    repetition) of the entries give the same value of `resultsOfTexts`.  (That the value is the same on IDENTICAL inputs is
    `rfl`: `analyse` is a function; there is no hidden state in the model.)  File and platform names distinct. -/
theorem analysis_deterministic {files files' : List SrcFile} {plats plats' : List Plat} (hf : files.Perm files')
    (hnd : (files.map fun f => fileName f.path).Nodup) (hp : PlatsEquiv plats plats') (hpn : (plats.map (·.name)).Nodup) :
    resultsOfTexts files plats = resultsOfTexts files' plats' := by
  obtain ⟨mid, hpm, hse⟩ := hp
  rw [results_perm_files hf hnd plats hpn, results_perm_platforms files' hpm hpn, results_same_entries files' hse]

/-! ## non-vacuity (kernel-checked) and what is NOT invariant -/

/-- `a.c`: an `#ifdef/#else` and an `#if B==2`; `u.h`: used by no platform -/
def exFiles : List SrcFile :=
  [⟨["src", "a.c"], "int a; /* c */\n#ifdef A\nint b;\n#else\nint c;\n#endif\n#if B==2\nint e;\n#endif\n".toList⟩,
   ⟨["u.h"], "int u;\n\nint v;\n".toList⟩]

def exPlats : List Plat :=
  [⟨"gpu", [⟨["src", "a.c"], ["B=2"]⟩, ⟨["src", "a.c"], ["A=1"]⟩]⟩, ⟨"cpu", [⟨["src", "a.c"], ["A"]⟩]⟩]

/-- the other presentation: files swapped, tables swapped, gpu's entries swapped and one of them repeated -/
def exPlats' : List Plat :=
  [⟨"cpu", [⟨["src", "a.c"], ["A"]⟩]⟩,
   ⟨"gpu", [⟨["src", "a.c"], ["A=1"]⟩, ⟨["src", "a.c"], ["B=2"]⟩, ⟨["src", "a.c"], ["A=1"]⟩]⟩]

example : exFiles.Perm exFiles.reverse ∧ (exFiles.map fun f => fileName f.path).Nodup ∧ (exPlats.map (·.name)).Nodup :=
  ⟨(List.reverse_perm _).symm, by decide +kernel, by decide +kernel⟩

theorem exPlats_equiv : PlatsEquiv exPlats exPlats' :=
  ⟨exPlats.reverse, (List.reverse_perm _).symm, by
    unfold SameEntries
    refine .cons ⟨rfl, fun _ => Iff.rfl⟩ (.cons ⟨rfl, fun e => ?_⟩ .nil)
    simp only [List.mem_cons, List.not_mem_nil, or_false]
    constructor
    · rintro (h | h); exact .inr (.inl h); exact .inl h
    · rintro (h | h | h); exact .inr h; exact .inl h; exact .inr h⟩

/-- the hypotheses of `setmap_dup_entry` on the example: gpu's first compile command written a second time at the end -/
example : (⟨["src", "a.c"], ["B=2"]⟩ : Entry) ∈ (⟨"gpu", [⟨["src", "a.c"], ["B=2"]⟩, ⟨["src", "a.c"], ["A=1"]⟩]⟩ : Plat).entries ∧
    (⟨"gpu", [⟨["src", "a.c"], ["B=2"]⟩, ⟨["src", "a.c"], ["A=1"]⟩]⟩ : Plat).entries
      = [⟨["src", "a.c"], ["B=2"]⟩, ⟨["src", "a.c"], ["A=1"]⟩] ++ [] :=
  ⟨List.mem_cons_self, rfl⟩

/-- the analysis of the example does not raise and is not trivial (three platform sets, an unused file); the LIST
    representation does change under the rearrangement: record order, `["gpu", "cpu"]` vs `["cpu", "gpu"]`, dict order … -/
example :
    (analyse exFiles exPlats).toOption.map getSetmap = some [(["gpu", "cpu"], 7), (["gpu"], 2), ([], 2)] ∧
    (analyse exFiles.reverse exPlats').toOption.map getSetmap = some [([], 2), (["cpu", "gpu"], 7), (["gpu"], 2)] := by
  decide +kernel

/-- … while the listed results do not (an instance of the theorem; its hypotheses are kernel-checked on the example) -/
example : resultsOfTexts exFiles exPlats = resultsOfTexts exFiles.reverse exPlats' :=
  analysis_deterministic (List.reverse_perm _).symm (by decide +kernel) exPlats_equiv (by decide +kernel)

/-- two faulty files (`#ifdef` without a name: `TypeError`; a final backslash: `RuntimeError` of `c_file_source`) -/
def exFaulty : List SrcFile := [⟨["x.c"], "#ifdef\n#endif\n".toList⟩, ⟨["y.c"], "int y; \\".toList⟩]

/-- the analysis raises under both enumeration orders (the invariant statement), but NOT the same exception: the model's
    `mapE` — like the `for` loop over `set(codebase)` — stops at the first faulty file it meets.  The exception class is
    therefore not a function of the inputs as sets, and no theorem above claims it. -/
theorem first_exception_depends_on_order :
    (match analyse exFaulty [] with | .error .type_ => true | _ => false) = true ∧
    (match analyse exFaulty.reverse [] with | .error (.runtime _) => true | _ => false) = true ∧
    (resultsOfTexts exFaulty []).isNone = true ∧ (resultsOfTexts exFaulty.reverse []).isNone = true := by
  decide +kernel

end CbiVerif.C14.Text
