import CbiVerif.PP.CSource
import CbiVerif.Model.ExpandPP
import CbiVerif.Model.Assoc
/-! Single-file end-to-end model: parse_file → DirectiveParser.parse → SourceTree.insert → ParserState.associate.

Tree building and association are NOT re-implemented here: they are the generic, proved
definitions of `Model/Tree.lean` (`Cond.build`) and `Model/Assoc.lean` (`Cond.visitList`,
`Cond.model`, `Cond.semCBI`), instantiated with the macro table of `PP/Expand.lean` and with
`condValue` (`Model/ExpandPP.lean`: the total expander `MX.cbiExpand` the C03 theorems are about, then the evaluator
`Eval.cbiEval` the C02 theorems are about) as the meaning of a controlling expression.  No `partial def` is involved.
`referenceFile` runs the flat ISO-C machine `Cond.reference` (`Spec/CPreproc.lean`) on the same
line list.  The node-list level (`analyseNodes` / `referenceNodes`) is shared with the Fortran front
end (`Model/FCond.lean`); `analyseFile text defs = parseFile text >>= (analyseNodes · defs)`.
The theorems of `Props/C01.lean` are about exactly these functions. -/
namespace CbiVerif.PP

inductive NKind | code | ifk | elifk | elsek | endk | define | undef | include | pragma | unrecognized
deriving DecidableEq, Repr, Inhabited

structure PNode where
  kind : NKind
  lines : List Nat
  toks : List Tok := []        -- payload: expression tokens / define body etc. (tokens after the directive name)
  name : String := ""          -- macro name for define/undef
  margs : Option (List String) := none
deriving Repr, Inhabited

def mkTok (k : TKind) (s : String) (pw : Bool) : Tok := ⟨k, s, pw, true⟩

/-- DirectiveParser.parse for one directive logical line -/
def parseDirective (text : String) (lines : List Nat) : Except Err PNode :=
  match tokenize text with
  | h :: rest =>
    if !(h.kind == .op && h.text == "#") then .error (.parse "Not a directive.")
    else
      let unrec : PNode := { kind := .unrecognized, lines := lines }
      match rest with
      | d :: r =>
        let unrec : PNode := if d.kind == .ident then { unrec with name := d.text } else unrec   -- keep the directive's name
        if d.kind != .ident then .ok unrec
        else if d.text == "define" then
          match macroDefinition r with
          | some (n, args, body) => .ok { kind := .define, lines := lines, toks := body, name := n, margs := args }
          | none => .ok unrec
        else if d.text == "undef" then
          match r with
          | i :: _ => if i.kind == .ident then .ok { kind := .undef, lines := lines, name := i.text } else .ok unrec
          | [] => .ok unrec
        else if d.text == "include" then .ok { kind := .include, lines := lines, toks := r }
        else if d.text == "ifdef" then
          match r with
          | i :: _ => if i.kind == .ident then
              .ok { kind := .ifk, lines := lines, toks := [mkTok .ident "defined" true, mkTok .punct "(" false, i, mkTok .punct ")" false] }
            else .ok unrec
          | [] => .ok unrec
        else if d.text == "ifndef" then
          match r with
          | i :: _ => if i.kind == .ident then
              .ok { kind := .ifk, lines := lines, toks := [mkTok .op "!" true, mkTok .ident "defined" false, mkTok .punct "(" false, i, mkTok .punct ")" false] }
            else .ok unrec
          | [] => .ok unrec
        else if d.text == "if" then .ok { kind := .ifk, lines := lines, toks := r }
        else if d.text == "elif" then .ok { kind := .elifk, lines := lines, toks := r }
        else if d.text == "else" then .ok { kind := .elsek, lines := lines }
        else if d.text == "endif" then .ok { kind := .endk, lines := lines }
        else if d.text == "pragma" then .ok { kind := .pragma, lines := lines, toks := r }
        else .ok unrec
      | [] => .ok unrec
  | [] => .error .index

/-- FileParser.parse_file: node list in source order -/
def parseFile (text : String) : Except Err (List PNode) := do
  let (lls, _, _) ← cFileSource text
  let mut nodes : List PNode := []
  let mut code : List Nat := []
  let mut codeOpen := false
  for ll in lls do
    if ll.isDirective then
      if codeOpen then
        nodes := nodes ++ [{ kind := .code, lines := code }]
        code := []; codeOpen := false
      let n ← parseDirective ll.text ll.lines
      nodes := nodes ++ [n]
    else
      code := code ++ ll.lines; codeOpen := true
  if codeOpen then nodes := nodes ++ [{ kind := .code, lines := code }]
  return nodes

/-! ## Instantiation of the generic C01 model -/
deriving instance DecidableEq for Macro

def kindOf : NKind → Cond.Kind
  | .code => .code | .ifk => .ifk | .elifk => .elifk | .elsek => .elsek | .endk => .endk
  | .define | .undef | .include | .pragma | .unrecognized => .other

/-- payload of node `i`: its own index where the kind has a meaning to decode (`#if/#elif` expression,
non-conditional directive), 0 for code / `#else` / `#endif` (their payload is never looked at) -/
def payOf (k : Cond.Kind) (i : Nat) : Nat :=
  match k with
  | .code | .elsek | .endk => 0
  | _ => i

/-- the line list handed to the tree builder / the reference machine: node `i` has id `i` -/
def labels (nodes : List PNode) : List Cond.Lbl :=
  nodes.zipIdx.map fun (n, i) => ⟨i, kindOf n.kind, payOf (kindOf n.kind) i⟩

/-- meaning of the payloads: `evaluate_for_platform` of the node with that index.
`#include`, `#pragma` and unrecognised directives do nothing in the single-file model. -/
def langOf (nodes : Array PNode) : Cond.Lang Macro Err where
  act := fun i =>
    let n := nodes[i]!
    match n.kind with
    | .define =>
      match makeMacro n.name n.margs n.toks with
      | .ok m => .define n.name m
      | .error e => .fail e
    | .undef => .undef n.name
    | _ => .nop
  cond := fun tbl i => condValue tbl nodes[i]!.toks

abbrev MacroWorld := Cond.MWorld Macro Err

/-- `-D` definitions in command-line order, entered with `define` (model: `Platform.define`, keep first;
reference: C's `#define`) -/
def initWorld (define : MacroWorld → String → Macro → MacroWorld) (defs : List String) : Except Err MacroWorld :=
  defs.foldlM (fun w d => do
    let m ← macroFromDefinitionString d
    return define w m.name m) {}

/-! tree shape used by the multi-file model (`PP/Find.lean`): the tree is the one built by `Cond.build` -/
inductive PTree | node (idx : Nat) (kids : List PTree)
deriving Repr, Inhabited

mutual
def toPTree : Cond.Tree → PTree
  | .node l kids => .node l.id (toPTrees kids)
def toPTrees : List Cond.Tree → List PTree
  | [] => []
  | t :: ts => toPTree t :: toPTrees ts
end

/-- `SourceTree.insert` over all nodes; `None.add_child` is an AttributeError (reported as `type_`) -/
def buildTree (nodes : List PNode) : Except Err (List PTree) :=
  match Cond.build (labels nodes) with
  | some ts => .ok (toPTrees ts)
  | none => .error .type_

abbrev Row := NKind × List Nat × Bool

def rowsOf (nodes : List PNode) (out : List Nat) : List Row :=
  nodes.zipIdx.map fun (n, i) => (n.kind, n.lines, out.contains i)

/-- MODEL, node-list level (shared by the C path `analyseFile` and the Fortran path
`Fortran.analyseFortran`): tree builder + visitor with `Platform.define`; per node (kind, lines, attributed) -/
def analyseNodes (nodes : List PNode) (defs : List String) : Except Err (List Row) := do
  if (Cond.build (labels nodes)).isNone then throw .type_
  let w ← initWorld Cond.MWorld.defineCBI defs
  match Cond.model (Cond.semCBI (langOf nodes.toArray)) w (labels nodes) with
  | none => throw .type_
  | some a =>
    if a.crash then throw .index
    match a.σ.err with
    | some e => throw e
    | none => return rowsOf nodes a.out

/-- MODEL: analyse one file with `-D` definitions: per node (kind, lines, attributed) -/
def analyseFile (text : String) (defs : List String) : Except Err (List Row) :=
  parseFile text >>= (analyseNodes · defs)

structure RefResult where
  rows : List Row
  bad : Bool            -- structural diagnostic (#else without #if, #elif after #else, …)
  unterminated : Bool   -- an #if is still open at the end
  diag : Bool           -- a macro was redefined with a different body (gcc warns)
  err : Option Err      -- a reached expression / directive is malformed
  c23 : Bool            -- the unit uses `#elifdef/#elifndef` (C23; gcc >= 12 accepts them silently), which
                        -- neither CBI nor this reference treats as conditionals: outside the modelled set

/-- SPEC, node-list level: the flat reference machine on the line list of `nodes`, with C's `#define` -/
def referenceNodes (nodes : List PNode) (defs : List String) : Except Err RefResult := do
  let w ← initWorld Cond.MWorld.defineC defs
  let r := Cond.reference (Cond.semC (langOf nodes.toArray)) w (labels nodes)
  return { rows := rowsOf nodes r.out, bad := r.bad, unterminated := !r.stack.isEmpty, diag := r.σ.diag, err := r.σ.err,
           c23 := nodes.any fun n => n.kind == .unrecognized && (n.name == "elifdef" || n.name == "elifndef") }

/-- SPEC: the flat reference machine on the same line list, with C's `#define` -/
def referenceFile (text : String) (defs : List String) : Except Err RefResult :=
  parseFile text >>= (referenceNodes · defs)

end CbiVerif.PP
