import CbiVerif.PP.Analyse
/-! Multi-file model, building blocks: paths, `Platform` (include search, memo, once-list), the parse step
`ParserState.insert_file`, `DirectiveParser.include_path`, database entries.

The recursion of `ParserState.associate` through `#include` and the loops of `finder.find` are NOT defined here any more
(they were the design-phase `partial def assocFile / visitW / visitListW` and `find`): the one executable multi-file
engine is the total, fuelled, `Sem`-generic one of `Model/Exclude.lean` (`assocTree` / `assocTreeRef`, `runEntry`,
`find`), which `Model/FindInst.lean` instantiates for the C family (`semPP`). -/
namespace CbiVerif.PP

/-! ### paths.  Structural definitions (no `String.splitOn` / `startsWith` / `intercalate`, whose well-founded
recursion does not reduce in the kernel), so that runs of the multi-file models can be checked by `decide +kernel`.
`Inc.normpathK / joinPathK / dirnameK` (`Model/FindInc.lean`) are the same functions (`C08.paths_agree`). -/
def slashSplit : List Char → List Char → List (List Char)
  | [], cur => [cur.reverse]
  | c :: cs, cur => if c == '/' then cur.reverse :: slashSplit cs [] else slashSplit cs (c :: cur)

def slashJoin : List String → String
  | [] => ""
  | [a] => a
  | a :: rest => a ++ "/" ++ slashJoin rest

/-- the `/`-separated components of a path (`p.split("/")`) -/
def components (p : String) : List String := (slashSplit p.toList []).map String.ofList

/-- os.path.normpath for absolute POSIX paths (lexical) -/
def normpath (p : String) : String :=
  let out := (components p).foldl (fun (acc : List String) c =>
    if c == "" || c == "." then acc
    else if c == ".." then acc.dropLast
    else acc ++ [c]) []
  "/" ++ slashJoin out

/-- os.path.join -/
def joinPath (a b : String) : String :=
  if b.toList.head? == some '/' then b
  else if a.toList.getLast? == some '/' then a ++ b
  else a ++ "/" ++ b

/-- os.path.dirname -/
def dirname (p : String) : String :=
  match (components p).dropLast with
  | [] => ""
  | [""] => "/"
  | l => slashJoin l

/-- the file system as seen by the analysis: absolute canonical path ↦ text -/
abbrev FSMap := List (String × String)
def FSMap.get (fs : FSMap) (p : String) : Option String := (fs.find? (·.1 == p)).map (·.2)

structure Platform where
  name : String
  tbl : Table := []
  skip : List String := []
  incPaths : List String := []
  memo : List ((String × Option String) × Option String) := []   -- key (spelling, dir unless <>) as in the drafted repair

/-- Platform.find_include_file (memo keyed as in the D13 repair) -/
def Platform.findInclude (p : Platform) (fs : FSMap) (filename thisPath : String) (sys : Bool) : Option String × Platform :=
  let key := (filename, if sys then none else some thisPath)
  match p.memo.find? (·.1 == key) with
  | some (_, r) => (r, p)
  | none =>
    let dirs := (if sys then [] else [thisPath]) ++ p.incPaths
    let r := (dirs.map fun d => normpath (joinPath d filename)).find? fun c => (fs.get c).isSome
    (r, { p with memo := p.memo ++ [(key, r)] })

inductive Warn | userInclude (file : String) (line : Nat) (name : String) | sysInclude (file : String) (line : Nat) (name : String)
deriving Repr, DecidableEq

structure PState where
  trees : List (String × (Array PNode × List PTree)) := []
  assoc : List ((String × Nat) × List String) := []       -- (file, node) ↦ platforms
  warns : List Warn := []
  err : Option Err := none

def PState.addAssoc (s : PState) (f : String) (i : Nat) (p : String) : PState :=
  match s.assoc.find? (·.1 == (f, i)) with
  | some (_, ps) => if ps.contains p then s else { s with assoc := s.assoc.map fun e => if e.1 == (f, i) then (e.1, e.2 ++ [p]) else e }
  | none => { s with assoc := s.assoc ++ [((f, i), [p])] }

def PState.insertFile (s : PState) (fs : FSMap) (f : String) : PState :=
  if (s.trees.find? (·.1 == f)).isSome || s.err.isSome then s else
  match fs.get f with
  | none => { s with err := some (.other "FileNotFoundError") }
  | some text =>
    match parseFile text with
    | .error e => { s with err := some e }
    | .ok nodes =>
      match buildTree nodes with
      | .error e => { s with err := some e }
      | .ok t => { s with trees := s.trees ++ [(f, (nodes.toArray, t))] }

/-- DirectiveParser.include_path on a token list: (path, system) -/
def includePath (ts : List Tok) : Option (String × Bool) :=
  match ts with
  | t :: rest =>
    if t.kind == .op && t.text == "<" then
      let inner := rest.takeWhile (fun x => !(x.kind == .op && x.text == ">"))
      if inner.length < rest.length then some ("".intercalate (inner.map (·.spell)), true) else
        (if t.kind == .str then some (t.text, false) else none)
    else if t.kind == .str then some (t.text, false) else none
  | [] => none

structure Entry where
  file : String
  defines : List String
  includePaths : List String
  includeFiles : List String

end CbiVerif.PP
